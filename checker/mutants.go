package main

// Mutant battery (thorough tier): apply one-edit variants of /repo on scratch
// copies outside /repo and /verif, re-run the property's quick rules in a
// fresh process against the copy, and require that the variant is reported
// and that the report names the expected construct.  Tests the checker, not
// the repository; never touches /repo.

import (
	"context"
	"encoding/json"
	"fmt"
	"os"
	"os/exec"
	"path/filepath"
	"sort"
	"strings"
	"sync"
	"time"
)

type Mutant struct {
	Name   string `json:"name"`
	File   string `json:"file"` // relative to repo root
	Old    string `json:"old"`
	New    string `json:"new"`
	Expect string `json:"expect"` // substring that must occur in a reported "rule/construct"
	// ExpectCaught=false documents a behaviour change the static rules cannot see.
	ExpectCaught *bool  `json:"expect_caught,omitempty"`
	Note         string `json:"note,omitempty"`
	More         []struct {
		File string `json:"file"`
		Old  string `json:"old"`
		New  string `json:"new"`
	} `json:"more,omitempty"` // further edits of the same variant
	Patch string `json:"-"` // path of a unified diff (seeded changes) instead of Old/New
}

type mutantResult struct {
	Name   string `json:"name"`
	Status string `json:"status"` // caught | missed | stale | error | expected-miss | unexpectedly-caught | silent-twin | residual-alarm
	Detail string `json:"detail,omitempty"`
}

func loadMutants(verif, prop string) []Mutant {
	var out []Mutant
	files, _ := filepath.Glob(filepath.Join(verif, "mutants", prop, "*.json"))
	sort.Strings(files)
	for _, f := range files {
		b, err := os.ReadFile(f)
		if err != nil {
			continue
		}
		var ms []Mutant
		if err := json.Unmarshal(b, &ms); err != nil {
			out = append(out, Mutant{Name: filepath.Base(f) + ": unparsable: " + err.Error()})
			continue
		}
		out = append(out, ms...)
	}
	// seeded changes from independent sub-agents: /verif/seeded/<name>/{patch.diff,meta.json}
	metas, _ := filepath.Glob(filepath.Join(verif, "seeded", "*", "meta.json"))
	sort.Strings(metas)
	for _, m := range metas {
		b, err := os.ReadFile(m)
		if err != nil {
			continue
		}
		var meta struct {
			Property     string `json:"property"`
			Expect       string `json:"expect"`
			ExpectCaught *bool  `json:"expect_caught"`
			Note         string `json:"needs"`
		}
		if json.Unmarshal(b, &meta) != nil || meta.Property != prop {
			continue
		}
		out = append(out, Mutant{Name: "seeded/" + filepath.Base(filepath.Dir(m)), Patch: filepath.Join(filepath.Dir(m), "patch.diff"),
			Expect: meta.Expect, ExpectCaught: meta.ExpectCaught, Note: meta.Note})
	}
	// behaviour-preserving refactorings from sub-agents: must stay silent for every
	// property whose packages they touch (unless a residual alarm is recorded in meta.json)
	rmetas, _ := filepath.Glob(filepath.Join(verif, "refactors", "*", "meta.json"))
	sort.Strings(rmetas)
	for _, m := range rmetas {
		b, err := os.ReadFile(m)
		if err != nil {
			continue
		}
		var meta struct {
			Residual map[string]string `json:"residual_alarms"` // property -> reason (documented idiom limits)
		}
		json.Unmarshal(b, &meta)
		patch := filepath.Join(filepath.Dir(m), "patch.diff")
		pb, err := os.ReadFile(patch)
		if err != nil {
			continue
		}
		touches := false
		for _, line := range strings.Split(string(pb), "\n") {
			if strings.HasPrefix(line, "+++ b/") {
				dir := strings.SplitN(strings.TrimPrefix(line, "+++ b/"), "/", 2)[0]
				for _, pr := range propsOfPackage[dir] {
					if pr == prop {
						touches = true
					}
				}
			}
		}
		if !touches {
			continue
		}
		f := false
		mu := Mutant{Name: "refactor/" + filepath.Base(filepath.Dir(m)), Patch: patch, ExpectCaught: &f, Note: "behaviour-preserving refactoring: the check must stay silent"}
		if why, ok := meta.Residual[prop]; ok {
			tr := true
			mu.ExpectCaught = &tr
			mu.Note = "documented residual alarm on a behaviour-preserving refactoring: " + why
		}
		out = append(out, mu)
	}
	return out
}

// propsOfPackage: which properties' rules read a package directory.
var propsOfPackage = map[string][]string{
	"cache": {"C06", "C08", "C09"}, "heapq": {"C05", "C06", "C08"}, "queue": {"C07"},
	"mlink": {"C10"}, "ring": {"C10"}, "stack": {"C10"},
	"slice": {"C07", "C11", "C12", "C13", "C17"}, "mdiff": {"C11", "C13", "C14"},
	"shell": {"C15", "C16"}, "mapset": {"C18", "C19"}, "distinct": {"C19"},
	"mbits": {"C20"}, "mstr": {"C20"}, "stree": {"C01", "C02", "C03", "C04"}, "omap": {"C04"},
}

func copyTree(src, dst string) error {
	return filepath.Walk(src, func(p string, info os.FileInfo, err error) error {
		if err != nil {
			return err
		}
		rel, _ := filepath.Rel(src, p)
		if rel == ".git" {
			return filepath.SkipDir
		}
		t := filepath.Join(dst, rel)
		if info.IsDir() {
			return os.MkdirAll(t, 0o755)
		}
		if !info.Mode().IsRegular() {
			return nil
		}
		b, err := os.ReadFile(p)
		if err != nil {
			return err
		}
		return os.WriteFile(t, b, 0o644)
	})
}

func runMutants(c *Ctx, pd *propDef, repo, verif string) {
	ms := loadMutants(verif, pd.ID)
	if len(ms) == 0 {
		c.Extra["mutants"] = "none defined"
		return
	}
	exe, err := os.Executable()
	if err != nil {
		c.undecided("META", "mutants", 0, err.Error())
		return
	}
	results := make([]mutantResult, len(ms))
	sem := make(chan struct{}, 6)
	var wg sync.WaitGroup
	for i, m := range ms {
		wg.Add(1)
		go func(i int, m Mutant) {
			defer wg.Done()
			sem <- struct{}{}
			defer func() { <-sem }()
			results[i] = runOneMutant(exe, repo, verif, pd.ID, m)
		}(i, m)
	}
	wg.Wait()
	applied, caught, stale, missed, twins, residual := 0, 0, 0, 0, 0, 0
	for _, r := range results {
		switch r.Status {
		case "caught":
			applied++
			caught++
		case "expected-miss":
			applied++
		case "silent-twin":
			twins++
		case "residual-alarm":
			residual++
		case "missed", "unexpectedly-caught":
			applied++
			missed++
			what := "checker self-test: "
			if strings.HasPrefix(r.Name, "refactor/") {
				what = "FALSE ALARM on a behaviour-preserving refactoring: "
			}
			c.bad("MUTANT", r.Name, 0, what+r.Status+": "+r.Detail)
		case "stale":
			stale++
		default:
			c.bad("MUTANT", r.Name, 0, "checker self-test error: "+r.Detail)
		}
	}
	c.Extra["mutants_applied"] = applied
	c.Extra["mutants_caught"] = caught
	c.Extra["mutants_stale"] = stale
	c.Extra["refactoring_twins_silent"] = twins
	c.Extra["refactoring_twins_with_documented_alarm"] = residual
	c.Extra["mutants_missed_unexpectedly"] = missed
	c.Extra["mutant_results"] = results
}

func runOneMutant(exe, repo, verif, prop string, m Mutant) mutantResult {
	res := mutantResult{Name: m.Name}
	if m.File == "" && m.Patch == "" {
		res.Status, res.Detail = "error", "malformed mutant"
		return res
	}
	tmp, err := os.MkdirTemp("", "mdsmut-")
	if err != nil {
		res.Status, res.Detail = "error", err.Error()
		return res
	}
	defer os.RemoveAll(tmp)
	if err := copyTree(repo, tmp); err != nil {
		res.Status, res.Detail = "error", err.Error()
		return res
	}
	if m.Patch != "" {
		cmd := exec.Command("patch", "-p1", "-s", "-f", "-i", m.Patch)
		cmd.Dir = tmp
		if out, err := cmd.CombinedOutput(); err != nil {
			res.Status, res.Detail = "stale", "patch does not apply: "+strings.TrimSpace(string(out))
			return res
		}
	} else {
		p := filepath.Join(tmp, m.File)
		b, err := os.ReadFile(p)
		if err != nil || strings.Count(string(b), m.Old) == 0 {
			res.Status, res.Detail = "stale", "old text no longer occurs in "+m.File
			return res
		}
		if strings.Count(string(b), m.Old) > 1 {
			res.Status, res.Detail = "error", "old text is ambiguous in "+m.File
			return res
		}
		os.WriteFile(p, []byte(strings.Replace(string(b), m.Old, m.New, 1)), 0o644)
		for _, e := range m.More {
			p2 := filepath.Join(tmp, e.File)
			b2, err := os.ReadFile(p2)
			if err != nil || strings.Count(string(b2), e.Old) != 1 {
				res.Status, res.Detail = "stale", "secondary edit no longer applies in "+e.File
				return res
			}
			os.WriteFile(p2, []byte(strings.Replace(string(b2), e.Old, e.New, 1)), 0o644)
		}
	}
	ev := filepath.Join(tmp, ".verif-evidence.json")
	ctx, cancel := context.WithTimeout(context.Background(), 180*time.Second)
	defer cancel()
	cmd := exec.CommandContext(ctx, exe, "-prop", prop, "-tier", "quick", "-repo", tmp, "-verif", verif, "-evidence", ev)
	out, err := cmd.CombinedOutput()
	if ctx.Err() != nil {
		res.Status, res.Detail = "error", "checker timed out on the variant"
		return res
	}
	exit := 0
	if err != nil {
		if ee, ok := err.(*exec.ExitError); ok {
			exit = ee.ExitCode()
		} else {
			res.Status, res.Detail = "error", err.Error()
			return res
		}
	}
	text := string(out)
	wantCaught := m.ExpectCaught == nil || *m.ExpectCaught
	if strings.Contains(text, "ERROR property=") {
		res.Status, res.Detail = "error", "variant does not load: "+firstLines(text, 3)
		return res
	}
	named := false
	if exit == 1 {
		// read violations and look for the expected construct
		vb, _ := os.ReadFile(strings.TrimSuffix(ev, ".json") + ".violations.json")
		var obs []Oblig
		json.Unmarshal(vb, &obs)
		for _, o := range obs {
			if m.Expect == "" || strings.Contains(o.key(), m.Expect) {
				named = true
			}
		}
	}
	residualTwin := strings.HasPrefix(m.Name, "refactor/") && wantCaught
	switch {
	case residualTwin && exit == 1:
		res.Status, res.Detail = "residual-alarm", m.Note // a documented false alarm on a re-architected twin
	case residualTwin && exit == 0:
		res.Status, res.Detail = "silent-twin", "no longer alarms: remove the residual_alarms entry from its meta.json"
	case exit == 1 && named && wantCaught:
		res.Status = "caught"
	case exit == 1 && !named && wantCaught:
		res.Status, res.Detail = "missed", fmt.Sprintf("reported, but not at the expected construct %q: %s", m.Expect, firstLines(text, 4))
	case exit == 0 && wantCaught:
		res.Status, res.Detail = "missed", "variant not reported"
	case exit == 0 && !wantCaught && strings.HasPrefix(m.Name, "refactor/"):
		res.Status, res.Detail = "silent-twin", m.Note
	case exit == 0 && !wantCaught:
		res.Status, res.Detail = "expected-miss", m.Note
	case exit == 1 && !wantCaught:
		res.Status, res.Detail = "unexpectedly-caught", firstLines(text, 4)
	default:
		res.Status, res.Detail = "error", fmt.Sprintf("exit %d: %s", exit, firstLines(text, 4))
	}
	return res
}

func firstLines(s string, n int) string {
	ls := strings.Split(strings.TrimSpace(s), "\n")
	if len(ls) > n {
		ls = ls[:n]
	}
	return strings.Join(ls, " ⏎ ")
}
