package main

// C18 — mapset: R-NONNIL-FRESH, R-NIL-LAZY.

import (
	"fmt"
	"go/token"
	"go/types"
	"sort"
	"strings"

	"golang.org/x/tools/go/ssa"
)

func init() {
	register(&propDef{ID: "C18", Level: "other", Run: runC18})
}

type fnnCtx struct {
	memoFn   map[*ssa.Function]int // 0 unknown, 1 yes, 2 no, 3 busy
	whyFn    map[*ssa.Function]string
	memoRecv map[*ssa.Function]int
}

func isMapsClone(cal *ssa.Function) bool {
	o := origin(cal)
	return o != nil && o.Pkg != nil && o.Pkg.Pkg.Path() == "maps" && o.Name() == "Clone"
}

// valueFNN: v is a freshly allocated, non-nil map (never a parameter).
func (f *fnnCtx) valueFNN(v ssa.Value, fn *ssa.Function, depth int) (bool, string) {
	if depth > 8 {
		return false, "too deep"
	}
	switch x := v.(type) {
	case *ssa.MakeMap:
		return true, ""
	case *ssa.ChangeType:
		return f.valueFNN(x.X, fn, depth+1)
	case *ssa.Phi:
		for _, e := range x.Edges {
			if ok, why := f.valueFNN(e, fn, depth+1); !ok {
				return false, why
			}
		}
		return true, ""
	case *ssa.Const:
		return false, "nil constant returned"
	case *ssa.Parameter:
		return false, "parameter " + x.Name() + " itself is handed out (aliases the argument; may be nil)"
	case *ssa.Call:
		cal := x.Call.StaticCallee()
		if cal == nil {
			return false, "dynamic call"
		}
		if isMapsClone(cal) {
			arg := x.Call.Args[0]
			for _, cm := range cmpsAt(x.Block()) {
				if cm.Op == token.NEQ && ((sym(cm.X) == sym(arg) && isNilConst(cm.Y)) || (sym(cm.Y) == sym(arg) && isNilConst(cm.X))) {
					return true, ""
				}
			}
			// or: the clone itself is tested, and used only where it is known to be non-nil
			allGuarded, nUse := true, 0
			for _, r := range referrersOf(x) {
				if bo, ok := r.(*ssa.BinOp); ok && (isNilConst(bo.X) || isNilConst(bo.Y)) {
					continue
				}
				if _, ok := r.(*ssa.DebugRef); ok {
					continue
				}
				nUse++
				g := false
				for _, cm := range cmpsAt(r.Block()) {
					if cm.Op == token.NEQ && ((cm.X == ssa.Value(x) && isNilConst(cm.Y)) || (cm.Y == ssa.Value(x) && isNilConst(cm.X))) {
						g = true
					}
				}
				if !g {
					allGuarded = false
				}
			}
			if allGuarded && nUse > 0 {
				return true, ""
			}
			return false, "maps.Clone of a possibly-nil map returns nil"
		}
		o := origin(cal)
		if o.Blocks == nil {
			return false, "external call " + o.Name()
		}
		if returnsParam0(o) {
			return f.valueFNN(x.Call.Args[0], fn, depth+1)
		}
		if k, ok := returnsParamK(o); ok && k < len(x.Call.Args) {
			return f.valueFNN(x.Call.Args[k], fn, depth+1)
		}
		// a pointer-receiver method called on a local set that is still its zero value (var m Set; return m.Add(…)):
		// if the method, entered with *recv == nil, first stores a fresh map there and hands back what is there,
		// the result is that fresh map
		if al, isLocal := x.Call.Args[0].(*ssa.Alloc); isLocal && len(x.Call.Args) > 0 && nilRecvMakesFresh(o) {
			zero := true
			for _, r := range referrersOf(al) {
				if st, ok := r.(*ssa.Store); ok && st.Addr == ssa.Value(al) {
					if k, isK := st.Val.(*ssa.Const); !isK || k.Value != nil {
						zero = false
					}
				}
			}
			if zero {
				return true, ""
			}
		}
		if f.fnReturnsFNN(o) {
			return true, ""
		}
		return false, "result of " + fnName(o) + ": " + f.whyFn[o]
	case *ssa.UnOp:
		if x.Op != token.MUL {
			break
		}
		cell := x.X
		return f.cellFNN(cell, fn, x, depth+1)
	}
	return false, fmt.Sprintf("value of unrecognised form %T (%s)", v, sym(v))
}

// returnsParamK: every return of fn hands back one and the same parameter — directly, or read from a local cell that
// only ever received that parameter (a parameter captured by a range-over-func body lives in such a cell).
func returnsParamK(fn *ssa.Function) (int, bool) {
	if fn == nil || fn.Blocks == nil {
		return 0, false
	}
	idx, n, ok := -1, 0, true
	paramOf := func(v ssa.Value) int {
		for i, p := range fn.Params {
			if v == ssa.Value(p) {
				return i
			}
		}
		if a, isLd := loadAddr(v); isLd {
			if al, isAl := a.(*ssa.Alloc); isAl {
				k := -1
				for _, r := range referrersOf(al) {
					st, isSt := r.(*ssa.Store)
					if !isSt || st.Addr != ssa.Value(al) {
						continue
					}
					j := -1
					for i, p := range fn.Params {
						if st.Val == ssa.Value(p) {
							j = i
						}
					}
					if j < 0 || (k >= 0 && k != j) {
						return -1
					}
					k = j
				}
				return k
			}
		}
		return -1
	}
	allInstrs(fn, func(in ssa.Instruction) {
		r, isRet := in.(*ssa.Return)
		if !isRet {
			return
		}
		n++
		if len(r.Results) != 1 {
			ok = false
			return
		}
		k := paramOf(r.Results[0])
		if k < 0 || (idx >= 0 && idx != k) {
			ok = false
			return
		}
		idx = k
	})
	return idx, ok && n > 0 && idx >= 0
}

// nilRecvMakesFresh: fn has a pointer receiver p; in its entry block it tests *p == nil and on that edge stores a
// fresh map to *p; nothing else is stored to *p; and every return hands back the current *p (directly, or through
// helpers that return their first argument).
func nilRecvMakesFresh(fn *ssa.Function) bool {
	if fn == nil || fn.Blocks == nil || len(fn.Params) == 0 {
		return false
	}
	p := ssa.Value(fn.Params[0])
	if _, isPtr := p.Type().Underlying().(*types.Pointer); !isPtr {
		return false
	}
	isLoadP := func(v ssa.Value) bool {
		a, ok := loadAddr(v)
		return ok && a == p
	}
	nFresh, clean := 0, true
	allInstrs(fn, func(in ssa.Instruction) {
		st, ok := in.(*ssa.Store)
		if !ok || st.Addr != p {
			return
		}
		v := st.Val
		if ct, ok := v.(*ssa.ChangeType); ok {
			v = ct.X
		}
		if _, isMk := v.(*ssa.MakeMap); !isMk {
			// … or the result of a constructor of the package that is one (NewSize(n) = make(Set, n))
			call, isCall := v.(*ssa.Call)
			okCtor := false
			if isCall {
				if cal := origin(staticCallee(&call.Call)); cal != nil && cal.Blocks != nil && len(cal.Blocks) == 1 {
					if ret, ok := cal.Blocks[0].Instrs[len(cal.Blocks[0].Instrs)-1].(*ssa.Return); ok && len(ret.Results) == 1 {
						r := ret.Results[0]
						if ct, ok := r.(*ssa.ChangeType); ok {
							r = ct.X
						}
						_, okCtor = r.(*ssa.MakeMap)
					}
				}
			}
			if !okCtor {
				clean = false
				return
			}
		}
		// on the edge *p == nil of a test in the entry block
		guarded := false
		for _, pr := range st.Block().Preds {
			if pr != fn.Blocks[0] {
				continue
			}
			if iff, ok := pr.Instrs[len(pr.Instrs)-1].(*ssa.If); ok {
				for i, sb := range pr.Succs {
					if sb != st.Block() {
						continue
					}
					if cm, ok := edgeCmp(iff, i); ok && cm.Op == token.EQL && ((isLoadP(cm.X) && isNilConst(cm.Y)) || (isLoadP(cm.Y) && isNilConst(cm.X))) {
						guarded = true
					}
				}
			}
		}
		if guarded && len(st.Block().Preds) == 1 {
			nFresh++
		} else {
			clean = false
		}
	})
	if clean && nFresh == 0 {
		// the receiver is only handed on: every return is (a chain of first-argument-returning helpers around) a call
		// of another such method on the same receiver (Add = s.ensure(n).insert(items))
		var fwd func(v ssa.Value, d int) bool
		fwd = func(v ssa.Value, d int) bool {
			call, ok := v.(*ssa.Call)
			if !ok || d > 3 || len(call.Call.Args) == 0 {
				return false
			}
			cal := origin(staticCallee(&call.Call))
			if cal == nil || cal == fn {
				return false
			}
			if call.Call.Args[0] == p {
				return nilRecvMakesFresh(cal)
			}
			if returnsParam0(cal) {
				return fwd(call.Call.Args[0], d+1)
			}
			return false
		}
		n, all := 0, true
		allInstrs(fn, func(in ssa.Instruction) {
			if r, ok := in.(*ssa.Return); ok && len(r.Results) == 1 {
				n++
				if !fwd(r.Results[0], 0) {
					all = false
				}
			}
		})
		return n > 0 && all
	}
	if !clean || nFresh != 1 {
		return false
	}
	var cur func(v ssa.Value, d int) bool
	cur = func(v ssa.Value, d int) bool {
		if d > 3 {
			return false
		}
		if isLoadP(v) {
			// read after the test-and-store, not in front of it
			return v.(ssa.Instruction).Block() != fn.Blocks[0]
		}
		if call, ok := v.(*ssa.Call); ok {
			if cal := origin(staticCallee(&call.Call)); cal != nil && returnsParam0(cal) && len(call.Call.Args) > 0 {
				return cur(call.Call.Args[0], d+1)
			}
		}
		return false
	}
	n, all := 0, true
	allInstrs(fn, func(in ssa.Instruction) {
		if r, ok := in.(*ssa.Return); ok && len(r.Results) == 1 {
			n++
			if !cur(r.Results[0], 0) {
				all = false
			}
		}
	})
	return n > 0 && all
}

// cellFNN: every value that can be in cell at load `at` is fresh-non-nil.
func (f *fnnCtx) cellFNN(cell ssa.Value, fn *ssa.Function, at ssa.Instruction, depth int) (bool, string) {
	al, ok := cell.(*ssa.Alloc)
	if !ok {
		return false, "load through " + sym(cell)
	}
	nStores := 0
	var scan func(user *ssa.Function, c ssa.Value) (bool, string)
	scan = func(user *ssa.Function, c ssa.Value) (bool, string) {
		for _, r := range referrersOf(c) {
			switch y := r.(type) {
			case *ssa.Store:
				if y.Addr == c {
					nStores++
					if ok, why := f.valueFNN(y.Val, user, depth+1); !ok {
						return false, "cell receives: " + why
					}
				} else {
					return false, "cell address stored elsewhere"
				}
			case *ssa.UnOp:
			case *ssa.DebugRef:
			case ssa.CallInstruction:
				cal := staticCallee(y.Common())
				if cal == nil || cal.Blocks == nil {
					return false, "cell passed to unknown callee"
				}
				for i, a := range y.Common().Args {
					if a == c {
						if i != 0 || !f.recvStoresFNN(cal) {
							return false, "cell passed to " + fnName(cal) + " which may store a non-fresh or nil map through it"
						}
					}
				}
			case *ssa.MakeClosure:
				clo := y.Fn.(*ssa.Function)
				for i, b := range y.Bindings {
					if b == c {
						if ok, why := scan(clo, clo.FreeVars[i]); !ok {
							return false, why
						}
					}
				}
			default:
				return false, fmt.Sprintf("cell used by %T", r)
			}
		}
		return true, ""
	}
	if ok, why := scan(fn, al); !ok {
		return false, why
	}
	if nStores == 0 {
		return false, "cell never initialised"
	}
	// an initialising store must dominate the load
	dom := false
	for _, r := range referrersOf(al) {
		if st, ok := r.(*ssa.Store); ok && st.Addr == ssa.Value(al) && dominatesInstr(st, at) {
			dom = true
		}
	}
	if !dom {
		return false, "no initialising store dominates the load"
	}
	return true, ""
}

func (f *fnnCtx) fnReturnsFNN(fn *ssa.Function) bool {
	fn = origin(fn)
	switch f.memoFn[fn] {
	case 1:
		return true
	case 2, 3:
		return false
	}
	f.memoFn[fn] = 3
	ok := true
	n := 0
	allInstrs(fn, func(in ssa.Instruction) {
		if r, isRet := in.(*ssa.Return); isRet && len(r.Results) > 0 {
			n++
			if good, why := f.valueFNN(r.Results[0], fn, 0); !good {
				ok = false
				f.whyFn[fn] = why
			}
		}
	})
	if ok && n > 0 {
		f.memoFn[fn] = 1
		return true
	}
	f.memoFn[fn] = 2
	return false
}

// recvStoresFNN: every store through the pointer receiver (param 0) of fn
// stores a fresh non-nil map.
func (f *fnnCtx) recvStoresFNN(fn *ssa.Function) bool {
	fn = origin(fn)
	switch f.memoRecv[fn] {
	case 1:
		return true
	case 2, 3:
		return false
	}
	f.memoRecv[fn] = 3
	ok := true
	for _, r := range referrersOf(fn.Params[0]) {
		switch y := r.(type) {
		case *ssa.Store:
			if y.Addr == ssa.Value(fn.Params[0]) {
				if good, _ := f.valueFNN(y.Val, fn, 0); !good {
					ok = false
				}
			} else {
				ok = false
			}
		case *ssa.UnOp, *ssa.DebugRef:
		case ssa.CallInstruction:
			cal := staticCallee(y.Common())
			if cal == nil || cal.Blocks == nil || !f.recvStoresFNN(cal) {
				ok = false
			}
		default:
			ok = false
		}
	}
	if ok {
		f.memoRecv[fn] = 1
	} else {
		f.memoRecv[fn] = 2
	}
	return ok
}

func runC18(c *Ctx) {
	P := c.P
	c.Explanation = "Decides: (R-NONNIL-FRESH) every value returned by New, NewSize, Clone, Intersect, Range, Keys and Values is a map allocated inside the call and provably non-nil — a make; maps.Clone(x) only under the fact x != nil; the result of a receiver-returning helper applied to such a map; or the content of a local cell that only ever receives such maps (including through (*Set).Add/AddAll, whose stores through the receiver are summarised) — and is never a parameter, so results cannot alias arguments; AddAll on a nil receiver stores a clone, not its argument. (R-NIL-LAZY) in pointer-receiver methods every update of *s is preceded on all paths by *s != nil or by storing a fresh map. (R-LIST-WHOLE) a variadic list of items is never re-sliced to an upper bound other than its own length. (R-ARG-IMMUTABLE) map updates and deletes go through the receiver or a fresh map, never through an argument set. Does NOT decide the set-theoretic answers of the predicates, Pop, or Slice."
	c.rule("R-NONNIL-FRESH", 7, "returned sets are fresh, non-nil, and never a parameter; stores through a *Set receiver store fresh non-nil maps")
	c.rule("R-ARG-IMMUTABLE", 4, "a map update or delete in package mapset goes through the receiver (or a map allocated in the function), never through a set passed as an argument")
	for _, fn := range P.PkgFuncs("mapset") {
		if fn.Parent() != nil {
			continue
		}
		oc := newOrig(fn)
		isMethod := fn.Signature.Recv() != nil
		n := 0
		judgeMap := func(in ssa.Instruction, mp ssa.Value, what string) {
			o := oc.of(mp)
			var foreign []string
			for pi := range o.Params {
				if isMethod && pi == 0 {
					continue
				}
				if pi < len(fn.Params) {
					foreign = append(foreign, fn.Params[pi].Name())
				}
			}
			sort.Strings(foreign)
			n++
			c.sawFn(fnName(fn))
			key := fmt.Sprintf("%s:%s #%d", fnName(fn), what, n)
			c.judge(len(foreign) == 0, "R-ARG-IMMUTABLE", key, in.Pos(), "writes the receiver or a fresh map", fmt.Sprintf("the map written may be the argument %v (origin %s): an operation documented to change its receiver modifies the set passed to it", foreign, o))
		}
		allInstrs(fn, func(in ssa.Instruction) {
			switch x := in.(type) {
			case *ssa.MapUpdate:
				judgeMap(in, x.Map, "map update")
			case *ssa.Call:
				if del, ok := isBuiltinCall(x, "delete"); ok {
					judgeMap(in, del.Call.Args[0], "delete")
				}
				if clr, ok := isBuiltinCall(x, "clear"); ok {
					judgeMap(in, clr.Call.Args[0], "clear")
				}
			}
		})
	}
	ruleSizeGuard(c, "mapset")
	ruleSetArgFlow(c)
	ruleEmptyAgreesLen(c, "mapset", "Set")
	ruleConstIndex(c, "mapset")
	ruleNilWriteback(c)
	ruleNilBranchStores(c)
	// IsEmpty is Len() == 0 (a non-nil set without members is empty); HasAny answers true only after a member was found
	c.rule("R-PREDICATE-WITNESS", 2, "IsEmpty tests the length; HasAny's only non-false answer is a constant true after a successful membership test")
	if ie := P.Func("mapset", "Set", "IsEmpty"); ie != nil {
		okE := false
		allInstrs(ie, func(in ssa.Instruction) {
			if ret, ok := in.(*ssa.Return); ok && len(ret.Results) == 1 {
				if bo, ok := ret.Results[0].(*ssa.BinOp); ok && isConstInt(bo.Y, 0) && (bo.Op == token.EQL || bo.Op == token.LEQ) {
					if ln, ok := isBuiltinCall(bo.X, "len"); ok && ln.Call.Args[0] == ssa.Value(ie.Params[0]) {
						okE = true
					}
					if call, ok := bo.X.(*ssa.Call); ok {
						if cal := staticCallee(&call.Call); cal != nil && cal.Name() == "Len" {
							okE = true
						}
					}
				}
			}
		})
		c.sawFn(fnName(ie))
		c.judge(okE, "R-PREDICATE-WITNESS", "mapset.Set.IsEmpty:tests the length", ie.Pos(), "len(s) == 0", "IsEmpty does not test the number of members (a nil test, say): a set that was emptied, or made by New(), has no members and is not nil")
	}
	// an answer COMPUTED from sizes alone (`return len(ts) == 0`) is the answer for an empty receiver only: it is
	// given under a dominating test that the receiver has no members
	for _, fn := range P.Methods("mapset", "Set") {
		if fn.Signature.Results().Len() != 1 || len(fn.Params) == 0 {
			continue
		}
		if bt, ok := fn.Signature.Results().At(0).Type().Underlying().(*types.Basic); !ok || bt.Kind() != types.Bool {
			continue
		}
		fn := fn
		k := 0
		allInstrs(fn, func(in ssa.Instruction) {
			ret, ok := in.(*ssa.Return)
			if !ok || len(ret.Results) != 1 {
				return
			}
			bo, ok := ret.Results[0].(*ssa.BinOp)
			if !ok {
				return
			}
			oc := newOrig(fn)
			isRecv := func(v ssa.Value) bool { return v == ssa.Value(fn.Params[0]) || oc.of(v).onlyParam(0) }
			ln, isLen := isBuiltinCall(bo.X, "len")
			if _, isK := constInt(bo.Y); !isLen || !isK || isRecv(ln.Call.Args[0]) {
				return // IsEmpty itself, or not a size test of the other operand
			}
			emptyRecv := false
			for _, cm := range cmpsAt(ret.Block()) {
				l2, ok := isBuiltinCall(cm.X, "len")
				if !ok || !isRecv(l2.Call.Args[0]) {
					continue
				}
				if kk, ok := constInt(cm.Y); ok && ((cm.Op == token.EQL && kk == 0) || (cm.Op == token.LEQ && kk == 0) || (cm.Op == token.LSS && kk == 1)) {
					emptyRecv = true
				}
			}
			k++
			c.sawFn(fnName(fn))
			c.judge(emptyRecv, "R-PREDICATE-WITNESS", fmt.Sprintf("%s:answer from sizes #%d", fnName(fn), k), ret.Pos(), "given only for an empty receiver", fmt.Sprintf("%s answers `%s` — sizes alone, no member consulted — on a path where the receiver is not known to be empty: for a set that has members the answer ignores them", fn.Name(), ksym(bo)))
		})
	}
	if ha := P.Func("mapset", "Set", "HasAny"); ha != nil {
		var probs []string
		allInstrs(ha, func(in ssa.Instruction) {
			ret, ok := in.(*ssa.Return)
			if !ok || len(ret.Results) != 1 {
				return
			}
			var chk func(v ssa.Value, at *ssa.BasicBlock, seen map[ssa.Value]bool)
			chk = func(v ssa.Value, at *ssa.BasicBlock, seen map[ssa.Value]bool) {
				if seen[v] {
					return
				}
				seen[v] = true
				switch x := v.(type) {
				case *ssa.Phi:
					for i, e := range x.Edges {
						chk(e, x.Block().Preds[i], seen)
					}
				case *ssa.Const:
					if x.Value != nil && x.Value.String() == "true" {
						found := false
						for fc, truth := range callFactsAt(at) {
							if cal := staticCallee(&fc.Call); cal != nil && cal.Name() == "Has" && truth {
								found = true
							}
						}
						for ex, truth := range extractFactsAt(at) {
							if _, isLookup := ex.Tuple.(*ssa.Lookup); isLookup && ex.Index == 1 && truth {
								found = true
							}
						}
						if !found {
							probs = append(probs, "a constant true without a successful membership test at "+P.pos(ret.Pos()))
						}
					}
				default:
					// an answer computed from sizes alone (lengths, constants) has consulted no member; anything
					// else (a helper's result, a scan position left by a loop that tests membership) is not judged
					sizesOnly := true
					var leaves func(w ssa.Value, d int)
					leaves = func(w ssa.Value, d int) {
						if d > 6 {
							sizesOnly = false
							return
						}
						switch y := w.(type) {
						case *ssa.Const:
						case *ssa.BinOp:
							leaves(y.X, d+1)
							leaves(y.Y, d+1)
						case *ssa.UnOp:
							if y.Op == token.NOT || y.Op == token.SUB {
								leaves(y.X, d+1)
							} else {
								sizesOnly = false
							}
						case *ssa.Call:
							if ln, ok := isBuiltinCall(y, "len"); ok {
								if _, isP := ln.Call.Args[0].(*ssa.Parameter); isP {
									return
								}
							}
							sizesOnly = false
						default:
							sizesOnly = false
						}
					}
					leaves(v, 0)
					if sizesOnly {
						probs = append(probs, "an answer computed from sizes alone, "+ksym(v)+" at "+P.pos(ret.Pos()))
					}
				}
			}
			chk(ret.Results[0], ret.Block(), map[ssa.Value]bool{})
		})
		sort.Strings(probs)
		c.sawFn(fnName(ha))
		c.judge(len(probs) == 0, "R-PREDICATE-WITNESS", "mapset.Set.HasAny:true needs a witness", ha.Pos(), "true only after Has succeeded; otherwise false", fmt.Sprintf("HasAny can answer with %v: 'some listed item is a member' has no witness there (an empty list of items has no member in any set)", probs))
	}
	c.rule("R-CARD-SHORTCUT", 0, "a branch on len(a) vs len(b) that returns a constant answer compares two sets, never a list (repeats) with a set")
	c.rule("R-NIL-LAZY", 2, "every map update of *s (directly or via a receiver-updating helper) is preceded on all paths by *s != nil or a store of a fresh map")
	setT := P.Named("mapset", "Set")
	if setT == nil {
		c.undecided("ANCHOR", "mapset.Set", 0, "not found")
		return
	}
	f := &fnnCtx{memoFn: map[*ssa.Function]int{}, whyFn: map[*ssa.Function]string{}, memoRecv: map[*ssa.Function]int{}}
	type target struct{ recv, name string }
	for _, t := range []target{{"", "New"}, {"", "NewSize"}, {"Set", "Clone"}, {"", "Intersect"}, {"", "Range"}, {"", "Keys"}, {"", "Values"}} {
		fn := P.Func("mapset", t.recv, t.name)
		if fn == nil {
			c.undecided("ANCHOR", "mapset."+t.name, 0, "not found")
			continue
		}
		c.sawFn(fnName(fn))
		allInstrs(fn, func(in ssa.Instruction) {
			r, ok := in.(*ssa.Return)
			if !ok || len(r.Results) == 0 {
				return
			}
			key := fnName(fn) + ":return " + ksym(r.Results[0])
			good, why := f.valueFNN(r.Results[0], fn, 0)
			c.judge(good, "R-NONNIL-FRESH", key, instrPos(r), "fresh and non-nil", "returned set is not provably fresh and non-nil: "+why)
		})
	}
	// stores through *Set receivers
	for _, fn := range P.Methods("mapset", "Set") {
		if len(fn.Params) == 0 {
			continue
		}
		if _, isPtr := fn.Params[0].Type().(*types.Pointer); !isPtr {
			continue
		}
		c.sawFn(fnName(fn))
		for _, r := range referrersOf(fn.Params[0]) {
			st, ok := r.(*ssa.Store)
			if !ok || st.Addr != ssa.Value(fn.Params[0]) {
				continue
			}
			good, why := f.valueFNN(st.Val, fn, 0)
			c.judge(good, "R-NONNIL-FRESH", fnName(fn)+":*s = "+ksym(st.Val), st.Pos(), "receiver is given a fresh non-nil map", "receiver is given a map that is not fresh/non-nil (it would alias the argument or stay nil): "+why)
		}
		// R-NIL-LAZY: updates through loads of *s
		isFreshStore := func(in ssa.Instruction) bool {
			st, ok := in.(*ssa.Store)
			if !ok || st.Addr != ssa.Value(fn.Params[0]) {
				return false
			}
			good, _ := f.valueFNN(st.Val, fn, 0)
			return good
		}
		nonNilEdge := func(iff *ssa.If, i int) bool {
			cm, ok := edgeCmp(iff, i)
			if !ok || cm.Op != token.NEQ {
				return false
			}
			isLoadS := func(v ssa.Value) bool {
				a, ok := loadAddr(v)
				return ok && a == ssa.Value(fn.Params[0])
			}
			return (isLoadS(cm.X) && isNilConst(cm.Y)) || (isLoadS(cm.Y) && isNilConst(cm.X))
		}
		judgeUse := func(use ssa.Instruction, m ssa.Value, what string) {
			// a local holding the receiver's map (m := *s; if m == nil { m = make(…); *s = m }): each value
			// that can reach the write is a fresh non-nil map or a read of *s known to be non-nil on that edge
			if ph, isPhi := m.(*ssa.Phi); isPhi {
				isLoadS := func(v ssa.Value) bool {
					a, ok := loadAddr(v)
					return ok && a == ssa.Value(fn.Params[0])
				}
				holdsRecv := false
				for _, e := range ph.Edges {
					if isLoadS(e) {
						holdsRecv = true
					}
					for _, r := range referrersOf(e) {
						if st, ok := r.(*ssa.Store); ok && st.Val == e && st.Addr == ssa.Value(fn.Params[0]) {
							holdsRecv = true
						}
					}
				}
				if !holdsRecv {
					return
				}
				key := fnName(fn) + ":" + what + " (through a local)"
				var probs []string
				for i, e := range ph.Edges {
					if good, _ := f.valueFNN(e, fn, 0); good {
						continue
					}
					pred := ph.Block().Preds[i]
					nn := false
					cms := cmpsAt(pred)
					if iff, ok := pred.Instrs[len(pred.Instrs)-1].(*ssa.If); ok {
						idx := 0
						if pred.Succs[1] == ph.Block() {
							idx = 1
						}
						if cm, ok := edgeCmp(iff, idx); ok {
							cms = append(cms, cm)
						}
					}
					for _, cm := range cms {
						if cm.Op == token.NEQ && ((cm.X == e && isNilConst(cm.Y)) || (cm.Y == e && isNilConst(cm.X))) {
							nn = true
						}
					}
					if !nn {
						probs = append(probs, ksym(e)+" may be nil")
					}
				}
				c.judge(len(probs) == 0, "R-NIL-LAZY", key, instrPos(use), "every value that reaches the write is a fresh map or a non-nil read of *s", fmt.Sprintf("the receiver's map is written through a local that may still be nil (%v): assignment to entry in nil map", probs))
				return
			}
			a, ok := loadAddr(m)
			if !ok || a != ssa.Value(fn.Params[0]) {
				return
			}
			key := fnName(fn) + ":" + what
			w := walkFromE(firstInstr(fn), true, isFreshStore, nonNilEdge)
			reached := false
			for _, in := range w.order {
				if in == use {
					reached = true
					c.bad("R-NIL-LAZY", key, instrPos(use), "the receiver's map is written on a path where *s may still be nil ("+w.witness(P, in)+"): assignment to entry in nil map")
				}
			}
			if !reached {
				c.ok("R-NIL-LAZY", key, instrPos(use), "guarded by *s != nil or preceded by allocation on all paths")
			}
		}
		allInstrs(fn, func(in ssa.Instruction) {
			switch x := in.(type) {
			case *ssa.MapUpdate:
				judgeUse(in, x.Map, "map update of *s")
			case *ssa.Call:
				cal := staticCallee(&x.Call)
				if cal != nil && cal.Blocks != nil && len(x.Call.Args) > 0 {
					e := mutatedParams(cal)
					if _, ok := e[0]; ok {
						judgeUse(in, x.Call.Args[0], "call "+cal.Name()+"(*s, …)")
					}
				}
			}
		})
	}
	// ---- R-CARD-SHORTCUT: a length comparison may short-circuit an answer only between two sets
	for _, fn := range P.PkgFuncs("mapset") {
		allInstrs(fn, func(in ssa.Instruction) {
			iff, ok := in.(*ssa.If)
			if !ok {
				return
			}
			f := expandFact(Fact{iff.Cond, true})[0]
			bo, ok := f.Cond.(*ssa.BinOp)
			if !ok {
				return
			}
			// what each side is the length of: len(x), or an integer parameter of an unexported helper that
			// every call site hands a length (the helper is then judged for each of its call sites)
			var lenOf func(v ssa.Value, d int) ([]ssa.Value, bool)
			lenOf = func(v ssa.Value, d int) ([]ssa.Value, bool) {
				if ln, ok := isBuiltinCall(v, "len"); ok {
					return []ssa.Value{ln.Call.Args[0]}, true
				}
				p, ok := v.(*ssa.Parameter)
				if !ok || d > 2 || p.Parent().Object() == nil || p.Parent().Object().Exported() {
					return nil, false
				}
				pi := -1
				for i, q := range p.Parent().Params {
					if q == p {
						pi = i
					}
				}
				var out []ssa.Value
				sites := 0
				for _, g := range P.PkgFuncs("mapset") {
					allInstrs(g, func(in2 ssa.Instruction) {
						call, ok := in2.(*ssa.Call)
						if !ok || origin(staticCallee(&call.Call)) != origin(p.Parent()) || pi >= len(call.Call.Args) {
							return
						}
						sites++
						if xs, ok := lenOf(call.Call.Args[pi], d+1); ok {
							out = append(out, xs...)
						} else {
							out = append(out, nil)
						}
					})
				}
				for _, x := range out {
					if x == nil {
						return nil, false
					}
				}
				return out, sites > 0
			}
			// a count parameter of an unexported helper tested against 0 (`if n == 0 { return true }`: nothing to
			// look for): every call site must hand it a count that is 0 only for an empty collection — len(x) or
			// min(len(x), k); len(x) − k is 0 for a collection of k elements, which are then never looked at
			if p, isP := bo.X.(*ssa.Parameter); isP && isConstInt(bo.Y, 0) && (bo.Op == token.EQL || bo.Op == token.LEQ) && p.Parent().Object() != nil && !p.Parent().Object().Exported() {
				pi := -1
				for i, q := range p.Parent().Params {
					if q == p {
						pi = i
					}
				}
				constAnswer := false
				if sb := iff.Block().Succs[0]; len(sb.Instrs) <= 4 {
					if ret, ok := sb.Instrs[len(sb.Instrs)-1].(*ssa.Return); ok && len(ret.Results) == 1 {
						if _, isK := ret.Results[0].(*ssa.Const); isK {
							constAnswer = true
						}
						// the result spilled to a cell (functions with range-over-func loops)
						if ld, ok := ret.Results[0].(*ssa.UnOp); ok && ld.Op == token.MUL {
							for _, in2 := range sb.Instrs {
								if st, ok := in2.(*ssa.Store); ok && st.Addr == ld.X {
									if _, isK := st.Val.(*ssa.Const); isK {
										constAnswer = true
									}
								}
							}
						}
					}
				}
				if constAnswer && pi >= 0 {
					for _, g := range P.PkgFuncs("mapset") {
						g := g
						allInstrs(g, func(in2 ssa.Instruction) {
							call, ok := in2.(*ssa.Call)
							if !ok || origin(staticCallee(&call.Call)) != origin(p.Parent()) || pi >= len(call.Call.Args) {
								return
							}
							arg, ok := call.Call.Args[pi].(*ssa.BinOp)
							if !ok {
								return
							}
							if _, isLen := isBuiltinCall(arg.X, "len"); !isLen {
								return
							}
							k, isK := constInt(arg.Y)
							if !isK || !((arg.Op == token.SUB && k > 0) || (arg.Op == token.ADD && k < 0)) {
								return
							}
							c.sawFn(fnName(g))
							c.bad("R-CARD-SHORTCUT", fmt.Sprintf("%s:count handed to %s", fnName(g), p.Parent().Name()), call.Pos(), fmt.Sprintf("%s answers at once when its count is 0, and this call hands it %s: for a collection of exactly %d element(s) nothing is examined and the constant answer is given", p.Parent().Name(), ksym(arg), abs64(k)))
						})
					}
				}
			}
			xsL, okx := lenOf(bo.X, 0)
			xsR, oky := lenOf(bo.Y, 0)
			if !okx || !oky {
				return
			}
			// does either successor return a constant right away?
			shortcut := false
			for _, sb := range iff.Block().Succs {
				if len(sb.Instrs) <= 3 {
					if ret, ok := sb.Instrs[len(sb.Instrs)-1].(*ssa.Return); ok && len(ret.Results) == 1 {
						if _, isConst := ret.Results[0].(*ssa.Const); isConst {
							shortcut = true
						}
						// the result spilled to a cell (functions with range-over-func loops): *r = const; return *r
						if ld, ok := ret.Results[0].(*ssa.UnOp); ok && ld.Op == token.MUL {
							for _, in2 := range sb.Instrs {
								if st, ok := in2.(*ssa.Store); ok && st.Addr == ld.X {
									if _, isConst := st.Val.(*ssa.Const); isConst {
										shortcut = true
									}
								}
							}
						}
					}
				}
			}
			if !shortcut {
				return
			}
			c.sawFn(fnName(fn))
			isMap := func(v ssa.Value) bool {
				_, ok := v.Type().Underlying().(*types.Map)
				return ok
			}
			key := fmt.Sprintf("%s:%s %s %s", fnName(fn), ksym(bo.X), bo.Op, ksym(bo.Y))
			allMaps := true
			var lists []string
			for _, x := range append(append([]ssa.Value{}, xsL...), xsR...) {
				if !isMap(x) {
					allMaps = false
					lists = append(lists, ksym(x))
				}
			}
			sort.Strings(lists)
			c.judge(allMaps, "R-CARD-SHORTCUT", key, bo.Pos(), "cardinalities of two sets are compared", fmt.Sprintf("a length comparison decides the answer, but one side is (for some caller) the length of a list — %s — which may contain repeated values, so its length is not a cardinality", strings.Join(lists, ", ")))
		})
	}

	// value-receiver writer `add` called with a fresh receiver elsewhere
	for _, fn := range P.PkgFuncs("mapset") {
		allInstrs(fn, func(in ssa.Instruction) {
			call, ok := in.(*ssa.Call)
			if !ok {
				return
			}
			cal := staticCallee(&call.Call)
			if cal == nil || cal.Blocks == nil || cal.Pkg == nil || cal.Pkg.Pkg.Name() != "mapset" || len(call.Call.Args) == 0 {
				return
			}
			if _, ok := mutatedParams(cal)[0]; !ok {
				return
			}
			if _, isPtr := cal.Params[0].Type().(*types.Pointer); isPtr {
				return
			}
			recv := call.Call.Args[0]
			if a, ok := loadAddr(recv); ok {
				if _, isParam := a.(*ssa.Parameter); isParam {
					return // judged above
				}
			}
			if _, isParam := recv.(*ssa.Parameter); isParam {
				return // a value-receiver method forwarding its own receiver
			}
			good, why := f.valueFNN(recv, fn, 0)
			// what an ensure()-style method of the receiver hands back — the map behind p after "if *p == nil { *p = fresh }"
			// — is never nil (fresh if it was nil, the existing map otherwise), which is all a writer needs
			if rc, isCall := recv.(*ssa.Call); isCall && !good {
				if h := origin(staticCallee(&rc.Call)); h != nil && len(rc.Call.Args) > 0 && nilRecvMakesFresh(h) {
					if _, isPtr := h.Params[0].Type().Underlying().(*types.Pointer); isPtr {
						good = true
					}
				}
			}
			if ph, isPhi := recv.(*ssa.Phi); isPhi && !good {
				// a local holding the map (dst := *s; if dst == nil { dst = make(…); *s = dst }): every value that can
				// reach the call is a fresh non-nil map or one known to be non-nil on its edge
				all := true
				for i, e := range ph.Edges {
					if g, _ := f.valueFNN(e, fn, 0); g {
						continue
					}
					pred := ph.Block().Preds[i]
					cms := cmpsAt(pred)
					if iff, ok := pred.Instrs[len(pred.Instrs)-1].(*ssa.If); ok {
						idx := 0
						if pred.Succs[1] == ph.Block() {
							idx = 1
						}
						if cm, ok := edgeCmp(iff, idx); ok {
							cms = append(cms, cm)
						}
					}
					nn := false
					for _, cm := range cms {
						if cm.Op == token.NEQ && ((cm.X == e && isNilConst(cm.Y)) || (cm.Y == e && isNilConst(cm.X))) {
							nn = true
						}
					}
					if !nn {
						all = false
					}
				}
				if all {
					good = true
				}
			}
			c.judge(good, "R-NIL-LAZY", fnName(fn)+":call "+cal.Name()+" on "+ksym(recv), call.Pos(), "writer helper called on a fresh non-nil map", "writer helper may receive a nil map: "+why)
		})
	}
	// ---- R-LIST-WHOLE: an argument list is considered in full
	c.rule("R-LIST-WHOLE", 3, "a variadic list parameter (items ...T) is never cut short by a re-slice whose upper bound is something other than its length: every listed item counts, however many repeat or are absent")
	for _, fn := range P.PkgFuncs("mapset") {
		if fn.Parent() != nil {
			continue
		}
		for pi, prm := range fn.Params {
			if _, isSlice := prm.Type().Underlying().(*types.Slice); !isSlice {
				continue
			}
			// the lists of items: variadic parameters (a slice that is appended to is not a list of items)
			if !fn.Signature.Variadic() || pi != len(fn.Params)-1 {
				continue
			}
			var cut *ssa.Slice
			seen := map[ssa.Value]bool{}
			var walk func(v ssa.Value)
			walk = func(v ssa.Value) {
				if seen[v] {
					return
				}
				seen[v] = true
				for _, r := range referrersOf(v) {
					switch x := r.(type) {
					case *ssa.Slice:
						if x.X != v {
							continue
						}
						whole := x.High == nil
						if ln, ok := isBuiltinCall(x.High, "len"); ok && ln.Call.Args[0] == v {
							whole = true
						}
						if !whole && cut == nil {
							cut = x
						}
					case *ssa.Phi:
						walk(x)
					case *ssa.Store:
						// spilled into a cell captured by a closure: follow the loads
						if al, ok := x.Addr.(*ssa.Alloc); ok && x.Val == v {
							for _, r2 := range referrersOf(al) {
								if ld, ok := r2.(*ssa.UnOp); ok && ld.Op == token.MUL {
									walk(ld)
								}
							}
						}
					}
				}
			}
			walk(prm)
			c.sawFn(fnName(fn))
			key := fmt.Sprintf("%s:list %s", fnName(fn), prm.Name())
			if cut != nil {
				c.bad("R-LIST-WHOLE", key, cut.Pos(), fmt.Sprintf("the list %s is cut to %s before it is processed: items beyond that point are ignored although the ones before may be repeats or absent from the set", prm.Name(), ksym(cut.High)))
			} else {
				c.ok("R-LIST-WHOLE", key, fn.Pos(), "never cut short")
			}
		}
	}

}

func abs64(k int64) int64 {
	if k < 0 {
		return -k
	}
	return k
}
