package main

// C10 — stack, mlink, ring: R-CURSOR-VALID (typestate), R-DETACH-INVALIDATE,
// R-TAIL-RESET, R-SIZE-PAIR, R-RING-MIRROR, R-YIELD.

import (
	"fmt"
	"go/token"
	"go/types"
	"sort"
	"strings"

	"golang.org/x/tools/go/ssa"
)

func init() {
	register(&propDef{ID: "C10", Level: "other", Run: runC10})
}

type mlinkModel struct {
	P                 *Prog
	cursorT, entryT   *types.Named
	predF, linkF      *types.Var
	checkValid, inval *ssa.Function
	eff               *effTable
	// summary: method of *Cursor leaves the receiver's current pred validated at every normal return
	validates map[*ssa.Function]bool
	// method may store c.pred
	storesPred map[*ssa.Function]bool
}

// cursorOfPredLoad: if v is a load of X.pred returns X.
func (m *mlinkModel) cursorOfPredLoad(v ssa.Value) (ssa.Value, bool) {
	base, f := loadedField(v)
	if f != nil && sameField(f, m.predF) {
		return base, true
	}
	return nil, false
}

// analyseCursorFn runs the typestate dataflow.  report(nil) is allowed.
// Returns whether, for the receiver cursor (Params[0]) if any, the pred is
// validated at every normal return.
func (m *mlinkModel) analyseCursorFn(fn *ssa.Function, report func(in ssa.Instruction, cur ssa.Value, msg string, ok bool)) bool {
	type state map[ssa.Value]bool // cursor pointer value -> validated
	clone := func(s state) state {
		n := state{}
		for k, v := range s {
			n[k] = v
		}
		return n
	}
	in := map[*ssa.BasicBlock]state{fn.Blocks[0]: {}}
	visited := map[*ssa.BasicBlock]bool{}
	meet := func(a, b state) state {
		n := state{}
		for k, v := range a {
			if v && b[k] {
				n[k] = true
			}
		}
		return n
	}
	eq := func(a, b state) bool {
		if len(a) != len(b) {
			return false
		}
		for k := range a {
			if !b[k] {
				return false
			}
		}
		return true
	}
	exitValidated := true
	sawExit := false
	transfer := func(b *ssa.BasicBlock, s state, rec bool) state {
		s = clone(s)
		for _, ins := range b.Instrs {
			switch x := ins.(type) {
			case *ssa.Call:
				cal := staticCallee(&x.Call)
				if cal == m.checkValid && len(x.Call.Args) == 1 {
					if cur, ok := m.cursorOfPredLoad(x.Call.Args[0]); ok {
						s[cur] = true
					}
					continue
				}
				if cal != nil && cal.Signature.Recv() != nil && isNamedOrigin(cal.Signature.Recv().Type(), m.cursorT) && len(x.Call.Args) > 0 {
					cur := x.Call.Args[0]
					if m.storesPred[cal] {
						delete(s, cur)
					}
					if m.validates[cal] {
						s[cur] = true
					}
					continue
				}
			case *ssa.Store:
				if fa, ok := x.Addr.(*ssa.FieldAddr); ok {
					if _, f := fieldVarOf(fa); sameField(f, m.predF) {
						delete(s, fa.X)
					}
				}
				// storing a whole Cursor value into a cursor variable
				if isNamedOrigin(x.Val.Type(), m.cursorT) {
					delete(s, x.Addr)
				}
			case *ssa.FieldAddr:
				// access to link/X through the current value of cur.pred
				if !isNamedOrigin(x.X.Type(), m.entryT) {
					continue
				}
				if cur, ok := m.cursorOfPredLoad(x.X); ok {
					if rec && report != nil {
						_, f := fieldVarOf(x)
						report(x, cur, "access to ."+f.Name()+" through "+ksym(x.X), s[cur])
					}
				}
			case *ssa.Return:
				if rec && len(fn.Params) > 0 {
					sawExit = true
					if !s[fn.Params[0]] {
						exitValidated = false
					}
				}
			}
		}
		return s
	}
	work := []*ssa.BasicBlock{fn.Blocks[0]}
	for len(work) > 0 {
		b := work[0]
		work = work[1:]
		visited[b] = true
		out := transfer(b, in[b], false)
		for _, sc := range b.Succs {
			old, seen := in[sc]
			nw := out
			if seen {
				nw = meet(old, out)
			}
			if !seen || !eq(nw, old) {
				in[sc] = nw
				work = append(work, sc)
			}
		}
	}
	for _, b := range fn.Blocks {
		if visited[b] {
			transfer(b, in[b], true)
		}
	}
	return sawExit && exitValidated
}

func runC10(c *Ctx) {
	P := c.P
	c.Explanation = "Decides the structural clauses of the property: (R-CURSOR-VALID) in every function of package mlink, each access to the links through a cursor's current position is dominated — in a typestate dataflow over go/ssa — by a validation of that same position (checkValid, or a cursor method whose computed summary validates on all paths), so a stale cursor panics instead of hanging or altering the list; the validator tests exactly the marker the detach sites write. (R-DETACH-INVALIDATE) every link store that drops entries is preceded by invalidation of what it drops. (R-TAIL-RESET, R-SIZE-PAIR) mlink.Queue re-seats its cached tail cursor when the entry it hangs on can be detached, and size changes are paired one-to-one with insert/remove/clear. (R-RING-MIRROR) in package ring every next-link write has its mirror prev-link write in the same block. (R-YIELD) Each iterators are stoppable. (R-NOOP-GUARD, package ring) a no-op exit taken on x.f == v is justified only by a store of v into x.f in the same function; (R-LEN-EFFECT, package stack) every path of Push/Add/Pop/Clear that rewrites the list leaves its length at L0+1 / L0−1 / 0. (R-WRAP-CHECKED) every node Ring.At returns that was reached through a link has been compared with the receiver. Does NOT decide that the resulting sequences/cycles are the documented ones, Stack behaviour beyond Each, or termination of ring walks."
	c.rule("R-CURSOR-VALID", 3, "every access to entry fields through cur.pred is preceded on all paths by a validation of the current cur.pred")
	c.rule("R-MARKER-AGREE", 1, "checkValid panics exactly when e.link == e, the marker written by detach sites; and returns e")
	c.rule("R-DETACH-INVALIDATE", 4, "every store P.link = V is an insertion, a marker, or a detach preceded by invalidation of the dropped entries")
	c.rule("R-TAIL-RESET", 2, "after Cursor.Remove/List.Clear inside mlink.Queue every path re-seats back (unconditionally or when the list is empty); Add re-seats a zero back cursor")
	c.rule("R-SIZE-PAIR", 2, "size+1 ↔ one-element back.Add, size-1 ↔ cur.Remove on the not-at-end path, size=0 ↔ list.Clear")
	c.rule("R-RING-MIRROR", 1, "every store A.next = B has in the same block a store B.prev = A and vice versa")
	c.rule("R-YIELD", 4, "Stack.Each, List.Each, Queue.Each, ring.scan/Each stop after f returned false")
	ruleNoopGuard(c, "ring")
	ruleDetachReadsOld(c)
	ruleReverseCopy(c)
	ruleNilRing(c)
	ruleWrapChecked(c)
	ruleSizeGuard(c, "stack", "mlink", "ring")
	ruleEmptyAgreesLen(c, "stack", "Stack")
	ruleEmptyAgreesLen(c, "mlink", "Queue")
	ruleEmptyPolarity(c, "ring", "Ring")
	ruleEmptyPolarity(c, "mlink", "List")
	c.rule("R-LEN-EFFECT", 3, "every path through a Stack method that rewrites the list leaves its length at L0+1 (Push, Add), L0−1 (Pop), 0 (Clear) or unchanged")
	if lf := firstSliceField(P, "stack", "Stack"); lf != nil {
		ruleLenEffect(c, "R-LEN-EFFECT", "stack", "Stack", lf, map[string]lform{
			"Push": latom("L0").add(lconst(1), 1), "Add": latom("L0").add(lconst(1), 1),
			"Pop": latom("L0").add(lconst(1), -1), "Clear": lconst(0)})
	} else {
		c.undecided("ANCHOR", "stack.Stack slice field", 0, "not found")
	}

	m := &mlinkModel{P: P, eff: newEff(P), validates: map[*ssa.Function]bool{}, storesPred: map[*ssa.Function]bool{}}
	m.cursorT = P.Named("mlink", "Cursor")
	// private identifiers by role, not by name: the cursor's one pointer field is its position; what it points
	// to is the entry type; the entry's link is its field of type *entry; the validator is the entry method that
	// compares the link with the entry itself and hands the entry back; the invalidator is the entry method
	// with a loop that stores an entry into its own link
	if m.cursorT != nil {
		if st, ok := m.cursorT.Underlying().(*types.Struct); ok {
			for i := 0; i < st.NumFields(); i++ {
				if pt, ok := st.Field(i).Type().(*types.Pointer); ok {
					if nt, ok := types.Unalias(pt.Elem()).(*types.Named); ok && nt.Obj().Pkg() == m.cursorT.Obj().Pkg() {
						if m.predF != nil {
							m.predF, m.entryT = nil, nil // more than one candidate: undecided below
							break
						}
						m.predF, m.entryT = st.Field(i), nt.Origin()
					}
				}
			}
		}
	}
	if m.entryT != nil {
		if st, ok := m.entryT.Underlying().(*types.Struct); ok {
			for i := 0; i < st.NumFields(); i++ {
				if pt, ok := st.Field(i).Type().(*types.Pointer); ok {
					if nt, ok := types.Unalias(pt.Elem()).(*types.Named); ok && nt.Origin() == m.entryT {
						m.linkF = st.Field(i)
					}
				}
			}
		}
		invalScore := 0
		for i := 0; i < m.entryT.NumMethods(); i++ {
			f := P.SSA.FuncValue(m.entryT.Method(i))
			if f == nil || f.Blocks == nil || len(f.Params) != 1 || m.linkF == nil {
				continue
			}
			selfCmp, selfStore, hasLoop, linkStore := false, false, false, false
			for _, b := range f.Blocks {
				for _, p := range b.Preds {
					if b.Dominates(p) {
						hasLoop = true
					}
				}
				for _, in := range b.Instrs {
					switch x := in.(type) {
					case *ssa.BinOp:
						if x.Op == token.EQL || x.Op == token.NEQ {
							if _, fl := loadedField(x.X); fl != nil && sameField(fl, m.linkF) {
								selfCmp = true
							}
							if _, fl := loadedField(x.Y); fl != nil && sameField(fl, m.linkF) {
								selfCmp = true
							}
						}
					case *ssa.Store:
						if fa, ok := x.Addr.(*ssa.FieldAddr); ok {
							if _, fl := fieldVarOf(fa); sameField(fl, m.linkF) {
								linkStore = true
								if x.Val == fa.X {
									selfStore = true
								}
							}
						}
					}
				}
			}
			switch {
			case linkStore && f.Signature.Results().Len() == 0:
				// candidates for the invalidator: entry methods that rewrite links and answer nothing; the one that
				// looks most like "walk the chain and mark" wins (what it really writes, and whether it walks the
				// whole chain, is for the rules to judge — a mutant that marks with nil or does not loop is still it)
				score := 1
				if hasLoop {
					score += 2
				}
				if selfStore {
					score += 2
				}
				if score > invalScore {
					m.inval, invalScore = f, score
				}
			case selfCmp && !linkStore && f.Signature.Results().Len() == 1:
				m.checkValid = f
			}
		}
	}
	if m.cursorT == nil || m.entryT == nil || m.predF == nil || m.linkF == nil || m.checkValid == nil || m.inval == nil {
		c.undecided("ANCHOR", "mlink.Cursor/entry/checkValid/invalidate", 0, "anchor not found")
		return
	}
	identityFns[m.checkValid] = returnsParam0(m.checkValid)

	// ---- R-MARKER-AGREE
	{
		okM := false
		var why string
		fn := m.checkValid
		if iff, ok := fn.Blocks[0].Instrs[len(fn.Blocks[0].Instrs)-1].(*ssa.If); ok {
			if bo, ok := iff.Cond.(*ssa.BinOp); ok && (bo.Op == token.EQL || bo.Op == token.NEQ) {
				x, y := bo.X, bo.Y
				if y != fn.Params[0] {
					x, y = y, x
				}
				_, f := loadedField(x)
				if y == fn.Params[0] && f != nil && sameField(f, m.linkF) {
					pb := fn.Blocks[0].Succs[0]
					ob := fn.Blocks[0].Succs[1]
					if bo.Op == token.NEQ {
						pb, ob = ob, pb
					}
					if endsInPanic(pb) {
						if ret, ok := ob.Instrs[len(ob.Instrs)-1].(*ssa.Return); ok && len(ret.Results) == 1 && ret.Results[0] == fn.Params[0] {
							okM = true
						} else {
							why = "valid path does not return the receiver"
						}
					} else {
						why = "self-linked entry does not panic"
					}
				} else {
					why = "test is not e.link == e"
				}
			}
		} else {
			why = "no test at entry"
		}
		c.judge(okM, "R-MARKER-AGREE", "mlink.(*entry).checkValid", fn.Pos(), "panics iff e.link == e; returns e", why)
	}
	if !identityFns[m.checkValid] {
		c.bad("R-MARKER-AGREE", "mlink.(*entry).checkValid:identity", m.checkValid.Pos(), "checkValid does not return its receiver on every path")
	}

	// ---- summaries for cursor methods (pessimistic start, iterate)
	cursorMethods := P.Methods("mlink", "Cursor")
	for _, fn := range cursorMethods {
		e := m.eff.of(fn)
		m.storesPred[fn] = e.Fields[m.predF.Origin()]
	}
	for iter := 0; iter < 6; iter++ {
		changed := false
		for _, fn := range cursorMethods {
			v := m.analyseCursorFn(fn, nil)
			if v != m.validates[fn] {
				m.validates[fn] = v
				changed = true
			}
		}
		if !changed {
			break
		}
	}
	sums := map[string]string{}
	for _, fn := range cursorMethods {
		sums[fnName(fn)] = fmt.Sprintf("validates-on-exit=%v stores-pred=%v", m.validates[fn], m.storesPred[fn])
	}
	c.Extra["cursor_method_summaries"] = sums

	// ---- R-CURSOR-VALID
	for _, fn := range P.PkgFuncs("mlink") {
		name := fnName(fn)
		m.analyseCursorFn(fn, func(in ssa.Instruction, cur ssa.Value, msg string, ok bool) {
			c.sawFn(name)
			key := fmt.Sprintf("%s:%s", name, msg)
			if ok {
				c.ok("R-CURSOR-VALID", key, instrPos(in), "validated on all paths")
			} else {
				c.bad("R-CURSOR-VALID", key, instrPos(in), "cursor position is used without validation on some path: a stale cursor would chase or rewrite detached entries instead of panicking (entry "+name+")")
			}
		})
	}

	// ---- R-DETACH-INVALIDATE
	for _, fn := range P.PkgFuncs("mlink") {
		name := fnName(fn)
		allInstrs(fn, func(in ssa.Instruction) {
			st, ok := in.(*ssa.Store)
			if !ok {
				return
			}
			fa, ok := st.Addr.(*ssa.FieldAddr)
			if !ok {
				return
			}
			if _, f := fieldVarOf(fa); !sameField(f, m.linkF) {
				return
			}
			Pv := fa.X
			V := st.Val
			c.sawFn(name)
			// initialisation of a fresh entry's own link is not a list edit
			if al, ok := Pv.(*ssa.Alloc); ok && al.Heap {
				return
			}
			pSym := symAddrBase(Pv)
			key := fmt.Sprintf("%s:%s.link=%s", name, strings.TrimPrefix(ksym(Pv), "&"), ksym(V))
			// marker
			if V == Pv || sym(V) == pSym {
				c.ok("R-DETACH-INVALIDATE", key, st.Pos(), "marker store (self-link)")
				return
			}
			oldLinkSym := pSym + "." + m.linkF.Name()
			// insertion: fresh entry whose own link was initialised with the old P.link, or old P.link is nil (AtEnd)
			if al, ok := V.(*ssa.Alloc); ok && al.Heap && isNamedOrigin(al.Type(), m.entryT) {
				var init ssa.Value
				for _, r := range referrersOf(al) {
					if fa2, ok := r.(*ssa.FieldAddr); ok {
						if _, f2 := fieldVarOf(fa2); sameField(f2, m.linkF) {
							for _, r2 := range referrersOf(fa2) {
								if s2, ok := r2.(*ssa.Store); ok && dominatesInstr(s2, st) {
									init = s2.Val
								}
							}
						}
					}
				}
				if init != nil && sym(init) == oldLinkSym {
					c.ok("R-DETACH-INVALIDATE", key, st.Pos(), "insertion: the new entry links to the old successor")
					return
				}
				if init == nil {
					// must be at end: dominated by true edge of AtEnd(cur) with Pv = load cur.pred
					if cur, ok := m.cursorOfPredLoad(Pv); ok {
						for call, truth := range callFactsAt(st.Block()) {
							if cal := staticCallee(&call.Call); cal != nil && cal.Name() == "AtEnd" && truth && call.Call.Args[0] == cur {
								c.ok("R-DETACH-INVALIDATE", key, st.Pos(), "insertion at the end (old link is nil by AtEnd)")
								return
							}
						}
					}
					// or dominated by a fact  <old P.link> == nil  (e.g. `if e := c.target(); e != nil {…} else {…}`)
					for _, cm := range cmpsAt(st.Block()) {
						if cm.Op == token.EQL && isNilConst(cm.Y) && sym(cm.X) == oldLinkSym {
							c.ok("R-DETACH-INVALIDATE", key, st.Pos(), "insertion at the end (old link compared equal to nil)")
							return
						}
					}
				}
				c.bad("R-DETACH-INVALIDATE", key, st.Pos(), "a fresh entry replaces the successor without linking to it and without the position being at the end: the tail of the list is dropped uninvalidated")
				return
			}
			// detach: must be preceded by invalidate(old P.link) or a marker store on the old target
			pre := false
			allInstrs(fn, func(in2 ssa.Instruction) {
				if !dominatesInstr(in2, st) {
					return
				}
				switch y := in2.(type) {
				case *ssa.Call:
					if staticCallee(&y.Call) == m.inval && len(y.Call.Args) == 1 && sym(y.Call.Args[0]) == oldLinkSym {
						pre = true
					}
				case *ssa.Store:
					if fa2, ok := y.Addr.(*ssa.FieldAddr); ok {
						if _, f2 := fieldVarOf(fa2); sameField(f2, m.linkF) {
							if symAddrBase(fa2.X) == oldLinkSym && sym(y.Val) == oldLinkSym {
								pre = true
							}
						}
					}
				}
			})
			if !pre {
				// … or followed at once by it: the dropped entry was read before the store (out := p.link), the
				// link is re-pointed, and the next link store in the block — no call in between — marks `out`
				after := false
				for _, in2 := range st.Block().Instrs {
					if in2 == ssa.Instruction(st) {
						after = true
						continue
					}
					if !after {
						continue
					}
					if _, isCall := in2.(*ssa.Call); isCall {
						break
					}
					if y, ok := in2.(*ssa.Store); ok {
						if fa2, ok := y.Addr.(*ssa.FieldAddr); ok {
							if _, f2 := fieldVarOf(fa2); sameField(f2, m.linkF) {
								if ld, ok := fa2.X.(*ssa.UnOp); ok && y.Val == fa2.X && sym(ld) == oldLinkSym && dominatesInstr(ld, st) {
									pre = true
								}
								break
							}
						}
					}
				}
			}
			c.judge(pre, "R-DETACH-INVALIDATE", key, st.Pos(), "detach preceded by invalidation of the dropped entry/entries", "entries are unlinked without being marked invalid: cursors left on them keep working on a detached chain")
		})
	}

	// ---- the invalidator walks the whole detached chain: a loop that follows the link until nil, marking
	// each entry (marking only the first leaves cursors further down the chain working)
	{
		c.sawFn(fnName(m.inval))
		loops := false
		for _, b := range m.inval.Blocks {
			for _, in := range b.Instrs {
				ph, ok := in.(*ssa.Phi)
				if !ok {
					break
				}
				for i, e := range ph.Edges {
					if !b.Dominates(b.Preds[i]) {
						continue
					}
					// back edge carries the old link of the entry being marked
					if _, f := loadedField(e); f != nil && sameField(f, m.linkF) {
						loops = true
					}
				}
			}
		}
		ruleInvalidatorExits(c, m.inval, m.linkF)
		c.judge(loops, "R-DETACH-INVALIDATE", "mlink.(*entry).invalidate:walks the chain", m.inval.Pos(), "a loop advancing along the link marks every entry", "the invalidator does not loop along the chain it is given: only its first entry is marked, so cursors on later detached entries keep working on a dead chain instead of panicking")
	}
	// ---- R-TAIL-RESET and R-SIZE-PAIR (mlink.Queue)
	queueT := P.Named("mlink", "Queue")
	backF, sizeF, listF := P.Field("mlink", "Queue", "back"), P.Field("mlink", "Queue", "size"), P.Field("mlink", "Queue", "list")
	if queueT != nil {
		// by role when the private names differ: the cursor field, the list field, the one integer field
		byType := func(tn string) *types.Var {
			st := queueT.Underlying().(*types.Struct)
			for i := 0; i < st.NumFields(); i++ {
				t := st.Field(i).Type()
				if p, ok := t.(*types.Pointer); ok {
					t = p.Elem()
				}
				if nt, ok := t.(*types.Named); ok && nt.Obj().Name() == tn && nt.Obj().Pkg() == queueT.Obj().Pkg() {
					return st.Field(i)
				}
			}
			return nil
		}
		if backF == nil {
			backF = byType("Cursor")
		}
		if listF == nil {
			listF = byType("List")
		}
		if sizeF == nil {
			st := queueT.Underlying().(*types.Struct)
			for i := 0; i < st.NumFields(); i++ {
				if isIntType(st.Field(i).Type()) {
					sizeF = st.Field(i)
				}
			}
		}
	}
	if queueT == nil || backF == nil || sizeF == nil || listF == nil {
		c.undecided("ANCHOR", "mlink.Queue fields", 0, "anchor not found")
		return
	}
	cRemove, cTrunc, cAdd := P.Func("mlink", "Cursor", "Remove"), P.Func("mlink", "Cursor", "Truncate"), P.Func("mlink", "Cursor", "Add")
	lClear, lIsEmpty, lCfirst := P.Func("mlink", "List", "Clear"), P.Func("mlink", "List", "IsEmpty"), P.Func("mlink", "List", "cfirst")
	if lCfirst == nil {
		// by role: the unexported method of List that takes nothing and answers a cursor
		for _, f := range P.PkgFuncs("mlink") {
			if r := f.Signature.Recv(); r != nil && f.Parent() == nil && !token.IsExported(f.Name()) && f.Signature.Params().Len() == 0 && f.Signature.Results().Len() == 1 {
				rt, res := r.Type(), f.Signature.Results().At(0).Type()
				if p, ok := rt.(*types.Pointer); ok {
					rt = p.Elem()
				}
				if p, ok := res.(*types.Pointer); ok {
					res = p.Elem()
				}
				rn, ok1 := rt.(*types.Named)
				sn, ok2 := res.(*types.Named)
				if ok1 && ok2 && rn.Obj().Name() == "List" && sn.Obj().Name() == "Cursor" {
					lCfirst = origin(f)
				}
			}
		}
	}
	// emptyTest: a call that asks whether a list is empty — List.IsEmpty itself, or a one-line method of Queue that
	// hands the question to its list (func (q *Queue) IsEmpty() bool { return q.list.IsEmpty() }); answers the sym of
	// the list asked about
	emptyTest := func(call *ssa.Call) (string, bool) {
		cal := staticCallee(&call.Call)
		if cal == nil || len(call.Call.Args) != 1 {
			return "", false
		}
		if cal == lIsEmpty {
			return sym(call.Call.Args[0]), true
		}
		o := origin(cal)
		if o == nil || len(o.Blocks) != 1 || o.Signature.Recv() == nil || !isNamedOrigin(o.Signature.Recv().Type(), queueT) {
			return "", false
		}
		ret, ok := o.Blocks[0].Instrs[len(o.Blocks[0].Instrs)-1].(*ssa.Return)
		if !ok || len(ret.Results) != 1 {
			return "", false
		}
		inner, ok := ret.Results[0].(*ssa.Call)
		if !ok || staticCallee(&inner.Call) != lIsEmpty || len(inner.Call.Args) != 1 {
			return "", false
		}
		fa, ok := inner.Call.Args[0].(*ssa.FieldAddr)
		if !ok || fa.X != ssa.Value(o.Params[0]) {
			return "", false
		}
		if _, f := fieldVarOf(fa); !sameField(f, listF) {
			return "", false
		}
		return "&" + sym(call.Call.Args[0]) + "." + listF.Name(), true
	}
	_ = emptyTest
	// frontCell: a local cursor variable that only ever receives the result of cfirst and is handed only to
	// cursor methods that do not move the cursor
	frontCell := func(v ssa.Value) bool {
		al, ok := v.(*ssa.Alloc)
		if !ok {
			return false
		}
		n := 0
		for _, r := range referrersOf(al) {
			switch x := r.(type) {
			case *ssa.Store:
				if x.Addr != ssa.Value(al) {
					return false
				}
				call, ok := x.Val.(*ssa.Call)
				if !ok || staticCallee(&call.Call) != lCfirst {
					return false
				}
				n++
			case *ssa.Call:
				cal := staticCallee(&x.Call)
				if cal == nil || len(x.Call.Args) == 0 || x.Call.Args[0] != ssa.Value(al) || m.storesPred[origin(cal)] || m.storesPred[cal] {
					return false
				}
			case *ssa.UnOp, *ssa.DebugRef:
			default:
				return false
			}
		}
		return n > 0
	}
	isBackReset := func(in ssa.Instruction) bool {
		st, ok := in.(*ssa.Store)
		if !ok {
			return false
		}
		fa, ok := st.Addr.(*ssa.FieldAddr)
		if !ok {
			return false
		}
		if _, f := fieldVarOf(fa); !sameField(f, backF) {
			return false
		}
		call, ok := st.Val.(*ssa.Call)
		if ok && staticCallee(&call.Call) == lCfirst {
			return true
		}
		// a local that holds the front cursor (front := list.cfirst(); …; q.back = front)
		if ld, ok := st.Val.(*ssa.UnOp); ok && ld.Op == token.MUL {
			return frontCell(ld.X)
		}
		return false
	}
	// … or a call of a Queue helper that re-seats the cursor on all of its paths (q.rewind())
	isBackResetDirect := isBackReset
	isBackReset = func(in ssa.Instruction) bool {
		if isBackResetDirect(in) {
			return true
		}
		call, ok := in.(*ssa.Call)
		if !ok {
			return false
		}
		cal := origin(staticCallee(&call.Call))
		if cal == nil || cal.Blocks == nil || cal.Signature.Recv() == nil || !isNamedOrigin(cal.Signature.Recv().Type(), queueT) {
			return false
		}
		missing, _ := reachesWithout(P, firstInstr(cal), true, isReturn, isBackResetDirect)
		return !missing
	}
	cPush := P.Func("mlink", "Cursor", "Push")
	for _, fn := range P.Methods("mlink", "Queue") {
		name := fnName(fn)
		allInstrs(fn, func(in ssa.Instruction) {
			call, ok := in.(*ssa.Call)
			if !ok {
				return
			}
			cal := staticCallee(&call.Call)
			switch cal {
			case cRemove, cTrunc, lClear:
				c.sawFn(name)
				key := fmt.Sprintf("%s:after %s", name, cal.Name())
				okR, wit := mustPassToExitE(P, call, isBackReset, func(iff *ssa.If, i int) bool {
					// exempt: the edge on which the list is known non-empty
					f := expandFact(Fact{iff.Cond, i == 0})[0]
					if ec, ok := f.Cond.(*ssa.Call); ok && !f.Truth {
						if _, isEmptyQ := emptyTest(ec); isEmptyQ {
							return true
						}
					}
					// … or a cursor at the front of the list (the result of cfirst) is not at the end
					if ec, ok := f.Cond.(*ssa.Call); ok && !f.Truth && len(ec.Call.Args) == 1 {
						if cal := staticCallee(&ec.Call); cal != nil && cal.Name() == "AtEnd" && origin(cal).Pkg == fn.Pkg {
							if fc, ok := ec.Call.Args[0].(*ssa.Call); ok && staticCallee(&fc.Call) == lCfirst {
								return true
							}
							if frontCell(ec.Call.Args[0]) {
								return true
							}
						}
					}
					return false
				})
				c.judge(okR, "R-TAIL-RESET", key, call.Pos(), "back re-seated on every path where the list may have become empty", "the cached tail cursor is not re-seated after entries were detached ("+wit+"): the next Add would use a stale cursor")
			case cAdd, cPush:
				if cal == nil {
					return
				}
				// receiver is &q.back: before it, on all paths: back.pred != nil edge or back reset
				if fa, ok := call.Call.Args[0].(*ssa.FieldAddr); ok {
					if _, f := fieldVarOf(fa); sameField(f, backF) {
						c.sawFn(name)
						key := name + ":zero-back"
						found, wit := false, ""
						w := walkFromE(firstInstr(fn), true, isBackReset, func(iff *ssa.If, i int) bool {
							cm, ok := edgeCmp(iff, i)
							if !ok {
								return false
							}
							if _, f := loadedField(cm.X); f != nil && sameField(f, m.predF) && isNilConst(cm.Y) && cm.Op == token.NEQ {
								return true
							}
							return false
						})
						for _, in2 := range w.order {
							if in2 == ssa.Instruction(call) {
								found, wit = true, w.witness(P, in2)
							}
						}
						c.judge(!found, "R-TAIL-RESET", key, call.Pos(), "a zero Queue's back cursor is seated before first use", "back.Add reachable with a nil back.pred (zero Queue) ("+wit+")")
					}
				}
			}
		})
		// size stores: each must be dominated by exactly one matching list edit
		sizeKind := func(in ssa.Instruction) string {
			st, ok := in.(*ssa.Store)
			if !ok {
				return ""
			}
			fa, ok := st.Addr.(*ssa.FieldAddr)
			if !ok {
				return ""
			}
			if _, f := fieldVarOf(fa); !sameField(f, sizeF) {
				return ""
			}
			if isConstInt(st.Val, 0) {
				return "=0"
			}
			if bo, ok := st.Val.(*ssa.BinOp); ok {
				if _, f := loadedField(bo.X); f != nil && sameField(f, sizeF) && isConstInt(bo.Y, 1) {
					switch bo.Op {
					case token.ADD:
						return "+1"
					case token.SUB:
						return "-1"
					}
				}
			}
			return "?"
		}
		editKind := func(in ssa.Instruction) string {
			call, ok := in.(*ssa.Call)
			if !ok {
				return ""
			}
			switch staticCallee(&call.Call) {
			case nil:
				return ""
			case cPush:
				// Push inserts exactly one element at the cursor; the tail cursor is at the end again only
				// if it then steps past the new element (Push, then Next — not the other way round)
				after, before := false, false
				seenSelf := false
				for _, in2 := range call.Block().Instrs {
					if in2 == in {
						seenSelf = true
						continue
					}
					c2, ok := in2.(*ssa.Call)
					if !ok {
						continue
					}
					if cal := staticCallee(&c2.Call); cal != nil && cal.Name() == "Next" && len(c2.Call.Args) > 0 && len(call.Call.Args) > 0 && (c2.Call.Args[0] == call.Call.Args[0] || sym(c2.Call.Args[0]) == sym(call.Call.Args[0])) {
						if seenSelf {
							after = true
						} else {
							before = true
						}
					}
				}
				if after && !before {
					return "+1"
				}
				return "+?"
			case cAdd:
				one := false
				if len(call.Call.Args) == 2 {
					if sl, ok := call.Call.Args[1].(*ssa.Slice); ok {
						if al, ok := sl.X.(*ssa.Alloc); ok {
							if at, ok := al.Type().Underlying().(*types.Pointer).Elem().Underlying().(*types.Array); ok && at.Len() == 1 {
								one = true
							}
						}
					}
				}
				if one {
					return "+1"
				}
				return "+?"
			case cRemove:
				// only counts as a removal on a path where the cursor is known not to be at the end
				for fc, truth := range callFactsAt(call.Block()) {
					if cal := staticCallee(&fc.Call); cal != nil && cal.Name() == "AtEnd" && !truth && fc.Call.Args[0] == call.Call.Args[0] {
						return "-1"
					}
					// … or it is the first cursor of a list known not to be empty (taken after that test)
					if lsym, isEmptyQ := emptyTest(fc); isEmptyQ && !truth {
						recv := call.Call.Args[0]
						if al, ok := recv.(*ssa.Alloc); ok {
							// the cursor lives in a local cell: the one value stored into it
							var vals []ssa.Value
							for _, r := range referrersOf(al) {
								if st, ok := r.(*ssa.Store); ok && st.Addr == ssa.Value(al) {
									vals = append(vals, st.Val)
								}
							}
							if len(vals) == 1 {
								recv = vals[0]
							}
						}
						if first, ok := recv.(*ssa.Call); ok && staticCallee(&first.Call) == lCfirst && (sym(first.Call.Args[0]) == lsym || ksymEq(first.Call.Args[0], lsym)) && dominatesInstr(fc, first) {
							return "-1"
						}
					}
				}
				// … or of a list whose Peek(0) just found an element
				for ex, truth := range extractFactsAt(call.Block()) {
					pk, ok := ex.Tuple.(*ssa.Call)
					if !ok || !truth || ex.Index != 1 {
						continue
					}
					if cal := staticCallee(&pk.Call); cal == nil || cal.Name() != "Peek" || cal.Pkg != origin(fn).Pkg || len(pk.Call.Args) != 2 || !isConstInt(pk.Call.Args[1], 0) {
						continue
					}
					recv := call.Call.Args[0]
					if al, ok := recv.(*ssa.Alloc); ok {
						for _, r := range referrersOf(al) {
							if st, ok := r.(*ssa.Store); ok && st.Addr == ssa.Value(al) {
								recv = st.Val
							}
						}
					}
					if first, ok := recv.(*ssa.Call); ok && staticCallee(&first.Call) == lCfirst && sym(first.Call.Args[0]) == sym(pk.Call.Args[0]) && dominatesInstr(pk, first) {
						return "-1"
					}
				}
				return "-?"
			case lClear:
				return "=0"
			case cTrunc:
				return "-?"
			}
			return ""
		}
		allInstrs(fn, func(in ssa.Instruction) {
			if k := sizeKind(in); k != "" {
				c.sawFn(name)
				key := name + ":size" + k
				if k == "?" {
					c.undecided("R-SIZE-PAIR", key, in.Pos(), "unrecognised size update")
					return
				}
				n := 0
				allInstrs(fn, func(in2 ssa.Instruction) {
					if editKind(in2) != k {
						return
					}
					if dominatesInstr(in2, in) {
						n++
					} else if dominatesInstr(in, in2) {
						// the count first, the edit right behind it on every path: the same pair
						if okP, _ := mustPassToExit(P, in, func(x ssa.Instruction) bool { return x == in2 }); okP {
							n++
						}
					}
				})
				c.judge(n == 1, "R-SIZE-PAIR", key, in.Pos(), "preceded on every path by exactly one matching list edit", fmt.Sprintf("size update %s is dominated by %d matching list edits (want exactly one: a one-element Add, a Remove on the not-at-end path, or Clear)", k, n))
			}
			if k := editKind(in); k != "" {
				// converse: every list edit is followed on all paths by exactly one matching size update
				okP, wit := mustPassToExit(P, in, func(in2 ssa.Instruction) bool { return sizeKind(in2) == k })
				if !okP {
					allInstrs(fn, func(in2 ssa.Instruction) {
						if sizeKind(in2) == k && dominatesInstr(in2, in) {
							okP = true // counted just before the edit
						}
					})
				}
				if !okP {
					c.bad("R-SIZE-PAIR", name+":edit"+k+" without size update", in.Pos(), "the list changes length but size is not updated to match on some path ("+wit+")")
				}
			}
		})
	}
	// ---- R-RING-MIRROR
	ringT := P.Named("ring", "Ring")
	nextF, prevF := P.Field("ring", "Ring", "next"), P.Field("ring", "Ring", "prev")
	if ringT == nil || nextF == nil || prevF == nil {
		c.undecided("ANCHOR", "ring.Ring fields", 0, "anchor not found")
		return
	}
	reff := newEff(P)
	for _, fn := range P.PkgFuncs("ring") {
		name := fnName(fn)
		type lstore struct {
			st   *ssa.Store
			base ssa.Value
			val  ssa.Value
			f    *types.Var
		}
		perBlock := map[*ssa.BasicBlock][]lstore{}
		allInstrs(fn, func(in ssa.Instruction) {
			st, ok := in.(*ssa.Store)
			if !ok {
				return
			}
			fa, ok := st.Addr.(*ssa.FieldAddr)
			if !ok {
				return
			}
			_, f := fieldVarOf(fa)
			if sameField(f, nextF) || sameField(f, prevF) {
				perBlock[in.Block()] = append(perBlock[in.Block()], lstore{st, fa.X, st.Val, f})
			}
		})
		for _, stores := range perBlock {
			c.sawFn(name)
			used := map[int]bool{}
			for i, a := range stores {
				if !sameField(a.f, nextF) {
					continue
				}
				// find mirror: B'.prev = A' with A' ≡ a.base, B' ≡ a.val
				found := -1
				for j, b := range stores {
					if used[j] || !sameField(b.f, prevF) {
						continue
					}
					if valEq(reff, a.base, b.val, nextF, prevF) && valEq(reff, a.val, b.base, nextF, prevF) {
						found = j
						break
					}
				}
				key := fmt.Sprintf("%s:%s.next=%s", name, ksym(a.base), ksym(a.val))
				if found >= 0 {
					used[found] = true
					used[i] = true
					c.ok("R-RING-MIRROR", key, a.st.Pos(), "mirrored by "+sym(stores[found].base)+".prev="+sym(stores[found].val))
				} else {
					c.bad("R-RING-MIRROR", key, a.st.Pos(), "next-link write without the mirror prev-link write in the same block: Next and Prev disagree at this link")
				}
			}
			for j, b := range stores {
				if sameField(b.f, prevF) && !used[j] {
					c.bad("R-RING-MIRROR", fmt.Sprintf("%s:%s.prev=%s", name, ksym(b.base), ksym(b.val)), b.st.Pos(), "prev-link write without the mirror next-link write in the same block")
				}
			}
		}
	}

	// ---- R-YIELD
	var yf []*ssa.Function
	for _, a := range [][2]string{{"stack", "Stack"}, {"mlink", "List"}, {"mlink", "Queue"}, {"ring", "Ring"}} {
		f := P.Func(a[0], a[1], "Each")
		if f == nil {
			c.undecided("ANCHOR", "Each iterators", 0, a[0]+"."+a[1]+".Each was not found")
			return
		}
		yf = append(yf, f)
	}
	// helpers of the same package that are handed the yield function (or a closure over it), and closures
	seenY := map[*ssa.Function]bool{}
	for _, f := range yf {
		seenY[f] = true
	}
	for i := 0; i < len(yf) && i < 64; i++ {
		f := yf[i]
		for _, a := range f.AnonFuncs {
			if !seenY[a] {
				seenY[a] = true
				yf = append(yf, a)
			}
		}
		allInstrs(f, func(in ssa.Instruction) {
			call, ok := in.(*ssa.Call)
			if !ok {
				return
			}
			cal := origin(staticCallee(&call.Call))
			if cal == nil || cal.Blocks == nil || cal.Pkg == nil || f.Pkg == nil && f.Parent() == nil || seenY[cal] {
				return
			}
			pk := f.Pkg
			if pk == nil && f.Parent() != nil {
				pk = f.Parent().Pkg
			}
			if origin(f).Pkg != nil {
				pk = origin(f).Pkg
			}
			if pk == nil || cal.Pkg != pk {
				return
			}
			// only helpers that are handed the yield function ITSELF share its polarity; a wrapper closure
			// handed to a helper with its own predicate is judged at the call (wrappedYield)
			ysHere := yieldValues(f)
			for ai, p := range cal.Params {
				if isYieldType(p.Type()) && ai < len(call.Call.Args) && ysHere[call.Call.Args[ai]] {
					seenY[cal] = true
					yf = append(yf, cal)
					return
				}
			}
		})
	}
	ruleYield(c, yf)
}

// symAddrBase renders a base pointer so that &x.f (address of an embedded
// struct) and a loaded pointer p compare by the path they denote.
func symAddrBase(v ssa.Value) string {
	s := sym(v)
	if len(s) > 0 && s[0] == '&' {
		return s[1:]
	}
	return s
}

// valEq: two pointer values denote the same object: identical SSA values, or
// loads of the same path with no possibly-aliasing store to the loaded fields
// between them.
func valEq(eff *effTable, a, b ssa.Value, fields ...*types.Var) bool {
	if a == b {
		return true
	}
	if sym(a) != sym(b) {
		return false
	}
	ia, oka := a.(ssa.Instruction)
	ib, okb := b.(ssa.Instruction)
	if !oka || !okb {
		return false
	}
	if ia.Block() != ib.Block() {
		return false
	}
	first, second := ia, ib
	if nodeOf(ib).i < nodeOf(ia).i {
		first, second = ib, ia
	}
	// fields loaded in the expression
	lbase, lf := loadedField(a)
	if lf == nil {
		return false
	}
	for _, in := range instrsBetween(first, second) {
		st, ok := in.(*ssa.Store)
		if !ok {
			if _, isCall := in.(ssa.CallInstruction); isCall && eff.killsField(in, lf) {
				return false
			}
			continue
		}
		fa, ok := st.Addr.(*ssa.FieldAddr)
		if !ok {
			continue
		}
		_, sf := fieldVarOf(fa)
		if !sameField(sf, lf) {
			continue
		}
		// same field stored: aliasing? a store through a distinct fresh allocation cannot alias
		if distinctFresh(fa.X, lbase) || knownDistinct(fa.X, lbase, st) {
			continue
		}
		return false
	}
	return true
}

// knownDistinct: a branch fact that dominates the store says the two objects differ (`if r.prev == r { return }`
// in front of `r.prev.next = …`), and the field the store's base was read from has not been written in the
// store's block before it (so the base is still the value the fact spoke about).
func knownDistinct(storeBase, loadBase ssa.Value, st *ssa.Store) bool {
	_, bf := loadedField(storeBase)
	if bf == nil {
		return false
	}
	for _, in := range st.Block().Instrs {
		if in == ssa.Instruction(st) {
			break
		}
		if s2, ok := in.(*ssa.Store); ok {
			if fa, ok := s2.Addr.(*ssa.FieldAddr); ok {
				if _, f := fieldVarOf(fa); sameField(f, bf) {
					return false
				}
			}
		}
		if _, isCall := in.(ssa.CallInstruction); isCall {
			if _, isB := in.(*ssa.Call); !isB || in.(*ssa.Call).Call.StaticCallee() != nil || in.(*ssa.Call).Call.IsInvoke() {
				return false
			}
		}
	}
	a, b := sym(storeBase), sym(loadBase)
	for _, cm := range cmpsAt(st.Block()) {
		if cm.Op != token.NEQ {
			continue
		}
		x, y := sym(cm.X), sym(cm.Y)
		if (x == a && y == b) || (x == b && y == a) {
			return true
		}
	}
	return false
}

// distinctFresh: storeBase is a fresh allocation (alloc or call to a function
// returning a fresh object) and loadBase is a different allocation site or a parameter.
func distinctFresh(storeBase, loadBase ssa.Value) bool {
	if storeBase == loadBase {
		return false
	}
	if !isFreshValue(storeBase) {
		return false
	}
	switch loadBase.(type) {
	case *ssa.Parameter:
		return true
	}
	return isFreshValue(loadBase)
}

func isFreshValue(v ssa.Value) bool {
	switch x := v.(type) {
	case *ssa.Alloc:
		return true
	case *ssa.Parameter:
		// a parameter of an unexported function that every call site in its package gives a fresh object
		return paramAlwaysFresh(x)
	case *ssa.Call:
		if cal := staticCallee(&x.Call); cal != nil && cal.Blocks != nil {
			return returnsFresh(cal, 0)
		}
	}
	return false
}

var paramFreshMemo = map[*ssa.Parameter]bool{}

// paramAlwaysFresh: p belongs to an unexported function and at each of its (static, same-package) call sites
// the argument is an allocation made by the caller or the result of a function returning fresh objects; the
// function's address is not taken.
func paramAlwaysFresh(p *ssa.Parameter) bool {
	if v, ok := paramFreshMemo[p]; ok {
		return v
	}
	paramFreshMemo[p] = false
	fn := p.Parent()
	if fn == nil || fn.Pkg == nil || fn.Object() == nil || fn.Object().Exported() {
		return false
	}
	idx := -1
	for i, q := range fn.Params {
		if q == p {
			idx = i
		}
	}
	if idx < 0 {
		return false
	}
	sites, ok := 0, true
	var scan func(f *ssa.Function)
	scan = func(f *ssa.Function) {
		if f == nil || f.Blocks == nil {
			return
		}
		allInstrs(f, func(in ssa.Instruction) {
			for _, op := range in.Operands(nil) {
				if *op == nil {
					continue
				}
				if g, isFn := (*op).(*ssa.Function); isFn && origin(g) == origin(fn) {
					ci, isCall := in.(ssa.CallInstruction)
					if !isCall || ci.Common().Value != *op {
						ok = false // address taken
					}
				}
			}
			ci, isCall := in.(ssa.CallInstruction)
			if !isCall || origin(staticCallee(ci.Common())) != origin(fn) {
				return
			}
			sites++
			args := ci.Common().Args
			if idx >= len(args) {
				ok = false
				return
			}
			switch a := args[idx].(type) {
			case *ssa.Alloc:
			case *ssa.Call:
				if cal := staticCallee(&a.Call); cal == nil || cal.Blocks == nil || !returnsFresh(cal, 0) {
					ok = false
				}
			default:
				ok = false
			}
		})
		for _, a := range f.AnonFuncs {
			scan(a)
		}
	}
	for _, mem := range fn.Pkg.Members {
		switch m := mem.(type) {
		case *ssa.Function:
			scan(m)
		case *ssa.Type:
			if n, isNamed := m.Type().(*types.Named); isNamed {
				for i := 0; i < n.NumMethods(); i++ {
					scan(fn.Prog.FuncValue(n.Method(i)))
				}
			}
		}
	}
	res := ok && sites > 0
	paramFreshMemo[p] = res
	return res
}

// ruleNoopGuard (an inconsistent-belief rule): a shortcut that leaves a
// link-editing function without writing anything, taken because a link already
// has some value (`if r.next == s { return nil }`, `if r.prev == r { return r }`),
// is justified only when the function would otherwise store exactly that value
// into exactly that link: the skipped write would change nothing.  A shortcut
// on any other equality skips writes that matter.
// ruleDetachReadsOld (R-DETACH-OLD-LINKS): Ring.Pop closes the ring it leaves behind by joining the receiver's
// former neighbours, so the receiver's own links must be read BEFORE they are overwritten with the self-links.  A
// read of r.prev or r.next that is dominated by a store to that field of r (direct, or through a helper that
// stores into its parameter's link, like link(a, b)) sees the receiver itself: the partner is never closed.
func ruleDetachReadsOld(c *Ctx) {
	c.rule("R-DETACH-OLD-LINKS", 0, "in ring.Pop the receiver's links are read before they are overwritten")
	P := c.P
	pop := P.Func("ring", "Ring", "Pop")
	nextF, prevF := P.Field("ring", "Ring", "next"), P.Field("ring", "Ring", "prev")
	if pop == nil || nextF == nil || prevF == nil || len(pop.Params) == 0 {
		return
	}
	r := ssa.Value(pop.Params[0])
	// helper summaries: which link fields of which parameter a package function stores
	type pf struct {
		p int
		f *types.Var
	}
	sum := map[*ssa.Function][]pf{}
	for _, h := range P.PkgFuncs("ring") {
		allInstrs(h, func(in ssa.Instruction) {
			st, ok := in.(*ssa.Store)
			if !ok {
				return
			}
			fa, ok := st.Addr.(*ssa.FieldAddr)
			if !ok {
				return
			}
			_, f := fieldVarOf(fa)
			if !sameField(f, nextF) && !sameField(f, prevF) {
				return
			}
			for i, p := range h.Params {
				if fa.X == ssa.Value(p) {
					sum[h] = append(sum[h], pf{i, f})
				}
			}
		})
	}
	type kill struct {
		in ssa.Instruction
		f  *types.Var
	}
	var kills []kill
	allInstrs(pop, func(in ssa.Instruction) {
		switch x := in.(type) {
		case *ssa.Store:
			if fa, ok := x.Addr.(*ssa.FieldAddr); ok && fa.X == r {
				if _, f := fieldVarOf(fa); sameField(f, nextF) || sameField(f, prevF) {
					kills = append(kills, kill{in, f})
				}
			}
		case *ssa.Call:
			if h := origin(staticCallee(&x.Call)); h != nil {
				for _, e := range sum[h] {
					if e.p < len(x.Call.Args) && x.Call.Args[e.p] == r {
						kills = append(kills, kill{in, e.f})
					}
				}
			}
		}
	})
	n := 0
	allInstrs(pop, func(in ssa.Instruction) {
		ld, ok := in.(*ssa.UnOp)
		if !ok || ld.Op != token.MUL {
			return
		}
		fa, ok := ld.X.(*ssa.FieldAddr)
		if !ok || fa.X != r {
			return
		}
		_, f := fieldVarOf(fa)
		if !sameField(f, nextF) && !sameField(f, prevF) {
			return
		}
		n++
		stale := token.NoPos
		for _, k := range kills {
			if sameField(k.f, f) && dominatesInstr(k.in, ld) {
				stale = k.in.Pos()
			}
		}
		c.sawFn(fnName(pop))
		c.judge(stale == token.NoPos, "R-DETACH-OLD-LINKS", fmt.Sprintf("%s:read of .%s #%d", fnName(pop), f.Name(), n), ld.Pos(), "read before the receiver's links are overwritten", fmt.Sprintf("Pop reads r.%s after it was overwritten at %s: what it gets is the receiver itself, not the former neighbour, so the ring left behind is not closed", f.Name(), P.pos(stale)))
	})
}

// ruleReverseCopy (R-REVERSE-COPY): Stack.Slice hands back the elements newest first: where it copies list[B] into
// out[A], both positions are linear in the round number t of the copying loop (a·len + k + s·t: loop variables with a
// constant step, range indices, len − 1 − i, a cursor read before or after it is advanced), the two mirror each other
// (A + B = len − 1 in every round), and t runs over 0 … len − 1 exactly (the ascending position is t itself and the
// loop test is equivalent to t < len).
func ruleReverseCopy(c *Ctx) {
	c.rule("R-REVERSE-COPY", 0, "in Stack.Slice the copy out[A] = list[B] has A + B = len(list) − 1 in every round and the rounds cover 0 … len − 1")
	fn := c.P.Func("stack", "Stack", "Slice")
	lf := firstSliceField(c.P, "stack", "Stack")
	if fn == nil || lf == nil {
		return
	}
	type lin struct {
		a, k, s int64
		ok      bool
	}
	var isLenList func(v ssa.Value, d int) bool
	isLenList = func(v ssa.Value, d int) bool {
		ln, ok := isBuiltinCall(v, "len")
		if !ok || d > 3 {
			return false
		}
		x := ln.Call.Args[0]
		if _, f := loadedField(x); f != nil && sameField(f, lf) {
			return true
		}
		// the copy itself: make([]T, len(list))
		if mk, ok := x.(*ssa.MakeSlice); ok {
			return isLenList(mk.Len, d+1)
		}
		return false
	}
	var form func(v ssa.Value, d int) lin
	form = func(v ssa.Value, d int) lin {
		if d > 6 {
			return lin{}
		}
		if isLenList(v, 0) {
			return lin{1, 0, 0, true}
		}
		if k, ok := constInt(v); ok {
			return lin{0, k, 0, true}
		}
		switch x := v.(type) {
		case *ssa.BinOp:
			if x.Op != token.ADD && x.Op != token.SUB {
				return lin{}
			}
			l, r := form(x.X, d+1), form(x.Y, d+1)
			if !l.ok || !r.ok {
				return lin{}
			}
			if x.Op == token.ADD {
				return lin{l.a + r.a, l.k + r.k, l.s + r.s, true}
			}
			return lin{l.a - r.a, l.k - r.k, l.s - r.s, true}
		case *ssa.Phi:
			// φ(init, φ ± step): init + step·t
			var r lin
			seenInit, seenStep := false, false
			for i, e := range x.Edges {
				if x.Block().Dominates(x.Block().Preds[i]) {
					bo, ok := e.(*ssa.BinOp)
					if !ok || bo.X != ssa.Value(x) || seenStep {
						return lin{}
					}
					k, ok := constInt(bo.Y)
					if !ok || (bo.Op != token.ADD && bo.Op != token.SUB) {
						return lin{}
					}
					if bo.Op == token.SUB {
						k = -k
					}
					r.s, seenStep = k, true
				} else {
					in := form(e, d+1)
					if !in.ok || in.s != 0 || seenInit {
						return lin{}
					}
					r.a, r.k, seenInit = in.a, in.k, true
				}
			}
			r.ok = seenInit && seenStep
			return r
		}
		return lin{}
	}
	n := 0
	allInstrs(fn, func(in ssa.Instruction) {
		st, ok := in.(*ssa.Store)
		if !ok {
			return
		}
		dst, ok := st.Addr.(*ssa.IndexAddr)
		if !ok {
			return
		}
		ld, ok := st.Val.(*ssa.UnOp)
		if !ok || ld.Op != token.MUL {
			return
		}
		src, ok := ld.X.(*ssa.IndexAddr)
		if !ok {
			return
		}
		if _, f := loadedField(src.X); f == nil || !sameField(f, lf) {
			return
		}
		n++
		c.sawFn(fnName(fn))
		key := fmt.Sprintf("%s:copy #%d", fnName(fn), n)
		A, B := form(dst.Index, 0), form(src.Index, 0)
		if !A.ok || !B.ok {
			c.undecided("R-REVERSE-COPY", key, st.Pos(), "a position of the copy is not linear in the round number (a·len + k + s·t)")
			return
		}
		var probs []string
		if A.s+B.s != 0 {
			probs = append(probs, fmt.Sprintf("the positions move by %+d and %+d per round: they do not stay mirror images of each other", A.s, B.s))
		}
		if A.a+B.a != 1 || A.k+B.k != -1 {
			probs = append(probs, fmt.Sprintf("in the first round the positions sum to %d·len%+d, not len − 1", A.a+B.a, A.k+B.k))
		}
		up := A
		if B.s > 0 {
			up = B
		}
		if up.s != 1 || up.a != 0 || up.k != 0 {
			probs = append(probs, fmt.Sprintf("the ascending position is %d·len%+d%+d·t (want: t itself, from 0 up by one)", up.a, up.k, up.s))
		}
		// the loop test, as a bound on t
		bounded := false
		for _, cm := range cmpsAt(st.Block()) {
			X, Y, op := form(cm.X, 0), form(cm.Y, 0), cm.Op
			if !X.ok || !Y.ok {
				continue
			}
			if X.s == 0 && Y.s != 0 {
				X, Y, op = Y, X, flipOp(op)
			}
			if X.s == 0 || Y.s != 0 {
				continue
			}
			// X.a·len + X.k + X.s·t  op  Y
			da, dk := Y.a-X.a, Y.k-X.k
			if X.s == -1 {
				da, dk, op = -da, -dk, flipOp(op)
			} else if X.s != 1 {
				continue
			}
			// t op da·len + dk
			switch {
			case (op == token.LSS || op == token.NEQ) && da == 1 && dk == 0, op == token.LEQ && da == 1 && dk == -1:
				bounded = true
			}
		}
		if !bounded {
			probs = append(probs, "the loop test does not hold the round number below len(list)")
		}
		c.judge(len(probs) == 0, "R-REVERSE-COPY", key, st.Pos(), "A + B = len − 1 in every round; rounds 0 … len − 1", strings.Join(probs, "; ")+": Slice does not return the elements newest first, each once")
	})
}

func ruleNoopGuard(c *Ctx, pkg string) {
	c.rule("R-NOOP-GUARD", 1, "a no-op exit taken on `x.f == v` skips a function that stores v into x.f: the equality tested is the one the skipped write would establish")
	for _, fn := range c.P.PkgFuncs(pkg) {
		if fn.Parent() != nil {
			continue
		}
		// only functions that edit links
		type st struct {
			base ssa.Value
			f    *types.Var
			val  ssa.Value
		}
		var stores []st
		allInstrs(fn, func(in ssa.Instruction) {
			if s, ok := in.(*ssa.Store); ok {
				if fa, ok := s.Addr.(*ssa.FieldAddr); ok {
					if _, isPtr := s.Val.Type().Underlying().(*types.Pointer); isPtr {
						_, f := fieldVarOf(fa)
						stores = append(stores, st{fa.X, f, s.Val})
					}
				}
			}
		})
		// stores made through a linking helper (link(a, b): a.next = b; b.prev = a) count at the call site
		allInstrs(fn, func(in ssa.Instruction) {
			call, ok := in.(*ssa.Call)
			if !ok {
				return
			}
			cal := origin(staticCallee(&call.Call))
			if cal == nil || cal.Blocks == nil || cal.Pkg != origin(fn).Pkg || cal == origin(fn) {
				return
			}
			allInstrs(cal, func(in2 ssa.Instruction) {
				s2, ok := in2.(*ssa.Store)
				if !ok {
					return
				}
				fa, ok := s2.Addr.(*ssa.FieldAddr)
				if !ok {
					return
				}
				bi, vi := -1, -1
				for i, p := range cal.Params {
					if fa.X == ssa.Value(p) {
						bi = i
					}
					if s2.Val == ssa.Value(p) {
						vi = i
					}
				}
				if bi < 0 || vi < 0 || bi >= len(call.Call.Args) || vi >= len(call.Call.Args) {
					return
				}
				if _, isPtr := s2.Val.Type().Underlying().(*types.Pointer); isPtr {
					_, f := fieldVarOf(fa)
					stores = append(stores, st{call.Call.Args[bi], f, call.Call.Args[vi]})
				}
			})
		})
		if len(stores) == 0 {
			continue
		}
		quiet := func(b *ssa.BasicBlock) bool {
			// a block that returns without writing or calling anything
			if _, ok := b.Instrs[len(b.Instrs)-1].(*ssa.Return); !ok {
				return false
			}
			for _, in := range b.Instrs {
				switch in.(type) {
				case *ssa.Store, *ssa.Call:
					return false
				}
			}
			return true
		}
		name := fnName(fn)
		n := 0
		for _, b := range fn.Blocks {
			iff, ok := b.Instrs[len(b.Instrs)-1].(*ssa.If)
			if !ok {
				continue
			}
			bo, ok := iff.Cond.(*ssa.BinOp)
			if !ok {
				continue
			}
			var exit *ssa.BasicBlock
			switch bo.Op {
			case token.EQL:
				exit = b.Succs[0]
			case token.NEQ:
				exit = b.Succs[1]
			default:
				continue
			}
			if !quiet(exit) || len(exit.Preds) == 0 {
				continue
			}
			// is this edge a shortcut (some other path to the same return does write)?  the return block of
			// Pop is also reached after the edits; the edge from the test skips them
			x, y := bo.X, bo.Y
			base, f := loadedField(x)
			if f == nil {
				base, f = loadedField(y)
				x, y = y, x
			}
			if f == nil {
				continue // r == s, r == nil: not a statement about a link
			}
			if _, isPtr := f.Type().Underlying().(*types.Pointer); !isPtr {
				continue
			}
			if isNilConst(y) {
				continue
			}
			n++
			c.sawFn(name)
			key := fmt.Sprintf("%s:no-op exit on .%s #%d", name, f.Name(), n)
			justified := false
			for _, s := range stores {
				if sameField(s.f, f) && sym(s.base) == sym(base) && (s.val == y || sym(s.val) == sym(y)) {
					justified = true
				}
			}
			c.judge(justified, "R-NOOP-GUARD", key, bo.Pos(), "the function stores that value into that link otherwise",
				fmt.Sprintf("the function returns without editing when %s.%s == %s, but it never stores %s into %s.%s: the equality tested is not the one its writes would establish, so cases that need the edit (or cases that do not) are misjudged", ksym(base), f.Name(), ksym(y), ksym(y), ksym(base), f.Name()))
		}
	}
}

// firstSliceField: the (only) slice-typed field of pkg.typ, through embedded structs.
func firstSliceField(P *Prog, pkg, typ string) *types.Var {
	for _, f := range P.FieldsDeep(pkg, typ) {
		if _, ok := f.Type().Underlying().(*types.Slice); ok {
			return f
		}
	}
	return nil
}

// ruleWrapChecked: Ring.At(n) answers nil when the walk comes back to its start.
// Every node it can return that was reached by following a link (a call of
// Next/Prev, a call through a function value, a load of a link field) must have
// been compared with the receiver: a shortcut that returns r.next unexamined
// returns r itself on a one-element ring, where the documented answer is nil.
func ruleWrapChecked(c *Ctx) {
	P := c.P
	c.rule("R-WRAP-CHECKED", 1, "every node Ring.At returns that was reached through a link has been compared with the receiver (the wrap test)")
	at := P.Func("ring", "Ring", "At")
	if at == nil {
		c.undecided("ANCHOR", "ring.(*Ring).At", 0, "not found")
		return
	}
	c.sawFn(fnName(at))
	n := 0
	var bad []string
	// check: every link-derived node fn returns has been compared with recv; a node handed back by a helper of the
	// package that was given recv (r.walk(n, step)) is judged inside that helper, against its own parameter
	var check func(fn *ssa.Function, recv ssa.Value, depth int)
	check = func(fn *ssa.Function, recv ssa.Value, depth int) {
		var comparedD func(v ssa.Value, d int) bool
		comparedD = func(v ssa.Value, d int) bool {
			for _, r := range referrersOf(v) {
				switch x := r.(type) {
				case *ssa.BinOp:
					if x.Op == token.EQL || x.Op == token.NEQ {
						if (x.X == v && x.Y == recv) || (x.Y == v && x.X == recv) {
							return true
						}
					}
				case *ssa.Phi:
					// the step is merged with its mirror image before the test (cur = cur.prev / cur.next; if cur == r)
					if d < 3 && comparedD(x, d+1) {
						return true
					}
				}
			}
			return false
		}
		seen := map[ssa.Value]bool{}
		var walk func(v ssa.Value)
		walk = func(v ssa.Value) {
			if seen[v] {
				return
			}
			seen[v] = true
			switch x := v.(type) {
			case *ssa.Phi:
				for _, e := range x.Edges {
					walk(e)
				}
			case *ssa.Const, *ssa.Parameter:
			case *ssa.Call, *ssa.UnOp:
				if call, ok := v.(*ssa.Call); ok && depth < 2 {
					if cal := staticCallee(&call.Call); cal != nil && cal.Blocks != nil && cal.Pkg == origin(at).Pkg {
						for j, a := range call.Call.Args {
							if a == recv && j < len(cal.Params) {
								c.sawFn(fnName(cal))
								check(cal, cal.Params[j], depth+1)
								return
							}
						}
					}
				}
				n++
				if !comparedD(v, 0) {
					bad = append(bad, fmt.Sprintf("%s at %s", ksym(v), P.pos(v.Pos())))
				}
			}
		}
		allInstrs(fn, func(in ssa.Instruction) {
			if ret, ok := in.(*ssa.Return); ok && len(ret.Results) == 1 {
				walk(ret.Results[0])
			}
		})
	}
	check(at, at.Params[0], 0)
	sort.Strings(bad)
	if n == 0 {
		c.undecided("R-WRAP-CHECKED", "ring.(*Ring).At:returned nodes", at.Pos(), "At returns no node reached through a link")
		return
	}
	c.judge(len(bad) == 0, "R-WRAP-CHECKED", "ring.(*Ring).At:returned nodes", at.Pos(), fmt.Sprintf("%d link-derived value(s), each compared with the receiver", n), fmt.Sprintf("At can return %v without the wrap test: on a ring where that link leads back to the receiver (a one-element ring) it answers the receiver itself instead of nil, so Peek reports an element that Len and every other offset deny", bad))
}

// ksymEq: the symbolic path of v equals want, or equals it up to the leading address-of that sym prints for field
// addresses.
func ksymEq(v ssa.Value, want string) bool {
	s := sym(v)
	return s == want || "&"+s == want || s == "&"+want
}
