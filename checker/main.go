// mdscheck: static verification of the creachadair/mds properties.
//
//	mdscheck -prop C09 -tier quick|thorough [-repo /repo] [-verif /verif]
//	mdscheck -prop C09 -explain <violations.json>
package main

import (
	"runtime/debug"
	"encoding/json"
	"flag"
	"fmt"
	"os"
	"path/filepath"
	"sort"
	"strconv"
	"time"
)

type propDef struct {
	ID       string
	Level    string
	Run      func(c *Ctx)
	Canaries map[string]string // short pkg path -> overlay source
	// CanaryGen builds the overlay from the names the current tree uses (needs a first load)
	CanaryGen func(P *Prog) map[string]string
	Thorough  func(c *Ctx) // extra rules in the thorough tier (may be nil)
}

var props = map[string]*propDef{}

func register(p *propDef) { props[p.ID] = p }

func main() {
	prop := flag.String("prop", "", "property id (C01..C20) or 'all'")
	tier := flag.String("tier", "quick", "quick|thorough")
	repo := flag.String("repo", "/repo", "repository root")
	verif := flag.String("verif", "", "verif dir (default: parent of the binary's dir)")
	explain := flag.String("explain", "", "print a violations file")
	evOut := flag.String("evidence", "", "evidence path override ('none' to skip)")
	noMut := flag.Bool("nomutants", false, "thorough: skip the mutant battery")
	list := flag.Bool("list", false, "list properties")
	flag.Parse()

	if *verif == "" {
		exe, _ := os.Executable()
		*verif = filepath.Dir(filepath.Dir(exe))
		if _, err := os.Stat(filepath.Join(*verif, "properties.jsonl")); err != nil {
			*verif = "/verif"
		}
	}
	if *list {
		ids := []string{}
		for id := range props {
			ids = append(ids, id)
		}
		sort.Strings(ids)
		for _, id := range ids {
			fmt.Println(id, props[id].Level)
		}
		return
	}
	if *explain != "" {
		b, err := os.ReadFile(*explain)
		if err != nil {
			fmt.Fprintln(os.Stderr, err)
			os.Exit(2)
		}
		var obs []Oblig
		if err := json.Unmarshal(b, &obs); err != nil {
			fmt.Fprintln(os.Stderr, err)
			os.Exit(2)
		}
		for _, o := range obs {
			fmt.Printf("%s: [%s] %s: %s (%s, config %s)\n", o.Pos, o.Rule, o.Construct, o.Msg, o.Verdict, o.Config)
		}
		fmt.Printf("To re-decide on the current tree: bin/mdscheck -prop %s -tier quick\n", *prop)
		return
	}
	pd := props[*prop]
	if pd == nil {
		fmt.Fprintf(os.Stderr, "unknown property %q\n", *prop)
		os.Exit(2)
	}
	if t := os.Getenv("VERIF_TIER"); t != "" && *tier == "" {
		*tier = t
	}
	seed := int64(0)
	if s := os.Getenv("VERIF_SEED"); s != "" {
		seed, _ = strconv.ParseInt(s, 10, 64)
	}
	start := time.Now()
	evPath := filepath.Join(*verif, "evidence", pd.ID+".json")
	if *evOut == "none" {
		evPath = ""
	} else if *evOut != "" {
		evPath = *evOut
	}

	code := runProp(pd, *repo, *verif, *tier, seed, evPath, start, *noMut)
	os.Exit(code)
}

func runProp(pd *propDef, repo, verif, tier string, seed int64, evPath string, start time.Time, noMut bool) int {
	fail := func(msg string) int {
		// A load failure is a failed check: nothing could be analysed.
		fmt.Printf("ERROR property=%s %s\n", pd.ID, msg)
		vpath := filepath.Join(os.TempDir(), pd.ID+".violations.json")
		if evPath != "" {
			vpath = evPath[:len(evPath)-len(".json")] + ".violations.json"
		}
		b, _ := json.MarshalIndent([]Oblig{{Rule: "META", Construct: "load", Pos: "-", Verdict: "undecided", Msg: msg}}, "", " ")
		os.MkdirAll(filepath.Dir(vpath), 0o755)
		os.WriteFile(vpath, b, 0o644)
		fmt.Printf("VIOLATION property=%s replay=%s\n", pd.ID, vpath)
		return 1
	}
	canaryErr := ""
	if pd.CanaryGen != nil {
		if P0, err0 := loadRepo(repo, "", nil); err0 == nil {
			pd.Canaries = pd.CanaryGen(P0)
		}
	}
	P, err := loadRepo(repo, "", pd.Canaries)
	if err != nil && len(pd.Canaries) > 0 {
		// The injected canary functions may no longer type-check against the
		// current tree (e.g. a field changed type).  Judge the real code without
		// them and report the lost self-test separately.
		if P2, err2 := loadRepo(repo, "", nil); err2 == nil {
			canaryErr = firstLines(err.Error(), 3)
			P, err = P2, nil
		}
	}
	if err != nil {
		return fail(err.Error())
	}
	if len(P.Pkgs) < 15 {
		return fail(fmt.Sprintf("only %d repository packages loaded; expected at least 15", len(P.Pkgs)))
	}
	c := newCtx(P, pd.ID, tier)
	c.Level = pd.Level
	if canaryErr != "" {
		defer func() {}()
	}
	func() {
		defer func() {
			if r := recover(); r != nil {
				if os.Getenv("MDS_PANIC") != "" {
					fmt.Fprintf(os.Stderr, "%s\n", debug.Stack())
				}
				c.undecided("META", "panic", 0, fmt.Sprint("checker panic: ", r))
			}
		}()
		pd.Run(c)
		if tier == "thorough" && pd.Thorough != nil {
			pd.Thorough(c)
		}
	}()
	if canaryErr != "" {
		// expectations cannot be met without the overlay: drop them, report once
		c.CanaryBad, c.CanaryOK = map[string]bool{}, map[string]bool{}
		c.undecided("CANARY", "overlay", 0, "the injected canary functions do not type-check against the current tree, so the rules ran without their positive examples: "+canaryErr)
	}
	if tier == "thorough" {
		// extra configurations: the same rules on other GOARCH loader environments
		var cfgs []string
		for _, arch := range []string{"386", "arm64"} {
			P2, err := loadRepo(repo, arch, pd.Canaries)
			if err != nil {
				c.undecided("META", "load-"+arch, 0, err.Error())
				continue
			}
			c2 := newCtx(P2, pd.ID, tier)
			func() {
				defer func() {
					if r := recover(); r != nil {
						c2.undecided("META", "panic-"+arch, 0, fmt.Sprint("checker panic: ", r))
					}
				}()
				pd.Run(c2)
				if pd.Thorough != nil {
					pd.Thorough(c2)
				}
			}()
			// fold: only non-ok obligations of the extra config matter (ok ones duplicate)
			nbad := 0
			for _, o := range c2.Obligs {
				if o.Verdict != "ok" {
					// same key as default config: skip if the default config already reports it
					dup := false
					for _, o1 := range c.Obligs {
						if o1.key() == o.key() && o1.Verdict == o.Verdict {
							dup = true
						}
					}
					if !dup {
						o.Construct = o.Construct + "@" + arch
						c.Obligs = append(c.Obligs, o)
						nbad++
					}
				}
			}
			cfgs = append(cfgs, fmt.Sprintf("%s: %d obligations, %d differing from default", arch, len(c2.Obligs), nbad))
		}
		c.Extra["extra_configs"] = cfgs
		if !noMut {
			runMutants(c, pd, repo, verif)
		}
	}
	if os.Getenv("MDS_DUMP") != "" {
		for _, o := range c.Obligs {
			fmt.Printf("  %-9s %s/%s @%s %s\n", o.Verdict, o.Rule, o.Construct, o.Pos, o.Msg)
		}
	}
	return c.finish(verif, time.Since(start).Seconds(), seed, evPath, false)
}
