package main

// C01 — stree.Tree, C03 — stree.Cursor, C04 — omap.Map.
// R-CLONE-FRESH, R-YIELD, R-ORIENT, R-GUARD(valid), R-GUARD(nil).

import (
	"fmt"
	"go/token"
	"go/types"
	"strings"

	"golang.org/x/tools/go/ssa"
)

func init() {
	register(&propDef{ID: "C01", Level: "other", Run: runC01})
	register(&propDef{ID: "C03", Level: "other", Run: runC03})
	register(&propDef{ID: "C04", Level: "other", Run: runC04})
}

type streeModel struct {
	P                   *Prog
	nodeT, treeT, curT  *types.Named
	leftF, rightF, keyF *types.Var // node.left, node.right, node.X
	pathF               *types.Var // Cursor.path
	rootF               *types.Var
	small, large        *types.Var // orientation derived from inorder
	inorder             *ssa.Function
	validWitnessBusy    map[*ssa.Function]bool
}

type childAccess struct {
	in    ssa.Instruction
	fa    *ssa.FieldAddr
	fld   *types.Var
	store bool
}

// childAccesses lists accesses to node.left / node.right in dominator-tree preorder.
func (m *streeModel) childAccesses(fn *ssa.Function) []childAccess {
	var out []childAccess
	var visit func(b *ssa.BasicBlock)
	visit = func(b *ssa.BasicBlock) {
		for _, in := range b.Instrs {
			fa, ok := in.(*ssa.FieldAddr)
			if !ok || !isNamedOrigin(fa.X.Type(), m.nodeT) {
				continue
			}
			_, f := fieldVarOf(fa)
			if !sameField(f, m.leftF) && !sameField(f, m.rightF) {
				continue
			}
			st := false
			for _, r := range referrersOf(fa) {
				if s, ok := r.(*ssa.Store); ok && s.Addr == ssa.Value(fa) {
					st = true
				}
			}
			out = append(out, childAccess{in, fa, f, st})
		}
		for _, d := range b.Dominees() {
			visit(d)
		}
	}
	// closures too: a loop written as range-over-func (for … := range slices.Backward(path)) has its body there
	for _, f := range withClosures(fn) {
		if len(f.Blocks) > 0 {
			visit(f.Blocks[0])
		}
	}
	return out
}

func (m *streeModel) side(f *types.Var) string {
	if sameField(f, m.small) {
		return "small"
	}
	return "large"
}

// signature: distinct sides of LOADED child fields in first-occurrence order.
func (m *streeModel) loadSig(fn *ssa.Function) []string {
	var sig []string
	seen := map[string]bool{}
	for _, a := range m.childAccesses(fn) {
		if a.store {
			continue
		}
		s := m.side(a.fld)
		if !seen[s] {
			seen[s] = true
			sig = append(sig, s)
		}
	}
	return sig
}

func buildStreeModel(c *Ctx) *streeModel {
	P := c.P
	m := &streeModel{P: P}
	m.nodeT, m.treeT, m.curT = P.Named("stree", "node"), P.Named("stree", "Tree"), P.Named("stree", "Cursor")
	m.leftF, m.rightF, m.keyF = P.Field("stree", "node", "left"), P.Field("stree", "node", "right"), P.Field("stree", "node", "X")
	m.pathF, m.rootF = P.Field("stree", "Cursor", "path"), P.Field("stree", "Tree", "root")
	m.inorder = P.Func("stree", "node", "inorder")
	if m.nodeT == nil || m.treeT == nil || m.curT == nil || m.leftF == nil || m.rightF == nil || m.keyF == nil || m.pathF == nil || m.rootF == nil || m.inorder == nil {
		c.undecided("ANCHOR", "stree node/Tree/Cursor fields, node.inorder", 0, "anchor not found")
		return nil
	}
	// orientation: in the ascending in-order walk, the child visited before the
	// node's own key is yielded is the SMALL side.
	var yield *ssa.Call
	ys := yieldValues(m.inorder)
	allInstrs(m.inorder, func(in ssa.Instruction) {
		if call, ok := in.(*ssa.Call); ok && ys[call.Call.Value] {
			yield = call
		}
	})
	if yield == nil {
		c.undecided("R-ORIENT", "stree.(*node).inorder:yield", m.inorder.Pos(), "the in-order walk does not call its yield function")
		return nil
	}
	for _, a := range m.childAccesses(m.inorder) {
		if a.store {
			continue
		}
		if dominatesInstr(a.in, yield) && m.small == nil {
			m.small = a.fld
		}
		if dominatesInstr(yield, a.in) && m.large == nil {
			m.large = a.fld
		}
	}
	if m.small == nil || m.large == nil || sameField(m.small, m.large) {
		c.undecided("R-ORIENT", "stree.(*node).inorder:orientation", m.inorder.Pos(), "the in-order walk does not visit one child before and the other after the node")
		return nil
	}
	c.Extra["orientation"] = fmt.Sprintf("ascending in-order walk visits .%s before the node and .%s after: smaller keys live under .%s", m.small.Name(), m.large.Name(), m.small.Name())
	return m
}

// ---- R-ORIENT (a): key descents
func (m *streeModel) ruleDescents(c *Ctx) {
	P := c.P
	type target struct{ recv, name string }
	for _, t := range []target{{"Tree", "insert"}, {"node", "remove"}, {"Tree", "Get"}, {"node", "pathTo"}} {
		fn := P.Func("stree", t.recv, t.name)
		if fn == nil {
			c.undecided("ANCHOR", "stree."+t.name, 0, "not found")
			continue
		}
		name := fnName(fn)
		c.sawFn(name)
		// the comparison of the descent: a dynamic two-argument call whose second argument is the key of a
		// node and whose first argument is a parameter — in the function itself or in a helper it hands the
		// search to (Get → node.find)
		var cmpCall *ssa.Call
		var host *ssa.Function
		for _, h := range buildCallScope(fn).fns {
			if cmpCall != nil {
				break
			}
			allInstrs(h, func(in ssa.Instruction) {
				call, ok := in.(*ssa.Call)
				if !ok || cmpCall != nil || len(call.Call.Args) != 2 || call.Call.StaticCallee() != nil {
					return
				}
				if _, f := loadedField(call.Call.Args[1]); f != nil && sameField(f, m.keyF) {
					if _, isParam := call.Call.Args[0].(*ssa.Parameter); isParam {
						cmpCall, host = call, h
					}
				}
			})
		}
		if cmpCall == nil {
			c.undecided("R-ORIENT", name+":comparison", fn.Pos(), "no comparison compare(key, node.X) found")
			continue
		}
		nodeVal, _ := loadedField(cmpCall.Call.Args[1])
		// descent evidence: the child link of the compared node is stored (the modified subtree is hung
		// back there), or its value becomes the node of the next step — an argument of a recursive call,
		// or the next value of the cursor the compared node was read from
		isDescent := func(a childAccess) bool {
			if a.store {
				return true
			}
			seen := map[ssa.Value]bool{}
			found := false
			var walk func(v ssa.Value, d int)
			walk = func(v ssa.Value, d int) {
				if seen[v] || found || d > 4 {
					return
				}
				seen[v] = true
				if v == nodeVal {
					found = true
					return
				}
				for _, r := range referrersOf(v) {
					switch x := r.(type) {
					case *ssa.Phi:
						walk(x, d+1)
					case *ssa.Call:
						if cal := staticCallee(&x.Call); cal != nil && origin(cal) == origin(host) {
							for _, arg := range x.Call.Args {
								if arg == v {
									found = true
								}
							}
						}
					}
				}
			}
			for _, r := range referrersOf(a.fa) {
				if ld, ok := r.(*ssa.UnOp); ok && ld.Op == token.MUL {
					walk(ld, 0)
				}
			}
			return found
		}
		// the sign of the comparison known at a block: subset of {neg, zero, pos} as bits 1, 2, 4
		var extraCmps []Cmp
		signAt := func(b *ssa.BasicBlock) int {
			s := 7
			for _, cm := range append(cmpsAt(b), extraCmps...) {
				x, y, op := cm.X, cm.Y, cm.Op
				if y == ssa.Value(cmpCall) {
					x, y = y, x
					switch op {
					case token.LSS:
						op = token.GTR
					case token.LEQ:
						op = token.GEQ
					case token.GTR:
						op = token.LSS
					case token.GEQ:
						op = token.LEQ
					}
				}
				k, isK := constInt(y)
				if x != ssa.Value(cmpCall) || !isK {
					continue
				}
				m := 0
				for bit, v := range map[int]int64{1: -1, 2: 0, 4: 1} {
					// representative values: a negative, zero, a positive; ±1 stand for their whole class only
					// for the sign-invariant tests R-CMP-SIGN admits — other tests are that rule's business
					hold := false
					switch op {
					case token.LSS:
						hold = v < k
					case token.LEQ:
						hold = v <= k
					case token.GTR:
						hold = v > k
					case token.GEQ:
						hold = v >= k
					case token.EQL:
						hold = v == k
					case token.NEQ:
						hold = v != k
					}
					if hold {
						m |= bit
					}
				}
				s &= m
			}
			return s
		}
		judged := map[string]bool{}
		for _, a := range m.childAccesses(host) {
			if a.fa.X != nodeVal || !isDescent(a) {
				continue
			}
			s := signAt(a.in.Block())
			var want *types.Var
			var desc string
			switch {
			case s&4 == 0 && s&1 != 0:
				want, desc = m.small, "key < node"
			case s&1 == 0 && s&4 != 0:
				want, desc = m.large, "key > node"
			default:
				continue // not decided by the sign of the comparison here
			}
			key := fmt.Sprintf("%s:%s", name, desc)
			if judged[key] && sameField(a.fld, want) {
				continue
			}
			judged[key] = true
			c.judge(sameField(a.fld, want), "R-ORIENT", key, a.in.Pos(), "descends into ."+a.fld.Name(), fmt.Sprintf("when %s the descent goes into .%s, but the in-order walk puts smaller keys under .%s: the search and the iteration disagree about the order", desc, a.fld.Name(), m.small.Name()))
		}
		// a pointer that selects the link (child := &n.left; if cmp > 0 { child = &n.right }) and is then
		// descended through (*child handed to the recursion, or stored): each incoming edge is a descent
		// into its link, under the sign known on that edge
		allInstrs(host, func(in ssa.Instruction) {
			ph, ok := in.(*ssa.Phi)
			if !ok {
				return
			}
			fas := make([]*ssa.FieldAddr, len(ph.Edges))
			nFa, iterative := 0, false
			for i, e := range ph.Edges {
				fa, ok := e.(*ssa.FieldAddr)
				if !ok || fa.X != nodeVal {
					// the link the walk starts from (a cell holding the root): not a descent
					if _, isCell := e.(*ssa.Alloc); isCell {
						continue
					}
					return
				}
				if _, f := fieldVarOf(fa); !sameField(f, m.leftF) && !sameField(f, m.rightF) {
					return
				}
				fas[i] = fa
				nFa++
			}
			if nFa == 0 {
				return
			}
			used := false
			for _, r := range referrersOf(ph) {
				switch x := r.(type) {
				case *ssa.Store:
					if x.Addr == ssa.Value(ph) {
						used = true
					}
				case *ssa.UnOp:
					// an iterative walk: the node reached through the link is the next node compared
					if ssa.Value(x) == nodeVal {
						used, iterative = true, true
					}
					for _, r2 := range referrersOf(x) {
						if p2, ok := r2.(*ssa.Phi); ok && ssa.Value(p2) == nodeVal {
							used, iterative = true, true
						}
					}
					for _, r2 := range referrersOf(x) {
						if call, ok := r2.(*ssa.Call); ok {
							if cal := staticCallee(&call.Call); cal != nil && origin(cal) == origin(host) {
								used = true
							}
						}
					}
				}
			}
			if !used {
				return
			}
			_ = iterative
			for i, fa := range fas {
				if fa == nil {
					continue
				}
				pred := ph.Block().Preds[i]
				extraCmps = nil
				if iff, ok := pred.Instrs[len(pred.Instrs)-1].(*ssa.If); ok {
					idx := 0
					if pred.Succs[1] == ph.Block() {
						idx = 1
					}
					if cm, ok := edgeCmp(iff, idx); ok {
						extraCmps = []Cmp{cm}
					}
				}
				s := signAt(pred)
				extraCmps = nil
				_, fld := fieldVarOf(fa)
				var want *types.Var
				var desc string
				switch {
				case s&4 == 0 && s&1 != 0:
					want, desc = m.small, "key < node"
				case s&1 == 0 && s&4 != 0:
					want, desc = m.large, "key > node"
				default:
					continue
				}
				key := fmt.Sprintf("%s:%s", name, desc)
				if judged[key] && sameField(fld, want) {
					continue
				}
				judged[key] = true
				c.judge(sameField(fld, want), "R-ORIENT", key, fa.Pos(), "descends into ."+fld.Name()+" (through a link pointer)", fmt.Sprintf("when %s the descent goes into .%s, but the in-order walk puts smaller keys under .%s: the search and the iteration disagree about the order", desc, fld.Name(), m.small.Name()))
			}
		})
		for _, desc := range []string{"key < node", "key > node"} {
			key := fmt.Sprintf("%s:%s", name, desc)
			if !judged[key] {
				c.undecided("R-ORIENT", key, cmpCall.Pos(), "no descent into a child of the compared node under this sign of the comparison")
			}
		}
	}
}

// ---- R-ORIENT (b): navigation table
func (m *streeModel) ruleNavTable(c *Ctx, rows [][3]string) {
	P := c.P
	for _, r := range rows {
		recv, fname, want := r[0], r[1], r[2]
		fn := P.Func("stree", recv, fname)
		if fn == nil && fname == "popMinRight" {
			// by role; when it takes the link to start from (popMin(&n.right)) the first side is chosen at the
			// call site: the argument must be the address of the large-side link, and inside only the small side
			// is followed before the removed node's large side is read
			if fn = m.successorPop(); fn != nil && len(fn.Params) == 1 {
				if pt, ok := fn.Params[0].Type().Underlying().(*types.Pointer); ok {
					if _, isPP := pt.Elem().Underlying().(*types.Pointer); isPP {
						okSite := false
						if rm := P.Func("stree", "node", "remove"); rm != nil {
							allInstrs(rm, func(in ssa.Instruction) {
								if call, ok := in.(*ssa.Call); ok && origin(staticCallee(&call.Call)) == fn && len(call.Call.Args) == 1 {
									if fa, ok := call.Call.Args[0].(*ssa.FieldAddr); ok {
										if _, f := fieldVarOf(fa); sameField(f, m.large) {
											okSite = true
										}
									}
								}
							})
						}
						name := fnName(fn)
						c.sawFn(name)
						got := strings.Join(m.loadSig(fn), ",")
						c.judge(okSite && got == "small,large", "R-ORIENT", name+":sides", fn.Pos(), "starts from the large-side link (call site), follows the small side, re-attaches the large side", fmt.Sprintf("the successor is looked for from a link other than the large side, or the walk reads sides [%s] where [small,large] is needed", got))
						continue
					}
				}
			}
		}
		if fn == nil && recv == "node" && fname != "" {
			// a private walker folded into the exported method that used it: the walk is in that method's closure
			if tm := P.Func("stree", "Tree", strings.ToUpper(fname[:1])+fname[1:]); tm != nil {
				for _, cl := range withClosures(tm) {
					if len(m.childAccesses(cl)) > 0 {
						fn = cl
					}
				}
			}
		}
		if fn == nil {
			c.undecided("ANCHOR", "stree."+fname, 0, "not found")
			continue
		}
		name := fnName(fn)
		c.sawFn(name)
		got := strings.Join(m.loadSig(fn), ",")
		pos := fn.Pos()
		if acc := m.childAccesses(fn); len(acc) > 0 {
			pos = acc[0].in.Pos()
		} else {
			// the walk lives in a helper the function hands the root to (t.root.leftmost()): judge the helper
			var hs []*ssa.Function
			allInstrs(fn, func(in ssa.Instruction) {
				if v, ok := in.(ssa.Value); ok {
					if h := m.nodeDelegate(v); h != nil {
						hs = append(hs, h)
					}
				}
			})
			if len(hs) == 0 {
				// … or in a method of the package it calls (t.Root().Min().Key()): the one callee that walks
				seenH := map[*ssa.Function]bool{}
				allInstrs(fn, func(in ssa.Instruction) {
					if ci, ok := in.(ssa.CallInstruction); ok {
						if cal := staticCallee(ci.Common()); cal != nil && cal.Blocks != nil && cal.Pkg == origin(fn).Pkg && !seenH[cal] && len(m.loadSig(cal)) > 0 {
							seenH[cal] = true
							hs = append(hs, cal)
						}
					}
				})
			}
			if len(hs) == 1 {
				got = strings.Join(m.loadSig(hs[0]), ",")
				c.sawFn(fnName(hs[0]))
				if acc := m.childAccesses(hs[0]); len(acc) > 0 {
					pos = acc[0].in.Pos()
				}
			}
		}
		c.judge(got == want, "R-ORIENT", name+":sides", pos, "reads child sides in the order ["+got+"]", fmt.Sprintf("reads child sides [%s] (small = .%s, large = .%s), binary-search-tree navigation requires [%s]", got, m.small.Name(), m.large.Name(), want))
	}
}

// ---- R-CLONE-FRESH (i, ii)
func (m *streeModel) ruleCloneTree(c *Ctx) {
	P := c.P
	nclone := P.Func("stree", "node", "clone")
	tclone := P.Func("stree", "Tree", "Clone")
	if nclone == nil || tclone == nil {
		c.undecided("ANCHOR", "stree clone functions", 0, "not found")
		return
	}
	c.sawFn(fnName(nclone))
	c.sawFn(fnName(tclone))
	// (ii) every node allocated in clone has both child fields initialised from
	// clone calls / nil / other fresh nodes; every non-nil return is such an allocation.
	freshNode := func(v ssa.Value) bool { return false }
	var isFresh func(v ssa.Value, seen map[ssa.Value]bool) (bool, string)
	isFresh = func(v ssa.Value, seen map[ssa.Value]bool) (bool, string) {
		if seen[v] {
			return true, ""
		}
		seen[v] = true
		switch x := v.(type) {
		case *ssa.Const:
			return x.Value == nil, "non-nil constant"
		case *ssa.Alloc:
			return x.Heap && isNamedOrigin(x.Type(), m.nodeT), "allocation of another type"
		case *ssa.Call:
			if staticCallee(&x.Call) == nclone {
				return true, ""
			}
			return false, "result of " + x.Call.Value.Name()
		case *ssa.Phi:
			for _, e := range x.Edges {
				if ok, why := isFresh(e, seen); !ok {
					return false, why
				}
			}
			return true, ""
		case *ssa.UnOp:
			if x.Op == token.MUL {
				// load of a child field of a fresh node is fresh if that field only ever receives fresh values — judged at the stores
				if fa, ok := x.X.(*ssa.FieldAddr); ok {
					if al, ok := fa.X.(*ssa.Alloc); ok && al.Heap {
						return true, ""
					}
				}
				return false, "a pointer loaded from the original tree (" + sym(x) + ")"
			}
		case *ssa.Parameter:
			return false, "the receiver itself"
		}
		return false, fmt.Sprintf("%T %s", v, sym(v))
	}
	_ = freshNode
	n := 0
	allInstrs(nclone, func(in ssa.Instruction) {
		switch x := in.(type) {
		case *ssa.Store:
			fa, ok := x.Addr.(*ssa.FieldAddr)
			if !ok || !isNamedOrigin(fa.X.Type(), m.nodeT) {
				return
			}
			_, f := fieldVarOf(fa)
			if !sameField(f, m.leftF) && !sameField(f, m.rightF) {
				return
			}
			n++
			key := fmt.Sprintf("stree.(*node).clone:%s.%s=", ksym(fa.X), f.Name())
			// the stored-into node must itself be fresh (not a node of the original tree)
			okBase, whyB := isFresh(fa.X, map[ssa.Value]bool{})
			ok, why := isFresh(x.Val, map[ssa.Value]bool{})
			switch {
			case !okBase:
				c.bad("R-CLONE-FRESH", key, x.Pos(), "clone writes a child link of a node that is not its own fresh copy ("+whyB+"): the original tree is modified")
			case !ok:
				c.bad("R-CLONE-FRESH", key, x.Pos(), "a copied node's ."+f.Name()+" is set to "+why+", not to a copy: clone and original share that subtree")
			default:
				c.ok("R-CLONE-FRESH", key, x.Pos(), "child link of the copy is a copy")
			}
		case *ssa.Return:
			ok, why := isFresh(x.Results[0], map[ssa.Value]bool{})
			c.judge(ok, "R-CLONE-FRESH", "stree.(*node).clone:return "+ksym(x.Results[0]), x.Pos(), "returns nil or a fresh copy", "clone returns "+why)
		}
	})
	// every fresh node has BOTH child fields initialised
	allInstrs(nclone, func(in ssa.Instruction) {
		al, ok := in.(*ssa.Alloc)
		if !ok || !al.Heap || !isNamedOrigin(al.Type(), m.nodeT) {
			return
		}
		got := map[string]bool{}
		for _, r := range referrersOf(al) {
			if fa, ok := r.(*ssa.FieldAddr); ok {
				_, f := fieldVarOf(fa)
				for _, r2 := range referrersOf(fa) {
					if _, ok := r2.(*ssa.Store); ok {
						got[f.Name()] = true
					}
				}
			}
		}
		c.judge(got[m.leftF.Name()] && got[m.rightF.Name()], "R-CLONE-FRESH", "stree.(*node).clone:copy has both children", al.Pos(), "both child links initialised", "a copied node leaves a child link unset: that subtree is dropped from the clone")
	})
	if n == 0 {
		c.undecided("R-CLONE-FRESH", "stree.(*node).clone", nclone.Pos(), "no child-link initialisation found")
	}
	// (i) Tree.Clone: the returned tree's root is the result of node.clone
	okRoot := false
	var why string
	allInstrs(tclone, func(in ssa.Instruction) {
		ret, ok := in.(*ssa.Return)
		if !ok {
			return
		}
		al, ok := ret.Results[0].(*ssa.Alloc)
		if !ok {
			why = "Clone does not return a fresh Tree"
			return
		}
		for _, r := range referrersOf(al) {
			fa, ok := r.(*ssa.FieldAddr)
			if !ok {
				continue
			}
			if _, f := fieldVarOf(fa); !sameField(f, m.rootF) {
				continue
			}
			for _, r2 := range referrersOf(fa) {
				if st, ok := r2.(*ssa.Store); ok && dominatesInstr(st, ret) {
					if call, ok := st.Val.(*ssa.Call); ok && staticCallee(&call.Call) == nclone {
						if _, f := loadedField(call.Call.Args[0]); f != nil && sameField(f, m.rootF) {
							okRoot = true
						}
					} else {
						why = "the clone's root is set to " + sym(st.Val) + ", not to a deep copy of the original root"
					}
				}
			}
		}
		if !okRoot && why == "" {
			why = "the clone keeps the original's root pointer (shallow copy)"
		}
	})
	c.judge(okRoot, "R-CLONE-FRESH", "stree.(*Tree).Clone:root", tclone.Pos(), "root of the clone is node.clone(original root)", why)
}

func runC01(c *Ctx) {
	P := c.P
	c.Explanation = "Decides structural clauses: (R-CLONE-FRESH) Tree.Clone's root is a deep copy — every node allocated by node.clone has both child links set to copies (clone results, nil or other fresh nodes), never to a pointer of the original, and clone never writes the original; so no node is shared and later changes to either tree cannot affect the other. (R-YIELD) inorder/inorderAfter/Inorder/InorderAfter stop calling yield once it returned false and forward the stop flag. (R-ORIENT) the side on which smaller keys live is read from the ascending in-order walk (the child visited before the node is yielded); all four key descents (insert, remove, Get, pathTo) go to that side when key < node and to the other when key > node; Min/Max/popMinRight/inorderAfter and the bulk loader follow the same orientation. (R-CMP-SIGN) every test of the comparison's result against a constant is a pure sign test; (R-REBUILD-USED) the subtree returned by the in-place rebuild is returned or stored in a link, never dropped. (R-LINK-STALE) a child link copied into another link was read after the last call that could rewrite it; (R-NIL-DROP) a link of a retained node is set to nil only when the old child is known nil, childless or re-attached; (R-READONLY) lookups, iteration, cursor construction and cloning store to no field of Tree or node; the cached count handed to the rebuild is final. Does NOT decide that contents/return values equal a reference set over histories, size/max bookkeeping, the DSW rebuild, or de-duplication in New."
	c.rule("R-CLONE-FRESH", 5, "clone's copies link only to copies; Tree.Clone's root is node.clone(root)")
	c.rule("R-YIELD", 4, "in-order iteration is stoppable")
	c.rule("R-ORIENT", 12, "descents and one-sided navigation agree with the orientation of the in-order walk")
	c.rule("R-RELINK", 1, "popMinRight re-attaches the removed node's large-side subtree where the removed node was linked")
	c.rule("R-ROOT-FLOW", 5, "the root stored by Add/Replace/Remove derives from the result of the modification (through rewrite at most), on every path where something changed")
	c.rule("R-NEW-DEDUP", 2, "New sorts (or checks sortedness) and de-duplicates on every path to the bulk loader")
	c.rule("R-SIZE-PAIR", 2, "the cached element count changes by +1 under a successful insertion, −1 under a successful removal, or to 0 with the root dropped")
	c.rule("R-CMP-SIGN", 2, "every test of the comparison function's result against a constant is a test of its sign only")
	ruleCmpSign(c, "R-CMP-SIGN", P.PkgFuncs("stree"))
	m := buildStreeModel(c)
	if m == nil {
		return
	}
	m.ruleCloneTree(c)
	c.rule("R-REBUILD-USED", 2, "the subtree returned by the in-place rebuild replaces the subtree that was handed to it (returned to the caller or stored in a link), never dropped")
	m.ruleRebuildUsed(c)
	m.ruleRebuildEmpty(c)
	m.ruleLinkEdits(c)
	m.ruleReadOnly(c)
	m.ruleTreeAccessors(c)
	m.ruleExtremeLeaf(c)
	ruleEmptyAgreesLen(c, "stree", "Tree")
	m.ruleSuccessorLeaf(c)
	ruleFractionRange(c)
	var yf []*ssa.Function
	ruleSizeGuard(c, "stree")
	for _, t := range [][2]string{{"node", "inorder"}, {"node", "inorderAfter"}, {"Tree", "Inorder"}, {"Tree", "InorderAfter"}} {
		fn := P.Func("stree", t[0], t[1])
		if fn == nil && t[0] == "node" {
			continue // a private walker folded into the method that used it: the method's own body and closures are read
		}
		if fn == nil {
			c.undecided("ANCHOR", "stree."+t[1], 0, "not found")
			return
		}
		yf = append(yf, withClosures(fn)...)
	}
	ruleYield(c, yf)
	m.ruleDescents(c)
	m.ruleRelink(c)
	m.ruleRootFlow(c)
	m.ruleSizePair(c)
	m.ruleNewDedup(c)
	m.ruleNavTable(c, [][3]string{
		{"Tree", "Min", "small"}, {"Tree", "Max", "large"},
		{"", "popMinRight", "large,small"},
		{"node", "inorderAfter", "large"},
		{"node", "inorder", "small,large"},
	})
	// bulk loader: lower half under small, upper half under large
	if ex := m.bulkLoader(); ex != nil {
		c.sawFn(fnName(ex))
		for _, a := range m.childAccesses(ex) {
			if !a.store {
				continue
			}
			var val ssa.Value
			for _, r := range referrersOf(a.fa) {
				if st, ok := r.(*ssa.Store); ok {
					val = st.Val
				}
			}
			key := "stree bulk loader:." + a.fld.Name() + " half"
			call, ok := val.(*ssa.Call)
			// the same halves given as index bounds: build(nodes, lo, mid) / build(nodes, mid+1, hi), mid the index
			// of the node whose children are being set
			if ok && len(call.Call.Args) == 3 && len(ex.Params) == 3 && origin(staticCallee(&call.Call)) == origin(ex) && call.Call.Args[0] == ssa.Value(ex.Params[0]) {
				var rootIdx ssa.Value
				if ld, isLd := a.fa.X.(*ssa.UnOp); isLd && ld.Op == token.MUL {
					if ia, isIA := ld.X.(*ssa.IndexAddr); isIA && ia.X == ssa.Value(ex.Params[0]) {
						rootIdx = ia.Index
					}
				}
				if rootIdx != nil {
					lo, hi := call.Call.Args[1], call.Call.Args[2]
					lower := lo == ssa.Value(ex.Params[1]) && hi == rootIdx
					upper := false
					if bo, isB := lo.(*ssa.BinOp); isB && bo.Op == token.ADD && bo.X == rootIdx && isConstInt(bo.Y, 1) && hi == ssa.Value(ex.Params[2]) {
						upper = true
					}
					if lower || upper {
						want := lower
						if m.side(a.fld) == "large" {
							want = upper
						}
						c.judge(want, "R-ORIENT", key, a.in.Pos(), "sorted lower half under the small side, upper half under the large side", "the bulk loader hangs the "+map[bool]string{true: "lower", false: "upper"}[lower]+" half of the sorted keys under ."+a.fld.Name()+", against the in-order orientation")
						continue
					}
				}
			}
			if !ok || len(call.Call.Args) != 1 {
				c.undecided("R-ORIENT", key, a.in.Pos(), "child is not built by a recursive call on a sub-slice")
				continue
			}
			sl, ok := call.Call.Args[0].(*ssa.Slice)
			if !ok {
				c.undecided("R-ORIENT", key, a.in.Pos(), "recursive call not on a sub-slice")
				continue
			}
			lower := sl.Low == nil && sl.High != nil
			upper := sl.Low != nil && sl.High == nil
			want := lower
			if m.side(a.fld) == "large" {
				want = upper
			}
			c.judge(want, "R-ORIENT", key, a.in.Pos(), "sorted lower half under the small side, upper half under the large side", "the bulk loader hangs the "+map[bool]string{true: "lower", false: "upper"}[lower]+" half of the sorted keys under ."+a.fld.Name()+", against the in-order orientation")
		}
	}
}

// ---------------------------------------------------------------------------

// validFactAt: the receiver cursor cur is known valid at block b.
func (m *streeModel) validFactAt(b *ssa.BasicBlock, cur ssa.Value) bool {
	for call, truth := range callFactsAt(b) {
		if cal := staticCallee(&call.Call); cal != nil && cal.Name() == "Valid" && truth && len(call.Call.Args) == 1 && call.Call.Args[0] == cur {
			return true
		}
	}
	// a node accessor that answers non-nil only for a valid cursor (cur := c.top(); cur != nil): its non-nil answer
	// is the validity test
	for _, cm := range cmpsAt(b) {
		if cm.Op != token.NEQ {
			continue
		}
		for _, pr := range [][2]ssa.Value{{cm.X, cm.Y}, {cm.Y, cm.X}} {
			call, ok := pr[0].(*ssa.Call)
			if !ok || !isNilConst(pr[1]) || len(call.Call.Args) != 1 || call.Call.Args[0] != cur {
				continue
			}
			cal := origin(staticCallee(&call.Call))
			if cal == nil || cal.Blocks == nil || len(cal.Params) != 1 || m.validWitnessBusy[cal] {
				continue
			}
			if m.validWitnessBusy == nil {
				m.validWitnessBusy = map[*ssa.Function]bool{}
			}
			m.validWitnessBusy[cal] = true
			witness := true
			allInstrs(cal, func(in ssa.Instruction) {
				ret, ok := in.(*ssa.Return)
				if !ok || len(ret.Results) != 1 {
					return
				}
				if isNilConst(ret.Results[0]) || m.validFactAt(ret.Block(), cal.Params[0]) {
					return
				}
				witness = false
			})
			delete(m.validWitnessBusy, cal)
			if witness {
				return true
			}
		}
	}
	// inline: c != nil && len(c.path) != 0
	nonNil, nonEmpty := false, false
	for _, cm := range cmpsAt(b) {
		if cm.X == cur && isNilConst(cm.Y) && cm.Op == token.NEQ {
			nonNil = true
		}
		if ln, ok := isBuiltinCall(cm.X, "len"); ok && (cm.Op == token.NEQ || cm.Op == token.GTR) && isConstInt(cm.Y, 0) {
			if base, f := loadedField(ln.Call.Args[0]); f != nil && sameField(f, m.pathF) && base == cur {
				nonEmpty = true
			}
		}
	}
	return nonNil && nonEmpty
}

func (m *streeModel) ruleCursorGuard(c *Ctx) {
	P := c.P
	private := map[string]bool{"findNext": true, "findPrev": true}
	// unexported cursor methods that touch the path without a validity test of their own are helpers with the
	// precondition "valid cursor" (top(), moveTo(), …): they are judged at their call sites (fixpoint: a helper that
	// calls such a helper unguarded inherits the precondition)
	for changed := true; changed; {
		changed = false
		for _, fn := range P.Methods("stree", "Cursor") {
			if fn.Object() == nil || fn.Object().Exported() || private[fn.Name()] || fn.Name() == "Valid" || len(fn.Params) == 0 {
				continue
			}
			cur := fn.Params[0]
			needs := false
			allInstrs(fn, func(in ssa.Instruction) {
				switch x := in.(type) {
				case *ssa.FieldAddr:
					if x.X == ssa.Value(cur) && !m.validFactAt(x.Block(), cur) {
						needs = true
					}
				case *ssa.Call:
					if cal := staticCallee(&x.Call); cal != nil && private[cal.Name()] && len(x.Call.Args) > 0 && x.Call.Args[0] == ssa.Value(cur) && !m.validFactAt(x.Block(), cur) {
						needs = true
					}
				}
			})
			if needs {
				private[fn.Name()] = true
				changed = true
			}
		}
	}
	for _, fn := range P.Methods("stree", "Cursor") {
		if fn.Name() == "Valid" {
			continue
		}
		name := fnName(fn)
		c.sawFn(name)
		cur := fn.Params[0]
		if private[fn.Name()] {
			continue
		}
		nAcc, bad := 0, []string{}
		allInstrs(fn, func(in ssa.Instruction) {
			switch x := in.(type) {
			case *ssa.FieldAddr:
				if x.X == ssa.Value(cur) {
					nAcc++
					if !m.validFactAt(x.Block(), cur) {
						bad = append(bad, "field access at "+P.pos(x.Pos()))
					}
				}
			case *ssa.Call:
				cal := staticCallee(&x.Call)
				if cal != nil && private[cal.Name()] && len(x.Call.Args) > 0 && x.Call.Args[0] == ssa.Value(cur) {
					nAcc++
					if !m.validFactAt(x.Block(), cur) {
						bad = append(bad, "call of "+cal.Name()+" (precondition: valid cursor) at "+P.pos(x.Pos()))
					}
				}
			}
		})
		c.judge(len(bad) == 0, "R-GUARD", name+":valid-guard", fn.Pos(), fmt.Sprintf("%d accesses through the cursor, all under Valid()", nAcc), "the cursor is dereferenced without a dominating Valid() check ("+strings.Join(bad, "; ")+"): a nil or exhausted cursor panics instead of being a harmless no-op")
		// result on the invalid path
		allInstrs(fn, func(in ssa.Instruction) {
			ret, ok := in.(*ssa.Return)
			if !ok || len(ret.Results) != 1 {
				return
			}
			if m.validFactAt(ret.Block(), cur) {
				return
			}
			r := ret.Results[0]
			key := name + ":result when invalid"
			if isNamedOrigin(r.Type(), m.curT) {
				if _, isPtr := r.Type().(*types.Pointer); isPtr {
					// chaining: the receiver itself (possibly through a phi of the receiver), or — for Clone — a fresh cursor on the valid path only
					okR := r == ssa.Value(cur)
					if ph, ok := r.(*ssa.Phi); ok {
						okR = true
						for _, e := range ph.Edges {
							if e != ssa.Value(cur) {
								okR = false
							}
						}
					}
					c.judge(okR, "R-GUARD", key, ret.Pos(), "returns the receiver", "a chaining method does not return its receiver on the invalid path")
				}
				return
			}
			if bt, ok := r.Type().Underlying().(*types.Basic); ok && bt.Kind() == types.Bool {
				// Has* predicates: false on the invalid path (const false, or a phi/expr that is false when Valid is false)
				okB := false
				if cst, ok := r.(*ssa.Const); ok && cst.Value != nil && cst.Value.String() == "false" {
					okB = true
				}
				if ph, ok := r.(*ssa.Phi); ok {
					// short-circuit c.Valid() && …: the edge from the Valid()==false block carries false
					okB = true
					for i, e := range ph.Edges {
						pred := ph.Block().Preds[i]
						if !m.validFactAt(pred, cur) {
							if cst, ok := e.(*ssa.Const); !ok || cst.Value == nil || cst.Value.String() != "false" {
								okB = false
							}
						}
					}
				}
				c.judge(okB, "R-GUARD", key, ret.Pos(), "false for an invalid cursor", "a predicate can be true for an invalid cursor")
				return
			}
			// Key: zero value
			_, isConst := r.(*ssa.Const)
			c.judge(isConst, "R-GUARD", key, ret.Pos(), "zero value for an invalid cursor", "a non-zero value is returned for an invalid cursor")
		})
	}
}

func runC03(c *Ctx) {
	P := c.P
	c.Explanation = "Decides structural clauses: (R-GUARD valid) in every method of *stree.Cursor each dereference of the cursor (and each call of the private findNext/findPrev, whose precondition is validity) is dominated by a successful Valid() check, chaining methods return the receiver and Key returns the zero value on the invalid path — so operations on an invalid or nil cursor are harmless no-ops. (R-CLONE-FRESH) Cursor.Clone copies the path (fresh slice) or returns the receiver only when it is invalid, so clones move independently. (R-ORIENT) every navigation method reads the child sides binary-search-tree navigation requires, relative to the orientation of the in-order walk: Left/HasLeft/Min the small side, Right/HasRight/Max the large side, findNext large-then-small with Next descending small, findPrev/Prev mirrored. (R-YIELD) Cursor.Inorder is stoppable. (R-ASCEND-GATED) Next (Prev) shortens or drops the path only on paths where a large-side (small-side) child link has been read. (R-CMP-SIGN) comparison results are tested by sign only. (R-PATH-COMPLETE) the search that builds a cursor's path appends the node on every trip round its loop; (R-PATH-FRESH) the path stored in a new Cursor is freshly allocated; (R-READONLY) read-only operations store to no field of Tree or node; HasNext/HasPrev give every answer other than false after consulting findNext/findPrev. Does NOT decide that Next/Prev land on exactly the adjacent key for every tree shape (needs the BST invariant, C01's undecided part) nor Cursor(key) validity."
	c.rule("R-GUARD", 14, "every cursor dereference is under Valid(); results on the invalid path are receiver / false / zero")
	c.rule("R-CLONE-FRESH", 1, "Cursor.Clone's path is a fresh copy, or the receiver is returned only when invalid")
	c.rule("R-ORIENT", 12, "navigation methods read the child sides BST navigation requires")
	c.rule("R-YIELD", 1, "Cursor.Inorder is stoppable")
	c.rule("R-SIBLING-AGREE", 2, "HasNext/Next and HasPrev/Prev apply identical tests to findNext/findPrev's results")
	c.rule("R-SUBTREE-WALK", 1, "Cursor.Inorder delegates to node.inorder on the current node")
	m := buildStreeModel(c)
	if m == nil {
		return
	}
	m.ruleCursorGuard(c)
	c.rule("R-PATH-COMPLETE", 1, "the search that builds a cursor's path records every node it visits: no iteration of the descent loop leaves the path as it was")
	c.rule("R-PATH-FRESH", 1, "the path stored in a new Cursor is freshly allocated: not a buffer kept in (or loaded from) the tree")
	m.rulePathComplete(c)
	m.ruleReadOnly(c)
	m.ruleTreeAccessors(c)
	c.rule("R-ASCEND-GATED", 2, "Next (Prev) shortens or drops the path only after the current node's large-side (small-side) child has been read on that path: the in-order neighbour is an ancestor only when that subtree is empty")
	m.ruleAscendGated(c)
	// Tree.Cursor(key) is built from the search path: the sign discipline of its comparisons is part of
	// "consistent with key order" (the orientation of the descents themselves is decided under C01/C04)
	c.rule("R-CMP-SIGN", 2, "every test of the comparison function's result against a constant is a test of its sign only")
	ruleCmpSign(c, "R-CMP-SIGN", P.PkgFuncs("stree"))
	// Clone
	if cl := P.Func("stree", "Cursor", "Clone"); cl != nil {
		cur := cl.Params[0]
		var probs []string
		allInstrs(cl, func(in ssa.Instruction) {
			ret, ok := in.(*ssa.Return)
			if !ok {
				return
			}
			r := ret.Results[0]
			if r == ssa.Value(cur) {
				// only when invalid: block must carry Valid()==false
				isInvalid := false
				for call, truth := range callFactsAt(ret.Block()) {
					if cal := staticCallee(&call.Call); cal != nil && cal.Name() == "Valid" && !truth && call.Call.Args[0] == ssa.Value(cur) {
						isInvalid = true
					}
				}
				if !isInvalid {
					probs = append(probs, "the receiver itself is returned for a valid cursor (clone and original share the path)")
				}
				return
			}
			al, ok := r.(*ssa.Alloc)
			if !ok {
				probs = append(probs, "returns neither the receiver nor a fresh cursor")
				return
			}
			okPath := false
			for _, rr := range referrersOf(al) {
				if fa, ok := rr.(*ssa.FieldAddr); ok {
					if _, f := fieldVarOf(fa); sameField(f, m.pathF) {
						for _, r2 := range referrersOf(fa) {
							if st, ok := r2.(*ssa.Store); ok {
								o := newOrig(cl).of(st.Val)
								if o.onlyFresh() {
									okPath = true
								} else {
									probs = append(probs, "the clone's path has origin "+o.String()+" (aliases the original's path: append on one moves the other)")
								}
							}
						}
					}
				}
			}
			if !okPath && len(probs) == 0 {
				probs = append(probs, "the clone's path is not initialised from a copy")
			}
		})
		c.judge(len(probs) == 0, "R-CLONE-FRESH", "stree.(*Cursor).Clone:path", cl.Pos(), "fresh copy of the path, or the receiver when invalid", fmt.Sprint(probs))
	} else {
		c.undecided("ANCHOR", "stree.(*Cursor).Clone", 0, "not found")
	}
	m.ruleNavTable(c, [][3]string{
		{"Cursor", "HasLeft", "small"}, {"Cursor", "Left", "small"}, {"Cursor", "Min", "small"},
		{"Cursor", "HasRight", "large"}, {"Cursor", "Right", "large"}, {"Cursor", "Max", "large"},
		{"Cursor", "findNext", "large,small"}, {"Cursor", "Next", "small"},
		{"Cursor", "findPrev", "small,large"}, {"Cursor", "Prev", "large"},
		{"Tree", "Min", "small"}, {"Tree", "Max", "large"},
	})
	{
		// Cursor.Inorder and everything it hands the callback on to (the node walker)
		var yfs []*ssa.Function
		if ci := P.Func("stree", "Cursor", "Inorder"); ci != nil {
			for _, f := range buildCallScope(ci).fns {
				if len(yieldSites(f)) > 0 {
					yfs = append(yfs, f)
				}
			}
		}
		ruleYield(c, yfs)
	}
	m.ruleSiblingAgree(c)
	m.ruleSubtreeWalk(c)
}

// ---------------------------------------------------------------------------

func runC04(c *Ctx) {
	P := c.P
	c.Explanation = "Decides: (R-GUARD nil) 'a zero Map behaves as an empty read-only map' — every use of the possibly-nil tree pointer (Map.m / Iter.m) as a method receiver or bound receiver in package omap is dominated by a != nil test of the same field with no intervening store; the one exemption is Map.Set, documented to panic on a zero Map. Calls on Iter.c (a possibly-nil *stree.Cursor) are allowed because C03's R-GUARD(valid) makes every cursor method nil-safe; this check re-runs that rule and fails if it fails. (R-NATURAL-ORDER) omap.New installs cmp.Compare or a comparison that reaches it or handles NaN. (R-REBUILD-USED, R-ROOT-FLOW, shared with C01) the rebuilt subtree and the modified root are kept. (R-LINK-STALE, R-NIL-DROP, R-READONLY, R-PATH-FRESH, R-PATH-COMPLETE, shared with C01/C03) link edits of removal, read-only lookups and fresh cursor paths. Does NOT decide agreement with a reference sorted map, Seek positioning, or iterator order."
	c.rule("R-GUARD", 6, "every method call on Map.m / Iter.m is under a != nil guard (Map.Set exempt); cursor methods are nil-safe (C03)")
	mapT, iterT := P.Named("omap", "Map"), P.Named("omap", "Iter")
	mF, imF := P.fieldByType("omap", "Map", "m", "stree", "Tree"), P.fieldByType("omap", "Iter", "m", "stree", "Tree")
	if mapT == nil || iterT == nil || mF == nil || imF == nil {
		c.undecided("ANCHOR", "omap.Map/Iter", 0, "not found")
		return
	}
	eff := newEff(P)
	isTreePtr := func(t types.Type) bool {
		p, ok := t.Underlying().(*types.Pointer)
		if !ok {
			return false
		}
		n, ok := p.Elem().(*types.Named)
		return ok && n.Obj().Name() == "Tree" && n.Obj().Pkg() != nil && n.Obj().Pkg().Name() == "stree"
	}
	isTreeLoad := func(v ssa.Value) (*types.Var, bool) {
		_, f := loadedField(v)
		// only a *stree.Tree can be the nil pointer the property is about (an Iter holding its Map by value calls nil-safe Map methods)
		if f != nil && (sameField(f, mF) || sameField(f, imF)) && isTreePtr(f.Type()) {
			return f, true
		}
		return nil, false
	}
	var guardedAt func(b *ssa.BasicBlock, use ssa.Instruction, v ssa.Value, f *types.Var) bool
	guardedAt = func(b *ssa.BasicBlock, use ssa.Instruction, v ssa.Value, f *types.Var) bool {
		for _, cm := range cmpsAt(b) {
			if cm.Op != token.NEQ || !isNilConst(cm.Y) {
				continue
			}
			if _, ok := isTreeLoad(cm.X); !ok {
				continue
			}
			if sym(cm.X) != sym(v) {
				continue
			}
			if ld, ok := cm.X.(ssa.Instruction); ok && ld.Block().Parent() == use.Block().Parent() {
				if eff.noFieldKillBetween(ld, use, f) {
					return true
				}
			}
		}
		return false
	}
	// nonzeroImpliesTree: every return of cal with a possibly non-zero integer result is under recv.f != nil
	// (e.g. Map.Len: `if m.m == nil { return 0 }; return m.m.Len()`), so  cal(m) != 0  implies  m.m != nil
	nonzeroImpliesTree := func(cal *ssa.Function, f *types.Var) bool {
		if cal == nil || cal.Blocks == nil || len(cal.Params) == 0 {
			return false
		}
		okAll, n := true, 0
		allInstrs(cal, func(in ssa.Instruction) {
			ret, ok := in.(*ssa.Return)
			if !ok || len(ret.Results) != 1 {
				return
			}
			n++
			if isConstInt(ret.Results[0], 0) {
				return
			}
			guarded := false
			for _, cm := range cmpsAt(ret.Block()) {
				if cm.Op == token.NEQ && isNilConst(cm.Y) {
					if _, g := loadedField(cm.X); g != nil && sameField(g, f) {
						guarded = true
					}
				}
			}
			if !guarded {
				okAll = false
			}
		})
		return okAll && n > 0
	}
	guardedAt0 := guardedAt
	guardedAt = func(b *ssa.BasicBlock, use ssa.Instruction, v ssa.Value, f *types.Var) bool {
		if guardedAt0(b, use, v, f) {
			return true
		}
		for _, cm := range cmpsAt(b) {
			call, ok := cm.X.(*ssa.Call)
			if !ok || !isConstInt(cm.Y, 0) || (cm.Op != token.NEQ && cm.Op != token.GTR) || len(call.Call.Args) == 0 {
				continue
			}
			cal := staticCallee(&call.Call)
			if !nonzeroImpliesTree(cal, f) {
				continue
			}
			// the call's receiver is the very Map value whose tree pointer v reads
			base, _ := loadedField(v)
			recvArg := call.Call.Args[0]
			same := recvArg == base || sym(v) == sym(recvArg)+"."+f.Name()
			if a, ok := loadAddr(recvArg); ok && a == base {
				same = true
			}
			if !same {
				continue
			}
			if call.Block().Parent() == use.Block().Parent() && eff.noFieldKillBetween(call, use, f) {
				return true
			}
		}
		return false
	}
	anyGuardAt := func(b *ssa.BasicBlock) bool {
		for _, cm := range cmpsAt(b) {
			if cm.Op == token.NEQ && isNilConst(cm.Y) {
				if _, ok := isTreeLoad(cm.X); ok {
					return true
				}
			}
		}
		return false
	}
	for _, fn := range P.PkgFuncs("omap") {
		name := fnName(fn)
		top := fn
		for top.Parent() != nil {
			top = top.Parent()
		}
		exempt := top.Name() == "Set" && top.Signature.Recv() != nil && isNamedOrigin(top.Signature.Recv().Type(), mapT)
		judge := func(in ssa.Instruction, v ssa.Value, what string) {
			f, ok := isTreeLoad(v)
			if !ok {
				return
			}
			c.sawFn(name)
			key := name + ":" + what
			if exempt {
				c.ok("R-GUARD", key, in.Pos(), "Map.Set is documented to panic on a zero Map")
				return
			}
			okG := guardedAt(in.Block(), in, v, f)
			if !okG && fn.Parent() != nil {
				// inside a closure: the closure is only created under the guard
				for _, r := range referrersOf(fn) {
					_ = r
				}
				allInstrs(fn.Parent(), func(in2 ssa.Instruction) {
					if mc, ok := in2.(*ssa.MakeClosure); ok && mc.Fn == ssa.Value(fn) && anyGuardAt(mc.Block()) {
						okG = true
					}
				})
			}
			c.judge(okG, "R-GUARD", key, in.Pos(), "under a != nil guard", "the tree pointer of a possibly zero Map is used without a nil check: the documented read-only empty-map behaviour becomes a nil-pointer panic")
		}
		allInstrs(fn, func(in ssa.Instruction) {
			switch x := in.(type) {
			case *ssa.Call:
				if len(x.Call.Args) > 0 && !x.Call.IsInvoke() {
					if cal := x.Call.StaticCallee(); cal != nil && cal.Signature.Recv() != nil {
						judge(in, x.Call.Args[0], "call "+origin(cal).Name())
					}
				}
			case *ssa.MakeClosure:
				for _, b := range x.Bindings {
					if _, ok := isTreeLoad(b); ok {
						judge(in, b, "bound method "+strings.TrimSuffix(x.Fn.Name(), "$bound"))
					}
				}
			}
		})
	}
	// the map's lookups/updates/deletes descend consistently with iteration order (shared with C01)
	c.rule("R-ORIENT", 8, "key descents of the underlying tree agree with the in-order orientation; comparator results are tested by sign")
	c.rule("R-RELINK", 1, "deleting a two-child node re-attaches the successor's subtree")
	c.rule("R-SEEK-RESET", 1, "Iter.Seek starts by invalidating the cursor, so a seek past the last key leaves the iterator invalid")
	c.rule("R-CMP-SIGN", 2, "every test of the comparison function's result against a constant is a test of its sign only")
	ruleCmpSign(c, "R-CMP-SIGN", append(P.PkgFuncs("stree"), P.PkgFuncs("omap")...))
	c.rule("R-NATURAL-ORDER", 1, "omap.New orders keys by cmp.Compare (or a comparison that reaches it / handles NaN), the total order the documentation names")
	if nw := P.Func("omap", "", "New"); nw == nil {
		c.undecided("ANCHOR", "omap.New", 0, "not found")
	} else {
		n := 0
		for _, f := range buildCallScope(nw).fns {
			f := f
			allInstrs(f, func(in ssa.Instruction) {
				call, ok := in.(*ssa.Call)
				if !ok {
					return
				}
				for _, a := range call.Call.Args {
					sig, isSig := a.Type().Underlying().(*types.Signature)
					if !isSig || sig.Params().Len() != 2 || sig.Results().Len() != 1 || !isIntType(sig.Results().At(0).Type()) {
						continue
					}
					okN, judged, why := naturalCmpVerdict(P, a)
					if !judged {
						continue
					}
					n++
					c.judge(okN, "R-NATURAL-ORDER", fmt.Sprintf("omap.New:comparison #%d", n), call.Pos(), why, why)
				}
			})
		}
	}
	c.rule("R-REBUILD-USED", 2, "the subtree returned by the in-place rebuild replaces the subtree that was handed to it (returned to the caller or stored in a link), never dropped")
	c.rule("R-ROOT-FLOW", 5, "the root stored by Add/Replace/Remove derives from the result of the modification")
	if sm := buildStreeModel(c); sm != nil {
		sm.ruleDescents(c)
		sm.ruleRelink(c)
		sm.ruleRootFlow(c)
		sm.ruleRebuildUsed(c)
		sm.ruleLinkEdits(c)
		sm.ruleReadOnly(c)
		sm.ruleTreeAccessors(c)
		c.rule("R-SIZE-PAIR", 2, "the cached element count changes by +1 under a successful insertion, −1 under a successful removal, or to 0 with the root dropped (shared with C01)")
		sm.ruleSizePair(c)
		c.rule("R-PATH-FRESH", 1, "the path stored in a new Cursor is freshly allocated: not a buffer kept in (or loaded from) the tree")
		c.rule("R-PATH-COMPLETE", 1, "the search that builds a cursor's path records every node it visits")
		sm.rulePathComplete(c)
	}
	ruleOkForward(c, "omap", "stree")
	ruleEmptyAgreesLen(c, "omap", "Map")
	ruleSizeGuard(c, "omap")
	ruleIterSiblings(c)
	if seek := P.Func("omap", "Iter", "Seek"); seek != nil {
		cF := P.fieldByType("omap", "Iter", "c", "stree", "Cursor")
		okS := false
		var first ssa.Instruction
		allInstrs(seek, func(in ssa.Instruction) {
			st, ok := in.(*ssa.Store)
			if !ok {
				return
			}
			fa, ok := st.Addr.(*ssa.FieldAddr)
			if !ok {
				return
			}
			if _, f := fieldVarOf(fa); sameField(f, cF) && isNilConst(st.Val) {
				// must precede the search on all paths: it dominates every return and every other use of the tree
				dom := true
				allInstrs(seek, func(in2 ssa.Instruction) {
					if isReturn(in2) && !dominatesInstr(st, in2) {
						dom = false
					}
					if _, ok := in2.(*ssa.MakeClosure); ok && !dominatesInstr(st, in2) {
						dom = false
					}
				})
				if dom {
					okS = true
					first = st
				}
			}
		})
		if !okS {
			// several clearing stores, one per branch (`if it.m == nil { it.c = nil; return it }; it.c = nil; …`): no
			// return and no search of the tree is reachable from the entry without passing one of them
			isClear := func(in ssa.Instruction) bool {
				st, ok := in.(*ssa.Store)
				if !ok {
					return false
				}
				fa, ok := st.Addr.(*ssa.FieldAddr)
				if !ok {
					return false
				}
				_, f := fieldVarOf(fa)
				return sameField(f, cF) && isNilConst(st.Val)
			}
			target := func(in ssa.Instruction) bool {
				if isReturn(in) {
					return true
				}
				_, isClosure := in.(*ssa.MakeClosure)
				return isClosure
			}
			missing, _ := reachesWithout(P, firstInstr(seek), true, target, isClear)
			nClear := 0
			allInstrs(seek, func(in ssa.Instruction) {
				if isClear(in) {
					nClear++
				}
			})
			if !missing && nClear > 0 {
				okS = true
			}
		}
		pos := seek.Pos()
		if first != nil {
			pos = first.Pos()
		}
		c.sawFn(fnName(seek))
		c.judge(okS, "R-SEEK-RESET", "omap.(*Iter).Seek:c=nil first", pos, "cursor invalidated before the search", "Seek does not clear the cursor before searching: when no key is ≥ the target the iterator stays where it was instead of becoming invalid")
	} else {
		c.undecided("ANCHOR", "omap.(*Iter).Seek", 0, "not found")
	}

	// cursor methods are nil-safe: re-run C03's guard rule
	sub := newCtx(P, "C03", c.Tier)
	if sm := buildStreeModel(sub); sm != nil {
		sm.ruleCursorGuard(sub)
	}
	nbad := 0
	for _, o := range sub.Obligs {
		if o.Verdict != "ok" {
			nbad++
			c.bad("R-GUARD", "stree cursor nil-safety:"+o.Construct, 0, "omap calls cursor methods on a possibly nil cursor, relying on C03's guard rule, which fails: "+o.Msg)
		}
	}
	if nbad == 0 {
		c.ok("R-GUARD", "stree cursor nil-safety", 0, fmt.Sprintf("C03 R-GUARD(valid): %d obligations discharged", len(sub.Obligs)))
	}
}

// ---- R-RELINK: popMinRight re-attaches the removed node's large-side subtree
func (m *streeModel) ruleRelink(c *Ctx) {
	fn := m.successorPop()
	if fn == nil {
		c.undecided("ANCHOR", "stree.popMinRight", 0, "not found")
		return
	}
	c.sawFn(fnName(fn))
	// the removed node: the value returned — at each return of its own (a helper that treats "the child is
	// itself the minimum" in an arm with its own return has two removed nodes, one per return), and the stores
	// judged against a return are those that can be followed by it
	var rets []*ssa.Return
	allInstrs(fn, func(in ssa.Instruction) {
		if ret, ok := in.(*ssa.Return); ok && len(ret.Results) == 1 {
			rets = append(rets, ret)
		}
	})
	if len(rets) == 0 {
		c.undecided("R-RELINK", "stree.popMinRight", fn.Pos(), "no returned node")
		return
	}
	for ri, ret := range rets {
		m.relinkFor(c, fn, ret, ri, len(rets) > 1)
	}
}

func (m *streeModel) relinkFor(c *Ctx, fn *ssa.Function, ret *ssa.Return, ri int, multi bool) {
	goat := ret.Results[0]
	sfx := ""
	if multi {
		sfx = fmt.Sprintf(" [return #%d]", ri+1)
	}
	reachesRet := func(in ssa.Instruction) bool {
		for _, x := range walkFrom(in, true, nil).order {
			if x == ssa.Instruction(ret) {
				return true
			}
		}
		return false
	}
	n := 0
	for _, a := range m.childAccesses(fn) {
		if !a.store {
			continue
		}
		var st *ssa.Store
		for _, r := range referrersOf(a.fa) {
			if s2, ok := r.(*ssa.Store); ok && s2.Addr == ssa.Value(a.fa) {
				st = s2
			}
		}
		if a.fa.X == goat || st == nil || !reachesRet(st) {
			continue // detaching the removed node's own links; or a store of another arm
		}
		n++
		key := fmt.Sprintf("stree.popMinRight:%s.%s=", ksym(a.fa.X), a.fld.Name()) + sfx
		base, f := loadedField(st.Val)
		okV := f != nil && sameField(f, m.large) && base == goat
		// … and it is the link the removed node was reached through: from the parameter, the field the walk
		// started at; from the trailing parent, the field the walk follows
		if gph, isPhi := goat.(*ssa.Phi); isPhi && okV {
			var f0, f1 *types.Var
			for i, e := range gph.Edges {
				b2, g2 := loadedField(e)
				if g2 == nil {
					continue
				}
				if gph.Block().Dominates(gph.Block().Preds[i]) {
					if b2 == ssa.Value(gph) {
						f1 = g2
					}
				} else if _, isP := b2.(*ssa.Parameter); isP {
					f0 = g2
				}
			}
			var want *types.Var
			if _, isP := a.fa.X.(*ssa.Parameter); isP {
				want = f0
			} else if _, isPh := a.fa.X.(*ssa.Phi); isPh {
				want = f1
			}
			if want != nil && !sameField(want, a.fld) {
				c.bad("R-RELINK", key+" which link", st.Pos(), fmt.Sprintf("the removed minimum was reached through .%s of this node, but the subtree is re-attached to its .%s link: the link that pointed to the removed node still does (a cycle once the node takes the deleted one's place), and the other subtree of this node is lost", want.Name(), a.fld.Name()))
			}
		}
		c.judge(okV, "R-RELINK", key, st.Pos(), "the removed node's large-side subtree is re-attached in its place", "the link that pointed to the removed minimum is set to "+sym(st.Val)+" instead of the removed node's ."+m.large.Name()+" subtree: keys below the removed node are lost")
	}
	// pointer-to-link idiom: link := &root.right; for … { link = &(*link).left }; goat := *link; *link = goat.right
	allInstrs(fn, func(in ssa.Instruction) {
		st, ok := in.(*ssa.Store)
		if !ok {
			return
		}
		if _, isFA := st.Addr.(*ssa.FieldAddr); isFA {
			return
		}
		pt, ok := st.Addr.Type().Underlying().(*types.Pointer)
		if !ok || !isNamedOrigin(pt.Elem(), m.nodeT) {
			return
		}
		if _, isPtr := pt.Elem().Underlying().(*types.Pointer); !isPtr {
			return
		}
		if _, isAlloc := st.Addr.(*ssa.Alloc); isAlloc {
			return // a local variable of node-pointer type, not a link of the tree
		}
		if !reachesRet(st) {
			return
		}
		n++
		key := fmt.Sprintf("stree.popMinRight:*%s=", ksym(st.Addr)) + sfx
		base, f := loadedField(st.Val)
		// the removed node is what the link pointed to
		isGoat := false
		if a, ok := loadAddr(goat); ok && a == st.Addr {
			isGoat = true
		}
		okV := f != nil && sameField(f, m.large) && base == goat && isGoat
		c.judge(okV, "R-RELINK", key, st.Pos(), "the link that pointed to the removed node now points to its large-side subtree", "the link that pointed to the removed minimum is set to "+sym(st.Val)+" instead of the removed node's ."+m.large.Name()+" subtree: keys below the removed node are lost")
	})
	if n == 0 {
		c.undecided("R-RELINK", "stree.popMinRight"+sfx, fn.Pos(), "no relinking store found")
		return
	}
	// … and every way to the return re-attaches: no path leaves the removed node linked from its old place
	isRelink := func(in ssa.Instruction) bool {
		st, ok := in.(*ssa.Store)
		if !ok {
			return false
		}
		base, f := loadedField(st.Val)
		if f == nil || !sameField(f, m.large) || base != goat {
			return false
		}
		if fa, ok := st.Addr.(*ssa.FieldAddr); ok {
			return fa.X != goat
		}
		return true
	}
	reach, wit := reachesWithout(c.P, firstInstr(fn), true, func(in ssa.Instruction) bool { return in == ssa.Instruction(ret) }, isRelink)
	c.judge(!reach, "R-RELINK", "stree.popMinRight:every path re-attaches"+sfx, fn.Pos(), "no return without the link to the removed node having been redirected", "the helper can return ("+wit+") without redirecting the link that pointed to the removed minimum: the node stays linked from its old place as well as from its new one (a cycle once it takes the deleted node's position)")
}

// ---- R-SIZE-PAIR: the element count changes by exactly one, together with a successful modification
//
// Tree.Len/IsEmpty read a cached count.  Outside construction every store to it must be: count+1 where an
// insertion reported a new node, count−1 where a removal reported success, or 0 together with dropping the
// root.  The count field is found by role: the integer field of Tree that Len returns.
func (m *streeModel) ruleSizePair(c *Ctx) {
	P := c.P
	lenFn := P.Func("stree", "Tree", "Len")
	if lenFn == nil {
		c.undecided("ANCHOR", "stree.(*Tree).Len", 0, "not found")
		return
	}
	var sizeF *types.Var
	allInstrs(lenFn, func(in ssa.Instruction) {
		if ret, ok := in.(*ssa.Return); ok && len(ret.Results) == 1 {
			if _, f := loadedField(ret.Results[0]); f != nil {
				sizeF = f
			}
		}
	})
	if sizeF == nil {
		c.undecided("R-SIZE-PAIR", "stree.(*Tree).Len", lenFn.Pos(), "Len does not return a field of the tree")
		return
	}
	// modifying calls: static callees returning (node, bool, …) that are handed the root; an insertion allocates nodes
	allocatesNode := func(fn *ssa.Function) bool {
		found := false
		for _, f := range buildCallScope(fn).fns {
			allInstrs(f, func(in ssa.Instruction) {
				if al, ok := in.(*ssa.Alloc); ok && al.Heap {
					// a node itself, not a cell holding a pointer to one (a local whose address is taken)
					if pt, ok := al.Type().Underlying().(*types.Pointer); ok {
						if nt, ok := types.Unalias(pt.Elem()).(*types.Named); ok && nt.Origin() == m.nodeT.Origin() {
							found = true
						}
					}
				}
			})
		}
		return found
	}
	// flagKind: "ins"/"rem" if v is the success flag of an insertion/removal (directly, or as the boolean
	// parameter of a helper that every call site hands such a flag)
	var flagKind func(v ssa.Value, depth int) string
	flagKind = func(v ssa.Value, depth int) string {
		if depth > 3 {
			return ""
		}
		switch x := v.(type) {
		case *ssa.Extract:
			call, ok := x.Tuple.(*ssa.Call)
			if !ok {
				return ""
			}
			cal := staticCallee(&call.Call)
			tup, isTup := call.Type().(*types.Tuple)
			if cal == nil || cal.Blocks == nil || !isTup || tup.Len() < 2 || !isNamedOrigin(tup.At(0).Type(), m.nodeT) || x.Index == 0 {
				return ""
			}
			if b, ok := tup.At(x.Index).Type().Underlying().(*types.Basic); !ok || b.Kind() != types.Bool {
				return ""
			}
			if allocatesNode(cal) {
				return "ins"
			}
			return "rem"
		case *ssa.Parameter:
			fn := x.Parent()
			idx := -1
			for i, p := range fn.Params {
				if p == x {
					idx = i
				}
			}
			kind := ""
			n := 0
			for _, caller := range P.Methods("stree", "Tree") {
				allInstrs(caller, func(in ssa.Instruction) {
					call, ok := in.(*ssa.Call)
					if !ok || origin(staticCallee(&call.Call)) != origin(fn) || idx < 0 || idx >= len(call.Call.Args) {
						return
					}
					n++
					k := flagKind(call.Call.Args[idx], depth+1)
					if k == "" || (kind != "" && kind != k) {
						kind = "?"
					} else if kind == "" {
						kind = k
					}
				})
			}
			if n == 0 || kind == "?" {
				return ""
			}
			return kind
		}
		return ""
	}
	under := func(b *ssa.BasicBlock, want string) bool {
		for _, f := range factsAt(b) {
			if f.Truth && flagKind(f.Cond, 0) == want {
				return true
			}
		}
		return false
	}
	n := 0
	for _, top := range P.Methods("stree", "Tree") {
		for _, fn := range withClosures(top) {
			name := fnName(fn)
			allInstrs(fn, func(in ssa.Instruction) {
				st, ok := in.(*ssa.Store)
				if !ok {
					return
				}
				fa, ok := st.Addr.(*ssa.FieldAddr)
				if !ok {
					return
				}
				if _, f := fieldVarOf(fa); !sameField(f, sizeF) {
					return
				}
				if _, fresh := fa.X.(*ssa.Alloc); fresh {
					return // construction (New, Clone)
				}
				n++
				c.sawFn(name)
				key := fmt.Sprintf("%s:%s=%s", name, sizeF.Name(), ksym(st.Val))
				if isConstInt(st.Val, 0) {
					// together with dropping the root
					drops := false
					for _, in2 := range st.Block().Instrs {
						if s2, ok := in2.(*ssa.Store); ok {
							if fa2, ok := s2.Addr.(*ssa.FieldAddr); ok {
								if _, f2 := fieldVarOf(fa2); sameField(f2, m.rootF) && isNilConst(s2.Val) {
									drops = true
								}
							}
						}
					}
					c.judge(drops, "R-SIZE-PAIR", key, st.Pos(), "count reset together with dropping the root", "the element count is reset to 0 without the tree being emptied in the same block")
					return
				}
				bo, ok := st.Val.(*ssa.BinOp)
				isSelf := false
				if ok {
					if _, f := loadedField(bo.X); f != nil && sameField(f, sizeF) && isConstInt(bo.Y, 1) {
						isSelf = true
					}
				}
				switch {
				case isSelf && bo.Op == token.ADD:
					c.judge(under(st.Block(), "ins"), "R-SIZE-PAIR", key, st.Pos(), "count+1 where an insertion reported a new node", "the element count is incremented without being conditional on an insertion having added a node")
				case isSelf && bo.Op == token.SUB:
					c.judge(under(st.Block(), "rem"), "R-SIZE-PAIR", key, st.Pos(), "count−1 where a removal reported success", "the element count is decremented without being conditional on a removal having succeeded")
				default:
					c.bad("R-SIZE-PAIR", key, st.Pos(), "the element count is set to "+sym(st.Val)+", which is neither its old value ± 1 nor 0: Len and IsEmpty no longer follow the contents")
				}
			})
		}
	}
	if n == 0 {
		c.undecided("R-SIZE-PAIR", "stree.(*Tree)", lenFn.Pos(), "no update of the element count found")
	}
}

// ---- R-ROOT-FLOW: the root stored by Add/Replace/Remove derives from the modified subtree
func (m *streeModel) ruleRootFlow(c *Ctx) {
	P := c.P
	rewrite := streeRebuild(P)
	for _, t := range [][2]string{{"Remove", "remove"}, {"Add", "insert"}, {"Replace", "insert"}} {
		fn := P.Func("stree", "Tree", t[0])
		if fn == nil {
			c.undecided("ANCHOR", "stree.(*Tree)."+t[0], 0, "not found")
			continue
		}
		name := fnName(fn)
		c.sawFn(name)
		// the modifying call and its node result: found by role — in Add/Replace/Remove or a helper they
		// delegate to, the call that is handed the current root and returns a node first
		var res ssa.Value
		var mod *ssa.Call
		entry := fn
		for _, f := range buildCallScope(entry).fns {
			if mod != nil {
				break
			}
			allInstrs(f, func(in ssa.Instruction) {
				call, ok := in.(*ssa.Call)
				if !ok || mod != nil {
					return
				}
				cal := staticCallee(&call.Call)
				if cal == nil || cal.Blocks == nil {
					return
				}
				tup, ok := call.Type().(*types.Tuple)
				if !ok || tup.Len() < 2 || !isNamedOrigin(tup.At(0).Type(), m.nodeT) {
					return
				}
				takesRoot := false
				for _, a := range call.Call.Args {
					if _, fld := loadedField(a); fld != nil && sameField(fld, m.rootF) {
						takesRoot = true
					}
				}
				if !takesRoot {
					return
				}
				for _, r := range referrersOf(call) {
					if ex, ok := r.(*ssa.Extract); ok && ex.Index == 0 {
						res = ex
					}
				}
				if res != nil {
					mod, fn = call, f
				}
			})
		}
		_ = t
		if mod == nil || res == nil {
			c.undecided("R-ROOT-FLOW", name, entry.Pos(), "modifying call not found")
			continue
		}
		var derives func(v ssa.Value, at ssa.Instruction, depth int) (bool, string)
		derives = func(v ssa.Value, at ssa.Instruction, depth int) (bool, string) {
			if depth > 6 {
				return false, "too deep"
			}
			if v == res {
				return true, ""
			}
			switch x := v.(type) {
			case *ssa.Phi:
				for _, e := range x.Edges {
					if ok, why := derives(e, at, depth+1); !ok {
						return false, why
					}
				}
				return true, ""
			case *ssa.Call:
				if rewrite != nil && staticCallee(&x.Call) == rewrite {
					return derives(x.Call.Args[0], x, depth+1)
				}
				return false, "result of " + x.Call.Value.Name()
			case *ssa.UnOp:
				if _, f := loadedField(x); f != nil && sameField(f, m.rootF) {
					// a load of t.root: some store of a derived value must dominate it, with no other root store between
					okS := false
					allInstrs(fn, func(in2 ssa.Instruction) {
						if st, ok := in2.(*ssa.Store); ok {
							if fa, ok := st.Addr.(*ssa.FieldAddr); ok {
								if _, f2 := fieldVarOf(fa); sameField(f2, m.rootF) && dominatesInstr(st, x) {
									if d, _ := derives(st.Val, st, depth+1); d {
										okS = true
									}
								}
							}
						}
					})
					if okS {
						return true, ""
					}
					return false, "the root as it was BEFORE the modification (t.root is read before the modified subtree is stored into it)"
				}
			}
			return false, sym(v)
		}
		nSt := 0
		allInstrs(fn, func(in ssa.Instruction) {
			st, ok := in.(*ssa.Store)
			if !ok {
				return
			}
			fa, ok := st.Addr.(*ssa.FieldAddr)
			if !ok {
				return
			}
			if _, f := fieldVarOf(fa); !sameField(f, m.rootF) {
				return
			}
			nSt++
			ok2, why := derives(st.Val, st, 0)
			c.judge(ok2, "R-ROOT-FLOW", fmt.Sprintf("%s:root=%s", name, ksym(st.Val)), st.Pos(), "derives from the modified subtree", "the root is set to "+why+": the modification is lost or undone")
		})
		// and the modified subtree is stored on every path (when something changed)
		storesRoot := func(in ssa.Instruction) bool {
			if call, ok := in.(*ssa.Call); ok {
				// a method of the same tree that (re)sets the root on all of its paths — Clear() when the last key
				// went: the tree is emptied wholesale, which is what the removal's result would have been
				cal := origin(staticCallee(&call.Call))
				if cal != nil && cal.Blocks != nil && len(call.Call.Args) > 0 && call.Call.Args[0] == ssa.Value(fn.Params[0]) && cal != fn {
					missing, _ := reachesWithout(P, firstInstr(cal), true, isReturn, func(in2 ssa.Instruction) bool {
						st, ok := in2.(*ssa.Store)
						if !ok {
							return false
						}
						fa, ok := st.Addr.(*ssa.FieldAddr)
						if !ok {
							return false
						}
						_, f := fieldVarOf(fa)
						return sameField(f, m.rootF) && isNilConst(st.Val)
					})
					if !missing {
						for _, cm := range cmpsAt(call.Block()) {
							if cf := m.countField(); cf != nil && cm.Op == token.EQL && isConstInt(cm.Y, 0) && isLoadOfField(cm.X, cf) {
								return true
							}
						}
					}
				}
				return false
			}
			st, ok := in.(*ssa.Store)
			if !ok {
				return false
			}
			fa, ok := st.Addr.(*ssa.FieldAddr)
			if !ok {
				return false
			}
			_, f := fieldVarOf(fa)
			return sameField(f, m.rootF)
		}
		okAll, wit := mustPassToExit(P, mod, storesRoot)
		if !okAll {
			// paths on which nothing changed (ok == false) may skip the store
			okAll, wit = mustPassToExitE(P, mod, storesRoot, func(iff *ssa.If, i int) bool {
				f := expandFact(Fact{iff.Cond, i == 0})[0]
				ex, ok := f.Cond.(*ssa.Extract)
				return ok && ex.Tuple == ssa.Value(mod) && ex.Index == 1 && !f.Truth
			})
		}
		c.judge(okAll && nSt > 0, "R-ROOT-FLOW", name+":root stored", mod.Pos(), "the modified subtree becomes the root on every path where something changed", "the result of the modification is not stored into the root on some path ("+wit+")")
	}
}

// bulkLoader: the package function whose result New stores as the root of the tree it builds (role, not name).
func (m *streeModel) bulkLoader() *ssa.Function {
	fn := m.P.Func("stree", "", "New")
	if fn == nil {
		return nil
	}
	var out *ssa.Function
	allInstrs(fn, func(in ssa.Instruction) {
		st, ok := in.(*ssa.Store)
		if !ok {
			return
		}
		fa, ok := st.Addr.(*ssa.FieldAddr)
		if !ok {
			return
		}
		if _, f := fieldVarOf(fa); !sameField(f, m.rootF) {
			return
		}
		if call, ok := st.Val.(*ssa.Call); ok {
			if cal := staticCallee(&call.Call); cal != nil && cal.Blocks != nil && cal.Pkg == origin(fn).Pkg {
				out = cal
			}
		}
	})
	return out
}

// ---- R-NEW-DEDUP: bulk construction sorts and de-duplicates on every path
func (m *streeModel) ruleNewDedup(c *Ctx) {
	P := c.P
	fn := P.Func("stree", "", "New")
	extract := m.bulkLoader()
	if fn == nil || extract == nil {
		c.undecided("ANCHOR", "stree.New/extract", 0, "not found")
		return
	}
	c.sawFn(fnName(fn))
	var ex *ssa.Call
	allInstrs(fn, func(in ssa.Instruction) {
		if call, ok := in.(*ssa.Call); ok && staticCallee(&call.Call) == extract {
			ex = call
		}
	})
	if ex == nil {
		c.undecided("R-NEW-DEDUP", "stree.New", fn.Pos(), "the bulk loader is not called")
		return
	}
	isStd := func(in ssa.Instruction, names ...string) bool {
		call, ok := in.(*ssa.Call)
		if !ok {
			return false
		}
		cal := call.Call.StaticCallee()
		if cal == nil {
			return false
		}
		o := origin(cal)
		if o.Pkg == nil || o.Pkg.Pkg.Path() != "slices" {
			return false
		}
		for _, n := range names {
			if o.Name() == n {
				return true
			}
		}
		return false
	}
	// a package-local helper that performs the step on every one of its paths to a return counts as the step
	// (sortedUniqueNodes(keys, compare))
	isStd0 := isStd
	var viaHelper func(in ssa.Instruction, depth int, names ...string) bool
	viaHelper = func(in ssa.Instruction, depth int, names ...string) bool {
		if isStd0(in, names...) {
			return true
		}
		call, ok := in.(*ssa.Call)
		if !ok || depth > 2 {
			return false
		}
		h := origin(staticCallee(&call.Call))
		if h == nil || h.Blocks == nil || h.Pkg != fn.Pkg || h == extract {
			return false
		}
		missed, _ := reachesWithout(P, firstInstr(h), true, func(i2 ssa.Instruction) bool { _, r := i2.(*ssa.Return); return r }, func(i2 ssa.Instruction) bool { return viaHelper(i2, depth+1, names...) })
		return !missed
	}
	isStd = func(in ssa.Instruction, names ...string) bool { return viaHelper(in, 0, names...) }
	// every path from entry to extract passes a de-duplication
	reach, wit := reachesWithout(P, firstInstr(fn), true, func(in ssa.Instruction) bool { return in == ssa.Instruction(ex) }, func(in ssa.Instruction) bool { return isStd(in, "CompactFunc", "Compact") })
	c.judge(!reach, "R-NEW-DEDUP", "stree.New:dedup", ex.Pos(), "keys are de-duplicated on every path to the bulk loader", "the bulk loader is reachable without de-duplicating the keys ("+wit+"): equivalent keys given to New would both be stored")
	// and a sort, unless the path is guarded by an is-sorted test
	w := walkFromE(firstInstr(fn), true, func(in ssa.Instruction) bool { return isStd(in, "SortFunc", "SortStableFunc", "Sort") }, func(iff *ssa.If, i int) bool {
		f := expandFact(Fact{iff.Cond, i == 0})[0]
		if call, ok := f.Cond.(*ssa.Call); ok && isStd(call, "IsSortedFunc", "IsSorted") && f.Truth {
			return true
		}
		return false
	})
	reach = false
	for _, in := range w.order {
		if in == ssa.Instruction(ex) {
			reach, wit = true, w.witness(P, in)
		}
	}
	c.judge(!reach, "R-NEW-DEDUP", "stree.New:sort", ex.Pos(), "keys are sorted (or known sorted) on every path to the bulk loader", "the bulk loader is reachable with unsorted keys ("+wit+")")
}

// ---- R-SIBLING-AGREE: HasNext/Next and HasPrev/Prev apply the same tests to findNext/findPrev's results
func (m *streeModel) ruleSiblingAgree(c *Ctx) {
	P := c.P
	tests := func(fn *ssa.Function, finder string) (map[string]bool, bool) {
		out := map[string]bool{}
		found := false
		allInstrs(fn, func(in ssa.Instruction) {
			call, ok := in.(*ssa.Call)
			if !ok {
				return
			}
			cal := staticCallee(&call.Call)
			if cal == nil || cal.Name() != finder {
				return
			}
			found = true
			for _, r := range referrersOf(call) {
				ex, ok := r.(*ssa.Extract)
				if !ok {
					continue
				}
				for _, r2 := range referrersOf(ex) {
					if bo, ok := r2.(*ssa.BinOp); ok && bo.X == ssa.Value(ex) && negOp(bo.Op) != token.ILLEGAL {
						if cst, ok := bo.Y.(*ssa.Const); ok {
							v := "nil"
							if cst.Value != nil {
								v = cst.Value.String()
							}
							out[fmt.Sprintf("result%d %s %s", ex.Index, bo.Op, v)] = true
						}
					}
				}
			}
		})
		return out, found
	}
	for _, pr := range [][3]string{{"HasNext", "Next", "findNext"}, {"HasPrev", "Prev", "findPrev"}} {
		has, mv := P.Func("stree", "Cursor", pr[0]), P.Func("stree", "Cursor", pr[1])
		if has == nil || mv == nil {
			c.undecided("ANCHOR", "stree.(*Cursor)."+pr[0]+"/"+pr[1], 0, "not found")
			continue
		}
		c.sawFn(fnName(has))
		a, okA := tests(has, pr[2])
		b, okB := tests(mv, pr[2])
		key := "stree.(*Cursor)." + pr[0] + "~" + pr[1]
		if !okA || !okB {
			// the predicate asks the finder of the opposite direction: a definite fault, not a lost anchor
			other := map[string]string{"findNext": "findPrev", "findPrev": "findNext"}[pr[2]]
			if _, usesOther := tests(has, other); !okA && okB && usesOther {
				c.bad("R-SIBLING-AGREE", key, has.Pos(), fmt.Sprintf("%s consults %s while %s moves by %s: the predicate answers the question for the opposite direction (wrong at both ends of the tree)", pr[0], other, pr[1], pr[2]))
				continue
			}
			c.undecided("R-SIBLING-AGREE", key, has.Pos(), "predicate and move do not both consult "+pr[2])
			continue
		}
		var diff []string
		for t := range a {
			if !b[t] {
				diff = append(diff, pr[0]+" tests `"+t+"` but "+pr[1]+" does not")
			}
		}
		for t := range b {
			if !a[t] {
				diff = append(diff, pr[1]+" tests `"+t+"` but "+pr[0]+" does not")
			}
		}
		sortStrings(diff)
		agreeNote := ""
		{
			// the two need not test alike to agree: compare what they do for every answer the finder can give
			var hc, mc *ssa.Call
			var ff *ssa.Function
			find := func(fn *ssa.Function) *ssa.Call {
				var out *ssa.Call
				allInstrs(fn, func(in ssa.Instruction) {
					if call, ok := in.(*ssa.Call); ok {
						if cal := staticCallee(&call.Call); cal != nil && cal.Name() == pr[2] {
							out, ff = call, cal
						}
					}
				})
				return out
			}
			hc, mc = find(has), find(mv)
			if hc != nil && mc != nil && ff != nil {
				switch v, why := m.sibAgree(has, mv, ff, hc, mc, pr[0], pr[1]); v {
				case 1:
					if len(diff) > 0 {
						agreeNote = "; they test differently but"
					} else {
						agreeNote = "; they"
					}
					diff, agreeNote = nil, agreeNote+" agree on each of the "+why
				case 2:
					diff = []string{why}
				}
			}
		}
		// every answer other than a constant false is given after consulting the finder: a shortcut that says
		// "yes" on its own evidence is not backed by what the move will do
		var finder *ssa.Call
		allInstrs(has, func(in ssa.Instruction) {
			if call, ok := in.(*ssa.Call); ok {
				if cal := staticCallee(&call.Call); cal != nil && cal.Name() == pr[2] {
					finder = call
				}
			}
		})
		if finder != nil {
			var chk func(v ssa.Value, at *ssa.BasicBlock, seen map[ssa.Value]bool)
			chk = func(v ssa.Value, at *ssa.BasicBlock, seen map[ssa.Value]bool) {
				if seen[v] {
					return
				}
				seen[v] = true
				if k, ok := v.(*ssa.Const); ok && k.Value != nil && k.Value.String() == "false" {
					return
				}
				if ph, ok := v.(*ssa.Phi); ok {
					for i, e := range ph.Edges {
						chk(e, ph.Block().Preds[i], seen)
					}
					return
				}
				if !(finder.Block() == at || finder.Block().Dominates(at)) {
					diff = append(diff, fmt.Sprintf("%s can answer %s at %s without consulting %s", pr[0], ksym(v), P.pos(at.Instrs[len(at.Instrs)-1].Pos()), pr[2]))
				}
			}
			allInstrs(has, func(in ssa.Instruction) {
				if ret, ok := in.(*ssa.Return); ok && len(ret.Results) == 1 {
					chk(ret.Results[0], ret.Block(), map[ssa.Value]bool{})
				}
			})
			sortStrings(diff)
		}
		c.judge(len(diff) == 0, "R-SIBLING-AGREE", key, has.Pos(), fmt.Sprintf("both apply %d identical tests to %s's results%s", len(a), pr[2], agreeNote), strings.Join(diff, "; ")+": the predicate no longer predicts what the move does")
	}
}

// ---- R-SUBTREE-WALK: Cursor.Inorder walks exactly the subtree of the current node
func (m *streeModel) ruleSubtreeWalk(c *Ctx) {
	P := c.P
	fn := P.Func("stree", "Cursor", "Inorder")
	if fn == nil {
		c.undecided("ANCHOR", "stree.(*Cursor).Inorder", 0, "not found")
		return
	}
	c.sawFn(fnName(fn))
	sites := yieldSites(fn)
	okW := len(sites) == 1
	why := fmt.Sprintf("%d yield-like call sites", len(sites))
	if okW {
		call := sites[0]
		okW = staticCallee(&call.Call) == m.inorder
		why = "the walk is not delegated to the subtree walker node.inorder"
		if okW {
			// arg0 = c.path[len(c.path)-1]
			okW = false
			why = "the subtree walker is not started at the cursor's current node"
			isLast := func(v ssa.Value, cur ssa.Value) bool {
				addr, ok := loadAddr(v)
				if !ok {
					return false
				}
				ia, ok := addr.(*ssa.IndexAddr)
				if !ok {
					return false
				}
				base, f := loadedField(ia.X)
				if f == nil || !sameField(f, m.pathF) || base != cur {
					return false
				}
				bo, ok := ia.Index.(*ssa.BinOp)
				if !ok || bo.Op != token.SUB || !isConstInt(bo.Y, 1) {
					return false
				}
				ln, ok := isBuiltinCall(bo.X, "len")
				if !ok {
					return false
				}
				b2, f2 := loadedField(ln.Call.Args[0])
				return f2 != nil && sameField(f2, m.pathF) && b2 == cur
			}
			// … or at what a current-node accessor of the cursor returns: a method on the same cursor all of whose
			// results are nil or the last element of its path
			if acc, ok := call.Call.Args[0].(*ssa.Call); ok && len(acc.Call.Args) == 1 && acc.Call.Args[0] == ssa.Value(fn.Params[0]) {
				if cal := origin(staticCallee(&acc.Call)); cal != nil && cal.Blocks != nil && len(cal.Params) == 1 {
					all, n := true, 0
					allInstrs(cal, func(in ssa.Instruction) {
						if ret, ok := in.(*ssa.Return); ok && len(ret.Results) == 1 {
							n++
							if !isNilConst(ret.Results[0]) && !isLast(ret.Results[0], cal.Params[0]) {
								all = false
							}
						}
					})
					if all && n > 0 {
						okW = true
					}
				}
			}
			if addr, ok := loadAddr(call.Call.Args[0]); ok {
				if ia, ok := addr.(*ssa.IndexAddr); ok {
					if base, f := loadedField(ia.X); f != nil && sameField(f, m.pathF) && base == ssa.Value(fn.Params[0]) {
						if bo, ok := ia.Index.(*ssa.BinOp); ok && bo.Op == token.SUB && isConstInt(bo.Y, 1) {
							if ln, ok := isBuiltinCall(bo.X, "len"); ok {
								if b2, f2 := loadedField(ln.Call.Args[0]); f2 != nil && sameField(f2, m.pathF) && b2 == ssa.Value(fn.Params[0]) {
									okW = true
								}
							}
						}
					}
				}
			}
		}
	}
	if okW {
		c.ok("R-SUBTREE-WALK", "stree.(*Cursor).Inorder", fn.Pos(), "delegates to node.inorder on the current node: exactly the subtree")
	} else {
		c.undecided("R-SUBTREE-WALK", "stree.(*Cursor).Inorder", fn.Pos(), why+": whether exactly the keys of the subtree are listed cannot be established (only the delegating form is recognised)")
	}
}

// ruleRebuildUsed: rewrite relinks the nodes it is given in place and returns
// the new subtree root; the pointer it was handed afterwards reaches only part
// of the subtree.  So at every call the result must take the place of the
// argument: flow (through φ) into a return value or into a store to a link
// field.  A result that is only kept in a local is a lost subtree.
func (m *streeModel) ruleRebuildUsed(c *Ctx) {
	P := c.P
	rewrite := streeRebuild(P)
	if rewrite == nil {
		c.undecided("ANCHOR", "stree.rewrite", 0, "not found")
		return
	}
	for _, fn := range P.PkgFuncs("stree") {
		fn := fn
		n := 0
		allInstrs(fn, func(in ssa.Instruction) {
			call, ok := in.(*ssa.Call)
			if !ok || staticCallee(&call.Call) == nil || origin(staticCallee(&call.Call)) != rewrite {
				return
			}
			n++
			key := fmt.Sprintf("%s:rebuilt subtree kept", fnName(fn))
			if n > 1 {
				key = fmt.Sprintf("%s #%d", key, n)
			}
			used := false
			seen := map[ssa.Value]bool{}
			var walk func(v ssa.Value)
			walk = func(v ssa.Value) {
				if seen[v] {
					return
				}
				seen[v] = true
				for _, r := range referrersOf(v) {
					switch r := r.(type) {
					case *ssa.Return:
						used = true
					case *ssa.Store:
						if r.Val != v {
							continue
						}
						if _, ok := r.Addr.(*ssa.FieldAddr); ok {
							used = true
						} else if al, ok := r.Addr.(*ssa.Alloc); ok {
							// a variable cell (captured or address-taken): follow its loads
							for _, r2 := range referrersOf(al) {
								if ld, ok := r2.(*ssa.UnOp); ok && ld.Op == token.MUL {
									walk(ld)
								}
							}
						} else {
							used = true // through a pointer to a link
						}
					case *ssa.Phi:
						walk(r)
					case *ssa.Call:
						// handed on to another function: not judged here
						used = true
					}
				}
			}
			walk(call)
			c.judge(used, "R-REBUILD-USED", key, call.Pos(), "result returned or stored in a link", "the rebuilt subtree is dropped: the rebuild relinks the nodes in place, so the pointer still held (the old subtree root) now reaches only part of the elements")
			// the node count handed to the rebuild, when it is the tree's cached count, is the count of the
			// tree as rebuilt: the cached count is not adjusted afterwards
			if sizeF := m.countField(); len(call.Call.Args) > 1 && sizeF != nil {
				if _, f := loadedField(call.Call.Args[1]); f != nil && sameField(f, sizeF) {
					late, wit := reachesWithout(P, call, false, func(in2 ssa.Instruction) bool {
						st, ok := in2.(*ssa.Store)
						if !ok {
							return false
						}
						fa, ok := st.Addr.(*ssa.FieldAddr)
						if !ok {
							return false
						}
						_, f2 := fieldVarOf(fa)
						return sameField(f2, sizeF)
					}, func(ssa.Instruction) bool { return false })
					c.judge(!late, "R-REBUILD-USED", key+":count", call.Pos(), "the cached count is final when it is handed to the rebuild", "the rebuild is given the cached element count, which is adjusted only afterwards ("+wit+"): the count does not match the nodes under the root, so the rebuild walks off the vine or leaves a tail unbalanced")
				}
			}
		})
	}
}

// ruleAscendGated: the in-order successor of a node is an ancestor only when
// the node has no large-side subtree (mirrored for the predecessor).  So in
// Next every event that shortens or drops the cursor's path must be dominated
// by a read of a large-side child link — directly or inside a helper (findNext)
// called before it; in Prev by a read of a small-side link.  A shortcut that
// moves up after looking only at the other side skips a whole subtree.
func (m *streeModel) ruleAscendGated(c *Ctx) {
	P := c.P
	readsSide := func(fn *ssa.Function, side *types.Var) bool {
		found := false
		for _, f := range buildCallScope(fn).fns {
			for _, a := range m.childAccesses(f) {
				if !a.store && sameField(a.fld, side) {
					found = true
				}
			}
		}
		return found
	}
	shortens := func(in ssa.Instruction) bool {
		st, ok := in.(*ssa.Store)
		if !ok {
			return false
		}
		fa, ok := st.Addr.(*ssa.FieldAddr)
		if !ok {
			return false
		}
		if _, f := fieldVarOf(fa); !sameField(f, m.pathF) {
			return false
		}
		if isNilConst(st.Val) {
			return true
		}
		_, isSlice := st.Val.(*ssa.Slice)
		return isSlice
	}
	for _, t := range []struct {
		name string
		side *types.Var
		what string
	}{{"Next", m.large, "large"}, {"Prev", m.small, "small"}} {
		fn := P.Func("stree", "Cursor", t.name)
		if fn == nil {
			c.undecided("ANCHOR", "stree.(*Cursor)."+t.name, 0, "not found")
			continue
		}
		for _, f := range withClosures(fn) {
			f := f
			// gates: instructions of f that read the side (directly or through a callee)
			var gates []ssa.Instruction
			allInstrs(f, func(in ssa.Instruction) {
				switch x := in.(type) {
				case *ssa.FieldAddr:
					if _, fld := fieldVarOf(x); isNamedOrigin(x.X.Type(), m.nodeT) && sameField(fld, t.side) {
						gates = append(gates, in)
					}
				case *ssa.Call:
					if cal := staticCallee(&x.Call); cal != nil && cal.Blocks != nil && origin(cal).Pkg == origin(fn).Pkg && origin(cal) != origin(fn) && readsSide(origin(cal), t.side) {
						gates = append(gates, in)
					}
				}
			})
			n := 0
			allInstrs(f, func(in ssa.Instruction) {
				ev := shortens(in)
				if call, ok := in.(*ssa.Call); ok && !ev {
					if cal := staticCallee(&call.Call); cal != nil && cal.Blocks != nil && origin(cal).Pkg == origin(fn).Pkg && origin(cal) != origin(fn) {
						for _, g := range buildCallScope(origin(cal)).fns {
							allInstrs(g, func(in2 ssa.Instruction) {
								if shortens(in2) {
									ev = true
								}
							})
						}
						// a helper that both reads the side and shortens gates itself
						if ev && readsSide(origin(cal), t.side) {
							ev = false
						}
					}
				}
				if !ev {
					return
				}
				n++
				key := fmt.Sprintf("%s:path shortened #%d", fnName(f), n)
				ok := false
				for _, g := range gates {
					if g != in && dominatesInstr(g, in) {
						ok = true
					}
				}
				c.judge(ok, "R-ASCEND-GATED", key, in.Pos(), "a read of the "+t.what+"-side child dominates", fmt.Sprintf("%s moves the cursor up (or invalidates it) on a path where the %s-side child of the current node was never looked at: when that subtree is not empty all of its keys are skipped", t.name, t.what))
			})
		}
	}
}

// rulePathComplete / R-PATH-FRESH.  Tree.Cursor(key) hands the root-to-node
// search path to the cursor; Up/Prev/Next walk that path.  (a) In the search
// (the function in Tree.Cursor's call scope that appends nodes to a slice in a
// loop) every trip round the loop must append the node it is at: a back edge
// that carries the path unchanged drops a node and the cursor's ancestors are
// wrong.  (b) The slice stored into the new Cursor must have a provenance of
// allocations only — a scratch buffer kept in the tree is overwritten by the
// next lookup while the first cursor is still live.
func (m *streeModel) rulePathComplete(c *Ctx) {
	P := c.P
	tc := P.Func("stree", "Tree", "Cursor")
	if tc == nil {
		c.undecided("ANCHOR", "stree.(*Tree).Cursor", 0, "not found")
		return
	}
	isNodeSlice := func(t types.Type) bool {
		sl, ok := t.Underlying().(*types.Slice)
		return ok && isNamedOrigin(sl.Elem(), m.nodeT)
	}
	// (a)
	nLoop := 0
	for _, fn := range buildCallScope(tc).fns {
		for _, b := range fn.Blocks {
			for _, in := range b.Instrs {
				ph, ok := in.(*ssa.Phi)
				if !ok {
					break
				}
				if !isNodeSlice(ph.Type()) {
					continue
				}
				hasBack := false
				for i := range ph.Edges {
					if b.Dominates(b.Preds[i]) {
						hasBack = true
					}
				}
				if !hasBack {
					continue
				}
				nLoop++
				c.sawFn(fnName(fn))
				key := fmt.Sprintf("%s:path loop #%d", fnName(fn), nLoop)
				var bad token.Pos
				var grows func(v ssa.Value, seen map[ssa.Value]bool) bool
				grows = func(v ssa.Value, seen map[ssa.Value]bool) bool {
					if seen[v] {
						return true
					}
					seen[v] = true
					switch x := v.(type) {
					case *ssa.Call:
						if ap, ok := isBuiltinCall(x, "append"); ok {
							_ = ap
							return true
						}
						return false
					case *ssa.Phi:
						if x == ph {
							return false
						}
						for _, e := range x.Edges {
							if !grows(e, seen) {
								return false
							}
						}
						return true
					}
					return false
				}
				okAll := true
				for i, e := range ph.Edges {
					if !b.Dominates(b.Preds[i]) {
						continue
					}
					if !grows(e, map[ssa.Value]bool{}) {
						okAll = false
						bad = b.Preds[i].Instrs[len(b.Preds[i].Instrs)-1].Pos()
					}
				}
				pos := ph.Pos()
				if bad != token.NoPos {
					pos = bad
				}
				c.judge(okAll, "R-PATH-COMPLETE", key, pos, "every trip round the loop appends to the path", "the search loop can go round without appending the node it is at: the path handed to the cursor has holes, so Up/Prev/Next reach the wrong ancestors")
			}
		}
	}
	if nLoop == 0 {
		c.undecided("R-PATH-COMPLETE", "stree.(*Tree).Cursor:path loop", tc.Pos(), "no loop that grows a slice of nodes found under Tree.Cursor")
	}
	// (b)
	for _, name := range []string{"Cursor", "Root"} {
		fn := P.Func("stree", "Tree", name)
		if fn == nil {
			continue
		}
		oc := newOrig(fn)
		allInstrs(fn, func(in ssa.Instruction) {
			st, ok := in.(*ssa.Store)
			if !ok {
				return
			}
			fa, ok := st.Addr.(*ssa.FieldAddr)
			if !ok {
				return
			}
			if _, f := fieldVarOf(fa); !sameField(f, m.pathF) {
				return
			}
			c.sawFn(fnName(fn))
			o := oc.of(st.Val)
			c.judge(o.onlyFresh(), "R-PATH-FRESH", fnName(fn)+":path of the new cursor", st.Pos(), "origin Fresh", fmt.Sprintf("the path given to the new cursor is not freshly allocated (origin %s): a later lookup that reuses the same storage rewrites the position of a cursor that is still in use", o))
		})
	}
}

// ruleLinkEdits: two rules on stores to child links in package stree.
//
// R-LINK-STALE: a link value read from X.f and later stored into a link must
// still be current: no call that is handed X and may rewrite field f lies
// between the read and the store (left, right := n.left, n.right;
// popMinRight(n); goat.right = right — the successor may have been n.right).
//
// R-NIL-DROP: a store of nil into one link of a node that stays in the tree
// (its other link is not cleared as well) cuts the old child off; the facts at
// the store must say that the old child is nil or has no children, or the old
// child must be hung somewhere else first.  Otherwise a subtree is dropped.
func (m *streeModel) ruleLinkEdits(c *Ctx) {
	P := c.P
	c.rule("R-LINK-STALE", 2, "a child link that is copied into another link was read after the last call that could rewrite it")
	c.rule("R-NIL-DROP", 1, "a link of a retained node is set to nil only when the old child is known to be nil or childless, or has been re-attached")
	eff := newEff(P)
	isLink := func(f *types.Var) bool { return sameField(f, m.leftF) || sameField(f, m.rightF) }
	for _, fn := range P.PkgFuncs("stree") {
		fn := fn
		name := fnName(fn)
		nStale, nNil := 0, 0
		// nil stores per base, to recognise a node being isolated
		nilStores := map[string]map[string]bool{}
		allInstrs(fn, func(in ssa.Instruction) {
			st, ok := in.(*ssa.Store)
			if !ok || !isNilConst(st.Val) {
				return
			}
			if fa, ok := st.Addr.(*ssa.FieldAddr); ok && isNamedOrigin(fa.X.Type(), m.nodeT) {
				if _, f := fieldVarOf(fa); isLink(f) {
					b := sym(fa.X)
					if nilStores[b] == nil {
						nilStores[b] = map[string]bool{}
					}
					nilStores[b][f.Name()] = true
				}
			}
		})
		// a link (reached through a field or through a pointer-to-link) that receives X.f, read after X.f was set
		// to nil in the same block: what is stored is nil, whatever hung under X.f is dropped
		allInstrs(fn, func(in ssa.Instruction) {
			st, ok := in.(*ssa.Store)
			if !ok {
				return
			}
			ld, ok := st.Val.(*ssa.UnOp)
			if !ok || ld.Op != token.MUL || ld.Block() != st.Block() {
				return
			}
			src, ok := ld.X.(*ssa.FieldAddr)
			if !ok || !isNamedOrigin(src.X.Type(), m.nodeT) {
				return
			}
			_, f := fieldVarOf(src)
			if !isLink(f) {
				return
			}
			cleared := false
			for _, in2 := range st.Block().Instrs {
				if in2 == ssa.Instruction(ld) {
					break
				}
				if s2, ok := in2.(*ssa.Store); ok {
					if fa2, ok := s2.Addr.(*ssa.FieldAddr); ok && isNamedOrigin(fa2.X.Type(), m.nodeT) {
						if _, f2 := fieldVarOf(fa2); sameField(f2, f) && (fa2.X == src.X || sym(fa2.X) == sym(src.X)) {
							cleared = isNilConst(s2.Val)
						}
					}
				}
			}
			if cleared {
				nStale++
				c.sawFn(name)
				c.bad("R-LINK-STALE", fmt.Sprintf("%s:%s.%s read after it was cleared #%d", name, ksym(src.X), f.Name(), nStale), st.Pos(), fmt.Sprintf("%s.%s is set to nil and only then read and stored into a link: the link receives nil, and the subtree that hung under %s.%s is dropped from the tree (its keys disappear while the count still includes them)", ksym(src.X), f.Name(), ksym(src.X), f.Name()))
			}
		})
		allInstrs(fn, func(in ssa.Instruction) {
			st, ok := in.(*ssa.Store)
			if !ok {
				return
			}
			fa, ok := st.Addr.(*ssa.FieldAddr)
			if !ok || !isNamedOrigin(fa.X.Type(), m.nodeT) {
				return
			}
			_, g := fieldVarOf(fa)
			if !isLink(g) {
				return
			}
			// ---- R-LINK-STALE
			if ld, ok := st.Val.(*ssa.UnOp); ok && ld.Op == token.MUL {
				if src, ok := ld.X.(*ssa.FieldAddr); ok && isNamedOrigin(src.X.Type(), m.nodeT) {
					if _, f := fieldVarOf(src); isLink(f) {
						nStale++
						c.sawFn(name)
						key := fmt.Sprintf("%s:%s.%s = %s.%s #%d", name, ksym(fa.X), g.Name(), ksym(src.X), f.Name(), nStale)
						var killer ssa.Instruction
						for _, mid := range instrsBetween(ld, st) {
							call, isCall := mid.(*ssa.Call)
							if !isCall || !eff.killsField(mid, f) {
								continue
							}
							for _, a := range call.Call.Args {
								if a == src.X || sym(a) == sym(src.X) {
									killer = mid
								}
							}
						}
						if killer != nil {
							c.bad("R-LINK-STALE", key, st.Pos(), fmt.Sprintf("%s.%s is read at line %d, then %s is handed to a call that can rewrite its .%s link (line %d), and only then the old value is stored into %s.%s: the link written may no longer be a child of %s — nodes are lost or linked twice", ksym(src.X), f.Name(), P.Fset.Position(ld.Pos()).Line, ksym(src.X), f.Name(), P.Fset.Position(killer.Pos()).Line, ksym(fa.X), g.Name(), ksym(src.X)))
						} else {
							c.ok("R-LINK-STALE", key, st.Pos(), "read after the last call that could rewrite it")
						}
					}
				}
			}
			// ---- R-NIL-DROP
			if isNilConst(st.Val) {
				nNil++
				c.sawFn(name)
				base := sym(fa.X)
				key := fmt.Sprintf("%s:%s.%s = nil #%d", name, ksym(fa.X), g.Name(), nNil)
				if len(nilStores[base]) >= 2 {
					c.ok("R-NIL-DROP", key, st.Pos(), "the node is being isolated (both links cleared)")
					return
				}
				// the old child: loads of the same link that dominate the store
				var olds []ssa.Value
				allInstrs(fn, func(in2 ssa.Instruction) {
					ld, ok := in2.(*ssa.UnOp)
					if !ok || ld.Op != token.MUL {
						return
					}
					if src, ok := ld.X.(*ssa.FieldAddr); ok && sym(src.X) == base {
						if _, f := fieldVarOf(src); sameField(f, g) && dominatesInstr(ld, st) {
							olds = append(olds, ld)
						}
					}
				})
				okDrop, why := false, "the old child is never examined"
				for _, old := range olds {
					nilKnown, lnil, rnil, moved := false, false, false, false
					for _, cm := range cmpsAt(st.Block()) {
						if cm.Op != token.EQL || !isNilConst(cm.Y) {
							continue
						}
						if cm.X == old {
							nilKnown = true
						}
						if b2, f2 := loadedField(cm.X); f2 != nil && (b2 == old || sym(b2) == sym(old)) {
							if sameField(f2, m.leftF) {
								lnil = true
							}
							if sameField(f2, m.rightF) {
								rnil = true
							}
						}
					}
					// re-attached: some dominating store puts the old child into a link
					allInstrs(fn, func(in2 ssa.Instruction) {
						if s2, ok := in2.(*ssa.Store); ok && s2 != st && s2.Val == old && dominatesInstr(s2, st) {
							if fa2, ok := s2.Addr.(*ssa.FieldAddr); ok {
								if _, f2 := fieldVarOf(fa2); isLink(f2) {
									moved = true
								}
							}
						}
					})
					if nilKnown || moved || (lnil && rnil) {
						okDrop = true
					} else {
						why = fmt.Sprintf("the old child %s is cut off, but only", ksym(old))
						if lnil {
							why += " its ." + m.leftF.Name() + " is known to be nil"
						} else if rnil {
							why += " its ." + m.rightF.Name() + " is known to be nil"
						} else {
							why += " nothing is known about its children"
						}
						why += ": the subtree under its other link is dropped from the tree"
					}
				}
				c.judge(okDrop, "R-NIL-DROP", key, st.Pos(), "old child nil, childless or re-attached", why)
			}
		})
	}
}

// countField: the integer field of Tree that Len returns.
func (m *streeModel) countField() *types.Var {
	lenFn := m.P.Func("stree", "Tree", "Len")
	if lenFn == nil {
		return nil
	}
	var sizeF *types.Var
	allInstrs(lenFn, func(in ssa.Instruction) {
		if ret, ok := in.(*ssa.Return); ok && len(ret.Results) == 1 {
			if _, f := loadedField(ret.Results[0]); f != nil {
				sizeF = f
			}
		}
	})
	return sizeF
}

// ruleReadOnly: the read-only operations of the tree — lookups, iteration,
// cursor construction, cloning — leave every field of the tree and of its nodes
// alone, in their own bodies, in the closures they create (iterators run later)
// and in everything those call.  Iteration state kept in the tree is shared by
// every iteration in progress, and by a clone.
func (m *streeModel) ruleReadOnly(c *Ctx) {
	P := c.P
	c.rule("R-READONLY", 6, "Get, Min, Max, Len, IsEmpty, Inorder, InorderAfter, Cursor, Root, Clone and the cursor's read-only methods store to no field of Tree or node")
	eff := newEff(P)
	structOf := func(n *types.Named) *types.Struct {
		if n == nil {
			return nil
		}
		st, _ := n.Underlying().(*types.Struct)
		return st
	}
	owned := map[*types.Var]string{}
	for _, n := range []*types.Named{m.treeT, m.nodeT} {
		if st := structOf(n); st != nil {
			for i := 0; i < st.NumFields(); i++ {
				owned[st.Field(i).Origin()] = n.Obj().Name() + "." + st.Field(i).Name()
			}
		}
	}
	for _, t := range [][2]string{{"Tree", "Get"}, {"Tree", "Min"}, {"Tree", "Max"}, {"Tree", "Len"}, {"Tree", "IsEmpty"}, {"Tree", "Inorder"}, {"Tree", "InorderAfter"}, {"Tree", "Cursor"}, {"Tree", "Root"}, {"Tree", "Clone"}, {"Cursor", "Key"}, {"Cursor", "Valid"}, {"Cursor", "Inorder"}, {"Cursor", "HasNext"}, {"Cursor", "HasPrev"}} {
		fn := P.Func("stree", t[0], t[1])
		if fn == nil {
			continue
		}
		c.sawFn(fnName(fn))
		var hits []string
		for _, f := range withClosures(fn) {
			e := eff.of(f)
			for fld := range e.Fields {
				if what, ok := owned[fld.Origin()]; ok {
					// Clone writes the fields of the copies it allocates: stores on fresh allocations are not effects on the tree
					if t[1] == "Clone" {
						continue
					}
					hits = append(hits, what)
				}
			}
		}
		sortStrings(hits)
		c.judge(len(hits) == 0, "R-READONLY", fnName(fn)+":no effect on the tree", fn.Pos(), "stores to no field of Tree or node", fmt.Sprintf("a read-only operation writes %v: state kept in the tree is shared by every lookup or iteration in progress (and by clones), so two of them disturb each other", hits))
	}
}

// ruleTreeAccessors: small agreements between sibling accessors and the state
// they read (C01, C03, C04).
//
//   - R-COUNT-FIELD: IsEmpty tests the very field Len returns, against zero; a
//     rebuild of the whole tree that is handed a field of the tree as node
//     count is handed that field (not the high-water mark).
//   - R-REMOVE-PROMOTE: where the removal returns a child link of the removed
//     node as its replacement, that link is not one the facts on the path say is
//     nil while the other link is not known to be nil (the other subtree would be
//     dropped).
//   - R-CURRENT-NODE: every element of the cursor's path that a navigation
//     predicate or move of Cursor reads children of is the last one
//     (path[len(path)-1]), except inside the ancestor walks of findNext/findPrev.
//   - R-CURSOR-EQUAL: Tree.Cursor hands out a non-empty path only on a path
//     where the comparison with the searched key was == 0.
func (m *streeModel) ruleTreeAccessors(c *Ctx) {
	P := c.P
	c.rule("R-COUNT-FIELD", 1, "IsEmpty tests the field Len returns; a whole-tree rebuild counted by a tree field is counted by that field")
	c.rule("R-REMOVE-PROMOTE", 0, "the child link the removal returns in place of the removed node is not one known to be nil while its sibling is not")
	c.rule("R-CURRENT-NODE", 0, "cursor predicates and moves read the children of the last element of the path")
	c.rule("R-CURSOR-EQUAL", 1, "Tree.Cursor returns a positioned cursor only where the comparison with the key was == 0")
	sizeF := m.countField()
	// ---- R-COUNT-FIELD
	if ie := P.Func("stree", "Tree", "IsEmpty"); ie != nil && sizeF != nil {
		c.sawFn(fnName(ie))
		okE := false
		var got string
		allInstrs(ie, func(in ssa.Instruction) {
			if ret, ok := in.(*ssa.Return); ok && len(ret.Results) == 1 {
				if bo, ok := ret.Results[0].(*ssa.BinOp); ok && isConstInt(bo.Y, 0) {
					if _, f := loadedField(bo.X); f != nil {
						got = f.Name()
						okE = sameField(f, sizeF) && (bo.Op == token.EQL || bo.Op == token.LEQ)
					}
				}
				if call, ok := ret.Results[0].(*ssa.BinOp); ok {
					if cl, ok := call.X.(*ssa.Call); ok && isConstInt(call.Y, 0) {
						if cal := staticCallee(&cl.Call); cal != nil && cal.Name() == "Len" {
							okE = true
						}
					}
				}
			}
		})
		c.judge(okE, "R-COUNT-FIELD", "stree.(*Tree).IsEmpty:tests the count", ie.Pos(), "IsEmpty is Len() == 0", fmt.Sprintf("IsEmpty tests .%s, but Len returns .%s: the two disagree whenever those fields differ (after removals the high-water mark stays up)", got, sizeF.Name()))
	}
	if sizeF != nil {
		if rewrite := streeRebuild(P); rewrite != nil {
			for _, fn := range P.Methods("stree", "Tree") {
				fn := fn
				allInstrs(fn, func(in ssa.Instruction) {
					call, ok := in.(*ssa.Call)
					if !ok || origin(staticCallee(&call.Call)) != rewrite || len(call.Call.Args) < 2 {
						return
					}
					if _, f := loadedField(call.Call.Args[1]); f != nil && isNamedOrigin(call.Call.Args[1].(*ssa.UnOp).X.(*ssa.FieldAddr).X.Type(), m.treeT) {
						c.sawFn(fnName(fn))
						c.judge(sameField(f, sizeF), "R-COUNT-FIELD", fnName(fn)+":rebuild counted by the count field", call.Pos(), "rewrite(root, count)", fmt.Sprintf("the whole tree is rebuilt with .%s as its node count, but the number of nodes is .%s: the rebuild walks off the end of the vine or leaves a tail unbalanced", f.Name(), sizeF.Name()))
					} else if bo, ok := call.Call.Args[1].(*ssa.BinOp); ok && isLoadOfField(call.Call.Args[0], m.rootF) {
						// the whole tree rebuilt with the count field ± a constant: one node too many or too few
						if _, f := loadedField(bo.X); f != nil && sameField(f, sizeF) {
							if k, isK := constInt(bo.Y); isK && k != 0 && (bo.Op == token.ADD || bo.Op == token.SUB) {
								c.sawFn(fnName(fn))
								c.bad("R-COUNT-FIELD", fnName(fn)+":rebuild counted by the count field", call.Pos(), fmt.Sprintf("the whole tree is rebuilt with %s as its node count, but it has exactly .%s nodes: the rebuild walks off the end of the vine (a nil dereference for some sizes) or leaves a tail unbalanced", ksym(bo), sizeF.Name()))
							}
						}
					}
				})
			}
		}
	}
	// ---- R-REMOVE-PROMOTE
	if rm := P.Func("stree", "node", "remove"); rm != nil {
		n := 0
		for _, fn := range buildCallScope(rm).fns {
			fn := fn
			allInstrs(fn, func(in ssa.Instruction) {
				ret, ok := in.(*ssa.Return)
				if !ok || len(ret.Results) < 1 {
					return
				}
				base, f := loadedField(ret.Results[0])
				if f == nil || (!sameField(f, m.leftF) && !sameField(f, m.rightF)) {
					return
				}
				n++
				c.sawFn(fnName(fn))
				selfNil, sibNil := false, false
				for _, cm := range cmpsAt(ret.Block()) {
					if cm.Op != token.EQL || !isNilConst(cm.Y) {
						continue
					}
					if b2, f2 := loadedField(cm.X); f2 != nil && sym(b2) == sym(base) {
						if sameField(f2, f) {
							selfNil = true
						} else if sameField(f2, m.leftF) || sameField(f2, m.rightF) {
							sibNil = true
						}
					}
				}
				key := fmt.Sprintf("%s:returns .%s #%d", fnName(fn), f.Name(), n)
				c.judge(!(selfNil && !sibNil), "R-REMOVE-PROMOTE", key, ret.Pos(), "the returned link is not known to be nil (or both are)", fmt.Sprintf("the removed node is replaced by its .%s link on a path where that link is known to be nil and the other link is not: the other subtree is dropped from the tree", f.Name()))
			})
		}
	}
	// ---- R-CURRENT-NODE
	for _, name := range []string{"HasLeft", "HasRight", "Left", "Right", "Key", "Min", "Max", "Inorder", "Up", "HasParent"} {
		fn := P.Func("stree", "Cursor", name)
		if fn == nil {
			continue
		}
		var bad []string
		n := 0
		for _, f := range withClosures(fn) {
			allInstrs(f, func(in ssa.Instruction) {
				ia, ok := in.(*ssa.IndexAddr)
				if !ok {
					return
				}
				if _, fld := loadedField(ia.X); fld == nil || !sameField(fld, m.pathF) {
					return
				}
				// only element READS that are dereferenced (children / key of that node)
				n++
				idx := ia.Index
				okIdx := false
				if bo, ok := idx.(*ssa.BinOp); ok && bo.Op == token.SUB && isConstInt(bo.Y, 1) {
					if ln, ok := isBuiltinCall(bo.X, "len"); ok {
						if _, f2 := loadedField(ln.Call.Args[0]); f2 != nil && sameField(f2, m.pathF) {
							okIdx = true
						}
					}
				}
				if !okIdx {
					bad = append(bad, fmt.Sprintf("path[%s] at %s", ksym(idx), P.pos(ia.Pos())))
				}
			})
		}
		if n == 0 {
			continue
		}
		c.sawFn(fnName(fn))
		c.judge(len(bad) == 0, "R-CURRENT-NODE", fnName(fn)+":reads the current node", fn.Pos(), "path[len(path)-1]", fmt.Sprintf("the method looks at %v, not at the node the cursor is on (the last element of the path): its answer describes another node", bad))
	}
	// ---- R-HAS-POLARITY: a Has… predicate of the cursor that looks at a child link answers "is there one": the
	// link is compared with nil by != (or by == under a negation)
	c.rule("R-HAS-POLARITY", 0, "HasLeft/HasRight compare the child link with nil by !=: true exactly when there is a child")
	for _, name := range []string{"HasLeft", "HasRight"} {
		fn := P.Func("stree", "Cursor", name)
		if fn == nil {
			continue
		}
		k := 0
		allInstrs(fn, func(in ssa.Instruction) {
			bo, ok := in.(*ssa.BinOp)
			if !ok || (bo.Op != token.EQL && bo.Op != token.NEQ) {
				return
			}
			x, y := bo.X, bo.Y
			if isNilConst(x) {
				x, y = y, x
			}
			if !isNilConst(y) {
				return
			}
			if _, f := loadedField(x); f == nil || !(sameField(f, m.small) || sameField(f, m.large)) {
				return
			}
			negated := false
			for _, r := range referrersOf(bo) {
				if u, ok := r.(*ssa.UnOp); ok && u.Op == token.NOT {
					negated = true
				}
			}
			k++
			c.sawFn(fnName(fn))
			c.judge((bo.Op == token.NEQ) != negated, "R-HAS-POLARITY", fmt.Sprintf("%s:child test #%d", fnName(fn), k), bo.Pos(), "child != nil", fmt.Sprintf("%s answers true when the child link IS nil and false when there is a child: the predicate is inverted (the move it announces does the opposite)", name))
		})
	}
	// ---- R-CURSOR-EQUAL
	if tc := P.Func("stree", "Tree", "Cursor"); tc != nil {
		c.sawFn(fnName(tc))
		// returns that hand out a path: a Cursor allocation whose path field is stored a non-nil value
		n := 0
		allInstrs(tc, func(in ssa.Instruction) {
			st, ok := in.(*ssa.Store)
			if !ok {
				return
			}
			fa, ok := st.Addr.(*ssa.FieldAddr)
			if !ok {
				return
			}
			if _, f := fieldVarOf(fa); !sameField(f, m.pathF) || isNilConst(st.Val) {
				return
			}
			n++
			eq := false
			var other string
			for _, cm := range cmpsAt(st.Block()) {
				if call, ok := cm.X.(*ssa.Call); ok && isCmpCall(call) && isConstInt(cm.Y, 0) {
					if cm.Op == token.EQL {
						eq = true
					} else {
						other = cm.Op.String() + " 0"
					}
				}
			}
			c.judge(eq, "R-CURSOR-EQUAL", fmt.Sprintf("stree.(*Tree).Cursor:positioned cursor #%d", n), st.Pos(), "only under compare(...) == 0", fmt.Sprintf("a positioned cursor is handed out where the comparison of the last path node with the key is only known to be %s: absent keys get a valid cursor on a neighbouring key", other))
		})
	}
}

// successorPop: the helper that unlinks the in-order successor for a two-children removal — by name, or by role: the
// package-level function of stree that node.remove calls and that hands back a node.
func (m *streeModel) successorPop() *ssa.Function {
	P := m.P
	if fn := P.Func("stree", "", "popMinRight"); fn != nil {
		return fn
	}
	rm := P.Func("stree", "node", "remove")
	if rm == nil {
		return nil
	}
	var found *ssa.Function
	allInstrs(rm, func(in ssa.Instruction) {
		call, ok := in.(*ssa.Call)
		if !ok {
			return
		}
		cal := origin(staticCallee(&call.Call))
		if cal == nil || cal == rm || cal.Blocks == nil || cal.Pkg != rm.Pkg || cal.Signature.Recv() != nil || cal.Signature.Results().Len() != 1 {
			return
		}
		if isNamedOrigin(cal.Signature.Results().At(0).Type(), m.nodeT) {
			found = cal
		}
	})
	return found
}

// ---- R-REBUILD-EMPTY: the in-place rebuild tolerates an empty subtree.  Tree.Remove rebuilds the whole tree when
// the count falls under the shrink bound, and does so with a nil root once the last key is gone (for balance
// factors where the bound of an empty tree is still positive).  So the subtree parameter of the rebuild — and of
// every helper it hands that parameter, or a helper's result, to — must not be dereferenced except under a test
// that it is not nil.  (Today's code never dereferences it: it hangs it under a sentinel node first.)
func (m *streeModel) ruleRebuildEmpty(c *Ctx) {
	c.rule("R-REBUILD-EMPTY", 1, "the subtree argument of the in-place rebuild (and of the helpers it is handed on to) is dereferenced only under a != nil test")
	rw := streeRebuild(c.P)
	if rw == nil || len(rw.Params) == 0 {
		c.undecided("ANCHOR", "stree rebuild", 0, "not found")
		return
	}
	// premise: some call site hands the rebuild a subtree not known to be non-nil (Remove: the root after a removal)
	var nilSite *ssa.Call
	for _, f := range c.P.PkgFuncs("stree") {
		allInstrs(f, func(in ssa.Instruction) {
			call, ok := in.(*ssa.Call)
			if !ok || origin(staticCallee(&call.Call)) != rw || len(call.Call.Args) == 0 || nilSite != nil {
				return
			}
			a := call.Call.Args[0]
			known := false
			for _, cm := range cmpsAt(call.Block()) {
				if cm.Op == token.NEQ && isNilConst(cm.Y) && (cm.X == a || sym(cm.X) == sym(a)) {
					known = true
				}
			}
			if al, ok := a.(*ssa.Alloc); ok && al.Heap {
				known = true
			}
			if !known {
				nilSite = call
			}
		})
	}
	if nilSite == nil {
		c.ok("R-REBUILD-EMPTY", fnName(rw)+":call sites", rw.Pos(), "every call site hands the rebuild a subtree known to be non-nil")
		return
	}
	tainted := map[*ssa.Parameter]bool{rw.Params[0]: true}
	fns := []*ssa.Function{rw}
	seen := map[*ssa.Function]bool{rw: true}
	mayBe := func(v ssa.Value) *ssa.Parameter {
		if p, ok := v.(*ssa.Parameter); ok && tainted[p] {
			return p
		}
		if ph, ok := v.(*ssa.Phi); ok {
			for i, e := range ph.Edges {
				if p, ok := e.(*ssa.Parameter); ok && tainted[p] && !ph.Block().Dominates(ph.Block().Preds[i]) {
					return p
				}
			}
		}
		return nil
	}
	for i := 0; i < len(fns) && i < 16; i++ {
		f := fns[i]
		allInstrs(f, func(in ssa.Instruction) {
			call, ok := in.(*ssa.Call)
			if !ok {
				return
			}
			g := origin(staticCallee(&call.Call))
			if g == nil || g.Blocks == nil || g.Pkg != rw.Pkg || g.Signature.Recv() != nil {
				return
			}
			for ai, a := range call.Call.Args {
				if ai >= len(g.Params) || !isNamedOrigin(g.Params[ai].Type(), m.nodeT) {
					continue
				}
				_, isP := a.(*ssa.Parameter)
				fromHelper := false
				if ac, ok := a.(*ssa.Call); ok {
					if h := origin(staticCallee(&ac.Call)); h != nil && h.Pkg == rw.Pkg && seen[h] {
						fromHelper = true
					}
				}
				if (isP && tainted[a.(*ssa.Parameter)]) || fromHelper {
					tainted[g.Params[ai]] = true
					if !seen[g] {
						seen[g] = true
						fns = append(fns, g)
					}
				}
			}
		})
	}
	for _, f := range fns {
		for _, p := range f.Params {
			if !tainted[p] {
				continue
			}
			c.sawFn(fnName(f))
			var bad ssa.Instruction
			allInstrs(f, func(in ssa.Instruction) {
				fa, ok := in.(*ssa.FieldAddr)
				if !ok || bad != nil || mayBe(fa.X) != p {
					return
				}
				guarded := false
				for _, cm := range cmpsAt(fa.Block()) {
					if cm.Op == token.NEQ && isNilConst(cm.Y) && (cm.X == fa.X || cm.X == ssa.Value(p)) {
						guarded = true
					}
				}
				if !guarded {
					bad = in
				}
			})
			key := fnName(f) + ":subtree argument " + p.Name()
			if bad != nil {
				c.bad("R-REBUILD-EMPTY", key, bad.Pos(), fmt.Sprintf("%s dereferences its subtree argument without a nil test; Remove rebuilds the whole tree with a nil root once the last key is gone (count 0 under the shrink bound): a nil dereference", f.Name()))
			} else {
				c.ok("R-REBUILD-EMPTY", key, f.Pos(), "never dereferenced directly (or only under != nil)")
			}
		}
	}
}
