package main

// C12 — LCS/LIS/LNDS: R-INPUT-IMMUTABLE, R-LEAN-AGREE.

import (
	"fmt"
	"go/constant"
	"go/token"
	"strings"
	"go/types"
	"sort"

	"golang.org/x/tools/go/ssa"
)

func init() {
	register(&propDef{ID: "C12", Level: "other", Run: runC12})
}

// ruleInputImmutable: every write event in fn (and its closures) goes through
// a value of Fresh origin.
func ruleInputImmutable(c *Ctx, rule string, fns []*ssa.Function) {
	for _, top := range fns {
		for _, fn := range withClosures(top) {
			name := fnName(fn)
			c.sawFn(name)
			oc := newOrig(fn)
			for _, ev := range writeEvents(fn) {
				if al, ok := ev.base.(*ssa.Alloc); ok && !al.Heap || isVarargsTemp(ev.base) {
					continue // store into a compiler temporary (varargs / literal backing array)
				}
				o := oc.of(ev.base)
				key := fmt.Sprintf("%s:%s through %s", name, ev.what, ksym(ev.base))
				if o.onlyFresh() {
					c.ok(rule, key, instrPos(ev.in), "origin Fresh")
				} else if len(o.Params) > 0 {
					c.bad(rule, key, instrPos(ev.in), fmt.Sprintf("writes through a value derived from an input parameter (origin %s): the caller's slice is modified", o))
				} else {
					c.bad(rule, key, instrPos(ev.in), fmt.Sprintf("writes through a value of unknown origin (%s)", o))
				}
			}
		}
	}
}

func runC12(c *Ctx) {
	P := c.P
	c.Explanation = "Decides: (R-INPUT-IMMUTABLE) none of LCS/LCSFunc/LIS/LISFunc/LNDS/LNDSFunc/bisectRight/EditScript/editScriptFunc (nor their closures) can write through its input: every element store, copy destination, append base, clear, and every slice passed to a mutating callee (summaries computed from the callee bodies; frozen table for the standard library) has a provenance of allocations made inside the function. (R-LEAN-AGREE) in each of LISFunc and LNDSFunc the strictness of the fast-path comparison agrees with the lean of the binary search it falls back to: LNDS = (>=, right-leaning), LIS = (>, left-leaning); the lean of the in-repository search is read from its body. Each wrong pairing is wrong exactly on runs of equal elements. (R-CMP-SIGN) comparison results are tested by sign only; the strict variant takes no shortcut on slices.IsSorted*; (R-SIBLING-GUARD) guards before a comparison of an element of each input constrain both indices or neither. LCS hands its two inputs to LCSFunc as they are. LCSFunc, LISFunc and LNDSFunc hand back a parameter (directly or through a helper) only where it is known to be empty. Does NOT decide that results are subsequences of maximum length."
	c.rule("R-INPUT-IMMUTABLE", 10, "every write event in the subsequence functions goes through a value whose origin is Fresh")
	c.rule("R-LEAN-AGREE", 4, "LNDSFunc = (>=, Right), LISFunc = (>, Left); LIS/LNDS delegate with cmp.Compare")
	c.rule("R-CMP-SIGN", 1, "every test of a comparison function's result against a constant is a test of its sign only")
	c.assume("user comparison callbacks do not modify the slices (outside the rule)")
	ruleCmpSign(c, "R-CMP-SIGN", P.PkgFuncs("slice"))
	ruleSiblingGuard(c, "slice")

	names := []string{"LCS", "LCSFunc", "LIS", "LISFunc", "LNDS", "LNDSFunc", "bisectRight", "EditScript", "editScriptFunc"}
	var fns []*ssa.Function
	for _, n := range names {
		fn := P.Func("slice", "", n)
		if fn == nil {
			if n == "bisectRight" {
				continue // a private helper: the search may be a library call instead (its lean is read at the call site)
			}
			c.undecided("ANCHOR", "slice."+n, 0, "not found")
			return
		}
		fns = append(fns, fn)
	}
	ruleInputImmutable(c, "R-INPUT-IMMUTABLE", fns)
	ruleCounterWidth(c, fns)
	ruleNoIfaceEq(c, fns)
	ruleSizeGuard(c, "slice")
	ruleLCSDiagonal(c)
	ruleRowLength(c)

	// ---- R-LEAN-AGREE
	lean := func(callee *ssa.Function) (string, string) {
		callee = origin(callee)
		if callee.Pkg != nil && callee.Pkg.Pkg.Path() == "slices" && (callee.Name() == "BinarySearchFunc") {
			return "Left", "slices.BinarySearchFunc returns the smallest index with cmp >= 0"
		}
		if callee.Blocks == nil {
			return "", "unknown search function " + callee.String()
		}
		// in-repository binary search: find `cmp(vs[mid], target) OP 0` whose true edge assigns high = mid
		var res, why string
		// idiom: return sort.Search(len(vs), func(i int) bool { return cmp(vs[i], target) OP 0 }) — the smallest index where the predicate holds
		allInstrs(callee, func(in ssa.Instruction) {
			call, ok := in.(*ssa.Call)
			if !ok || res != "" {
				return
			}
			sc := call.Call.StaticCallee()
			if sc == nil || sc.Pkg == nil || sc.Pkg.Pkg.Path() != "sort" || sc.Name() != "Search" || len(call.Call.Args) != 2 {
				return
			}
			returned := false
			for _, r := range referrersOf(call) {
				if _, ok := r.(*ssa.Return); ok {
					returned = true
				}
			}
			mc, ok := call.Call.Args[1].(*ssa.MakeClosure)
			if !ok || !returned {
				return
			}
			pred := mc.Fn.(*ssa.Function)
			allInstrs(pred, func(in2 ssa.Instruction) {
				ret, ok := in2.(*ssa.Return)
				if !ok || len(ret.Results) != 1 {
					return
				}
				bo, ok := ret.Results[0].(*ssa.BinOp)
				if !ok || !isConstInt(bo.Y, 0) {
					return
				}
				if inner, ok := bo.X.(*ssa.Call); !ok || inner.Call.StaticCallee() != nil {
					return // must be a call of the (captured) comparison function
				}
				switch bo.Op {
				case token.GTR:
					res, why = "Right", "sort.Search: first index whose element is greater than the target"
				case token.GEQ:
					res, why = "Left", "sort.Search: first index whose element is not less than the target"
				}
			})
		})
		if res != "" {
			return res, why
		}
		allInstrs(callee, func(in ssa.Instruction) {
			iff, ok := in.(*ssa.If)
			if !ok {
				return
			}
			bo, ok := iff.Cond.(*ssa.BinOp)
			if !ok || !isConstInt(bo.Y, 0) {
				return
			}
			call, ok := bo.X.(*ssa.Call)
			if !ok {
				return
			}
			isParamCall := false
			for _, p := range callee.Params {
				if call.Call.Value == p {
					isParamCall = true
				}
			}
			if !isParamCall {
				return
			}
			// which loop phi receives mid on the true edge?
			tb, fb := iff.Block().Succs[0], iff.Block().Succs[1]
			// header = common successor with phis
			var highPhi, lowPhi *ssa.Phi
			var header *ssa.BasicBlock
			for _, b := range callee.Blocks {
				for _, in2 := range b.Instrs {
					if ph, ok := in2.(*ssa.Phi); ok {
						// init edge: constant 0 -> low; otherwise high
						for i, e := range ph.Edges {
							if !b.Dominates(b.Preds[i]) {
								if isConstInt(e, 0) {
									lowPhi = ph
								} else {
									highPhi = ph
								}
								header = b
							}
						}
					}
				}
			}
			if highPhi == nil || lowPhi == nil || header == nil {
				why = "search loop variables not recognised"
				return
			}
			edgeVal := func(ph *ssa.Phi, from *ssa.BasicBlock) ssa.Value {
				// follow single-successor chain from `from` to header
				b := from
				for i := 0; i < 4; i++ {
					for j, p := range header.Preds {
						if p == b {
							return ph.Edges[j]
						}
					}
					if len(b.Succs) != 1 {
						return nil
					}
					b = b.Succs[0]
				}
				return nil
			}
			hiT, loT := edgeVal(highPhi, tb), edgeVal(lowPhi, tb)
			hiF, loF := edgeVal(highPhi, fb), edgeVal(lowPhi, fb)
			// true edge: high = mid (low unchanged); false edge: low = mid+1 (high unchanged)
			trueShrinksHigh := hiT != nil && hiT != ssa.Value(highPhi) && loT == ssa.Value(lowPhi)
			falseRaisesLow := loF != nil && loF != ssa.Value(lowPhi) && hiF == ssa.Value(highPhi)
			op := bo.Op
			if !(trueShrinksHigh && falseRaisesLow) {
				// the same branch written the other way round: `!(…) ⇒ low = mid+1 else high = mid`
				falseShrinksHigh := hiF != nil && hiF != ssa.Value(highPhi) && loF == ssa.Value(lowPhi)
				trueRaisesLow := loT != nil && loT != ssa.Value(lowPhi) && hiT == ssa.Value(highPhi)
				if !(falseShrinksHigh && trueRaisesLow) || negOp(op) == token.ILLEGAL {
					why = "branch does not have the shape `cmp(vs[mid], target) OP 0 ⇒ high = mid else low = mid+1`"
					return
				}
				op = negOp(op)
			}
			switch op {
			case token.GTR:
				res = "Right"
				why = "first index whose element is greater than the target"
			case token.GEQ:
				res = "Left"
				why = "first index whose element is not less than the target"
			default:
				why = "unrecognised comparison " + op.String()
			}
		})
		return res, why
	}
	strict := func(fn *ssa.Function) (string, *ssa.Function, token.Pos, string) {
		// comparator = parameter 1 (possibly spilled to a cell)
		isCmp := func(v ssa.Value) bool {
			if v == fn.Params[1] {
				return true
			}
			if addr, ok := loadAddr(v); ok {
				if al, ok := addr.(*ssa.Alloc); ok {
					for _, r := range referrersOf(al) {
						if st, ok := r.(*ssa.Store); ok && st.Addr == al && st.Val == fn.Params[1] {
							return true
						}
					}
				}
			}
			return false
		}
		var s string
		var search *ssa.Function
		var pos token.Pos
		var why string
		allInstrs(fn, func(in ssa.Instruction) {
			switch x := in.(type) {
			case *ssa.BinOp:
				call, ok := x.X.(*ssa.Call)
				if !ok || !isCmp(call.Call.Value) || !isConstInt(x.Y, 0) {
					return
				}
				// must guard the fast path: an If in the same block
				for _, r := range referrersOf(x) {
					if _, ok := r.(*ssa.If); ok {
						pos = x.Pos()
						switch x.Op {
						case token.GEQ:
							s = "GE"
						case token.GTR:
							s = "GT"
						default:
							why = "fast path compares with " + x.Op.String()
						}
					}
				}
			case *ssa.Call:
				cal := x.Call.StaticCallee()
				if cal == nil {
					return
				}
				o := origin(cal)
				if (o.Pkg != nil && o.Pkg.Pkg.Path() == "slices" && o.Name() == "BinarySearchFunc") || (o.Blocks != nil && o.Pkg != nil && o.Pkg.Pkg.Name() == "slice" && o.Name() != fn.Name() && len(o.Params) == 3) {
					search = o
				}
			}
		})
		if s != "" && search != nil {
			return s, search, pos, why
		}
		// policy form: the exported function hands a strictness predicate and a search routine, as closures, to a
		// shared helper, which must use the first as the branch that extends the sequence and call the second
		var predCl, searchCl *ssa.Function
		var s2 string
		var search2 *ssa.Function
		var pos2 token.Pos
		isCmpFV := func(cl *ssa.Function, v ssa.Value) bool {
			// the comparison function as captured by the closure (directly or through its cell)
			for i, fv := range cl.FreeVars {
				_ = i
				if v == ssa.Value(fv) {
					return isYieldLikeCmp(fv.Type())
				}
				if a, ok := loadAddr(v); ok && a == ssa.Value(fv) {
					return true
				}
			}
			return false
		}
		for _, cl := range fn.AnonFuncs {
			allInstrs(cl, func(in ssa.Instruction) {
				switch x := in.(type) {
				case *ssa.Return:
					if len(x.Results) != 1 {
						return
					}
					bo, ok := x.Results[0].(*ssa.BinOp)
					if !ok || !isConstInt(bo.Y, 0) {
						return
					}
					call, ok := bo.X.(*ssa.Call)
					if !ok || !isCmpFV(cl, call.Call.Value) {
						return
					}
					switch bo.Op {
					case token.GEQ:
						predCl, s2, pos2 = cl, "GE", bo.Pos()
					case token.GTR:
						predCl, s2, pos2 = cl, "GT", bo.Pos()
					}
				case *ssa.Call:
					cal := x.Call.StaticCallee()
					if cal == nil {
						return
					}
					o := origin(cal)
					if (o.Pkg != nil && o.Pkg.Pkg.Path() == "slices" && o.Name() == "BinarySearchFunc") || (o.Blocks != nil && o.Pkg != nil && o.Pkg.Pkg.Name() == "slice" && len(o.Params) == 3) {
						searchCl, search2 = cl, o
					}
				}
			})
		}
		if predCl == nil || searchCl == nil || predCl == searchCl {
			return s, search, pos, why
		}
		// both closures go to one helper call; the predicate parameter decides a branch there, the search parameter is called
		okUse := false
		allInstrs(fn, func(in ssa.Instruction) {
			call, ok := in.(*ssa.Call)
			if !ok {
				return
			}
			h := staticCallee(&call.Call)
			if h == nil || h.Blocks == nil {
				return
			}
			pi, si := -1, -1
			for i, a := range call.Call.Args {
				if mc, ok := a.(*ssa.MakeClosure); ok {
					if mc.Fn == ssa.Value(predCl) {
						pi = i
					}
					if mc.Fn == ssa.Value(searchCl) {
						si = i
					}
				}
			}
			if pi < 0 || si < 0 || pi >= len(h.Params) || si >= len(h.Params) {
				return
			}
			branches, searches := false, false
			allInstrs(h, func(in2 ssa.Instruction) {
				c2, ok := in2.(*ssa.Call)
				if !ok {
					return
				}
				if c2.Call.Value == ssa.Value(h.Params[pi]) {
					for _, r := range referrersOf(c2) {
						if _, isIf := r.(*ssa.If); isIf {
							branches = true
						}
					}
				}
				if c2.Call.Value == ssa.Value(h.Params[si]) {
					searches = true
				}
			})
			if branches && searches {
				okUse = true
			}
		})
		if !okUse {
			return "", nil, pos2, "the strictness predicate and the search routine are not both used by the shared helper"
		}
		return s2, search2, pos2, ""
	}
	// semantic form: explore the loop body from the comparison for each sign of its result (and, when the
	// exported function is a one-line wrapper around a shared helper with a constant flag, for that flag
	// value): the signs on which the binary search is reached are the complement of the fast path.
	bySigns := func(fn *ssa.Function) (string, *ssa.Function, token.Pos, string) {
		g := fn
		cmpParam := ssa.Value(fn.Params[1])
		flags := map[ssa.Value]bool{}
		// wrapper?
		var hcall *ssa.Call
		nCalls := 0
		allInstrs(fn, func(in ssa.Instruction) {
			if call, ok := in.(*ssa.Call); ok {
				if h := staticCallee(&call.Call); h != nil && h.Blocks != nil && origin(h).Pkg == origin(fn).Pkg {
					for _, a := range call.Call.Args {
						if a == ssa.Value(fn.Params[1]) {
							hcall = call
						}
					}
					nCalls++
				}
			}
		})
		if hcall != nil && len(fn.Blocks) == 1 {
			h := origin(staticCallee(&hcall.Call))
			g = h
			for i, a := range hcall.Call.Args {
				if i >= len(h.Params) {
					break
				}
				if a == ssa.Value(fn.Params[1]) {
					cmpParam = h.Params[i]
				}
				if k, ok := a.(*ssa.Const); ok && k.Value != nil && k.Value.Kind() == constant.Bool {
					flags[h.Params[i]] = constant.BoolVal(k.Value)
				}
			}
		}
		isCmpVal := func(v ssa.Value) bool {
			if v == cmpParam {
				return true
			}
			if addr, ok := loadAddr(v); ok {
				if al, ok := addr.(*ssa.Alloc); ok {
					for _, r := range referrersOf(al) {
						if st, ok := r.(*ssa.Store); ok && st.Addr == al && st.Val == cmpParam {
							return true
						}
					}
				}
			}
			return false
		}
		var cmpCall *ssa.Call
		for _, b := range g.Blocks {
			for _, in := range b.Instrs {
				if call, ok := in.(*ssa.Call); ok && isCmpVal(call.Call.Value) && cmpCall == nil {
					// the comparison whose result steers a branch
					for _, r := range referrersOf(call) {
						if bo, ok := r.(*ssa.BinOp); ok {
							if _, isK := constInt(bo.Y); isK {
								cmpCall = call
							}
						}
					}
				}
			}
		}
		if cmpCall == nil {
			return "", nil, 0, "no comparison steering a branch"
		}
		inHeader, _, _ := inlineSearch(g, isCmpVal, cmpCall)
		isSearch := func(in ssa.Instruction) *ssa.Function {
			// a binary search written out in the function itself: entering its loop is "the search"
			if inHeader != nil && in.Block() == inHeader && in == inHeader.Instrs[0] {
				return g
			}
			call, ok := in.(*ssa.Call)
			if !ok {
				return nil
			}
			cal := call.Call.StaticCallee()
			if cal == nil {
				return nil
			}
			o := origin(cal)
			if (o.Pkg != nil && o.Pkg.Pkg.Path() == "slices" && o.Name() == "BinarySearchFunc") || (o.Pkg != nil && o.Pkg.Pkg.Path() == "sort" && o.Name() == "Search") || (o.Blocks != nil && o.Pkg != nil && o.Pkg.Pkg.Name() == "slice" && o != origin(g) && len(o.Params) == 3) {
				return o
			}
			return nil
		}
		evalBool := func(v ssa.Value, sign int64) (bool, bool) {
			neg := false
			for {
				if u, ok := v.(*ssa.UnOp); ok && u.Op == token.NOT {
					neg = !neg
					v = u.X
					continue
				}
				break
			}
			if b, ok := flags[v]; ok {
				return b != neg, true
			}
			if bo, ok := v.(*ssa.BinOp); ok && bo.X == ssa.Value(cmpCall) {
				if k, isK := constInt(bo.Y); isK {
					var r bool
					switch bo.Op {
					case token.LSS:
						r = sign < k
					case token.LEQ:
						r = sign <= k
					case token.GTR:
						r = sign > k
					case token.GEQ:
						r = sign >= k
					case token.EQL:
						r = sign == k
					case token.NEQ:
						r = sign != k
					default:
						return false, false
					}
					return r != neg, true
				}
			}
			return false, false
		}
		cb := cmpCall.Block()
		reached := map[int64]*ssa.Function{}
		ambiguous := false
		for _, sign := range []int64{-1, 0, 1} {
			seen := map[*ssa.BasicBlock]bool{}
			var visit func(b *ssa.BasicBlock, first bool)
			visit = func(b *ssa.BasicBlock, first bool) {
				if !first && (seen[b] || b == cb || b.Dominates(cb)) {
					return
				}
				seen[b] = true
				start := 0
				if first {
					for i, in := range b.Instrs {
						if in == ssa.Instruction(cmpCall) {
							start = i + 1
						}
					}
				}
				for _, in := range b.Instrs[start:] {
					if f := isSearch(in); f != nil {
						if prev, ok := reached[sign]; ok && prev != f {
							ambiguous = true
						}
						reached[sign] = f
					}
				}
				if iff, ok := b.Instrs[len(b.Instrs)-1].(*ssa.If); ok {
					if v, known := evalBool(iff.Cond, sign); known {
						if v {
							visit(b.Succs[0], false)
						} else {
							visit(b.Succs[1], false)
						}
						return
					}
				}
				for _, s := range b.Succs {
					visit(s, false)
				}
			}
			visit(cb, true)
		}
		if ambiguous {
			return "", nil, cmpCall.Pos(), "more than one search routine is reachable for one outcome of the comparison"
		}
		_, n := reached[-1]
		_, z := reached[0]
		_, p := reached[1]
		switch {
		case n && z && !p && reached[-1] == reached[0]:
			return "GT", reached[-1], cmpCall.Pos(), ""
		case n && !z && !p:
			return "GE", reached[-1], cmpCall.Pos(), ""
		}
		return "", nil, cmpCall.Pos(), fmt.Sprintf("the search is reached for comparison results <0:%v =0:%v >0:%v", n, z, p)
	}
	for _, tc := range []struct{ name, wantS, wantL string }{{"LNDSFunc", "GE", "Right"}, {"LISFunc", "GT", "Left"}} {
		fn := P.Func("slice", "", tc.name)
		s, search, pos, why := strict(fn)
		if s == "" || search == nil {
			if s2, search2, pos2, why2 := bySigns(fn); s2 != "" && search2 != nil {
				s, search, pos, why = s2, search2, pos2, why2
			} else if why == "" {
				why = why2
			}
		}
		key := "slice." + tc.name + ":strictness/lean"
		if s == "" || search == nil {
			c.undecided("R-LEAN-AGREE", key, fn.Pos(), "fast-path comparison or search callee not recognised: "+why)
			continue
		}
		l, lwhy := lean(search)
		if origin(search).Pkg != nil && origin(search).Pkg.Pkg.Name() == "slice" {
			// the search may be a loop written out in the function that was found to reach it
			if h, il, iw := inlineSearch(search, nil, nil); h != nil && il != "" && (l == "" || search == fn || origin(search).Name() == tc.name) {
				l, lwhy = il, iw+" (search loop written out in "+search.Name()+")"
			}
		}
		// slices.BinarySearchFunc leans left for a comparison that reports equality; an adapter that never answers 0
		// decides the lean itself: what it answers when the user's comparison says "equal" is the side equal elements
		// are put on
		if o := origin(search); o.Pkg != nil && o.Pkg.Pkg.Path() == "slices" && o.Name() == "BinarySearchFunc" {
			for _, f := range withClosures(fn) {
				allInstrs(f, func(in ssa.Instruction) {
					call, ok := in.(*ssa.Call)
					if !ok || origin(staticCallee(&call.Call)) != o || len(call.Call.Args) != 3 {
						return
					}
					mc, ok := call.Call.Args[2].(*ssa.MakeClosure)
					if !ok {
						return
					}
					ad := mc.Fn.(*ssa.Function)
					atEq, allConst := int64(0), true
					seenEq := false
					allInstrs(ad, func(in2 ssa.Instruction) {
						ret, ok := in2.(*ssa.Return)
						if !ok || len(ret.Results) != 1 {
							return
						}
						k, ok := constInt(ret.Results[0])
						if !ok {
							allConst = false
							return
						}
						// is this return taken when the wrapped comparison answers 0?
						takes := true
						for _, cm := range cmpsAt(ret.Block()) {
							if _, isCall := cm.X.(*ssa.Call); !isCall || !isConstInt(cm.Y, 0) {
								continue
							}
							var holds bool
							switch cm.Op {
							case token.LSS, token.GTR, token.NEQ:
								holds = false
							default:
								holds = true
							}
							if !holds {
								takes = false
							}
						}
						if takes {
							atEq, seenEq = k, true
						}
					})
					if allConst && seenEq && atEq != 0 {
						if atEq < 0 {
							l, lwhy = "Right", "slices.BinarySearchFunc with an adapter that answers -1 for equal elements: first index whose element is greater than the target"
						} else {
							l, lwhy = "Left", "slices.BinarySearchFunc with an adapter that answers +1 for equal elements: first index whose element is not less than the target"
						}
					}
				})
			}
		}
		if l == "" {
			c.undecided("R-LEAN-AGREE", key, pos, "lean of "+fnName(search)+" cannot be read: "+lwhy)
			continue
		}
		c.judge(s == tc.wantS && l == tc.wantL, "R-LEAN-AGREE", key, pos,
			fmt.Sprintf("fast path %s, search %s leans %s (%s)", s, fnName(search), l, lwhy),
			fmt.Sprintf("fast path is %s and the search (%s) leans %s (%s); a correct %s needs (%s, %s): wrong on runs of equal elements", s, fnName(search), l, lwhy, tc.name, tc.wantS, tc.wantL))
	}
	// a "the input is already sorted" shortcut is a statement about non-decreasing order: in the STRICT variant it
	// returns runs of equal elements whole
	if lis := P.Func("slice", "", "LISFunc"); lis != nil {
		var short ssa.Instruction
		for _, f := range buildCallScope(lis).fns {
			allInstrs(f, func(in ssa.Instruction) {
				call, ok := in.(*ssa.Call)
				if !ok {
					return
				}
				cal := call.Call.StaticCallee()
				if cal == nil {
					return
				}
				o := origin(cal)
				if o.Pkg != nil && o.Pkg.Pkg.Path() == "slices" && (o.Name() == "IsSortedFunc" || o.Name() == "IsSorted") {
					short = in
				}
			})
		}
		if short != nil {
			c.bad("R-LEAN-AGREE", "slice.LISFunc:sortedness shortcut", short.Pos(), "the strictly-increasing variant takes a shortcut on slices.IsSorted*, which accepts equal neighbours: a sorted input with ties is returned whole")
		} else {
			c.ok("R-LEAN-AGREE", "slice.LISFunc:sortedness shortcut", lis.Pos(), "no non-strict sortedness shortcut in the strict variant")
		}
	}
	// results are new slices: a subsequence function that hands back one of its arguments has taken a
	// shortcut around the computation (and aliases the caller's storage)
	ruleResultNotInput(c, "R-INPUT-IMMUTABLE", []string{"LCSFunc", "LISFunc", "LNDSFunc"})
	// LCS -> LCSFunc(as, bs, ==): the comparable-typed wrapper hands its two inputs on as they are
	if lcs, lcsf := P.Func("slice", "", "LCS"), P.Func("slice", "", "LCSFunc"); lcs != nil && lcsf != nil && len(lcs.Params) == 2 {
		okD := false
		allInstrs(lcs, func(in ssa.Instruction) {
			if call, ok := in.(*ssa.Call); ok && origin(staticCallee(&call.Call)) == lcsf && len(call.Call.Args) >= 2 {
				if call.Call.Args[0] == ssa.Value(lcs.Params[0]) && call.Call.Args[1] == ssa.Value(lcs.Params[1]) {
					okD = true
				}
			}
		})
		c.judge(okD, "R-LEAN-AGREE", "slice.LCS:delegates", lcs.Pos(), "calls LCSFunc(as, bs, …) with its own arguments", "LCS does not hand its two inputs to LCSFunc as they are (a pre-filtered or reordered copy is compared instead): the result is a common subsequence of something else and can be shorter than the optimum")
	}
	// LIS -> LISFunc(cmp.Compare), LNDS -> LNDSFunc(cmp.Compare)
	for _, pr := range [][2]string{{"LIS", "LISFunc"}, {"LNDS", "LNDSFunc"}} {
		fn, target := P.Func("slice", "", pr[0]), P.Func("slice", "", pr[1])
		okD := false
		allInstrs(fn, func(in ssa.Instruction) {
			if call, ok := in.(*ssa.Call); ok && staticCallee(&call.Call) == target && len(call.Call.Args) == 2 {
				if call.Call.Args[0] == fn.Params[0] {
					if f, ok := call.Call.Args[1].(*ssa.Function); ok && origin(f).Name() == "Compare" && origin(f).Pkg != nil && origin(f).Pkg.Pkg.Path() == "cmp" {
						okD = true
					}
					if ct, ok := call.Call.Args[1].(*ssa.ChangeType); ok {
						if f, ok := ct.X.(*ssa.Function); ok && origin(f).Name() == "Compare" {
							okD = true
						}
					}
				}
			}
		})
		if !okD {
			// … or both are thin wrappers around one shared helper: the natural-order wrapper calls the helper the
			// Func variant calls, with its own slice, cmp.Compare, and the same constant flags
			isCompare := func(v ssa.Value) bool {
				if ct, ok := v.(*ssa.ChangeType); ok {
					v = ct.X
				}
				f, ok := v.(*ssa.Function)
				return ok && origin(f).Name() == "Compare" && origin(f).Pkg != nil && origin(f).Pkg.Pkg.Path() == "cmp"
			}
			type hc struct {
				h      *ssa.Function
				consts string
			}
			var viaTarget []hc
			allInstrs(target, func(in ssa.Instruction) {
				call, ok := in.(*ssa.Call)
				if !ok {
					return
				}
				h := origin(staticCallee(&call.Call))
				if h == nil || h.Pkg != target.Pkg || h.Blocks == nil || len(call.Call.Args) < 2 || call.Call.Args[0] != ssa.Value(target.Params[0]) {
					return
				}
				var ks []string
				for _, a := range call.Call.Args[1:] {
					if k, ok := a.(*ssa.Const); ok {
						ks = append(ks, k.String())
					}
				}
				viaTarget = append(viaTarget, hc{h, strings.Join(ks, ",")})
			})
			allInstrs(fn, func(in ssa.Instruction) {
				call, ok := in.(*ssa.Call)
				if !ok || len(call.Call.Args) < 2 || call.Call.Args[0] != ssa.Value(fn.Params[0]) {
					return
				}
				h := origin(staticCallee(&call.Call))
				hasCmp := false
				var ks []string
				for _, a := range call.Call.Args[1:] {
					if isCompare(a) {
						hasCmp = true
					}
					if k, ok := a.(*ssa.Const); ok {
						ks = append(ks, k.String())
					}
				}
				for _, t := range viaTarget {
					if t.h == h && hasCmp && t.consts == strings.Join(ks, ",") {
						okD = true
					}
				}
			})
		}
		c.judge(okD, "R-LEAN-AGREE", "slice."+pr[0]+":delegates", fn.Pos(), "calls "+pr[1]+"(vs, cmp.Compare)", pr[0]+" does not delegate to "+pr[1]+" with cmp.Compare")
	}
}

func isVarargsTemp(v ssa.Value) bool {
	al, ok := v.(*ssa.Alloc)
	return ok && (al.Comment == "varargs" || al.Comment == "slicelit")
}

// isYieldLikeCmp: a comparison function type func(a, b T) int.
func isYieldLikeCmp(t types.Type) bool {
	sig, ok := t.Underlying().(*types.Signature)
	if !ok || sig.Params().Len() != 2 || sig.Results().Len() != 1 {
		return false
	}
	b, ok := sig.Results().At(0).Type().Underlying().(*types.Basic)
	return ok && b.Info()&types.IsInteger != 0
}

// isParamValue: v is the parameter p, or a read of the local cell p was spilled
// to (a parameter captured by a closure lives in a cell that nothing else writes).
func isParamValue(v ssa.Value, p *ssa.Parameter) bool {
	if v == ssa.Value(p) {
		return true
	}
	addr, ok := loadAddr(v)
	if !ok {
		return false
	}
	al, ok := addr.(*ssa.Alloc)
	if !ok {
		return false
	}
	n := 0
	for _, r := range referrersOf(al) {
		if st, ok := r.(*ssa.Store); ok && st.Addr == ssa.Value(al) {
			if st.Val != ssa.Value(p) {
				return false
			}
			n++
		}
	}
	return n > 0
}

// ruleResultNotInput: a subsequence function that hands back (a slice of) one of
// its arguments — other than an argument known to be empty — has taken a shortcut
// around the computation and aliases the caller's storage.
func ruleResultNotInput(c *Ctx, rule string, names []string) {
	P := c.P
	// nonEmptyParams(fn): the parameters fn can hand back while they may be non-empty
	memo := map[*ssa.Function]map[int]token.Pos{}
	var nonEmptyParams func(fn *ssa.Function, depth int) map[int]token.Pos
	nonEmptyParams = func(fn *ssa.Function, depth int) map[int]token.Pos {
		fn = origin(fn)
		if r, ok := memo[fn]; ok {
			return r
		}
		out := map[int]token.Pos{}
		memo[fn] = out
		if fn.Blocks == nil || depth > 3 {
			return out
		}
		oc := newOrig(fn)
		emptyAt := func(b *ssa.BasicBlock, pi int) bool {
			for _, cm := range cmpsAt(b) {
				if ln, ok := isBuiltinCall(cm.X, "len"); ok && isParamValue(ln.Call.Args[0], fn.Params[pi]) && isConstInt(cm.Y, 0) && (cm.Op == token.EQL || cm.Op == token.LEQ) {
					return true
				}
			}
			return false
		}
		allInstrs(fn, func(in ssa.Instruction) {
			ret, ok := in.(*ssa.Return)
			if !ok || len(ret.Results) == 0 {
				return
			}
			r := ret.Results[0]
			if ct, ok := r.(*ssa.ChangeType); ok {
				r = ct.X
			}
			if call, ok := r.(*ssa.Call); ok {
				if g := origin(staticCallee(&call.Call)); g != nil && g.Blocks != nil && g.Pkg == fn.Pkg {
					// the helper decides: only the parameters it can hand back non-empty matter
					for gj := range nonEmptyParams(g, depth+1) {
						if gj >= len(call.Call.Args) {
							continue
						}
						for pi := range oc.of(call.Call.Args[gj]).Params {
							if pi < len(fn.Params) && !emptyAt(ret.Block(), pi) {
								out[pi] = ret.Pos()
							}
						}
					}
					return
				}
			}
			for pi := range oc.of(r).Params {
				if pi < len(fn.Params) && !emptyAt(ret.Block(), pi) {
					out[pi] = ret.Pos()
				}
			}
		})
		return out
	}
	for _, n := range names {
		fn := P.Func("slice", "", n)
		if fn == nil {
			continue
		}
		bad := nonEmptyParams(fn, 0)
		var ps []string
		pos := fn.Pos()
		for pi, p := range bad {
			ps = append(ps, fn.Params[pi].Name())
			if p != token.NoPos {
				pos = p
			}
		}
		sort.Strings(ps)
		c.judge(len(ps) == 0, rule, "slice."+n+":result is not an input", pos, "a non-empty result never aliases a parameter", fmt.Sprintf("the function can return (a slice of) its own argument %v: a shortcut that answers with an input skips the computation for inputs it misjudges, and the result shares storage with the caller's slice", ps))
	}
}

// inlineSearch recognises a binary search written out as a loop in g: a branch on `cmp(…) OP 0` (a call of the
// comparison, other than `not`) whose true edge carries the probe position into one loop variable (high) and
// leaves the other alone, and whose false edge advances the other (low) and leaves the first alone.  It returns
// the loop header and the lean: OP `>` leans right (first index whose element is greater), `>=` leans left.
func inlineSearch(g *ssa.Function, isCmpVal func(ssa.Value) bool, not *ssa.Call) (*ssa.BasicBlock, string, string) {
	if g == nil || g.Blocks == nil {
		return nil, "", ""
	}
	var header *ssa.BasicBlock
	var res, why string
	allInstrs(g, func(in ssa.Instruction) {
		iff, ok := in.(*ssa.If)
		if !ok || header != nil {
			return
		}
		bo, ok := iff.Cond.(*ssa.BinOp)
		if !ok || !isConstInt(bo.Y, 0) {
			return
		}
		call, ok := bo.X.(*ssa.Call)
		if !ok || call == not || call.Call.StaticCallee() != nil {
			return
		}
		if isCmpVal != nil && !isCmpVal(call.Call.Value) {
			return
		}
		tb, fb := iff.Block().Succs[0], iff.Block().Succs[1]
		// the loop header both arms return to
		reachHeader := func(from *ssa.BasicBlock) (*ssa.BasicBlock, *ssa.BasicBlock) {
			b := from
			prev := iff.Block()
			for i := 0; i < 4; i++ {
				if b.Dominates(iff.Block()) && b != iff.Block() {
					return b, prev
				}
				if len(b.Succs) != 1 {
					return nil, nil
				}
				prev, b = b, b.Succs[0]
			}
			return nil, nil
		}
		ht, pt := reachHeader(tb)
		hf, pf := reachHeader(fb)
		if ht == nil || ht != hf {
			return
		}
		edge := func(ph *ssa.Phi, pred *ssa.BasicBlock) ssa.Value {
			for j, p := range ht.Preds {
				if p == pred {
					return ph.Edges[j]
				}
			}
			return nil
		}
		var hi, lo *ssa.Phi
		for _, in2 := range ht.Instrs {
			ph, ok := in2.(*ssa.Phi)
			if !ok {
				break
			}
			et, ef := edge(ph, pt), edge(ph, pf)
			if et == nil || ef == nil {
				continue
			}
			switch {
			case et != ssa.Value(ph) && ef == ssa.Value(ph):
				hi = ph
			case et == ssa.Value(ph) && ef != ssa.Value(ph):
				lo = ph
			}
		}
		if hi == nil || lo == nil {
			return
		}
		// the false edge advances low past the probe: low = mid + 1
		if b2, ok := edge(lo, pf).(*ssa.BinOp); !ok || b2.Op != token.ADD || !isConstInt(b2.Y, 1) || b2.X != edge(hi, pt) {
			return
		}
		switch bo.Op {
		case token.GTR:
			header, res, why = ht, "Right", "first index whose element is greater than the target"
		case token.GEQ:
			header, res, why = ht, "Left", "first index whose element is not less than the target"
		}
	})
	return header, res, why
}
