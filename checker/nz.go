package main

// Comparison facts over symbolic integer terms, with predicate summaries of
// small range-check helpers, and the non-zero/positive derivations used by
// R-DIV-NONZERO and R-INDEX-GUARD.

import (
	"go/token"
	"strconv"

	"golang.org/x/tools/go/ssa"
)

type SFact struct {
	X, Y string // sym of operands (integers as decimal strings)
	Op   token.Token
}

// predSummary: for a function returning (int, bool) (or bool), the
// comparisons that hold whenever the bool result is true, expressed over
// placeholders "$r" (the int result), "$p<i>" (parameters) and constants.
func predSummary(fn *ssa.Function) ([]SFact, bool) {
	fn = origin(fn)
	if fn == nil || fn.Blocks == nil {
		return nil, false
	}
	res := fn.Signature.Results()
	boolIdx, intIdx := -1, -1
	for i := 0; i < res.Len(); i++ {
		switch res.At(i).Type().String() {
		case "bool":
			boolIdx = i
		case "int":
			intIdx = i
		}
	}
	if boolIdx < 0 {
		return nil, false
	}
	var rets []*ssa.Return
	allInstrs(fn, func(in ssa.Instruction) {
		if r, ok := in.(*ssa.Return); ok {
			rets = append(rets, r)
		}
	})
	if len(rets) != 1 {
		return nil, false
	}
	ret := rets[0]
	name := func(v ssa.Value) string {
		if intIdx >= 0 && v == ret.Results[intIdx] {
			return "$r"
		}
		for i, p := range fn.Params {
			if v == p {
				return "$p" + strconv.Itoa(i)
			}
		}
		return sym(v)
	}
	var facts []SFact
	addCmp := func(c Cmp) { facts = append(facts, SFact{name(c.X), name(c.Y), c.Op}) }
	// the bool result: a comparison, or a phi of false constants and one comparison
	bv := ret.Results[boolIdx]
	var cmpv *ssa.BinOp
	var cmpBlock *ssa.BasicBlock
	switch x := bv.(type) {
	case *ssa.BinOp:
		cmpv, cmpBlock = x, x.Block()
	case *ssa.Phi:
		for _, e := range x.Edges {
			if c, ok := e.(*ssa.Const); ok && c.Value != nil && c.Value.String() == "false" {
				continue
			}
			if bo, ok := e.(*ssa.BinOp); ok && cmpv == nil {
				cmpv, cmpBlock = bo, bo.Block()
				continue
			}
			return nil, false
		}
	}
	if cmpv == nil {
		return nil, false
	}
	addCmp(Cmp{cmpv.X, cmpv.Y, cmpv.Op})
	for _, c := range cmpsAt(cmpBlock) {
		addCmp(c)
	}
	return facts, true
}

type factDB struct {
	facts []SFact
}

func (db *factDB) add(x, y string, op token.Token) {
	db.facts = append(db.facts, SFact{x, y, op})
}

// factsDBAt collects comparison facts holding at the start of block b, plus
// (optionally) on the edge from pred into b.
func factsDBAt(b *ssa.BasicBlock) *factDB {
	db := &factDB{}
	for _, c := range cmpsAt(b) {
		db.add(sym(c.X), sym(c.Y), c.Op)
	}
	// bool results of predicate helpers known true
	for ex, truth := range extractFactsAt(b) {
		if !truth {
			continue
		}
		call, ok := ex.Tuple.(*ssa.Call)
		if !ok {
			continue
		}
		cal := staticCallee(&call.Call)
		if cal == nil {
			continue
		}
		sum, ok := predSummary(cal)
		if !ok {
			continue
		}
		// $r -> the int extract of the same tuple
		rsym := ""
		for _, r := range referrersOf(call) {
			if e2, ok := r.(*ssa.Extract); ok && e2 != ex && e2.Type().String() == "int" {
				rsym = sym(e2)
			}
		}
		subst := func(s string) string {
			if s == "$r" {
				return rsym
			}
			if len(s) > 2 && s[:2] == "$p" {
				if i, err := strconv.Atoi(s[2:]); err == nil && i < len(call.Call.Args) {
					return sym(call.Call.Args[i])
				}
			}
			return s
		}
		for _, f := range sum {
			db.add(subst(f.X), subst(f.Y), f.Op)
		}
	}
	for call, truth := range callFactsAt(b) {
		if !truth {
			continue
		}
		cal := staticCallee(&call.Call)
		if cal == nil {
			continue
		}
		if sum, ok := predSummary(cal); ok {
			for _, f := range sum {
				s := func(t string) string {
					if len(t) > 2 && t[:2] == "$p" {
						if i, err := strconv.Atoi(t[2:]); err == nil && i < len(call.Call.Args) {
							return sym(call.Call.Args[i])
						}
					}
					return t
				}
				db.add(s(f.X), s(f.Y), f.Op)
			}
		}
	}
	return db
}

func isNum(s string) (int64, bool) {
	n, err := strconv.ParseInt(s, 10, 64)
	return n, err == nil
}

// ge0: v >= 0 follows from the facts (one step).
func (db *factDB) ge0(v string) bool {
	if n, ok := isNum(v); ok {
		return n >= 0
	}
	if len(v) > 4 && (v[:4] == "len(" || v[:4] == "cap(") {
		return true
	}
	for _, f := range db.facts {
		if f.X == v {
			if n, ok := isNum(f.Y); ok {
				if (f.Op == token.GEQ && n >= 0) || (f.Op == token.GTR && n >= -1) || (f.Op == token.EQL && n >= 0) {
					return true
				}
			}
		}
		if f.Y == v {
			if n, ok := isNum(f.X); ok {
				if (f.Op == token.LEQ && n >= 0) || (f.Op == token.LSS && n >= -1) {
					return true
				}
			}
		}
	}
	return false
}

// pos: v > 0 follows from the facts (bounded derivation).
func (db *factDB) pos(v string, depth int) bool {
	if n, ok := isNum(v); ok {
		return n > 0
	}
	if depth > 3 {
		return false
	}
	for _, f := range db.facts {
		if f.X == v {
			if n, ok := isNum(f.Y); ok {
				if (f.Op == token.GTR && n >= 0) || (f.Op == token.GEQ && n >= 1) || (f.Op == token.EQL && n > 0) {
					return true
				}
			} else {
				// v > w or v >= w with w >= 0 / w > 0
				if f.Op == token.GTR && db.ge0(f.Y) {
					return true
				}
				if f.Op == token.GEQ && db.pos(f.Y, depth+1) {
					return true
				}
			}
		}
		if f.Y == v {
			if n, ok := isNum(f.X); ok {
				if (f.Op == token.LSS && n >= 0) || (f.Op == token.LEQ && n >= 1) {
					return true
				}
			} else {
				// w < v or w <= v
				if f.Op == token.LSS && db.ge0(f.X) {
					return true
				}
				if f.Op == token.LEQ && db.pos(f.X, depth+1) {
					return true
				}
			}
		}
	}
	// v != 0 and v >= 0
	if db.ne0direct(v) && db.ge0(v) {
		return true
	}
	return false
}

func (db *factDB) ne0direct(v string) bool {
	for _, f := range db.facts {
		if f.Op == token.NEQ && ((f.X == v && f.Y == "0") || (f.Y == v && f.X == "0")) {
			return true
		}
	}
	return false
}

func (db *factDB) nonzero(v string) bool {
	if n, ok := isNum(v); ok {
		return n != 0
	}
	if db.ne0direct(v) || db.pos(v, 0) {
		return true
	}
	for _, f := range db.facts {
		if f.X == v {
			if n, ok := isNum(f.Y); ok && ((f.Op == token.LSS && n <= 0) || (f.Op == token.LEQ && n < 0)) {
				return true
			}
		}
	}
	return false
}

// has: a fact x op y is present literally (or by flipping).
func (db *factDB) has(x string, op token.Token, y string) bool {
	// x < y also follows from x <= y − 1 (a closed bound handed to a range-check helper: last = len − 1)
	if op == token.LSS {
		ym1 := "(" + y + " - 1)"
		for _, f := range db.facts {
			if (f.X == x && f.Y == ym1 && f.Op == token.LEQ) || (f.X == ym1 && f.Y == x && f.Op == token.GEQ) {
				return true
			}
		}
	}
	for _, f := range db.facts {
		if f.X == x && f.Y == y && f.Op == op {
			return true
		}
		if f.X == y && f.Y == x && f.Op == flipOp(op) && (op == token.LSS || op == token.GTR || op == token.LEQ || op == token.GEQ) {
			return true
		}
	}
	return false
}

// nonzeroValue decides v != 0 at the use in block b; phis are judged per
// incoming edge with the facts of that edge.
func nonzeroValue(v ssa.Value, b *ssa.BasicBlock, depth int) (bool, string) {
	if depth > 3 {
		return false, "too deep"
	}
	db := factsDBAt(b)
	if db.nonzero(sym(v)) {
		return true, ""
	}
	if ph, ok := v.(*ssa.Phi); ok {
		for i, e := range ph.Edges {
			pred := ph.Block().Preds[i]
			// facts at the end of pred: facts at pred start + edge fact
			edb := factsDBAt(pred)
			if iff, ok := pred.Instrs[len(pred.Instrs)-1].(*ssa.If); ok {
				idx := 0
				if pred.Succs[1] == ph.Block() {
					idx = 1
				}
				if cm, ok := edgeCmp(iff, idx); ok {
					edb.add(sym(cm.X), sym(cm.Y), cm.Op)
				}
			}
			if edb.nonzero(sym(e)) {
				continue
			}
			if ok, _ := nonzeroValue(e, pred, depth+1); ok {
				continue
			}
			return false, "incoming value " + sym(e) + " (from line-block " + pred.String() + ") may be zero"
		}
		return true, ""
	}
	// min(a, b, …) of non-negative quantities is non-zero when every operand is; max when any operand is
	if call, ok := v.(*ssa.Call); ok {
		if bi, ok := call.Call.Value.(*ssa.Builtin); ok && (bi.Name() == "min" || bi.Name() == "max") && len(call.Call.Args) > 0 {
			all, any := true, false
			for _, a := range call.Call.Args {
				nz := db.pos(sym(a), 0)
				if !nz {
					if ln, isLen := isBuiltinCall(a, "len"); isLen {
						_ = ln
						nz = db.nonzero(sym(a)) // a length is never negative
					}
				}
				if nz {
					any = true
				} else {
					all = false
				}
			}
			if (bi.Name() == "min" && all) || (bi.Name() == "max" && any) {
				return true, ""
			}
		}
	}
	return false, "no fact implies " + sym(v) + " != 0"
}
