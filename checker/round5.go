package main

import (
	"fmt"
	"go/constant"
	"go/token"
	"go/types"
	"sort"
	"strings"

	"golang.org/x/tools/go/ssa"
)

// ruleTokenCases (R-TOKEN-CASES): CompareNatural alternates between a numeric parser (answering "is this a digit
// run" with a bool) and a text parser.  The text parser is correct only for two non-numeric heads, the numeric
// comparison only for two numeric heads; the mixed case must have left before either.  The rule enumerates the
// acyclic paths from the numeric parses to each of those uses and evaluates the branch conditions over the two
// booleans (four assignments): every assignment that can arrive must be (false,false), resp. (true,true).
func ruleTokenCases(c *Ctx) {
	c.rule("R-TOKEN-CASES", 0, "text runs are compared only when neither head is numeric, values only when both are: the branch conditions on every path admit no other assignment of the two flags")
	cn := c.P.Func("mstr", "", "CompareNatural")
	if cn == nil {
		return
	}
	var intCalls []*ssa.Call
	var strCalls []*ssa.Call
	for _, b := range cn.Blocks {
		for _, in := range b.Instrs {
			call, ok := in.(*ssa.Call)
			if !ok {
				continue
			}
			cal := staticCallee(&call.Call)
			if cal == nil || origin(cal).Pkg != cn.Pkg || origin(cal).Blocks == nil {
				continue
			}
			res := cal.Signature.Results()
			if res.Len() >= 2 {
				if bt, ok := res.At(res.Len() - 1).Type().Underlying().(*types.Basic); ok && bt.Kind() == types.Bool {
					intCalls = append(intCalls, call)
					continue
				}
				strCalls = append(strCalls, call)
			}
		}
	}
	if len(intCalls) != 2 {
		return
	}
	flag := map[ssa.Value]int{} // Extract of the bool → which side
	val := map[ssa.Value]int{}  // Extract of the value
	for i, ic := range intCalls {
		for _, r := range *ic.Referrers() {
			if ex, ok := r.(*ssa.Extract); ok {
				if ex.Index == ic.Type().(*types.Tuple).Len()-1 {
					flag[ex] = i
				} else if ex.Index == 0 {
					val[ex] = i
				}
			}
		}
	}
	start := intCalls[1].Block()
	if intCalls[0].Block() != start {
		return
	}
	// three-valued evaluation under an assignment
	var eval func(v ssa.Value, asg [2]bool, env map[ssa.Value]ssa.Value, d int) (bool, bool)
	eval = func(v ssa.Value, asg [2]bool, env map[ssa.Value]ssa.Value, d int) (bool, bool) {
		if d > 8 {
			return false, false
		}
		if e, ok := env[v]; ok {
			return eval(e, asg, env, d+1)
		}
		if i, ok := flag[v]; ok {
			return asg[i], true
		}
		switch x := v.(type) {
		case *ssa.Const:
			if x.Value != nil && (x.Value.String() == "true" || x.Value.String() == "false") {
				return x.Value.String() == "true", true
			}
		case *ssa.UnOp:
			if x.Op == token.NOT {
				r, ok := eval(x.X, asg, env, d+1)
				return !r, ok
			}
		case *ssa.BinOp:
			if bt, ok := x.X.Type().Underlying().(*types.Basic); ok && bt.Kind() == types.Bool {
				a, ok1 := eval(x.X, asg, env, d+1)
				b, ok2 := eval(x.Y, asg, env, d+1)
				if ok1 && ok2 {
					switch x.Op {
					case token.EQL:
						return a == b, true
					case token.NEQ:
						return a != b, true
					case token.AND:
						return a && b, true
					case token.OR:
						return a || b, true
					case token.XOR:
						return a != b, true
					}
				}
			}
		}
		return false, false
	}
	type target struct {
		blk  *ssa.BasicBlock
		pos  token.Pos
		want bool
		what string
	}
	var targets []target
	for _, sc := range strCalls {
		targets = append(targets, target{sc.Block(), sc.Pos(), false, "text run parse " + origin(staticCallee(&sc.Call)).Name()})
	}
	for _, b := range cn.Blocks {
		for _, in := range b.Instrs {
			call, ok := in.(*ssa.Call)
			if !ok || len(call.Call.Args) != 2 {
				continue
			}
			_, x := val[call.Call.Args[0]]
			_, y := val[call.Call.Args[1]]
			if x && y {
				targets = append(targets, target{b, call.Pos(), true, "numeric comparison"})
			}
		}
	}
	seenT := map[string]bool{}
	for _, tg := range targets {
		key := fmt.Sprintf("%s:%v", tg.what, tg.want)
		if seenT[key] {
			continue
		}
		seenT[key] = true
		arrive := map[[2]bool]bool{}
		unknown := false
		var dfs func(b *ssa.BasicBlock, conds [][2]interface{}, env map[ssa.Value]ssa.Value, on map[*ssa.BasicBlock]bool)
		dfs = func(b *ssa.BasicBlock, conds [][2]interface{}, env map[ssa.Value]ssa.Value, on map[*ssa.BasicBlock]bool) {
			if b == tg.blk {
				for _, asg := range [][2]bool{{false, false}, {false, true}, {true, false}, {true, true}} {
					sat := true
					for _, cd := range conds {
						r, ok := eval(cd[0].(ssa.Value), asg, env, 0)
						if !ok {
							unknown = true
							continue
						}
						if r != cd[1].(bool) {
							sat = false
						}
					}
					if sat {
						arrive[asg] = true
					}
				}
				return
			}
			if on[b] {
				return
			}
			on[b] = true
			defer func() { on[b] = false }()
			for si, s := range b.Succs {
				if s == start {
					continue
				}
				nc := conds
				if iff, ok := b.Instrs[len(b.Instrs)-1].(*ssa.If); ok {
					nc = append(append([][2]interface{}{}, conds...), [2]interface{}{iff.Cond, si == 0})
				}
				ne := env
				// resolve φs of s for this edge
				pi := -1
				for i, p := range s.Preds {
					if p == b {
						pi = i
					}
				}
				for _, in := range s.Instrs {
					ph, ok := in.(*ssa.Phi)
					if !ok {
						break
					}
					if pi >= 0 {
						if &ne == &env || len(ne) == len(env) {
							cp := map[ssa.Value]ssa.Value{}
							for k, v := range env {
								cp[k] = v
							}
							ne = cp
						}
						e := ph.Edges[pi]
						if r, ok := env[e]; ok {
							e = r
						}
						ne[ph] = e
					}
				}
				dfs(s, nc, ne, on)
			}
		}
		if tg.blk == start {
			continue
		}
		dfs(start, nil, map[ssa.Value]ssa.Value{}, map[*ssa.BasicBlock]bool{})
		if unknown || len(arrive) == 0 {
			continue // guarded in a form the rule does not read: no verdict
		}
		var bad []string
		for asg := range arrive {
			if asg != [2]bool{tg.want, tg.want} {
				bad = append(bad, fmt.Sprintf("(first numeric=%v, second numeric=%v)", asg[0], asg[1]))
			}
		}
		sort.Strings(bad)
		c.sawFn(fnName(cn))
		c.judge(len(bad) == 0, "R-TOKEN-CASES", "mstr.CompareNatural:"+tg.what, tg.pos, fmt.Sprintf("reached only with both flags %v", tg.want), fmt.Sprintf("the %s is reached with %s: a digit run is then compared as text against an empty run (or a stale value against a parsed one), so the order of mixed heads depends on which argument comes first and the comparison is no longer antisymmetric", tg.what, strings.Join(bad, ", ")))
	}
}

// ruleZeroReturnsLen: Zero reports len(data); a value computed from the length by a non-identity operation
// (the word-aligned prefix, say) differs from it for some length.
func ruleZeroReturnsLen(c *Ctx) {
	c.rule("R-ZERO-LEN", 0, "Zero returns len(data), not a value derived from it")
	fn := c.P.Func("mbits", "", "Zero")
	if fn == nil || len(fn.Params) != 1 {
		return
	}
	isLen := func(v ssa.Value) bool {
		ln, ok := isBuiltinCall(v, "len")
		return ok && ln.Call.Args[0] == ssa.Value(fn.Params[0])
	}
	var derived func(v ssa.Value, d int) bool
	derived = func(v ssa.Value, d int) bool {
		if d > 6 {
			return false
		}
		if isLen(v) {
			return true
		}
		if _, ok := v.(*ssa.Const); ok {
			return true
		}
		if bo, ok := v.(*ssa.BinOp); ok {
			return derived(bo.X, d+1) && derived(bo.Y, d+1)
		}
		return false
	}
	allInstrs(fn, func(in ssa.Instruction) {
		ret, ok := in.(*ssa.Return)
		if !ok || len(ret.Results) != 1 {
			return
		}
		v := ret.Results[0]
		switch {
		case isLen(v):
			c.sawFn(fnName(fn))
			c.judge(true, "R-ZERO-LEN", "mbits.Zero:result", ret.Pos(), "len(data)", "")
		case derived(v, 0):
			c.sawFn(fnName(fn))
			c.judge(false, "R-ZERO-LEN", "mbits.Zero:result", ret.Pos(), "", "Zero returns "+ksym(v)+", an expression over len(data) other than the length itself: for lengths it does not fix (those not a multiple of 8, for the word-aligned prefix) the reported count is not the number of bytes cleared")
		}
	})
}

// ruleCounterWidth (R-COUNTER-WIDTH): the subsequence and diff functions keep lengths, indices and path
// lengths in machine integers.  Arithmetic in, or a conversion to, an integer type narrower than 32 bits
// wraps for inputs longer than the type can count — invisible to tests with short inputs.
func ruleCounterWidth(c *Ctx, fns []*ssa.Function) {
	c.rule("R-COUNTER-WIDTH", 0, "no arithmetic in, and no conversion of a wider integer to, an integer type narrower than 32 bits in the subsequence functions")
	narrow := func(t types.Type) bool {
		b, ok := t.Underlying().(*types.Basic)
		if !ok || b.Info()&types.IsInteger == 0 {
			return false
		}
		switch b.Kind() {
		case types.Int8, types.Uint8, types.Int16, types.Uint16:
			return true
		}
		return false
	}
	seen := map[*ssa.Function]bool{}
	for _, f0 := range fns {
		for _, fn := range withClosures(f0) {
			if seen[fn] {
				continue
			}
			seen[fn] = true
			n := 0
			for _, b := range fn.Blocks {
				for _, in := range b.Instrs {
					switch x := in.(type) {
					case *ssa.Convert:
						if narrow(x.Type()) && !narrow(x.X.Type()) {
							if xb, ok := x.X.Type().Underlying().(*types.Basic); ok && xb.Info()&types.IsInteger != 0 {
								n++
								c.sawFn(fnName(fn))
								c.judge(false, "R-COUNTER-WIDTH", fmt.Sprintf("%s:narrowing#%d", fnName(fn), n), x.Pos(), "", fmt.Sprintf("%s is converted to %s: a length or index above the range of the narrow type wraps, so long inputs are searched or counted with the wrong bounds", ksym(x.X), x.Type()))
							}
						}
					case *ssa.BinOp:
						switch x.Op {
						case token.ADD, token.SUB, token.MUL:
							if narrow(x.Type()) {
								n++
								c.sawFn(fnName(fn))
								c.judge(false, "R-COUNTER-WIDTH", fmt.Sprintf("%s:narrow arithmetic#%d", fnName(fn), n), x.Pos(), "", fmt.Sprintf("%s is computed in %s: the counter wraps once it passes the range of the type, so the recorded length of long subsequences is wrong", ksym(x), x.Type()))
							}
						}
					}
				}
			}
		}
	}
}

// ruleSpanSiblings (R-SPAN-SIBLING): the span formatters of package mdiff (start, end → text) choose between the
// one-number and the two-number form by a test on the length of the range.  diff's convention is one rule for every
// format (one number exactly for a range of one line); the siblings are each other's reference: their tests, reduced
// to a linear form over (start, end), must be the same.
func ruleSpanSiblings(c *Ctx) {
	c.rule("R-SPAN-SIBLING", 0, "the span formatters of mdiff choose the short form on the same linear test of (start, end)")
	type form struct {
		a, b, k int64
		op      token.Token
	}
	isInt := func(t types.Type) bool {
		bt, ok := t.Underlying().(*types.Basic)
		return ok && bt.Kind() == types.Int
	}
	per := map[string][]string{}
	pos := map[string]token.Pos{}
	var names []string
	for _, fn := range c.P.PkgFuncs("mdiff") {
		sig := fn.Signature
		if sig.Recv() != nil || fn.Parent() != nil || sig.Results().Len() != 1 || len(fn.Params) < 2 || fn.Blocks == nil {
			continue
		}
		if rb, ok := sig.Results().At(0).Type().Underlying().(*types.Basic); !ok || rb.Kind() != types.String {
			continue
		}
		ps, pe := fn.Params[len(fn.Params)-2], fn.Params[len(fn.Params)-1]
		if !isInt(ps.Type()) || !isInt(pe.Type()) {
			continue
		}
		// (start, end) and nothing else of that kind: a helper that is also handed the number to print
		// (span(start, end, second)) is not a formatter of a half-open range by itself
		nInt := 0
		for _, p := range fn.Params {
			if isInt(p.Type()) {
				nInt++
			}
		}
		if nInt != 2 {
			continue
		}
		var lin func(v ssa.Value, d int) (form, bool)
		lin = func(v ssa.Value, d int) (form, bool) {
			if d > 6 {
				return form{}, false
			}
			switch x := v.(type) {
			case *ssa.Parameter:
				if x == ps {
					return form{a: 1}, true
				}
				if x == pe {
					return form{b: 1}, true
				}
			case *ssa.Const:
				if k, ok := constInt(x); ok {
					return form{k: k}, true
				}
			case *ssa.BinOp:
				l, ok1 := lin(x.X, d+1)
				r, ok2 := lin(x.Y, d+1)
				if ok1 && ok2 {
					switch x.Op {
					case token.ADD:
						return form{a: l.a + r.a, b: l.b + r.b, k: l.k + r.k}, true
					case token.SUB:
						return form{a: l.a - r.a, b: l.b - r.b, k: l.k - r.k}, true
					}
				}
			}
			return form{}, false
		}
		// ranges are half-open [start, end): no number a span formatter prints is the bare end
		{
			fn := fn
			k := 0
			allInstrs(fn, func(in ssa.Instruction) {
				call, ok := in.(*ssa.Call)
				if !ok {
					return
				}
				var operands []ssa.Value
				if sc := call.Call.StaticCallee(); sc != nil && sc.Pkg != nil && sc.Pkg.Pkg.Path() == "strconv" && sc.Name() == "Itoa" {
					operands = call.Call.Args
				} else if sc != nil && sc.Pkg != nil && sc.Pkg.Pkg.Path() == "fmt" && sc.Name() == "Sprintf" && len(call.Call.Args) == 2 {
					if sl, ok := call.Call.Args[1].(*ssa.Slice); ok {
						if al, ok := sl.X.(*ssa.Alloc); ok {
							for _, r := range referrersOf(al) {
								if ia, ok := r.(*ssa.IndexAddr); ok {
									for _, r2 := range referrersOf(ia) {
										if st, ok := r2.(*ssa.Store); ok && st.Addr == ssa.Value(ia) {
											if mi, ok := st.Val.(*ssa.MakeInterface); ok {
												operands = append(operands, mi.X)
											}
										}
									}
								}
							}
						}
					}
				}
				for _, o := range operands {
					f, ok := lin(o, 0)
					if !ok {
						continue
					}
					k++
					c.sawFn(fnName(fn))
					c.judge(!(f.a == 0 && f.b == 1 && f.k == 0), "R-SPAN-SIBLING", fmt.Sprintf("%s:printed number #%d", fnName(fn), k), call.Pos(), "not the bare end of the half-open range", fmt.Sprintf("%s prints the end of the half-open range [start, end) as a line number: the last line of the range is end − 1 (and a one-line range is named by its start)", fn.Name()))
				}
			})
		}
		var tests []string
		for _, b := range fn.Blocks {
			iff, ok := b.Instrs[len(b.Instrs)-1].(*ssa.If)
			if !ok {
				continue
			}
			bo, ok := iff.Cond.(*ssa.BinOp)
			if !ok {
				continue
			}
			l, ok1 := lin(bo.X, 0)
			r, ok2 := lin(bo.Y, 0)
			var touches func(v ssa.Value, d int) bool
			touches = func(v ssa.Value, d int) bool {
				if v == ssa.Value(ps) || v == ssa.Value(pe) {
					return true
				}
				if x, ok := v.(*ssa.BinOp); ok && d < 6 {
					return touches(x.X, d+1) || touches(x.Y, d+1)
				}
				return false
			}
			// a test in which the range cancels out (start − start == 1) is still the formatter's test: it is kept,
			// as the constant form it is, and disagrees with the sibling's
			if !ok1 || !ok2 || (l.a == 0 && l.b == 0 && r.a == 0 && r.b == 0 && !touches(bo.X, 0) && !touches(bo.Y, 0)) {
				continue
			}
			f := form{a: l.a - r.a, b: l.b - r.b, k: l.k - r.k, op: bo.Op}
			flip := map[token.Token]token.Token{token.LSS: token.GTR, token.GTR: token.LSS, token.LEQ: token.GEQ, token.GEQ: token.LEQ, token.EQL: token.EQL, token.NEQ: token.NEQ}
			if f.b < 0 || (f.b == 0 && f.a < 0) {
				f = form{a: -f.a, b: -f.b, k: -f.k, op: flip[f.op]}
			}
			// strict integer forms to non-strict; != to ==
			switch f.op {
			case token.LSS:
				f.op, f.k = token.LEQ, f.k+1
			case token.GTR:
				f.op, f.k = token.GEQ, f.k-1
			case token.NEQ:
				f.op = token.EQL
			}
			tests = append(tests, fmt.Sprintf("%d·start%+d·end%+d %s 0", f.a, f.b, f.k, f.op))
		}
		if len(tests) == 0 {
			continue
		}
		sort.Strings(tests)
		n := fnName(fn)
		per[n] = tests
		pos[n] = fn.Pos()
		names = append(names, n)
	}
	sort.Strings(names)
	if len(names) < 2 {
		return
	}
	// majority / pairwise: with two siblings either differs from the other; report each against the first that differs
	for i, n := range names {
		ref := names[(i+1)%len(names)]
		same := strings.Join(per[n], "; ") == strings.Join(per[ref], "; ")
		c.sawFn(n)
		c.judge(same, "R-SPAN-SIBLING", n+":short-form test", pos[n], strings.Join(per[n], "; "), fmt.Sprintf("%s chooses its one-number form on [%s] while its sibling %s does on [%s]: one of them writes a single number for a range that does not have exactly one line (an empty range, say), which a reader of the format takes for a one-line range", n, strings.Join(per[n], "; "), ref, strings.Join(per[ref], "; ")))
	}
}

// ruleFractionRange (R-FRACTION-RANGE): the balance parameter β ranges over the interval New admits (the constants
// its panic guard compares β with); the weight fraction computed from it must stay within [1/2, 1] on that whole
// interval: a fraction above 1 makes the depth limit's logarithm base ≤ 1 (negative or infinite limits), one below
// 1/2 demands less depth than a perfectly balanced tree has.  Decided by interval evaluation of the conversion
// function's body (constants, conversions, + − × ÷).
func ruleFractionRange(c *Ctx) {
	c.rule("R-FRACTION-RANGE", 0, "the weight fraction computed from β stays in [1/2, 1] over the range of β that New admits")
	P := c.P
	nw := P.Func("stree", "", "New")
	lf := P.Func("stree", "", "limitFunc")
	if nw == nil || lf == nil || len(nw.Params) == 0 {
		return
	}
	beta := nw.Params[0]
	// the admitted range: the guard's comparisons of β with constants, read as "rejected when β op k"
	haveLo, haveHi := false, false
	var lo, hi float64
	allInstrs(nw, func(in ssa.Instruction) {
		bo, ok := in.(*ssa.BinOp)
		if !ok {
			return
		}
		x, y, op := bo.X, bo.Y, bo.Op
		if y == ssa.Value(beta) {
			x, y, op = y, x, flipOp(op)
		}
		if x != ssa.Value(beta) {
			return
		}
		k, ok := constInt(y)
		if !ok {
			return
		}
		switch op {
		case token.LSS: // rejected below k
			lo, haveLo = float64(k), true
		case token.LEQ:
			lo, haveLo = float64(k+1), true
		case token.GTR: // rejected above k
			hi, haveHi = float64(k), true
		case token.GEQ:
			hi, haveHi = float64(k-1), true
		}
	})
	if !haveLo || !haveHi {
		return
	}
	var conv *ssa.Function
	allInstrs(lf, func(in ssa.Instruction) {
		if call, ok := in.(*ssa.Call); ok {
			if cal := staticCallee(&call.Call); cal != nil && origin(cal).Pkg == lf.Pkg && origin(cal).Blocks != nil && len(origin(cal).Params) == 1 {
				if rb, ok := cal.Signature.Results().At(0).Type().Underlying().(*types.Basic); ok && rb.Info()&types.IsFloat != 0 {
					conv = origin(cal)
				}
			}
		}
	})
	if conv == nil || len(conv.Blocks) != 1 {
		return
	}
	type iv struct{ lo, hi float64 }
	var ev func(v ssa.Value, d int) (iv, bool)
	ev = func(v ssa.Value, d int) (iv, bool) {
		if d > 10 {
			return iv{}, false
		}
		switch x := v.(type) {
		case *ssa.Parameter:
			return iv{lo, hi}, true
		case *ssa.Const:
			if f, ok := constFloat(x); ok {
				return iv{f, f}, true
			}
		case *ssa.Convert:
			return ev(x.X, d+1)
		case *ssa.BinOp:
			a, ok1 := ev(x.X, d+1)
			b, ok2 := ev(x.Y, d+1)
			if !ok1 || !ok2 {
				return iv{}, false
			}
			var cs []float64
			for _, p := range []float64{a.lo, a.hi} {
				for _, q := range []float64{b.lo, b.hi} {
					switch x.Op {
					case token.ADD:
						cs = append(cs, p+q)
					case token.SUB:
						cs = append(cs, p-q)
					case token.MUL:
						cs = append(cs, p*q)
					case token.QUO:
						if b.lo <= 0 && b.hi >= 0 {
							return iv{}, false
						}
						cs = append(cs, p/q)
					default:
						return iv{}, false
					}
				}
			}
			sort.Float64s(cs)
			return iv{cs[0], cs[len(cs)-1]}, true
		}
		return iv{}, false
	}
	ret, ok := conv.Blocks[0].Instrs[len(conv.Blocks[0].Instrs)-1].(*ssa.Return)
	if !ok || len(ret.Results) != 1 {
		return
	}
	r, ok := ev(ret.Results[0], 0)
	if !ok {
		return
	}
	c.sawFn(fnName(conv))
	const eps = 1e-9
	c.judge(r.lo >= 0.5-eps && r.hi <= 1+eps, "R-FRACTION-RANGE", fnName(conv)+":range", conv.Pos(), fmt.Sprintf("β ∈ [%g, %g] ↦ [%g, %g] ⊆ [0.5, 1]", lo, hi, r.lo, r.hi), fmt.Sprintf("for β ∈ [%g, %g] the weight fraction ranges over [%g, %g], outside [0.5, 1]: the depth limit log_{1/fraction}(n) is then negative, infinite or below the height of a perfectly balanced tree, so the bound the tree promises is not the one enforced", lo, hi, r.lo, r.hi))
	// … and onto it: the strictest admitted balance is perfect weight balance (1/2), the loosest is "no
	// rebalancing" (1) — a guard that stops short of either end rejects balance factors the type documents
	c.judge(r.lo <= 0.5+eps && r.hi >= 1-eps, "R-FRACTION-RANGE", fnName(nw)+":admitted balance factors", nw.Pos(), fmt.Sprintf("β ∈ [%g, %g] covers the fractions from 1/2 to 1", lo, hi), fmt.Sprintf("New admits β ∈ [%g, %g], which reaches the weight fractions [%g, %g] only: the end of the scale (fraction %g) is rejected with a panic although it is a documented balance factor", lo, hi, r.lo, r.hi, map[bool]float64{true: 1, false: 0.5}[r.hi < 1-eps]))
}

// ruleDigitBase (R-DIGIT-BASE): the numeric parser of CompareNatural accumulates v = v·B + (c − z) over the bytes its
// digit predicate accepts, [z', z'+k].  Positional notation needs B = k+1 and z = z'.
func ruleDigitBase(c *Ctx) {
	c.rule("R-DIGIT-BASE", 0, "the radix the numeric parser multiplies by is the number of characters its digit predicate accepts, and the digit offset is the predicate's lowest character")
	cn := c.P.Func("mstr", "", "CompareNatural")
	if cn == nil {
		return
	}
	seen := map[*ssa.Function]bool{}
	allInstrs(cn, func(in ssa.Instruction) {
		call, ok := in.(*ssa.Call)
		if !ok {
			return
		}
		p := staticCallee(&call.Call)
		if p == nil || origin(p).Pkg != cn.Pkg || origin(p).Blocks == nil || seen[origin(p)] {
			return
		}
		p = origin(p)
		seen[p] = true
		// the accumulation
		var radix, zero int64
		var have bool
		var at token.Pos
		var pred *ssa.Function
		allInstrs(p, func(in ssa.Instruction) {
			switch x := in.(type) {
			case *ssa.BinOp:
				if x.Op != token.ADD {
					return
				}
				for _, pr := range [][2]ssa.Value{{x.X, x.Y}, {x.Y, x.X}} {
					mul, ok := pr[0].(*ssa.BinOp)
					if !ok || mul.Op != token.MUL {
						continue
					}
					k, ok := constInt(mul.Y)
					if !ok {
						if k, ok = constInt(mul.X); !ok {
							continue
						}
					}
					d := pr[1]
					if cv, ok := d.(*ssa.Convert); ok {
						d = cv.X
					}
					sub, ok := d.(*ssa.BinOp)
					if !ok || sub.Op != token.SUB {
						continue
					}
					z, ok := constInt(sub.Y)
					if !ok {
						continue
					}
					if _, isIdx := sub.X.(*ssa.Index); !isIdx {
						continue
					}
					radix, zero, have, at = k, z, true, x.Pos()
				}
			case *ssa.Call:
				if q := staticCallee(&x.Call); q != nil && origin(q).Blocks != nil && len(origin(q).Params) == 1 && q.Signature.Results().Len() == 1 {
					if rb, ok := q.Signature.Results().At(0).Type().Underlying().(*types.Basic); ok && rb.Kind() == types.Bool {
						pred = origin(q)
					}
				}
			}
		})
		if !have || pred == nil {
			return
		}
		// the predicate's range: comparisons of its parameter with constants
		var los, his []int64
		okForm := true
		allInstrs(pred, func(in ssa.Instruction) {
			bo, ok := in.(*ssa.BinOp)
			if !ok {
				return
			}
			x, y, op := bo.X, bo.Y, bo.Op
			switch op {
			case token.LSS, token.LEQ, token.GTR, token.GEQ, token.EQL, token.NEQ:
			default:
				return
			}
			if _, isC := x.(*ssa.Const); isC {
				x, y, op = y, x, flipOp(op)
			}
			// the unsigned-wrap form  p − z ≤ k  (one comparison for both bounds)
			if sub, ok := x.(*ssa.BinOp); ok && sub.Op == token.SUB && sub.X == ssa.Value(pred.Params[0]) {
				if bt, ok := sub.Type().Underlying().(*types.Basic); ok && bt.Info()&types.IsUnsigned != 0 {
					z, ok1 := constInt(sub.Y)
					k, ok2 := constInt(y)
					if ok1 && ok2 && (op == token.LEQ || op == token.LSS) {
						if op == token.LSS {
							k--
						}
						los = append(los, z)
						his = append(his, z+k)
						return
					}
				}
				okForm = false
				return
			}
			if x != ssa.Value(pred.Params[0]) {
				return
			}
			k, ok := constInt(y)
			if !ok {
				okForm = false
				return
			}
			switch op {
			case token.GEQ:
				los = append(los, k)
			case token.GTR:
				los = append(los, k+1)
			case token.LEQ:
				his = append(his, k)
			case token.LSS:
				his = append(his, k-1)
			default:
				okForm = false
			}
		})
		if !okForm || len(los) != 1 || len(his) != 1 {
			return
		}
		c.sawFn(fnName(p))
		want := his[0] - los[0] + 1
		c.judge(radix == want && zero == los[0], "R-DIGIT-BASE", fnName(p)+":radix", at, fmt.Sprintf("v·%d + (c − %d) over %d digit characters from %d", radix, zero, want, los[0]), fmt.Sprintf("the numeric parser accumulates v·%d + (c − %d) while its digit predicate %s accepts the %d characters %d..%d: the value is not the positional value of the run, so digit runs are not ordered numerically (e.g. two different runs get the same value)", radix, zero, pred.Name(), want, los[0], his[0]))
	})
}

// ruleUTF8Class (R-UTF8-CLASS): Trunc decides where a character starts by masking the byte before the cut.  The
// set a test `b & m == v` denotes is computed and compared with the encoding's classes: the test that keeps
// backing up (in the loop) must denote exactly the continuation bytes 0x80..0xBF; the test for backing up once more
// must hold for every lead byte of a valid multi-byte encoding (0xC2..0xF4) and for no single-byte code (< 0x80).
// The guard in front of either test must not exempt position 1.
func ruleUTF8Class(c *Ctx) {
	c.rule("R-UTF8-CLASS", 0, "Trunc's mask tests denote the UTF-8 byte classes (continuation = 0x80..0xBF exactly; lead ⊇ 0xC2..0xF4, no ASCII) and apply from position 1 on")
	fn := c.P.Func("mstr", "", "Trunc")
	if fn == nil {
		return
	}
	s := fn.Params[0]
	inLoop := func(b *ssa.BasicBlock) bool {
		seen := map[*ssa.BasicBlock]bool{}
		var w func(x *ssa.BasicBlock) bool
		w = func(x *ssa.BasicBlock) bool {
			for _, sc := range x.Succs {
				if sc == b {
					return true
				}
				if !seen[sc] {
					seen[sc] = true
					if w(sc) {
						return true
					}
				}
			}
			return false
		}
		return w(b)
	}
	n := 0
	for _, b := range fn.Blocks {
		for _, in := range b.Instrs {
			eq, ok := in.(*ssa.BinOp)
			if !ok {
				continue
			}
			switch eq.Op {
			case token.EQL, token.NEQ, token.LSS, token.LEQ, token.GTR, token.GEQ:
			default:
				continue
			}
			// b & m OP v, or the byte compared as it is (b >= 0xc0): the mask is then all ones
			var idx *ssa.Index
			m, ok1 := int64(0xff), true
			if and, ok := eq.X.(*ssa.BinOp); ok && and.Op == token.AND {
				idx, _ = and.X.(*ssa.Index)
				m, ok1 = constInt(and.Y)
			} else {
				idx, _ = eq.X.(*ssa.Index)
			}
			if idx == nil || idx.X != ssa.Value(s) {
				continue
			}
			v, ok2 := constInt(eq.Y)
			if !ok1 || !ok2 {
				continue
			}
			var set [256]bool
			for x := 0; x < 256; x++ {
				w := int64(x) & m
				switch eq.Op {
				case token.EQL:
					set[x] = w == v
				case token.NEQ:
					set[x] = w != v
				case token.LSS:
					set[x] = w < v
				case token.LEQ:
					set[x] = w <= v
				case token.GTR:
					set[x] = w > v
				case token.GEQ:
					set[x] = w >= v
				}
			}
			n++
			loop := inLoop(b)
			var probs []string
			if loop {
				for x := 0; x < 256; x++ {
					if set[x] != (x >= 0x80 && x <= 0xBF) {
						probs = append(probs, fmt.Sprintf("byte 0x%02X is %sclassified as a continuation byte", x, map[bool]string{true: "", false: "not "}[set[x]]))
						break
					}
				}
			} else {
				for x := 0; x < 0x80; x++ {
					if set[x] {
						probs = append(probs, fmt.Sprintf("the single-byte code 0x%02X is taken for the start of a multi-byte encoding", x))
						break
					}
				}
				for x := 0xC2; x <= 0xF4; x++ {
					if !set[x] {
						probs = append(probs, fmt.Sprintf("the lead byte 0x%02X is not recognised: a cut right after it leaves a partial encoding at the end of the result", x))
						break
					}
				}
			}
			// the guard on the position: lower bounds on h at this block, for idx.Index = h−1
			if sub, ok := idx.Index.(*ssa.BinOp); ok && sub.Op == token.SUB && isConstInt(sub.Y, 1) {
				for _, cp := range cmpsAt(idx.Block()) {
					x, y, op := cp.X, cp.Y, cp.Op
					if _, isC := x.(*ssa.Const); isC {
						x, y, op = y, x, flipOp(op)
					}
					if x != sub.X {
						continue
					}
					k, ok := constInt(y)
					if !ok {
						continue
					}
					lb := int64(-1 << 62)
					switch op {
					case token.GTR:
						lb = k + 1
					case token.GEQ:
						lb = k
					}
					if lb > 1 {
						probs = append(probs, fmt.Sprintf("the test is skipped for cut points below %d: a cut at position 1 after a lead byte keeps the partial encoding", lb))
					}
				}
			}
			kind := "lead-byte test"
			if loop {
				kind = "continuation test"
			}
			c.sawFn(fnName(fn))
			c.judge(len(probs) == 0, "R-UTF8-CLASS", fmt.Sprintf("mstr.Trunc:%s", kind), eq.Pos(), fmt.Sprintf("b & 0x%X %s 0x%X", m, eq.Op, v), strings.Join(probs, "; "))
		}
	}
}

func constFloat(v ssa.Value) (float64, bool) {
	k, ok := v.(*ssa.Const)
	if !ok || k.Value == nil {
		return 0, false
	}
	switch k.Value.Kind() {
	case constant.Int, constant.Float:
		f, _ := constant.Float64Val(constant.ToFloat(k.Value))
		return f, true
	}
	return 0, false
}

// ruleLCSDiagonal (R-LCS-DIAGONAL): the LCS table is filled row by row with two row buffers.  On a match the new
// cell must extend ONE cell — its recorded length and its back pointer are taken from the same cell — and that cell
// is the diagonal neighbour: in the row that is not being written, one column to the left.  Taking either from the
// row being written lets one element of the outer input match several of the inner one (over-long result), taking
// them from different cells makes the recorded length disagree with the chain that is walked back.
func ruleLCSDiagonal(c *Ctx) {
	c.rule("R-LCS-DIAGONAL", 0, "in LCSFunc's match step the new cell's length and back pointer come from the same cell, which lies in the other row buffer one column to the left of the cell written")
	fn := c.P.Func("slice", "", "LCSFunc")
	if fn == nil {
		return
	}
	load := func(v ssa.Value) ssa.Value {
		if u, ok := v.(*ssa.UnOp); ok && u.Op == token.MUL {
			return u.X
		}
		return nil
	}
	cellOf := func(v ssa.Value) (row, idx ssa.Value, ok bool) {
		a := load(v)
		if a == nil {
			return nil, nil, false
		}
		ia, ok2 := a.(*ssa.IndexAddr)
		if !ok2 {
			return nil, nil, false
		}
		return ia.X, ia.Index, true
	}
	for _, b := range fn.Blocks {
		for _, in := range b.Instrs {
			st, ok := in.(*ssa.Store)
			if !ok {
				continue
			}
			al, ok := st.Val.(*ssa.Alloc)
			if !ok || !al.Heap {
				continue
			}
			wa, ok := st.Addr.(*ssa.IndexAddr)
			if !ok {
				continue
			}
			// field stores of the new cell
			var rowN, idxN, rowP, idxP ssa.Value
			stepK := int64(1)
			for _, r := range *al.Referrers() {
				fa, ok := r.(*ssa.FieldAddr)
				if !ok {
					continue
				}
				for _, r2 := range *fa.Referrers() {
					fs, ok := r2.(*ssa.Store)
					if !ok || fs.Addr != ssa.Value(fa) {
						continue
					}
					if bo, ok := fs.Val.(*ssa.BinOp); ok && bo.Op == token.ADD && isAnyConstInt(bo.Y) {
						if fl := load(bo.X); fl != nil {
							if fa2, ok := fl.(*ssa.FieldAddr); ok && fa2.Field == fa.Field {
								if r0, i0, ok := cellOf(fa2.X); ok {
									rowN, idxN = r0, i0
									stepK, _ = constInt(bo.Y)
								}
							}
						}
					} else if _, isPtr := fs.Val.Type().Underlying().(*types.Pointer); isPtr {
						if r0, i0, ok := cellOf(fs.Val); ok {
							rowP, idxP = r0, i0
						}
					}
				}
			}
			if rowN == nil || rowP == nil {
				continue
			}
			var probs []string
			if stepK != 1 {
				probs = append(probs, fmt.Sprintf("a match extends the chain by one element but the recorded length grows by %d: the result is allocated (and filled from the back) for a length the chain does not have", stepK))
			}
			if rowN != rowP || ksym(idxN) != ksym(idxP) {
				probs = append(probs, fmt.Sprintf("the length extends cell %s[%s] but the back pointer is cell %s[%s]: the recorded length is not the length of the chain walked back", ksym(rowN), ksym(idxN), ksym(rowP), ksym(idxP)))
			}
			for _, rw := range []ssa.Value{rowN, rowP} {
				if rw == wa.X {
					probs = append(probs, fmt.Sprintf("the extended cell is read from %s, the row being written: a match then builds on a match of the same outer element, so one element is counted against several equal ones", ksym(rw)))
					break
				}
			}
			want := ksym(wa.Index) + " - 1"
			baseOff := func(v ssa.Value) (ssa.Value, int64) {
				off := int64(0)
				for {
					bo, ok := v.(*ssa.BinOp)
					if !ok {
						return v, off
					}
					k, isK := constInt(bo.Y)
					if !isK || (bo.Op != token.ADD && bo.Op != token.SUB) {
						return v, off
					}
					if bo.Op == token.SUB {
						k = -k
					}
					off += k
					v = bo.X
				}
			}
			bw, ow := baseOff(wa.Index)
			bn, on := baseOff(idxN)
			if !(bw == bn && ow-on == 1) {
				probs = append(probs, fmt.Sprintf("the extended cell is at column %s, not %s (the diagonal)", ksym(idxN), want))
			}
			c.sawFn(fnName(fn))
			c.judge(len(probs) == 0, "R-LCS-DIAGONAL", "slice.LCSFunc:match step", st.Pos(), "length and back pointer from the diagonal cell of the other row", strings.Join(probs, "; "))
		}
	}
}

// fromParam: v is the parameter p itself, or p loaded back from the cell it was spilled to.
func fromParam(v ssa.Value, p *ssa.Parameter) bool {
	if v == ssa.Value(p) {
		return true
	}
	if u, ok := v.(*ssa.UnOp); ok && u.Op == token.MUL {
		if al, ok := u.X.(*ssa.Alloc); ok {
			for _, r := range referrersOf(al) {
				if st, ok := r.(*ssa.Store); ok && st.Addr == ssa.Value(al) && st.Val != ssa.Value(p) {
					return false
				}
			}
			return true
		}
	}
	return false
}

func isAnyConstInt(v ssa.Value) bool {
	_, ok := constInt(v)
	return ok
}

// ruleRowLength (R-ROW-LENGTH): in LCSFunc the row buffers are indexed by the position in ONE input (i ≤ len(as));
// every buffer a row variable can hold was allocated with that input's length (+ constant).  A row sized by the
// other input is too short whenever that input is the shorter one.
func ruleRowLength(c *Ctx) {
	c.rule("R-ROW-LENGTH", 0, "in LCSFunc every row buffer indexed by a position bounded by len(x) was allocated from len(x)")
	fn := c.P.Func("slice", "", "LCSFunc")
	if fn == nil {
		return
	}
	lenOfParam := func(v ssa.Value) ssa.Value {
		if bo, ok := v.(*ssa.BinOp); ok && (bo.Op == token.ADD || bo.Op == token.SUB) {
			if _, isK := constInt(bo.Y); isK {
				v = bo.X
			}
		}
		if ln, ok := isBuiltinCall(v, "len"); ok {
			switch ln.Call.Args[0].(type) {
			case *ssa.Parameter, *ssa.Phi: // an input, or the variable the inputs are swapped into
				return ln.Call.Args[0]
			}
		}
		return nil
	}
	done := map[string]bool{}
	n := 0
	allInstrs(fn, func(in ssa.Instruction) {
		ia, ok := in.(*ssa.IndexAddr)
		if !ok {
			return
		}
		// the buffers this row variable can hold
		var bufs []ssa.Value
		phiLeaves(ia.X, nil, map[ssa.Value]bool{}, &bufs)
		var allocs []*ssa.MakeSlice
		for _, b := range bufs {
			mk, ok := b.(*ssa.MakeSlice)
			if !ok {
				return
			}
			allocs = append(allocs, mk)
		}
		if len(allocs) == 0 {
			return
		}
		// the input that bounds the index
		idx := ia.Index
		if bo, ok := idx.(*ssa.BinOp); ok && (bo.Op == token.ADD || bo.Op == token.SUB) {
			if _, isK := constInt(bo.Y); isK {
				idx = bo.X
			}
		}
		var bound ssa.Value
		for _, cm := range cmpsAt(ia.Block()) {
			if cm.X == idx && (cm.Op == token.LEQ || cm.Op == token.LSS) {
				if p := lenOfParam(cm.Y); p != nil {
					bound = p
				}
			}
		}
		if bound == nil {
			return
		}
		for _, mk := range allocs {
			dk := fmt.Sprintf("%p/%s", mk, ksym(bound))
			if done[dk] {
				continue
			}
			done[dk] = true
			from := lenOfParam(mk.Len)
			if from == nil {
				continue
			}
			n++
			key := fmt.Sprintf("%s:row #%d indexed up to len(%s)", fnName(fn), n, ksym(bound))
			c.sawFn(fnName(fn))
			c.judge(from == bound, "R-ROW-LENGTH", key, mk.Pos(), "allocated from the length that bounds its index", fmt.Sprintf("the row is allocated from len(%s) but indexed by a position that runs up to len(%s): when %s is the longer input the index runs past the row", ksym(from), ksym(bound), ksym(bound)))
		}
	})
}
