package main

// lenfx.go — symbolic length effect of the methods of a slice-backed container
// (stack.Stack, heapq.Queue): for every path through a method, the length of
// the backing slice at return as a linear form over its length at entry (L0),
// parameters and opaque atoms.  Paths are enumerated over the go/ssa CFG (each
// block at most twice per path); nothing is executed and no feasibility is
// decided beyond equalities learnt from `x == const` branch edges.

import (
	"fmt"
	"go/constant"
	"go/token"
	"go/types"
	"sort"
	"strings"

	"golang.org/x/tools/go/ssa"
)

type lform struct {
	unk bool
	k   int64
	at  map[string]int64
}

func lconst(k int64) lform { return lform{k: k} }
func latom(a string) lform { return lform{at: map[string]int64{a: 1}} }
func lunknown() lform      { return lform{unk: true} }
func (a lform) add(b lform, sign int64) lform {
	if a.unk || b.unk {
		return lunknown()
	}
	r := lform{k: a.k + sign*b.k, at: map[string]int64{}}
	for n, c := range a.at {
		r.at[n] += c
	}
	for n, c := range b.at {
		r.at[n] += sign * c
	}
	for n, c := range r.at {
		if c == 0 {
			delete(r.at, n)
		}
	}
	return r
}
func (a lform) scale(k int64) lform {
	if a.unk {
		return a
	}
	r := lform{k: a.k * k, at: map[string]int64{}}
	for n, c := range a.at {
		if c*k != 0 {
			r.at[n] = c * k
		}
	}
	return r
}
func (a lform) eq(b lform) bool {
	if a.unk || b.unk {
		return false
	}
	d := a.add(b, -1)
	return d.k == 0 && len(d.at) == 0
}
func (a lform) String() string {
	if a.unk {
		return "?"
	}
	var names []string
	for n := range a.at {
		names = append(names, n)
	}
	sort.Strings(names)
	var parts []string
	for _, n := range names {
		c := a.at[n]
		switch c {
		case 1:
			parts = append(parts, n)
		case -1:
			parts = append(parts, "-"+n)
		default:
			parts = append(parts, fmt.Sprintf("%d·%s", c, n))
		}
	}
	if a.k != 0 || len(parts) == 0 {
		parts = append(parts, fmt.Sprint(a.k))
	}
	return strings.ReplaceAll(strings.Join(parts, "+"), "+-", "-")
}

// subst replaces atom by f in a.
func (a lform) subst(atom string, f lform) lform {
	if a.unk {
		return a
	}
	c, ok := a.at[atom]
	if !ok {
		return a
	}
	r := lform{k: a.k, at: map[string]int64{}}
	for n, v := range a.at {
		if n != atom {
			r.at[n] = v
		}
	}
	return r.add(f.scale(c), 1)
}

type lenEnd struct {
	form   lform
	stored bool
	pos    token.Pos
	eqs    map[string]lform // equalities learnt on the path: atom = form
}

func (e lenEnd) norm(f lform) lform {
	for i := 0; i < 3; i++ {
		for a, v := range e.eqs {
			f = f.subst(a, v)
		}
	}
	return f
}

type lenFx struct {
	P     *Prog
	field *types.Var
	memo  map[*ssa.Function][]lenEnd
	busy  map[*ssa.Function]bool
	paths int
}

func newLenFx(P *Prog, field *types.Var) *lenFx {
	return &lenFx{P: P, field: field, memo: map[*ssa.Function][]lenEnd{}, busy: map[*ssa.Function]bool{}}
}

type lenState struct {
	cur    lform
	env    map[ssa.Value]lform
	stored bool
	eqs    map[string]lform
	visits map[*ssa.BasicBlock]int
}

func (s *lenState) clone() *lenState {
	n := &lenState{cur: s.cur, stored: s.stored, env: map[ssa.Value]lform{}, eqs: map[string]lform{}, visits: map[*ssa.BasicBlock]int{}}
	for k, v := range s.env {
		n.env[k] = v
	}
	for k, v := range s.eqs {
		n.eqs[k] = v
	}
	for k, v := range s.visits {
		n.visits[k] = v
	}
	return n
}

func (x *lenFx) isFieldAddr(v ssa.Value) bool {
	fa, ok := v.(*ssa.FieldAddr)
	if !ok {
		return false
	}
	_, f := fieldVarOf(fa)
	return sameField(f, x.field)
}

// storesField: fn (transitively, through static same-package callees) stores the field.
func (x *lenFx) storesField(fn *ssa.Function, seen map[*ssa.Function]bool) bool {
	fn = origin(fn)
	if fn == nil || fn.Blocks == nil || seen[fn] {
		return false
	}
	seen[fn] = true
	hit := false
	allInstrs(fn, func(in ssa.Instruction) {
		switch y := in.(type) {
		case *ssa.Store:
			if x.isFieldAddr(y.Addr) {
				hit = true
			}
		case *ssa.Call:
			if cal := staticCallee(&y.Call); cal != nil && x.storesField(cal, seen) {
				hit = true
			}
		}
	})
	return hit
}

func (x *lenFx) paramAtom(fn *ssa.Function, p *ssa.Parameter) string {
	for i, q := range fn.Params {
		if q == p {
			return fmt.Sprintf("p%d", i)
		}
	}
	return "p?"
}

func (x *lenFx) intVal(fn *ssa.Function, st *lenState, v ssa.Value) lform {
	if f, ok := st.env[v]; ok {
		return f
	}
	switch y := v.(type) {
	case *ssa.Const:
		if y.Value != nil && y.Value.Kind() == constant.Int {
			if k, ok := constant.Int64Val(y.Value); ok {
				return lconst(k)
			}
		}
		return lunknown()
	case *ssa.BinOp:
		switch y.Op {
		case token.ADD:
			return x.intVal(fn, st, y.X).add(x.intVal(fn, st, y.Y), 1)
		case token.SUB:
			return x.intVal(fn, st, y.X).add(x.intVal(fn, st, y.Y), -1)
		case token.MUL:
			if k, ok := constInt(y.Y); ok {
				return x.intVal(fn, st, y.X).scale(k)
			}
			if k, ok := constInt(y.X); ok {
				return x.intVal(fn, st, y.Y).scale(k)
			}
		}
		return latom("v:" + fn.Name() + "." + y.Name())
	case *ssa.Call:
		if b, ok := y.Call.Value.(*ssa.Builtin); ok {
			switch b.Name() {
			case "len":
				return x.lenVal(fn, st, y.Call.Args[0])
			case "min", "max":
				return latom("v:" + fn.Name() + "." + y.Name())
			}
		}
		if f, ok := x.getter(fn, st, y, 0); ok {
			return f
		}
		return latom("v:" + fn.Name() + "." + y.Name())
	case *ssa.Parameter:
		return latom(x.paramAtom(fn, y))
	case *ssa.Convert:
		return x.intVal(fn, st, y.X)
	case *ssa.Phi:
		return lunknown()
	}
	return latom("v:" + fn.Name() + "." + v.Name())
}

func (x *lenFx) lenVal(fn *ssa.Function, st *lenState, v ssa.Value) lform {
	if f, ok := st.env[v]; ok {
		return f
	}
	switch y := v.(type) {
	case *ssa.Const:
		return lconst(0)
	case *ssa.Slice:
		var base lform
		if pt, ok := y.X.Type().Underlying().(*types.Pointer); ok {
			if arr, ok := pt.Elem().Underlying().(*types.Array); ok {
				base = lconst(arr.Len())
			} else {
				base = lunknown()
			}
		} else {
			base = x.lenVal(fn, st, y.X)
		}
		lo, hi := lconst(0), base
		if y.Low != nil {
			lo = x.intVal(fn, st, y.Low)
		}
		if y.High != nil {
			hi = x.intVal(fn, st, y.High)
		}
		return hi.add(lo, -1)
	case *ssa.MakeSlice:
		return x.intVal(fn, st, y.Len)
	case *ssa.ChangeType:
		return x.lenVal(fn, st, y.X)
	case *ssa.Convert:
		return x.lenVal(fn, st, y.X)
	case *ssa.Parameter:
		return latom("len(" + x.paramAtom(fn, y) + ")")
	case *ssa.Call:
		if b, ok := y.Call.Value.(*ssa.Builtin); ok && b.Name() == "append" {
			r := x.lenVal(fn, st, y.Call.Args[0])
			if len(y.Call.Args) == 2 {
				r = r.add(x.lenVal(fn, st, y.Call.Args[1]), 1)
			}
			return r
		}
		if cal := y.Call.StaticCallee(); cal != nil && origin(cal).Pkg != nil && origin(cal).Pkg.Pkg.Path() == "slices" && len(y.Call.Args) >= 1 {
			switch origin(cal).Name() {
			case "Clone", "Clip", "Grow":
				return x.lenVal(fn, st, y.Call.Args[0])
			}
		}
		return lunknown()
	case *ssa.UnOp:
		if y.Op == token.MUL {
			if x.isFieldAddr(y.X) {
				return st.cur // a read inside a getter evaluated at its call site
			}
			return latom("len(" + ksym(y) + ")")
		}
	}
	return lunknown()
}

// getter evaluates a call of a same-package function that does not store the
// field and returns one integer: its result as a form over the caller's values.
func (x *lenFx) getter(fn *ssa.Function, st *lenState, call *ssa.Call, depth int) (lform, bool) {
	cal := origin(staticCallee(&call.Call))
	if cal == nil || cal.Blocks == nil || depth > 2 || cal.Pkg != origin(fn).Pkg || x.storesField(cal, map[*ssa.Function]bool{}) {
		return lform{}, false
	}
	if cal.Signature.Results().Len() != 1 || !isIntType(cal.Signature.Results().At(0).Type()) {
		return lform{}, false
	}
	sub := &lenState{cur: st.cur, env: map[ssa.Value]lform{}, eqs: st.eqs, visits: map[*ssa.BasicBlock]int{}}
	for i, p := range cal.Params {
		if i < len(call.Call.Args) {
			if isIntType(p.Type()) {
				sub.env[p] = x.intVal(fn, st, call.Call.Args[i])
			} else if sliceLike(p.Type()) {
				sub.env[p] = x.lenVal(fn, st, call.Call.Args[i])
			}
		}
	}
	var res *lform
	same := true
	allInstrs(cal, func(in ssa.Instruction) {
		ret, ok := in.(*ssa.Return)
		if !ok || len(ret.Results) != 1 {
			return
		}
		f := x.intVal(cal, sub, ret.Results[0])
		if res == nil {
			res = &f
		} else if !res.eq(f) {
			same = false
		}
	})
	if res == nil || !same || res.unk {
		return lform{}, false
	}
	return *res, true
}

// ends enumerates the paths of fn and returns the length of the field at each return.
func (x *lenFx) ends(fn *ssa.Function) []lenEnd {
	fn = origin(fn)
	if e, ok := x.memo[fn]; ok {
		return e
	}
	if x.busy[fn] || fn.Blocks == nil {
		return []lenEnd{{form: lunknown(), stored: true}}
	}
	x.busy[fn] = true
	var out []lenEnd
	x.paths = 0
	var exec func(b, pred *ssa.BasicBlock, st *lenState, from int)
	exec = func(b, pred *ssa.BasicBlock, st *lenState, from int) {
		if x.paths > 2000 {
			return
		}
		if from == 0 {
			st.visits[b]++
			if st.visits[b] > 2 {
				return
			}
			// φ-nodes read their inputs simultaneously
			newv := map[ssa.Value]lform{}
			for _, in := range b.Instrs {
				ph, ok := in.(*ssa.Phi)
				if !ok {
					break
				}
				for i, p := range b.Preds {
					if p == pred {
						if sliceLike(ph.Type()) {
							newv[ph] = x.lenVal(fn, st, ph.Edges[i])
						} else if isIntType(ph.Type()) {
							newv[ph] = x.intVal(fn, st, ph.Edges[i])
						}
					}
				}
			}
			for k, v := range newv {
				st.env[k] = v
			}
		}
		for i := from; i < len(b.Instrs); i++ {
			switch y := b.Instrs[i].(type) {
			case *ssa.UnOp:
				if y.Op == token.MUL && x.isFieldAddr(y.X) {
					st.env[y] = st.cur
				}
			case *ssa.Store:
				if x.isFieldAddr(y.Addr) {
					st.cur = x.lenVal(fn, st, y.Val)
					st.stored = true
				}
			case *ssa.Call:
				cal := staticCallee(&y.Call)
				if cal == nil || !x.storesField(cal, map[*ssa.Function]bool{}) {
					continue
				}
				sub := x.ends(cal)
				// substitute the callee's parameters by the arguments, L0 by the current length
				ocal := origin(cal)
				for _, e := range sub {
					f := e.norm(e.form)
					if !f.unk {
						f = f.subst("L0", st.cur)
						for pi := range ocal.Params {
							if pi < len(y.Call.Args) {
								a := fmt.Sprintf("p%d", pi)
								if _, has := f.at[a]; has {
									f = f.subst(a, x.intVal(fn, st, y.Call.Args[pi]))
								}
								a = fmt.Sprintf("len(p%d)", pi)
								if _, has := f.at[a]; has {
									f = f.subst(a, x.lenVal(fn, st, y.Call.Args[pi]))
								}
							}
						}
						for a := range f.at {
							if strings.HasPrefix(a, "v:") || strings.HasPrefix(a, "len(") && !strings.HasPrefix(a, "len(p") {
								_ = a // opaque atoms of the callee stay opaque
							}
						}
					}
					ns := st.clone()
					// equalities learnt inside the callee hold for the caller's values
					tr := func(g lform) lform {
						if g.unk {
							return g
						}
						g = g.subst("L0", st.cur)
						for pi := range ocal.Params {
							if pi < len(y.Call.Args) {
								a := fmt.Sprintf("p%d", pi)
								if _, has := g.at[a]; has {
									g = g.subst(a, x.intVal(fn, st, y.Call.Args[pi]))
								}
							}
						}
						return g
					}
					for a, v := range e.eqs {
						d := tr(latom(a)).add(tr(v), -1)
						if !d.unk && len(d.at) == 1 {
							for a2, c2 := range d.at {
								if c2 == 1 || c2 == -1 {
									ns.eqs[a2] = lconst(-d.k * c2)
								}
							}
						}
					}
					ns.cur = f
					ns.stored = st.stored || e.stored
					exec(b, pred, ns, i+1)
				}
				return
			case *ssa.Return:
				x.paths++
				out = append(out, lenEnd{form: st.cur, stored: st.stored, pos: y.Pos(), eqs: st.eqs})
				return
			case *ssa.Panic:
				return
			case *ssa.If:
				for si, s := range b.Succs {
					ns := st.clone()
					// learn x == k on the edge where it holds
					if bo, ok := y.Cond.(*ssa.BinOp); ok {
						holdsEq := (bo.Op == token.EQL && si == 0) || (bo.Op == token.NEQ && si == 1)
						if k, isK := constInt(bo.Y); isK && holdsEq && isIntType(bo.X.Type()) {
							f := x.intVal(fn, ns, bo.X)
							if !f.unk && len(f.at) == 1 {
								for a, c := range f.at {
									if c == 1 || c == -1 {
										// c·a + f.k = k  ⇒  a = (k − f.k)/c
										ns.eqs[a] = lconst((k - f.k) * c)
									}
								}
							}
						}
					}
					exec(s, b, ns, 0)
				}
				return
			case *ssa.Jump:
				exec(b.Succs[0], b, st, 0)
				return
			}
		}
	}
	st := &lenState{cur: latom("L0"), env: map[ssa.Value]lform{}, eqs: map[string]lform{}, visits: map[*ssa.BasicBlock]int{}}
	exec(fn.Blocks[0], nil, st, 0)
	delete(x.busy, fn)
	x.memo[fn] = out
	return out
}

// ruleLenEffect judges the methods of pkg.typ against a table of length effects.
// spec: method name → expected length at return on paths that store the field,
// as a linear form over L0 and the method's parameters ("L0+1", "L0-1", "0",
// "len(p1)"); methods not in the table must leave the length as it was.
// mayKeep lists the methods whose non-storing paths are legitimate (an empty
// container has nothing to remove).
func ruleLenEffect(c *Ctx, rule, pkg, typ string, field *types.Var, spec map[string]lform) {
	x := newLenFx(c.P, field)
	for _, fn := range c.P.MethodsDeep(pkg, typ) {
		if c.P.isCanaryFn(fn) || fn.Parent() != nil {
			continue
		}
		name := fnName(fn)
		if !x.storesField(fn, map[*ssa.Function]bool{}) {
			// a method whose contract is to make the container longer, and that never writes it
			if w, ok := spec[fn.Name()]; ok && w.k > 0 && len(w.at) == 1 && w.at["L0"] == 1 {
				c.sawFn(name)
				c.bad(rule, name+":length at return", fn.Pos(), fmt.Sprintf("the method's contract makes the length %s, but it never writes the buffer: the value it was given is dropped", w))
			}
			continue
		}
		c.sawFn(name)
		want, inTable := spec[fn.Name()]
		if !inTable {
			if fn.Object() != nil && !fn.Object().Exported() {
				continue // helpers are judged through the exported methods that call them
			}
			want = latom("L0")
		}
		ends := x.ends(fn)
		key := name + ":length at return"
		if len(ends) == 0 {
			continue
		}
		var bad []string
		unknown := false
		grows := inTable && want.k > 0 && len(want.at) == 1 && want.at["L0"] == 1
		for _, e := range ends {
			if !e.stored {
				if grows {
					bad = append(bad, fmt.Sprintf("L0 (nothing written) at %s", c.P.pos(e.pos)))
				}
				continue
			}
			got := e.norm(e.form)
			if got.unk {
				unknown = true
				continue
			}
			if !got.eq(e.norm(want)) {
				bad = append(bad, fmt.Sprintf("%s at %s", got, c.P.pos(e.pos)))
			}
		}
		sort.Strings(bad)
		bad = uniqSorted(bad)
		switch {
		case len(bad) > 0:
			c.bad(rule, key, fn.Pos(), fmt.Sprintf("on a path that rewrites the buffer the length at return is %s, the method's contract makes it %s (L0 = length at entry): an element is lost, duplicated or a vacated slot stays visible", strings.Join(bad, "; "), want))
		case unknown:
			// a length the analysis cannot express: not judged
		default:
			c.ok(rule, key, fn.Pos(), fmt.Sprintf("%s on every storing path", want))
		}
	}
}

func uniqSorted(in []string) []string {
	var out []string
	for i, s := range in {
		if i == 0 || s != in[i-1] {
			out = append(out, s)
		}
	}
	return out
}
