package main

// C09 — cache.Cache under concurrency: lock discipline.
// R-LOCK-HELD, R-LOCK-WHOLE, R-LOCK-WHO, R-LOCK-REENTRY, R-SETONCE, R-NO-GO,
// R-STORE-PRIVATE.

import (
	"fmt"
	"go/token"
	"go/types"
	"strings"

	"golang.org/x/tools/go/ssa"
)

func init() {
	register(&propDef{ID: "C09", Level: "proof", Run: runC09, CanaryGen: c09CanaryGen})
}

// c09CanaryGen writes the canary functions with the field names the current tree uses.
var c09Names struct{ mu, size, count, onEvict string }

func c09CanaryGen(P *Prog) map[string]string {
	ct := P.Named("cache", "Cache")
	size, _, count, _, onEvict := resolveCacheFields(P)
	if ct == nil || size == nil || count == nil || onEvict == nil {
		return nil
	}
	mu := ""
	for _, f := range structFields(ct) {
		if ts := f.Type().String(); ts == "sync.Mutex" || ts == "sync.RWMutex" {
			mu = f.Name()
		}
	}
	if mu == "" || P.Func("cache", "Cache", "Has") == nil {
		return nil
	}
	// selector path from a Cache value to a (possibly nested) field
	var pathTo func(n *types.Named, target *types.Var, depth int) (string, bool)
	pathTo = func(n *types.Named, target *types.Var, depth int) (string, bool) {
		st, ok := n.Underlying().(*types.Struct)
		if !ok || depth > 3 {
			return "", false
		}
		for i := 0; i < st.NumFields(); i++ {
			f := st.Field(i)
			if sameField(f, target) {
				return f.Name(), true
			}
			if inner, ok := f.Type().(*types.Named); ok && inner.Obj().Pkg() == n.Obj().Pkg() {
				if p, ok := pathTo(inner, target, depth+1); ok {
					return f.Name() + "." + p, true
				}
			}
		}
		return "", false
	}
	sizeP, ok1 := pathTo(ct, size, 0)
	countP, ok2 := pathTo(ct, count, 0)
	evictP, ok3 := pathTo(ct, onEvict, 0)
	if !ok1 || !ok2 || !ok3 {
		return nil
	}
	c09Names.mu, c09Names.size, c09Names.count, c09Names.onEvict = mu, sizeP, countP, evictP
	r := strings.NewReplacer("μ", mu, "c.size", "c."+sizeP, "c.count", "c."+countP, "c.onEvict", "c."+evictP)
	return map[string]string{"cache": r.Replace(c09Canary)}
}

const c09Canary = `package cache

// verifCanaryReadsSize reads guarded state without the lock (seeded violation).
func verifCanaryReadsSize[K comparable, V any](c *Cache[K, V]) int64 { return c.size }

// verifTwinReadsSize is its conforming twin.
func verifTwinReadsSize[K comparable, V any](c *Cache[K, V]) int64 {
	c.μ.Lock()
	defer c.μ.Unlock()
	return c.size
}

// verifCanaryUnlockEarly releases the lock before the callback (seeded violation).
func (c *Cache[K, V]) verifCanaryUnlockEarly(key K, val V) {
	c.μ.Lock()
	n := c.count
	c.μ.Unlock()
	if n > 0 {
		c.onEvict(key, val)
	}
}

// verifCanaryReenter calls a locking method from inside the critical section.
func (c *Cache[K, V]) verifCanaryReenter(key K) bool {
	c.μ.Lock()
	defer c.μ.Unlock()
	return c.Has(key)
}
`

type lockState int

const (
	lsUnknown  lockState = iota // not yet visited
	lsUnlocked                  // definitely not held on some path (meet = unlocked if any pred unlocked)
	lsLocked                    // held on all paths
)

type cacheModel struct {
	P         *Prog
	cacheT    *types.Named
	mu        *types.Var
	guarded   map[*types.Var]string // guarded data fields
	callbacks map[*types.Var]string // set-once function fields (calling them is a guarded event)
	setOnce   map[*types.Var]string
	storeIfc  *types.Named
	// lockHelpers: methods of Cache written for `defer c.lock()()` — they lock the receiver's mutex, do nothing
	// else, and return the bound Unlock of that same mutex
	lockHelpers map[*ssa.Function]bool
}

// findLockHelpers recognises the `defer c.lock()()` idiom's helper: a method on *Cache whose body is exactly
// "Lock the receiver's mutex; return its Unlock as a method value".
func (m *cacheModel) findLockHelpers(fns []*ssa.Function) {
	m.lockHelpers = map[*ssa.Function]bool{}
	for _, fn := range fns {
		if fn.Parent() != nil || fn.Blocks == nil || len(fn.Blocks) != 1 || len(fn.Params) != 1 || fn.Signature.Recv() == nil || !isNamedOrigin(fn.Params[0].Type(), m.cacheT) {
			continue
		}
		if _, isPtr := fn.Params[0].Type().Underlying().(*types.Pointer); !isPtr {
			continue
		}
		res := fn.Signature.Results()
		if res.Len() != 1 {
			continue
		}
		if sg, ok := res.At(0).Type().Underlying().(*types.Signature); !ok || sg.Params().Len() != 0 || sg.Results().Len() != 0 {
			continue
		}
		onMu := func(v ssa.Value) bool {
			fa, ok := v.(*ssa.FieldAddr)
			if !ok || fa.X != ssa.Value(fn.Params[0]) {
				return false
			}
			_, f := fieldVarOf(fa)
			return sameField(f, m.mu)
		}
		nLock, nRet, good := 0, 0, true
		for _, in := range fn.Blocks[0].Instrs {
			switch x := in.(type) {
			case *ssa.FieldAddr:
				if !onMu(x) {
					good = false
				}
			case *ssa.Call:
				if isMutexMethod(&x.Call, "Lock") && len(x.Call.Args) == 1 && onMu(x.Call.Args[0]) && nRet == 0 {
					nLock++
				} else {
					good = false
				}
			case *ssa.MakeClosure:
				w, ok := x.Fn.(*ssa.Function)
				if !ok || !strings.HasSuffix(w.Name(), "$bound") || len(x.Bindings) != 1 || !onMu(x.Bindings[0]) {
					good = false
					break
				}
				unl := false
				allInstrs(w, func(in2 ssa.Instruction) {
					if ci, ok := in2.(ssa.CallInstruction); ok && isMutexMethod(ci.Common(), "Unlock") {
						unl = true
					}
				})
				if !unl {
					good = false
				}
			case *ssa.Return:
				nRet++
				if _, ok := x.Results[0].(*ssa.MakeClosure); !ok || nLock != 1 {
					good = false
				}
			case *ssa.DebugRef:
			default:
				good = false
			}
		}
		if good && nLock == 1 && nRet == 1 {
			m.lockHelpers[origin(fn)] = true
		}
	}
}

func isNamedOrigin(t types.Type, n *types.Named) bool {
	if p, ok := t.Underlying().(*types.Pointer); ok {
		t = p.Elem()
	}
	if p, ok := t.(*types.Pointer); ok {
		t = p.Elem()
	}
	nt, ok := t.(*types.Named)
	return ok && nt.Origin() == n.Origin()
}

func isMutexMethod(c *ssa.CallCommon, name string) bool {
	f := c.StaticCallee()
	if f == nil || f.Name() != name {
		return false
	}
	recv := f.Signature.Recv()
	if recv == nil {
		return false
	}
	s := recv.Type().String()
	return s == "*sync.Mutex" || s == "*sync.RWMutex"
}

type guardedEvent struct {
	in   ssa.Instruction
	desc string
}

// eventsOf enumerates guarded events and lock operations of fn on Cache values.
// rootedAtCache: v is a Cache value/pointer, or a (nested) struct field of one held by value.
func (m *cacheModel) rootedAtCache(v ssa.Value, depth int) bool {
	if isNamedOrigin(v.Type(), m.cacheT) {
		return true
	}
	if depth > 3 {
		return false
	}
	switch x := v.(type) {
	case *ssa.FieldAddr:
		return m.rootedAtCache(x.X, depth+1)
	case *ssa.Field:
		return m.rootedAtCache(x.X, depth+1)
	case *ssa.UnOp:
		if x.Op == token.MUL {
			if fa, ok := x.X.(*ssa.FieldAddr); ok {
				return m.rootedAtCache(fa.X, depth+1)
			}
		}
	}
	return false
}

func (m *cacheModel) guardedEventOf(in ssa.Instruction) (string, bool) {
	switch x := in.(type) {
	case *ssa.FieldAddr:
		if !m.rootedAtCache(x.X, 0) {
			return "", false
		}
		_, f := fieldVarOf(x)
		if n, ok := m.guarded[f.Origin()]; ok {
			return "access field " + n, true
		}
	case *ssa.Field:
		if !m.rootedAtCache(x.X, 0) {
			return "", false
		}
		_, f := fieldVarOf(x)
		if n, ok := m.guarded[f.Origin()]; ok {
			return "access field " + n, true
		}
	case ssa.CallInstruction:
		c := x.Common()
		if c.IsInvoke() {
			if isNamedOrigin(c.Value.Type(), m.storeIfc) {
				return "invoke Store." + c.Method.Name(), true
			}
			return "", false
		}
		// call of a value loaded from a callback field of the cache
		if base, f := loadedField(c.Value); f != nil && m.rootedAtCache(base, 0) {
			if n, ok := m.callbacks[f.Origin()]; ok {
				return "call callback " + n, true
			}
		}
	}
	return "", false
}

func (m *cacheModel) isLockOp(in ssa.Instruction) (op string, ok bool) {
	ci, isCall := in.(ssa.CallInstruction)
	if !isCall {
		return "", false
	}
	c := ci.Common()
	// the `defer c.lock()()` idiom: the helper's call is the Lock, the deferred call of its result the Unlock
	if len(m.lockHelpers) > 0 {
		if call, isPlain := in.(*ssa.Call); isPlain && !c.IsInvoke() {
			if cal := c.StaticCallee(); cal != nil && m.lockHelpers[origin(cal)] && len(c.Args) == 1 {
				if isLocalCopy(c.Args[0]) {
					return "Lock on a copy of the cache", true
				}
				_ = call
				return "Lock", true
			}
		}
		if inner, ok := c.Value.(*ssa.Call); ok && !c.IsInvoke() {
			if cal := inner.Call.StaticCallee(); cal != nil && m.lockHelpers[origin(cal)] {
				if _, isDefer := in.(*ssa.Defer); isDefer {
					return "defer Unlock", true
				}
				if _, isGo := in.(*ssa.Go); isGo {
					return "go Unlock", true
				}
				return "Unlock", true
			}
		}
	}
	for _, name := range []string{"Lock", "Unlock", "TryLock", "RLock", "RUnlock"} {
		if isMutexMethod(c, name) && len(c.Args) > 0 {
			if fa, ok := c.Args[0].(*ssa.FieldAddr); ok {
				_, f := fieldVarOf(fa)
				if sameField(f, m.mu) {
					if al, isLocal := fa.X.(*ssa.Alloc); isLocal && !al.Heap || isLocalCopy(fa.X) {
						// the mutex of a COPY of the cache (value receiver, local variable): excludes nobody
						return name + " on a copy of the cache", true
					}
					if _, isDefer := in.(*ssa.Defer); isDefer {
						return "defer " + name, true
					}
					if _, isGo := in.(*ssa.Go); isGo {
						return "go " + name, true
					}
					return name, true
				}
			}
		}
	}
	return "", false
}

type fnLockResult struct {
	events      []guardedEvent
	unlocked    map[ssa.Instruction]bool // events reached in a not-Locked state
	callStates  map[ssa.CallInstruction]lockState
	nLock       int
	nDeferUnl   int
	nUnlock     int
	otherOps    []string
	returnsHeld []ssa.Instruction
	lockPos     ssa.Instruction
	preLock     []ssa.Instruction // effectful instructions executed before the first Lock
}

// analyseLocks runs the must-lockset dataflow on fn with the given entry state.
func (m *cacheModel) analyseLocks(fn *ssa.Function, entryLocked bool) *fnLockResult {
	res := &fnLockResult{unlocked: map[ssa.Instruction]bool{}, callStates: map[ssa.CallInstruction]lockState{}}
	type st struct {
		held     lockState
		deferred bool
	}
	in := map[*ssa.BasicBlock]st{}
	entry := st{held: lsUnlocked}
	if entryLocked {
		entry.held = lsLocked
	}
	in[fn.Blocks[0]] = entry
	work := []*ssa.BasicBlock{fn.Blocks[0]}
	meet := func(a, b st) st {
		if a.held == lsUnknown {
			return b
		}
		if b.held == lsUnknown {
			return a
		}
		r := st{held: lsLocked, deferred: a.deferred && b.deferred}
		if a.held != lsLocked || b.held != lsLocked {
			r.held = lsUnlocked
		}
		return r
	}
	transfer := func(b *ssa.BasicBlock, s st, record bool) st {
		for _, ins := range b.Instrs {
			if op, ok := m.isLockOp(ins); ok {
				switch op {
				case "Lock":
					if record {
						res.nLock++
						if res.lockPos == nil {
							res.lockPos = ins
						}
						if s.held == lsLocked {
							res.otherOps = append(res.otherOps, "Lock while already held (self-deadlock)")
						}
					}
					s.held = lsLocked
				case "Unlock":
					if record {
						res.nUnlock++
					}
					s.held = lsUnlocked
				case "defer Unlock":
					if record {
						res.nDeferUnl++
					}
					s.deferred = true
				default:
					if record {
						res.otherOps = append(res.otherOps, op)
					}
					if op == "TryLock" || op == "RLock" {
						// not an exclusive unconditional acquisition
						s.held = lsUnlocked
					}
				}
				continue
			}
			if _, ok := ins.(*ssa.RunDefers); ok {
				if s.deferred {
					// deferred Unlock runs here; everything after is outside the section
					s.held = lsUnlocked
					s.deferred = false
					if record {
						// mark: lock was released by rundefers
					}
				}
				continue
			}
			if record {
				if d, ok := m.guardedEventOf(ins); ok {
					res.events = append(res.events, guardedEvent{ins, d})
					if s.held != lsLocked {
						res.unlocked[ins] = true
					}
				}
				if ci, ok := ins.(ssa.CallInstruction); ok {
					res.callStates[ci] = s.held
				}
				if _, ok := ins.(*ssa.Return); ok && s.held == lsLocked {
					res.returnsHeld = append(res.returnsHeld, ins)
				}
			}
		}
		return s
	}
	for len(work) > 0 {
		b := work[0]
		work = work[1:]
		out := transfer(b, in[b], false)
		for _, s := range b.Succs {
			old, seen := in[s]
			nw := out
			if seen {
				nw = meet(old, out)
			}
			if !seen || nw != old {
				in[s] = nw
				work = append(work, s)
			}
		}
	}
	for _, b := range fn.Blocks {
		s, ok := in[b]
		if !ok {
			continue // unreachable (e.g. recover block): deferred calls have already run there
		}
		transfer(b, s, true)
	}
	// effectful instructions before the first Lock in the entry block
	if res.lockPos != nil {
		for _, b := range fn.Blocks {
			for _, ins := range b.Instrs {
				if ins == res.lockPos {
					goto done
				}
				if !b.Dominates(res.lockPos.Block()) {
					continue
				}
				switch x := ins.(type) {
				case *ssa.Store:
					if _, local := x.Addr.(*ssa.Alloc); local {
						continue // a local variable (incl. the synthetic state of a range-over-func loop)
					}
					res.preLock = append(res.preLock, ins)
				case ssa.CallInstruction, *ssa.MapUpdate:
					if call, ok := ins.(*ssa.Call); ok && capacityHintOnly(fn, call) {
						continue
					}
					res.preLock = append(res.preLock, ins)
				}
			}
		}
	done:
	}
	return res
}

// capacityHintOnly: a call made before the method's own critical section that cannot matter to what the method
// does — the callee is a method of the same receiver that writes nothing (it only locks, reads and unlocks), and
// its result is used for nothing but the capacity of a freshly made slice.
func capacityHintOnly(fn *ssa.Function, call *ssa.Call) bool {
	cal := staticCallee(&call.Call)
	if cal == nil || len(fn.Params) == 0 || len(call.Call.Args) == 0 || call.Call.Args[0] != ssa.Value(fn.Params[0]) {
		return false
	}
	h := origin(cal)
	if h == nil || h.Blocks == nil || h.Signature.Recv() == nil {
		return false
	}
	pure := true
	allInstrs(h, func(in ssa.Instruction) {
		switch y := in.(type) {
		case *ssa.Store:
			if a, ok := y.Addr.(*ssa.Alloc); !ok || a.Heap {
				pure = false
			}
		case *ssa.MapUpdate, *ssa.Go, *ssa.Send:
			pure = false
		case ssa.CallInstruction:
			cc := y.Common()
			g := staticCallee(cc)
			if g == nil || g.Pkg == nil || g.Pkg.Pkg.Path() != "sync" {
				pure = false
			}
		}
	})
	if !pure {
		return false
	}
	for _, r := range referrersOf(call) {
		if _, ok := r.(*ssa.DebugRef); ok {
			continue
		}
		mk, ok := r.(*ssa.MakeSlice)
		if !ok || mk.Cap != ssa.Value(call) || mk.Len == ssa.Value(call) {
			return false
		}
	}
	return true
}

func runC09(c *Ctx) {
	P := c.P
	c.Explanation = "Lock-discipline proof for cache.Cache: a flow-sensitive must-lockset analysis over the go/ssa CFG of every function of package cache that touches guarded Cache state shows that every access to {store,size,limit,count}, every Store-interface call and every callback call happens while c.μ is held (R-LOCK-HELD); each method is exactly one critical section opened first thing and closed by a deferred Unlock (R-LOCK-WHOLE); no function outside those sections touches guarded state (R-LOCK-WHO); no call made under the lock can re-acquire it (R-LOCK-REENTRY); callback fields and limit are written only at construction (R-SETONCE); the package starts no goroutines and uses no channels (R-NO-GO); lruStore state is reachable only through the Store interface from Cache methods (R-STORE-PRIVATE). Together: all conflicting accesses are ordered by the mutex (no data race) and every concurrent history is equivalent to the sequential history in lock-acquisition order (linearizable w.r.t. the sequential behaviour of C08). (R-CALLBACK-ONCE) the clause 'every entry that leaves the cache is reported to the eviction callback exactly once' is C08's pairing rule R-EVICT-PAIR, imported: with every departure and callback inside one critical section, a departure without its callback is the same fault under every schedule. Lock operations on a by-value copy of the cache are reported as not being operations on the shared mutex. An exported method that leaves the locking to a callee makes exactly one lock-acquiring call, not in a loop; closures and helpers that only relay to a function touching guarded state take part in the entry-lockset fixpoint. Does NOT decide the sequential behaviour itself, nor liveness."
	c.assume("user callbacks (sizeOf, onEvict) do not call back into the same Cache (they would self-deadlock, visibly)")
	c.assume("a Store is not shared between caches (documented contract of the Store interface)")
	c.assume("cached values are not mutated by their owners after Put")
	c.assume("go/ssa models defer/rundefers faithfully; sync.Mutex provides mutual exclusion and happens-before")
	c.rule("R-LOCK-HELD", 20, "every guarded event (guarded-field access, Store invoke, callback call) is reached only in state Locked on all paths")
	c.rule("R-LOCK-WHOLE", 5, "each exported Cache method: exactly one Lock, nothing effectful before it, exactly one deferred Unlock, no explicit Unlock, no return with the lock held")
	c.rule("R-LOCK-WHO", 1, "guarded fields are touched only inside lock-analysed functions or on the fresh allocation in New")
	c.rule("R-LOCK-REENTRY", 5, "no call made while Locked reaches a Lock of a Cache mutex through the call graph (static callees + CHA on repository types)")
	c.rule("R-SETONCE", 1, "sizeOf, onEvict and limit (or the settings struct holding them) are stored only on the fresh allocation in the constructor")
	c.rule("R-NO-GO", 1, "no go statement, channel operation or select in package cache")
	// "every entry that leaves the cache is reported to the eviction callback exactly once": under the lock
	// discipline above this is the sequential pairing rule of C08, imported here (a departure without its callback
	// is the same fault under any schedule)
	c.rule("R-CALLBACK-ONCE", 3, "C08's R-EVICT-PAIR and R-CLEAR-ALL hold: each departure from the store is paired with exactly one eviction callback on that very (key, value), and no callback without a departure")
	{
		sub := newCtx(P, "C08", c.Tier)
		runC08(sub)
		for _, o := range sub.Obligs {
			if o.Rule != "R-EVICT-PAIR" && o.Rule != "R-CLEAR-ALL" {
				continue // (R-CLEAR-ALL: entries Clear leaves behind are entries whose departure is never reported)
			}
			key := "C08:" + o.Construct
			if o.Verdict == "ok" {
				c.ok("R-CALLBACK-ONCE", key, 0, "holds")
			} else {
				c.Obligs = append(c.Obligs, Oblig{Rule: "R-CALLBACK-ONCE", Construct: c.uniq("R-CALLBACK-ONCE", key), Pos: o.Pos, Verdict: o.Verdict, Config: c.P.Config,
					Msg: "an entry leaves the cache without exactly one eviction callback and its share of the accounting (C08's pairing rule): " + o.Msg})
			}
		}
	}
	c.rule("R-STORE-PRIVATE", 3, "lruStore is allocated only in LRU, its fields are touched only by its own methods and LRU's closure, and its methods are never called statically from outside")

	m := &cacheModel{P: P, guarded: map[*types.Var]string{}, callbacks: map[*types.Var]string{}, setOnce: map[*types.Var]string{}}
	m.cacheT = P.Named("cache", "Cache")
	m.storeIfc = P.Named("cache", "Store")
	if m.cacheT == nil || m.storeIfc == nil {
		c.undecided("ANCHOR", "cache.Cache/cache.Store", 0, "anchor type not found")
		return
	}
	st := m.cacheT.Underlying().(*types.Struct)
	var classify func(f *types.Var, prefix string, depth int)
	classify = func(f *types.Var, prefix string, depth int) {
		f = f.Origin() // fields of an instantiated nested struct: key by the generic declaration
		ts := f.Type().String()
		switch {
		case ts == "sync.Mutex" || ts == "sync.RWMutex":
			if m.mu != nil {
				c.undecided("ANCHOR", "cache.Cache:mutex", f.Pos(), "more than one mutex field")
			}
			m.mu = f
		default:
			if _, isFunc := f.Type().Underlying().(*types.Signature); isFunc {
				m.callbacks[f] = prefix + f.Name()
				m.setOnce[f] = prefix + f.Name()
				return
			}
			// a struct of the same package held by value (e.g. the normalised Config): its fields are the state
			if n, ok := f.Type().(*types.Named); ok && depth < 2 && n.Obj().Pkg() == m.cacheT.Obj().Pkg() {
				if inner, ok := n.Underlying().(*types.Struct); ok {
					m.setOnce[f] = prefix + f.Name() // replaced as a whole only at construction
					for j := 0; j < inner.NumFields(); j++ {
						classify(inner.Field(j), prefix+f.Name()+".", depth+1)
					}
					return
				}
			}
			m.guarded[f] = prefix + f.Name()
		}
	}
	for i := 0; i < st.NumFields(); i++ {
		classify(st.Field(i), "", 0)
	}
	if m.mu == nil {
		c.undecided("ANCHOR", "cache.Cache:mutex", 0, "no mutex field found in Cache")
		return
	}
	if f := P.Field("cache", "Cache", "limit"); f != nil {
		m.setOnce[f] = "limit"
	}
	c.Extra["guarded_fields"] = mapVals(m.guarded)
	c.Extra["callback_fields"] = mapVals(m.callbacks)

	fns := P.PkgFuncs("cache")
	m.findLockHelpers(fns)
	// Which functions touch guarded state or lock ops?
	touches := map[*ssa.Function]bool{}
	for _, fn := range fns {
		if m.lockHelpers[origin(fn)] {
			c.sawFn(fnName(fn))
			c.ok("R-LOCK-WHOLE", fnName(fn)+":lock helper", fn.Pos(), "locks the receiver's mutex and returns its Unlock, nothing else (the `defer c.lock()()` idiom): its call is read as the Lock, the deferred call of its result as the deferred Unlock")
			continue
		}
		allInstrs(fn, func(in ssa.Instruction) {
			if _, ok := m.guardedEventOf(in); ok {
				touches[fn] = true
			}
			if _, ok := m.isLockOp(in); ok {
				touches[fn] = true
			}
		})
	}
	// … or relay to one that does: a closure or helper whose only business is to call a touching helper
	// (func() { ok = c.putLocked(k, v) }) must itself be entered with the lock held
	for changed := true; changed; {
		changed = false
		for _, fn := range fns {
			if touches[fn] {
				continue
			}
			allInstrs(fn, func(in ssa.Instruction) {
				if ci, ok := in.(ssa.CallInstruction); ok {
					if cal := staticCallee(ci.Common()); cal != nil && touches[origin(cal)] && !touches[fn] {
						touches[fn] = true
						changed = true
					}
				}
			})
		}
	}
	isCacheMethod := func(fn *ssa.Function) bool {
		r := fn.Signature.Recv()
		return r != nil && isNamedOrigin(r.Type(), m.cacheT)
	}
	exported := func(fn *ssa.Function) bool {
		return fn.Parent() == nil && token.IsExported(fn.Name())
	}
	// Entry assumptions: greatest fixpoint for unexported helpers.
	entryLocked := map[*ssa.Function]bool{}
	callers := map[*ssa.Function]int{}
	for _, fn := range fns {
		allInstrs(fn, func(in ssa.Instruction) {
			if ci, ok := in.(ssa.CallInstruction); ok {
				if cal := staticCallee(ci.Common()); cal != nil && touches[cal] {
					callers[cal]++
				}
			}
		})
	}
	for fn := range touches {
		if !exported(fn) && callers[fn] > 0 && fn.Parent() == nil {
			entryLocked[fn] = true
		}
	}
	// Closures run where they are invoked: directly, by the callee they are handed to (a lock wrapper such as
	// withLock(func(){…}), a range-over-func iterator), or — when their creator returns them — by whoever calls
	// the creator's result.  A closure is entered with the lock held iff every such site is in state Locked.
	type invSite struct {
		fn *ssa.Function
		ci ssa.CallInstruction
	}
	closureSites := map[*ssa.Function][]invSite{}
	analysed := map[*ssa.Function]bool{}
	for _, fn := range fns {
		if fn.Blocks != nil {
			analysed[fn] = true // every function: the callers of a helper decide whether it is entered with the lock held
		}
	}
	// a method value (c.clearLocked handed to withLock) is a closure over a bound-method wrapper: the method
	// runs where that value is invoked, exactly like a function literal
	boundOf := func(mc *ssa.MakeClosure) *ssa.Function {
		w, ok := mc.Fn.(*ssa.Function)
		if !ok || w.Parent() != nil || !strings.HasSuffix(w.Name(), "$bound") {
			return nil
		}
		var target *ssa.Function
		allInstrs(w, func(in ssa.Instruction) {
			if ci, ok := in.(ssa.CallInstruction); ok {
				if cal := staticCallee(ci.Common()); cal != nil {
					target = origin(cal)
				}
			}
		})
		return target
	}
	type closureUse struct {
		target, par *ssa.Function
	}
	var closureUses []closureUse
	for cl := range touches {
		if cl.Parent() != nil {
			closureUses = append(closureUses, closureUse{cl, cl.Parent()})
		}
	}
	boundTargets := map[*ssa.Function]bool{}
	for _, fn := range fns {
		fn := fn
		allInstrs(fn, func(in ssa.Instruction) {
			if mc, ok := in.(*ssa.MakeClosure); ok {
				if t := boundOf(mc); t != nil && touches[t] && !boundTargets[t] {
					boundTargets[t] = true
					closureUses = append(closureUses, closureUse{t, fn})
				}
			}
		})
	}
	for _, cu := range closureUses {
		cl, par := cu.target, cu.par
		var sites []invSite
		escaped := false
		allInstrs(par, func(in ssa.Instruction) {
			mc, ok := in.(*ssa.MakeClosure)
			if !ok {
				return
			}
			if mc.Fn != ssa.Value(cl) && boundOf(mc) != cl {
				return
			}
			// uses of the closure value, through conversions to a named function type (iter.Seq)
			var uses []ssa.Instruction
			vals := map[ssa.Value]bool{mc: true}
			var collect func(v ssa.Value, d int)
			collect = func(v ssa.Value, d int) {
				for _, r := range referrersOf(v) {
					if ct, ok := r.(*ssa.ChangeType); ok && d < 3 {
						vals[ct] = true
						collect(ct, d+1)
						continue
					}
					uses = append(uses, r)
				}
			}
			collect(mc, 0)
			for _, r := range uses {
				switch x := r.(type) {
				case ssa.CallInstruction:
					cc := x.Common()
					if vals[cc.Value] {
						sites = append(sites, invSite{par, x})
						continue
					}
					handed := false
					for ai, a := range cc.Args {
						if !vals[a] {
							continue
						}
						handed = true
						h := staticCallee(cc)
						if h != nil && h.Blocks != nil && h.Pkg == origin(par).Pkg && ai < len(h.Params) {
							// a package function: the closure runs where that function calls its parameter
							p := h.Params[ai]
							onlyCalled := true
							for _, r2 := range referrersOf(p) {
								ci2, isCall := r2.(ssa.CallInstruction)
								if isCall && ci2.Common().Value == ssa.Value(p) {
									sites = append(sites, invSite{h, ci2})
								} else if _, dbg := r2.(*ssa.DebugRef); !dbg {
									onlyCalled = false
								}
							}
							if !onlyCalled {
								escaped = true
							}
						} else {
							// a function value (iterator) or a library routine: it calls the closure while it runs
							sites = append(sites, invSite{par, x})
						}
					}
					if !handed {
						escaped = true
					}
				case *ssa.Return:
					// returned: whoever calls the creator's result invokes it
					for _, f2 := range fns {
						allInstrs(f2, func(in2 ssa.Instruction) {
							ci2, ok := in2.(ssa.CallInstruction)
							if !ok {
								return
							}
							if inner, ok := ci2.Common().Value.(*ssa.Call); ok && origin(staticCallee(&inner.Call)) == origin(par) {
								sites = append(sites, invSite{f2, ci2})
							}
						})
					}
				case *ssa.DebugRef:
				default:
					escaped = true
				}
			}
		})
		if !escaped && len(sites) > 0 {
			closureSites[cl] = sites
			entryLocked[cl] = true
			for _, st := range sites {
				analysed[st.fn] = true
			}
		}
	}
	results := map[*ssa.Function]*fnLockResult{}
	for iter := 0; iter < 8; iter++ {
		changed := false
		for fn := range analysed {
			results[fn] = m.analyseLocks(fn, entryLocked[fn])
		}
		for cl, sites := range closureSites {
			if !entryLocked[cl] {
				continue
			}
			for _, st := range sites {
				r := results[st.fn]
				if r == nil || r.callStates[st.ci] != lsLocked {
					entryLocked[cl] = false
					changed = true
					break
				}
			}
		}
		for fn, r := range results {
			_ = fn
			for ci, s := range r.callStates {
				if cal := staticCallee(ci.Common()); cal != nil && entryLocked[cal] && s != lsLocked {
					entryLocked[cal] = false
					changed = true
				}
			}
		}
		if !changed {
			break
		}
	}

	newFn := P.Func("cache", "", "New")
	// mayLock: transitive
	mayLockMemo := map[*ssa.Function]int{}
	var mayLock func(fn *ssa.Function) bool
	mayLock = func(fn *ssa.Function) bool {
		fn = origin(fn)
		if v, ok := mayLockMemo[fn]; ok {
			return v == 1
		}
		mayLockMemo[fn] = 0
		if fn.Blocks == nil {
			return false
		}
		res := false
		for _, f2 := range withClosures(fn) {
			allInstrs(f2, func(in ssa.Instruction) {
				if op, ok := m.isLockOp(in); ok && (op == "Lock" || op == "RLock" || op == "TryLock") {
					res = true
				}
				if ci, ok := in.(ssa.CallInstruction); ok {
					cc := ci.Common()
					if cc.IsInvoke() {
						for _, t := range P.invokeTargets(cc) {
							if mayLock(t) {
								res = true
							}
						}
					} else if cal := staticCallee(cc); cal != nil && cal.Blocks != nil {
						if mayLock(cal) {
							res = true
						}
					}
				}
			})
		}
		if res {
			mayLockMemo[fn] = 1
		}
		return res
	}

	methodsSeen := 0
	for _, fn := range fns {
		if !touches[fn] {
			continue
		}
		name := fnName(fn)
		c.sawFn(name)
		r := results[fn]
		hasLockOps := r.nLock+r.nUnlock+r.nDeferUnl+len(r.otherOps) > 0
		fresh := func(in ssa.Instruction) bool {
			// access on a fresh allocation made in this function (constructor)
			var base ssa.Value
			switch x := in.(type) {
			case *ssa.FieldAddr:
				base = x.X
			case *ssa.Field:
				base = x.X
			}
			// through nested settings structs held by value (&Cache{cfg: Config{store: …}})
			for {
				if fa, ok := base.(*ssa.FieldAddr); ok {
					base = fa.X
					continue
				}
				break
			}
			_, ok := base.(*ssa.Alloc)
			return ok
		}
		if !hasLockOps && !entryLocked[fn] && isCacheMethod(fn) && exported(fn) {
			// an exported method that leaves the locking to what it calls is one critical section only if it
			// makes exactly one call that acquires the lock, and not in a loop
			var acq []ssa.CallInstruction
			inLoop := false
			allInstrs(fn, func(in ssa.Instruction) {
				ci, ok := in.(ssa.CallInstruction)
				if !ok {
					return
				}
				cal := staticCallee(ci.Common())
				if cal == nil || cal.Blocks == nil || !mayLock(cal) {
					return
				}
				acq = append(acq, ci)
				b := in.Block()
				seen := map[*ssa.BasicBlock]bool{}
				var dfs func(x *ssa.BasicBlock)
				dfs = func(x *ssa.BasicBlock) {
					for _, y := range x.Succs {
						if y == b {
							inLoop = true
						}
						if !seen[y] {
							seen[y] = true
							dfs(y)
						}
					}
				}
				dfs(b)
			})
			if len(acq) > 0 {
				var probs []string
				if len(acq) != 1 {
					probs = append(probs, fmt.Sprintf("%d calls that each acquire and release the lock (want exactly 1)", len(acq)))
				}
				if inLoop {
					probs = append(probs, fmt.Sprintf("the lock-acquiring call at %s is inside a loop: the method is a sequence of critical sections, other operations can run between them", P.pos(instrPos(acq[0]))))
				}
				c.judge(len(probs) == 0, "R-LOCK-WHOLE", name, fn.Pos(), "delegates to exactly one lock-acquiring call", fmt.Sprint(probs))
			}
		}
		if !hasLockOps && !entryLocked[fn] {
			// function touches guarded state without any locking: R-LOCK-WHO
			for _, ev := range r.events {
				k := fmt.Sprintf("%s:%s", name, ev.desc)
				if fresh(ev.in) && fn == newFn {
					c.ok("R-LOCK-WHO", k, instrPos(ev.in), "access on the fresh allocation inside the constructor, before it is returned")
				} else if fresh(ev.in) {
					c.ok("R-LOCK-WHO", k, instrPos(ev.in), "access on a fresh local allocation")
				} else {
					c.bad("R-LOCK-WHO", k, instrPos(ev.in), "guarded state touched in a function that never takes the lock and is not called only under the lock")
				}
			}
			continue
		}
		// R-LOCK-HELD
		for _, ev := range r.events {
			k := fmt.Sprintf("%s:%s", name, ev.desc)
			if r.unlocked[ev.in] {
				c.bad("R-LOCK-HELD", k, instrPos(ev.in), "guarded event reachable on a path where μ is not held (entry "+name+")")
			} else {
				c.ok("R-LOCK-HELD", k, instrPos(ev.in), "Locked on all paths")
			}
		}
		// R-LOCK-WHOLE
		if entryLocked[fn] {
			c.judge(!hasLockOps, "R-LOCK-WHOLE", name+":helper", fn.Pos(), "helper called only under the lock; performs no lock operations", "helper entered with the lock held performs lock operations")
		} else {

			var probs []string
			if r.nLock != 1 {
				probs = append(probs, fmt.Sprintf("%d Lock calls (want exactly 1)", r.nLock))
			}
			if r.nDeferUnl != 1 {
				probs = append(probs, fmt.Sprintf("%d deferred Unlock (want exactly 1)", r.nDeferUnl))
			}
			if r.nUnlock != 0 {
				probs = append(probs, fmt.Sprintf("%d explicit Unlock calls (critical section is split)", r.nUnlock))
			}
			if len(r.otherOps) > 0 {
				probs = append(probs, fmt.Sprint("other lock operations: ", r.otherOps))
			}
			if len(r.preLock) > 0 {
				probs = append(probs, fmt.Sprintf("effectful instruction before Lock at %s (%s)", P.pos(instrPos(r.preLock[0])), r.preLock[0].String()))
			}
			if len(r.returnsHeld) > 0 {
				probs = append(probs, fmt.Sprintf("returns with the lock held at %s", P.pos(instrPos(r.returnsHeld[0]))))
			}
			if r.lockPos != nil && r.lockPos.Block() != fn.Blocks[0] {
				probs = append(probs, "Lock is not in the entry block (conditional acquisition)")
			}
			c.judge(len(probs) == 0, "R-LOCK-WHOLE", name, fn.Pos(), "one Lock first thing, one deferred Unlock, no explicit Unlock", fmt.Sprint(probs))
		}
		// R-LOCK-REENTRY
		nCalls, badCalls := 0, []string{}
		for ci, s := range r.callStates {
			if s != lsLocked {
				continue
			}
			if _, ok := m.isLockOp(ci); ok {
				continue
			}
			cc := ci.Common()
			var targets []*ssa.Function
			if cc.IsInvoke() {
				targets = P.invokeTargets(cc)
			} else if cal := staticCallee(cc); cal != nil {
				targets = []*ssa.Function{cal}
			} else if mc, ok := cc.Value.(*ssa.MakeClosure); ok {
				targets = []*ssa.Function{mc.Fn.(*ssa.Function)}
			}
			nCalls++
			for _, t := range targets {
				if mayLock(t) {
					badCalls = append(badCalls, fmt.Sprintf("%s at %s", fnName(t), P.pos(instrPos(ci))))
				}
			}
		}
		c.judge(len(badCalls) == 0, "R-LOCK-REENTRY", name, fn.Pos(), fmt.Sprintf("%d calls under the lock, none can reach a Cache Lock", nCalls),
			"call under the lock can re-acquire μ (self-deadlock / broken section): "+fmt.Sprint(badCalls))
	}
	for _, fn := range fns {
		if isCacheMethod(fn) && exported(fn) && mayLock(fn) {
			methodsSeen++
		}
	}
	if methodsSeen < 5 {
		c.bad("FLOOR", "cache.Cache methods", 0, fmt.Sprintf("only %d locking Cache methods found, 7 confirmed by hand (floor 5)", methodsSeen))
	}

	// R-SETONCE: stores to set-once fields only on fresh alloc in New.
	for _, fn := range fns {
		allInstrs(fn, func(in ssa.Instruction) {
			s, ok := in.(*ssa.Store)
			if !ok {
				return
			}
			fa, ok := s.Addr.(*ssa.FieldAddr)
			if !ok || !m.rootedAtCache(fa.X, 0) {
				return
			}
			_, f := fieldVarOf(fa)
			n, ok := m.setOnce[f.Origin()]
			if !ok {
				return
			}
			root := fa.X
			for i := 0; i < 3; i++ {
				if inner, ok := root.(*ssa.FieldAddr); ok {
					root = inner.X
				}
			}
			_, isAlloc := root.(*ssa.Alloc)
			c.judge(isAlloc && origin(fn) == newFn, "R-SETONCE", fnName(fn)+":store "+n, instrPos(in),
				"stored on the fresh allocation in New", "set-once field written outside the constructor's fresh allocation")
		})
	}

	// R-NO-GO
	concur := []string{}
	for _, fn := range fns {
		allInstrs(fn, func(in ssa.Instruction) {
			switch x := in.(type) {
			case *ssa.Go:
				concur = append(concur, "go at "+P.pos(instrPos(in)))
			case *ssa.Send, *ssa.Select, *ssa.MakeChan:
				concur = append(concur, "channel op at "+P.pos(instrPos(in)))
			case *ssa.UnOp:
				if x.Op == token.ARROW {
					concur = append(concur, "channel receive at "+P.pos(instrPos(in)))
				}
			}
		})
	}
	c.judge(len(concur) == 0, "R-NO-GO", "package cache", 0, fmt.Sprintf("%d functions scanned", len(fns)), fmt.Sprint(concur))

	// R-STORE-PRIVATE
	roles := resolveLRU(P)
	if roles == nil {
		c.undecided("ANCHOR", "cache LRU store / LRU", 0, "anchor not found")
		return
	}
	lru, lruFn := roles.storeT, roles.lruFn
	// LRU and the unexported constructor helpers only it calls
	ctorScope := map[*ssa.Function]bool{lruFn: true}
	for _, f := range buildCallScope(lruFn).fns {
		o := origin(f)
		if o == lruFn || o.Object() == nil || o.Object().Exported() || o.Signature.Recv() != nil {
			if f.Parent() != nil {
				ctorScope[o] = true // closures of the scope
			}
			continue
		}
		onlyFromScope := true
		for _, g := range P.PkgFuncs("cache") {
			allInstrs(g, func(in ssa.Instruction) {
				if ci, ok := in.(ssa.CallInstruction); ok && origin(staticCallee(ci.Common())) == o {
					gt := g
					for gt.Parent() != nil {
						gt = gt.Parent()
					}
					if !ctorScope[origin(gt)] {
						onlyFromScope = false
					}
				}
			})
		}
		if onlyFromScope {
			ctorScope[o] = true
		}
	}
	allocs, badAlloc := 0, []string{}
	fieldTouch, badTouch := 0, []string{}
	staticCalls := []string{}
	for _, fn := range P.Funcs {
		if P.isCanaryFn(fn) {
			continue
		}
		top := fn
		for top.Parent() != nil {
			top = top.Parent()
		}
		isLruMethod := top.Signature.Recv() != nil && isNamedOrigin(top.Signature.Recv().Type(), lru)
		allInstrs(fn, func(in ssa.Instruction) {
			switch x := in.(type) {
			case *ssa.Alloc:
				if isNamedOrigin(x.Type(), lru) {
					allocs++
					if !ctorScope[origin(top)] {
						badAlloc = append(badAlloc, P.pos(instrPos(in)))
					}
				}
			case *ssa.FieldAddr:
				if isNamedOrigin(x.X.Type(), lru) {
					fieldTouch++
					if !isLruMethod && !ctorScope[origin(top)] {
						badTouch = append(badTouch, P.pos(instrPos(in)))
					}
				}
			case ssa.CallInstruction:
				if cal := staticCallee(x.Common()); cal != nil && cal.Signature.Recv() != nil && isNamedOrigin(cal.Signature.Recv().Type(), lru) {
					if !isLruMethod {
						staticCalls = append(staticCalls, fnName(cal)+" at "+P.pos(instrPos(in)))
					}
				}
			}
		})
	}
	c.judge(len(badAlloc) == 0 && allocs >= 1, "R-STORE-PRIVATE", "lruStore:alloc", lruFn.Pos(), fmt.Sprintf("%d allocation(s), all in LRU (a fresh store per call)", allocs), "lruStore allocated outside LRU: "+fmt.Sprint(badAlloc))
	c.judge(len(badTouch) == 0, "R-STORE-PRIVATE", "lruStore:fields", lruFn.Pos(), fmt.Sprintf("%d field accesses, all in lruStore methods or LRU", fieldTouch), "lruStore field touched from outside: "+fmt.Sprint(badTouch))
	c.judge(len(staticCalls) == 0, "R-STORE-PRIVATE", "lruStore:static-calls", lruFn.Pos(), "methods are reached only through the Store interface", "lruStore method called statically from outside the type: "+fmt.Sprint(staticCalls))

	// canary expectations
	if c09Names.size != "" {
		c.CanaryBad["R-LOCK-WHO/cache.verifCanaryReadsSize:access field "+c09Names.size] = true
		c.CanaryOK["R-LOCK-HELD/cache.verifTwinReadsSize:access field "+c09Names.size] = true
		c.CanaryBad["R-LOCK-HELD/cache.(*Cache).verifCanaryUnlockEarly:call callback "+c09Names.onEvict] = true
	}
	if c09Names.size != "" {
		c.CanaryBad["R-LOCK-WHOLE/cache.(*Cache).verifCanaryUnlockEarly"] = true
		c.CanaryBad["R-LOCK-REENTRY/cache.(*Cache).verifCanaryReenter"] = true
	}
}

func mapVals(m map[*types.Var]string) []string {
	var out []string
	for _, v := range m {
		out = append(out, v)
	}
	sortStrings(out)
	return out
}

// isLocalCopy: v is the address of a local variable holding a Cache by value (e.g. the spilled value receiver).
func isLocalCopy(v ssa.Value) bool {
	al, ok := v.(*ssa.Alloc)
	if !ok {
		return false
	}
	// a local that receives a whole struct value by store (not a fresh composite literal being built field by field)
	for _, r := range referrersOf(al) {
		if st, ok := r.(*ssa.Store); ok && st.Addr == ssa.Value(al) {
			if _, isParam := st.Val.(*ssa.Parameter); isParam {
				return true
			}
			if u, ok := st.Val.(*ssa.UnOp); ok && u.Op == token.MUL {
				return true
			}
		}
	}
	return false
}
