package main

// C15 — the quoting machine: an explicit-state abstract execution of
// shell.Quote and shell.Join (with the package-local functions they call
// inlined) over strings abstracted to sequences of byte classes, composed
// with (a) the package's own tokenizer as extracted for C16 and (b) the POSIX
// reference transducer.  Nothing is run: the control-flow graphs are explored
// over a finite abstract domain until no new state appears.

import (
	"fmt"
	"go/constant"
	"go/token"
	"go/types"
	"sort"
	"strings"

	"golang.org/x/tools/go/ssa"
)

type qkind int

const (
	qUnknown qkind = iota
	qBool
	qInt
	qByte     // a byte of an input string: i = representative byte, key = the string
	qStr      // an input string
	qCStr     // a constant string
	qTuple    // results of a call
	qBuf      // a *bytes.Buffer
	qOut      // the text accumulated in the buffer (result of String())
	qLen      // len(input string)
	qSlice    // a slice of input strings
	qSliceLen // len(slice of input strings)
	qBig      // an integer ≥ 4 (counters and positions are tracked exactly only up to 3)
	qIdx      // a position ≥ 0 in an input string (what strings.IndexByte and friends return when they find something)
	qRepl     // an input string (key) with every byte i replaced by the constant s (strings.ReplaceAll(s, "c", "…"))
)

type qval struct {
	k    qkind
	b    bool  // qBool value; qSlice: the slice does not reach the end of its list
	i    int64 // qInt/qByte value; qSlice: offset of the slice in its list
	s    string
	key  ssa.Value
	root ssa.Value // qSlice/qSliceLen: the list (parameter) this slice is a part of
	tup  []qval
}

func (v qval) String() string {
	switch v.k {
	case qBool:
		return fmt.Sprintf("b%v", v.b)
	case qInt:
		return fmt.Sprintf("i%d", v.i)
	case qByte:
		return fmt.Sprintf("y%d@%s", v.i, vname(v.key))
	case qStr:
		return "S@" + vname(v.key)
	case qCStr:
		return fmt.Sprintf("c%q", v.s)
	case qTuple:
		var ps []string
		for _, t := range v.tup {
			ps = append(ps, t.String())
		}
		return "(" + strings.Join(ps, ",") + ")"
	case qBuf:
		return "B"
	case qOut:
		return "O"
	case qLen:
		return "L@" + vname(v.key)
	case qSlice:
		return fmt.Sprintf("SS@%s+%d%v", vname(v.key), v.i, v.b)
	case qSliceLen:
		return fmt.Sprintf("SL@%s+%d%v", vname(v.key), v.i, v.b)
	case qBig:
		return "big"
	case qIdx:
		return "idx"
	case qRepl:
		return fmt.Sprintf("R@%s[%d→%q]", vname(v.key), v.i, v.s)
	}
	return "?"
}

func vname(v ssa.Value) string {
	if v == nil {
		return "-"
	}
	if p := v.Parent(); p != nil {
		return p.Name() + "." + v.Name()
	}
	return v.Name()
}

type qstr struct {
	empty      int8 // 0 unknown, 1 empty, 2 non-empty
	flags      map[*ssa.Function][]int8
	seen       uint64 // alphabet classes consumed so far
	cur        int    // alphabet index of the current byte, -1 none
	curWritten bool
	consumed   bool
	exhausted  bool
	done       bool
}

func (s *qstr) clone() *qstr {
	n := *s
	n.flags = map[*ssa.Function][]int8{}
	for k, v := range s.flags {
		n.flags[k] = append([]int8(nil), v...)
	}
	return &n
}

func (s *qstr) render() string {
	var fl []string
	for f, v := range s.flags {
		fl = append(fl, fmt.Sprintf("%s@%p%v", f.Name(), f, v))
	}
	sort.Strings(fl)
	return fmt.Sprintf("e%d %v s%x c%d w%v k%v x%v d%v", s.empty, fl, s.seen, s.cur, s.curWritten, s.consumed, s.exhausted, s.done)
}

type qframe struct {
	fn      *ssa.Function
	b, pred *ssa.BasicBlock
	ip      int
	env     map[ssa.Value]qval
	cells   map[*ssa.Alloc]qval
	call    *ssa.Call // the call instruction in the caller's frame
}

func (f *qframe) clone() *qframe {
	n := *f
	n.env = make(map[ssa.Value]qval, len(f.env))
	for k, v := range f.env {
		n.env[k] = v
	}
	n.cells = make(map[*ssa.Alloc]qval, len(f.cells))
	for k, v := range f.cells {
		n.cells[k] = v
	}
	return &n
}

type qstate struct {
	frames    []*qframe
	strs      map[ssa.Value]*qstr
	sl        map[ssa.Value]int8 // emptiness decisions for slices of strings
	cov       map[ssa.Value]int8 // per list: number of leading elements consumed so far (0..3, 4 = many, -1 = all)
	exact     map[ssa.Value]int8 // per list: its length when a test pinned it (else absent)
	impl      int64
	ref       refState
	doneImpl  int // strings completed since the last token boundary seen by the package tokenizer
	doneRef   int // … by the POSIX reference
	totalDone int
}

func (s *qstate) clone() *qstate {
	n := *s
	n.frames = make([]*qframe, len(s.frames))
	for i, f := range s.frames {
		n.frames[i] = f.clone()
	}
	n.strs = make(map[ssa.Value]*qstr, len(s.strs))
	for k, v := range s.strs {
		n.strs[k] = v.clone()
	}
	n.sl = make(map[ssa.Value]int8, len(s.sl))
	for k, v := range s.sl {
		n.sl[k] = v
	}
	n.cov = make(map[ssa.Value]int8, len(s.cov))
	for k, v := range s.cov {
		n.cov[k] = v
	}
	n.exact = make(map[ssa.Value]int8, len(s.exact))
	for k, v := range s.exact {
		n.exact[k] = v
	}
	return &n
}

func (s *qstate) top() *qframe { return s.frames[len(s.frames)-1] }

func (s *qstate) key() string {
	var sb strings.Builder
	for _, f := range s.frames {
		fmt.Fprintf(&sb, "[%s#%d<%d@%d", f.fn.Name(), f.b.Index, predIndex(f.pred), f.ip)
		var es []string
		for k, v := range f.env {
			if v.k != qUnknown {
				es = append(es, k.Name()+"="+v.String())
			}
		}
		for k, v := range f.cells {
			if v.k != qUnknown {
				es = append(es, "*"+k.Name()+"="+v.String())
			}
		}
		sort.Strings(es)
		sb.WriteString(strings.Join(es, ","))
		sb.WriteString("]")
	}
	var ss []string
	for k, v := range s.strs {
		ss = append(ss, vname(k)+":"+v.render())
	}
	for k, v := range s.sl {
		ss = append(ss, fmt.Sprintf("sl %s=%d", vname(k), v))
	}
	for k, v := range s.cov {
		ss = append(ss, fmt.Sprintf("cov %s=%d", vname(k), v))
	}
	for k, v := range s.exact {
		ss = append(ss, fmt.Sprintf("len %s=%d", vname(k), v))
	}
	sort.Strings(ss)
	sb.WriteString(strings.Join(ss, ";"))
	fmt.Fprintf(&sb, "|%d %v %d %d %d", s.impl, s.ref, s.doneImpl, s.doneRef, s.totalDone)
	return sb.String()
}

type qclass struct {
	rep   byte
	bytes []byte
}

type qsummary struct {
	fn   *ssa.Function
	sets []uint64 // per bool result: classes whose presence makes it true
	ok   bool
}

type qobs struct {
	seen      uint64
	exhausted bool
	res       []int8 // 0 unknown, 1 true, 2 false
	pos       token.Pos
	lib       map[*ssa.Function]int8 // what the library's whole-string tests said (1 true, 2 false)
}

const (
	qmSummary = iota
	qmQuote
	qmJoin
)

type qx struct {
	c          *Ctx
	P          *Prog
	sm         *shellModel // may be nil: then only the POSIX reference is composed
	pkg        *ssa.Package
	alpha      []qclass
	classOf    [256]int
	special    [256]bool // POSIX: special to the shell
	summaries  map[*ssa.Function]*qsummary
	mode       int
	root       *ssa.Function
	seen       map[string]bool
	problems   map[string]token.Pos
	obs        []qobs
	steps      int
	overflow   bool
	closureFns []*ssa.Function
	memberTab  map[*ssa.Global]string // [N]bool tables built at init from a constant string: tab[K[i]] = true
	valueTab   map[*ssa.Global]*[256]int64 // [256]integer tables built at init by constant stores (see builtTables)
	libPreds   map[string]*ssa.Function // stand-ins for the library's whole-string tests (strings.ContainsAny(s, "…"), …), by callee and constant
	libName    map[*ssa.Function]string
}

// libPred: the summary of a standard-library test 'some byte of s lies in a constant set' on an input string:
// strings.IndexByte/IndexRune/ContainsRune with an ASCII constant, strings.ContainsAny/IndexAny with an ASCII
// constant string, strings.Contains/Index with a one-byte constant.  index: the callee returns a position.
func (q *qx) libPred(full string, arg qval) (sum *qsummary, index, ok bool) {
	var bytes string
	switch full {
	case "strings.IndexByte", "strings.IndexRune", "strings.ContainsRune", "bytes.IndexByte":
		if arg.k != qInt || arg.i < 0 || arg.i >= 0x80 {
			return nil, false, false
		}
		bytes = string([]byte{byte(arg.i)})
	case "strings.ContainsAny", "strings.IndexAny":
		if arg.k != qCStr || arg.s == "" {
			return nil, false, false
		}
		bytes = arg.s
	case "strings.Contains", "strings.Index":
		if arg.k != qCStr || len(arg.s) != 1 {
			return nil, false, false
		}
		bytes = arg.s
	default:
		return nil, false, false
	}
	var set uint64
	for i := 0; i < len(bytes); i++ {
		if bytes[i] >= 0x80 {
			return nil, false, false
		}
		set |= 1 << uint(q.classOf[bytes[i]])
	}
	// the classes must lie wholly inside the constant
	for c, cl := range q.alpha {
		if set&(1<<uint(c)) == 0 {
			continue
		}
		for _, b := range cl.bytes {
			if strings.IndexByte(bytes, b) < 0 {
				return nil, false, false
			}
		}
	}
	key := full + "|" + bytes
	if strings.HasPrefix(full, "strings.Index") || full == "bytes.IndexByte" {
		index = true
		key = "strings.Index*|" + bytes
	} else {
		key = "strings.Contains*|" + bytes
	}
	key = "lib|" + bytes
	if q.libPreds == nil {
		q.libPreds, q.libName = map[string]*ssa.Function{}, map[*ssa.Function]string{}
	}
	f := q.libPreds[key]
	if f == nil {
		f = new(ssa.Function)
		q.libPreds[key] = f
		q.libName[f] = fmt.Sprintf("contains any of %q", bytes)
		q.summaries[f] = &qsummary{fn: f, sets: []uint64{set}, ok: true}
	}
	return q.summaries[f], index, true
}

func (q *qx) problem(pos token.Pos, format string, args ...any) {
	msg := fmt.Sprintf(format, args...)
	if _, ok := q.problems[msg]; !ok {
		q.problems[msg] = pos
	}
}

// ---------------------------------------------------------------- alphabet

// buildAlphabet partitions the 256 byte values by every test the analysed code
// and the two tokenizers can make on a byte.
func (q *qx) buildAlphabet(roots []*ssa.Function) {
	// closure of package-local callees
	seen := map[*ssa.Function]bool{}
	var cl []*ssa.Function
	var add func(fn *ssa.Function)
	add = func(fn *ssa.Function) {
		if fn == nil || fn.Blocks == nil || seen[fn] {
			return
		}
		seen[fn] = true
		cl = append(cl, fn)
		allInstrs(fn, func(in ssa.Instruction) {
			if call, ok := in.(*ssa.Call); ok {
				if cal := staticCallee(&call.Call); cal != nil && cal.Pkg == q.pkg {
					add(cal)
				}
			}
		})
	}
	for _, r := range roots {
		add(r)
	}
	q.closureFns = cl
	var eqConsts []int64
	var thresholds []int64
	var sets []string
	isByteT := func(t types.Type) bool {
		b, ok := t.Underlying().(*types.Basic)
		return ok && (b.Kind() == types.Uint8 || b.Kind() == types.Int32 || b.Kind() == types.UntypedRune)
	}
	for _, fn := range cl {
		allInstrs(fn, func(in ssa.Instruction) {
			switch x := in.(type) {
			case *ssa.BinOp:
				for _, pr := range [][2]ssa.Value{{x.X, x.Y}, {x.Y, x.X}} {
					k, ok := constInt(pr[1])
					if !ok || !isByteT(pr[0].Type()) || k < 0 || k > 255 {
						continue
					}
					switch x.Op {
					case token.EQL, token.NEQ:
						eqConsts = append(eqConsts, k)
					case token.LSS, token.LEQ, token.GTR, token.GEQ:
						thresholds = append(thresholds, k, k+1)
					}
				}
			case *ssa.Call:
				for _, a := range x.Call.Args {
					if cs, ok := a.(*ssa.Const); ok && cs.Value != nil && cs.Value.Kind() == constant.String {
						sets = append(sets, constant.StringVal(cs.Value))
					}
				}
			}
		})
	}
	q.memberTab = memberTables(q.pkg)
	q.valueTab = builtTables(q.pkg)
	for _, fn := range cl {
		allInstrs(fn, func(in ssa.Instruction) {
			if ia, ok := in.(*ssa.IndexAddr); ok {
				if g, ok := ia.X.(*ssa.Global); ok {
					if k, ok := q.memberTab[g]; ok {
						sets = append(sets, k)
					}
					if tab, ok := q.valueTab[g]; ok {
						// one set per distinct non-zero value of the table
						byVal := map[int64][]byte{}
						for b := 0; b < 256; b++ {
							if tab[b] != 0 {
								byVal[tab[b]] = append(byVal[tab[b]], byte(b))
							}
						}
						var vs []int64
						for v := range byVal {
							vs = append(vs, v)
						}
						sort.Slice(vs, func(i, j int) bool { return vs[i] < vs[j] })
						for _, v := range vs {
							sets = append(sets, string(byVal[v]))
						}
					}
				}
			}
		})
	}
	thresholds = append(thresholds, 0x80)
	for i := 0; i < len(posixMust); i++ {
		q.special[posixMust[i]] = true
	}
	for i := 0; i < len(posixMay); i++ {
		q.special[posixMay[i]] = true
	}
	sig := func(b int) string {
		var sb strings.Builder
		fmt.Fprintf(&sb, "r%d s%v ", refClassOfByte(b), q.special[b])
		if q.sm != nil {
			fmt.Fprintf(&sb, "i%d ", q.sm.classOf[b])
		}
		for _, k := range eqConsts {
			if int64(b) == k {
				fmt.Fprintf(&sb, "=%d ", k)
			}
		}
		for _, k := range thresholds {
			if int64(b) < k {
				fmt.Fprintf(&sb, "<%d ", k)
			}
		}
		for j, s := range sets {
			if strings.IndexByte(s, byte(b)) >= 0 {
				fmt.Fprintf(&sb, "∈%d ", j)
			}
		}
		return sb.String()
	}
	idx := map[string]int{}
	for b := 0; b < 256; b++ {
		s := sig(b)
		i, ok := idx[s]
		if !ok {
			i = len(q.alpha)
			idx[s] = i
			q.alpha = append(q.alpha, qclass{rep: byte(b)})
		}
		q.alpha[i].bytes = append(q.alpha[i].bytes, byte(b))
		q.classOf[b] = i
	}
}

func (q *qx) classDesc(i int) string {
	c := q.alpha[i]
	if len(c.bytes) == 1 {
		return fmt.Sprintf("%q", rune(c.rep))
	}
	if len(c.bytes) <= 4 {
		var ps []string
		for _, b := range c.bytes {
			ps = append(ps, fmt.Sprintf("%q", rune(b)))
		}
		return strings.Join(ps, "/")
	}
	return fmt.Sprintf("%q and %d more bytes", rune(c.rep), len(c.bytes)-1)
}

// ---------------------------------------------------------------- evaluation

func (q *qx) eval(f *qframe, v ssa.Value) qval {
	if x, ok := f.env[v]; ok {
		return x
	}
	switch x := v.(type) {
	case *ssa.Const:
		if x.Value == nil {
			return qval{}
		}
		switch x.Value.Kind() {
		case constant.Bool:
			return qval{k: qBool, b: constant.BoolVal(x.Value)}
		case constant.Int:
			if i, ok := constant.Int64Val(x.Value); ok {
				return qval{k: qInt, i: i}
			}
		case constant.String:
			return qval{k: qCStr, s: constant.StringVal(x.Value)}
		}
	}
	return qval{}
}

func isBufType(t types.Type) bool {
	return strings.HasSuffix(t.String(), "*bytes.Buffer")
}

func isStringType(t types.Type) bool {
	b, ok := t.Underlying().(*types.Basic)
	return ok && b.Info()&types.IsString != 0
}

func isStringSlice(t types.Type) bool {
	s, ok := t.Underlying().(*types.Slice)
	return ok && isStringType(s.Elem())
}

// inductionIndex: v is a loop variable that starts at 0 and advances by exactly one on every back edge.
func inductionIndex(v ssa.Value) bool {
	// the index of a range loop over a slice: φ(−1, itself) + 1
	if bo, ok := v.(*ssa.BinOp); ok && bo.Op == token.ADD && isConstInt(bo.Y, 1) {
		if ph, ok := bo.X.(*ssa.Phi); ok && len(ph.Edges) >= 2 {
			init, step := 0, 0
			for i, e := range ph.Edges {
				if ph.Block().Dominates(ph.Block().Preds[i]) {
					if e != ssa.Value(bo) {
						return false
					}
					step++
				} else {
					if !isConstInt(e, -1) {
						return false
					}
					init++
				}
			}
			return init == 1 && step >= 1
		}
		return false
	}
	ph, ok := v.(*ssa.Phi)
	if !ok {
		return false
	}
	init, step := false, false
	for i, e := range ph.Edges {
		if ph.Block().Dominates(ph.Block().Preds[i]) {
			f, ok := affOf(e, ph, nil, 0)
			if !ok || f != (aff{1, 1, 1}) {
				return false
			}
			step = true
		} else {
			if !isConstInt(e, 0) {
				return false
			}
			init = true
		}
	}
	return init && step
}

func (q *qx) strOf(st *qstate, key ssa.Value) *qstr {
	s, ok := st.strs[key]
	if !ok {
		s = &qstr{cur: -1, flags: map[*ssa.Function][]int8{}}
		st.strs[key] = s
	}
	return s
}

func (q *qx) markDone(st *qstate, s *qstr) {
	if !s.done {
		s.done = true
		if q.mode != qmSummary {
			// nothing more can be asked of a finished string: forget the details
			s.flags, s.seen, s.cur, s.curWritten = map[*ssa.Function][]int8{}, 0, -1, false
		}
		if st.doneImpl < 3 {
			st.doneImpl++
		}
		if st.doneRef < 3 {
			st.doneRef++
		}
		if st.totalDone < 2 {
			st.totalDone++
		}
	}
}

// allowed: may a byte of class c occur in string s, given what the summarised predicates said?
func (q *qx) allowed(s *qstr, c int) bool {
	for f, fl := range s.flags {
		sum := q.summaries[f]
		if sum == nil {
			continue
		}
		for k, v := range fl {
			if v == 2 && sum.sets[k]&(1<<uint(c)) != 0 {
				return false
			}
		}
	}
	return true
}

// ---------------------------------------------------------------- output

// feed pushes one output byte through both tokenizers.
func (q *qx) feed(st *qstate, isInput bool, b byte, pos token.Pos) {
	what := fmt.Sprintf("the constant byte %q", rune(b))
	if isInput {
		what = fmt.Sprintf("an input byte such as %s", q.classDesc(q.classOf[b]))
	}
	// POSIX protection of special bytes
	if isInput && q.special[b] && st.ref.mode != 2 && st.ref.mode != 1 {
		q.problem(pos, "%s, which is special to a POSIX shell, is written outside single quotes and without a preceding backslash", what)
	}
	check := func(who string, out []string, done *int) {
		o := strings.Join(out, "")
		switch {
		case isInput && o == "c":
			if *done != 0 {
				q.problem(pos, "%s: a byte of the next string is appended to the previous word (no separator between two strings)", who)
			}
		case isInput:
			q.problem(pos, "%s reads %s back as %q instead of the byte itself", who, what, o)
		case o == "":
		case o == "EMIT":
			if *done != 1 {
				q.problem(pos, "%s sees a word boundary at %s although %d complete strings were written since the last boundary", who, what, *done)
			}
			*done = 0
		default:
			q.problem(pos, "%s takes %s, written as quoting syntax, for part of the word (%q)", who, what, o)
		}
	}
	nr, rout := refStep(st.ref, refClassOfByte(int(b)))
	check("a POSIX shell", rout, &st.doneRef)
	st.ref = nr
	if q.sm != nil {
		e, ok := q.sm.update[st.impl][q.sm.classOf[b]]
		if !ok {
			q.problem(pos, "the package tokenizer has no table entry for state %s on %s", q.sm.stateName[st.impl], what)
			return
		}
		check("the package's own Split", q.sm.actionOut[e.Action], &st.doneImpl)
		st.impl = e.State
	}
}

// feedConst writes constant text.  When the scan stands on an input byte whose value the branches taken have
// pinned down (its class is that one byte) and that has not been written yet, an occurrence of that byte in the
// constant may be the input byte itself ('\'' written as the constant `'\'`): the text is first read as pure
// quoting syntax; if the tokenizers object, each occurrence is tried as the input byte, and the first reading
// they accept is taken.
func (q *qx) feedConst(st *qstate, text string, pos token.Pos) {
	try := func(t *qstate, at int) map[string]token.Pos {
		saved := q.problems
		q.problems = map[string]token.Pos{}
		for j := 0; j < len(text); j++ {
			q.feed(t, j == at, text[j], pos)
		}
		got := q.problems
		q.problems = saved
		return got
	}
	scratch := func() *qstate {
		return &qstate{impl: st.impl, ref: st.ref, doneImpl: st.doneImpl, doneRef: st.doneRef}
	}
	commit := func(t *qstate, probs map[string]token.Pos) {
		st.impl, st.ref, st.doneImpl, st.doneRef = t.impl, t.ref, t.doneImpl, t.doneRef
		for m, p := range probs {
			if _, ok := q.problems[m]; !ok {
				q.problems[m] = p
			}
		}
	}
	t0 := scratch()
	p0 := try(t0, -1)
	if len(p0) == 0 {
		commit(t0, nil)
		return
	}
	var keys []ssa.Value
	for k := range st.strs {
		keys = append(keys, k)
	}
	sort.Slice(keys, func(i, j int) bool { return vname(keys[i]) < vname(keys[j]) })
	for _, k := range keys {
		s := st.strs[k]
		if s.cur < 0 || s.curWritten || s.done || len(q.alpha[s.cur].bytes) != 1 {
			continue
		}
		b := q.alpha[s.cur].bytes[0]
		for j := 0; j < len(text); j++ {
			if text[j] != b {
				continue
			}
			t := scratch()
			if p := try(t, j); len(p) == 0 {
				s.curWritten = true
				commit(t, nil)
				return
			}
		}
	}
	commit(t0, p0)
}

func (q *qx) resetOutput(st *qstate) {
	st.ref = refState{}
	if q.sm != nil {
		st.impl = q.sm.initial
	}
}

// feedWhole writes the whole (so far untouched) input string verbatim: every sequence of allowed bytes.
func (q *qx) feedWhole(st *qstate, s *qstr, pos token.Pos) []*qstate {
	return q.feedWholeRepl(st, s, pos, nil)
}

// feedWholeRepl: the whole input string is written, each byte repl.i of it as the constant repl.s (in which the
// first occurrence of that byte is the input byte itself and everything else is quoting syntax).
func (q *qx) feedWholeRepl(st *qstate, s *qstr, pos token.Pos, repl *qval) []*qstate {
	if s.consumed || s.exhausted {
		q.problem(pos, "the input string is written as a whole after some of its bytes were already written")
		return []*qstate{st}
	}
	type tk struct {
		impl int64
		ref  refState
		di   int
		dr   int
		any  bool
	}
	start := tk{st.impl, st.ref, st.doneImpl, st.doneRef, false}
	seen := map[tk]bool{start: true}
	work := []tk{start}
	var out []*qstate
	for len(work) > 0 {
		t := work[0]
		work = work[1:]
		// stop here (only if emptiness allows)
		if (t.any && s.empty != 1) || (!t.any && s.empty != 2) {
			n := st.clone()
			n.impl, n.ref, n.doneImpl, n.doneRef = t.impl, t.ref, t.di, t.dr
			var key ssa.Value
			for k, v := range st.strs {
				if v == s {
					key = k
				}
			}
			ns := n.strs[key]
			ns.exhausted, ns.consumed = true, t.any
			if t.any {
				ns.empty = 2
			} else {
				ns.empty = 1
			}
			q.markDone(n, ns)
			out = append(out, n)
		}
		if s.empty == 1 {
			continue
		}
		for c := range q.alpha {
			if !q.allowed(s, c) {
				continue
			}
			tmp := &qstate{impl: t.impl, ref: t.ref, doneImpl: t.di, doneRef: t.dr}
			if repl != nil && int64(q.alpha[c].rep) == repl.i {
				at := strings.IndexByte(repl.s, byte(repl.i))
				if at < 0 {
					q.problem(pos, "an input byte is replaced by text that does not contain it: the byte is lost")
				}
				for j := 0; j < len(repl.s); j++ {
					q.feed(tmp, j == at, repl.s[j], pos)
				}
			} else {
				q.feed(tmp, true, q.alpha[c].rep, pos)
			}
			nt := tk{tmp.impl, tmp.ref, tmp.doneImpl, tmp.doneRef, true}
			if !seen[nt] {
				seen[nt] = true
				work = append(work, nt)
			}
		}
	}
	return out
}

// readInputByte: x is the byte at position idx of the input string strX (s[i], or []byte(s)[i]).
func (q *qx) readInputByte(st *qstate, f *qframe, x ssa.Value, strX, idx ssa.Value) []*qstate {
	one := []*qstate{st}
		sv := q.eval(f, strX)
		if sv.k != qStr {
			delete(f.env, x)
			return one
		}
		s := q.strOf(st, sv.key)
		if !inductionIndex(idx) {
			q.problem(x.Pos(), "the input string is indexed by %s, which is not a position advancing one byte at a time from 0: the bytes are not visited in order, once each", ksym(idx))
			delete(f.env, x)
			return one
		}
		if s.cur < 0 {
			if s.empty == 2 && !s.consumed && !s.exhausted {
				// the first byte of a string known to be non-empty (rotated loop: the entry test was len > 0)
				var out []*qstate
				for c := range q.alpha {
					if !q.allowed(s, c) {
						continue
					}
					n := st.clone()
					ns := q.strOf(n, sv.key)
					ns.cur, ns.curWritten, ns.consumed = c, false, true
					if q.mode == qmSummary || len(ns.flags) == 0 {
						ns.seen |= 1 << uint(c)
					}
					n.top().env[x] = qval{k: qByte, i: int64(q.alpha[c].rep), key: sv.key}
					out = append(out, n)
				}
				return out
			}
			q.problem(x.Pos(), "a byte of the input string is read without a preceding bounds test of its position against the length")
			delete(f.env, x)
			return one
		}
		f.env[x] = qval{k: qByte, i: int64(q.alpha[s.cur].rep), key: sv.key}
		return one
}

// ---------------------------------------------------------------- execution

func (q *qx) enter(st *qstate, target, from *ssa.BasicBlock) {
	f := st.top()
	// φ values are computed simultaneously from the state at the end of `from`
	type pv struct {
		ph *ssa.Phi
		v  qval
	}
	var pvs []pv
	for _, in := range target.Instrs {
		ph, ok := in.(*ssa.Phi)
		if !ok {
			break
		}
		for i, p := range target.Preds {
			if p == from {
				pvs = append(pvs, pv{ph, q.eval(f, ph.Edges[i])})
				break
			}
		}
	}
	for k := range f.env {
		if in, ok := k.(ssa.Instruction); ok && in.Block() == target {
			delete(f.env, k)
		}
	}
	for _, x := range pvs {
		f.env[x.ph] = qsat(x.v)
	}
	f.b, f.pred, f.ip = target, from, 0
	for f.ip < len(target.Instrs) {
		if _, ok := target.Instrs[f.ip].(*ssa.Phi); !ok {
			break
		}
		f.ip++
	}
}

func (q *qx) explore(start *qstate) {
	stack := []*qstate{start}
	for len(stack) > 0 {
		st := stack[len(stack)-1]
		stack = stack[:len(stack)-1]
		for {
			q.steps++
			if q.steps > 400000 {
				q.overflow = true
				return
			}
			f := st.top()
			if f.ip == 0 || (f.ip > 0 && isPhiInstr(f.b.Instrs[f.ip-1]) && !isPhiInstr(f.b.Instrs[f.ip])) {
				k := st.key()
				if q.seen[k] {
					break
				}
				q.seen[k] = true
			}
			succ := q.step(st)
			if len(succ) == 0 {
				break
			}
			st = succ[0]
			stack = append(stack, succ[1:]...)
		}
	}
}

func isPhiInstr(in ssa.Instruction) bool { _, ok := in.(*ssa.Phi); return ok }

// step executes the next instruction of the top frame; it returns the successor states (none at the end of the root).
func (q *qx) step(st *qstate) []*qstate {
	f := st.top()
	in := f.b.Instrs[f.ip]
	f.ip++
	one := []*qstate{st}
	switch x := in.(type) {
	case *ssa.Phi, *ssa.DebugRef, *ssa.Defer, *ssa.RunDefers:
		return one
	case *ssa.Alloc:
		f.cells[x] = qval{}
		return one
	case *ssa.Store:
		if al, ok := x.Addr.(*ssa.Alloc); ok {
			f.cells[al] = q.eval(f, x.Val)
		}
		return one
	case *ssa.UnOp:
		switch x.Op {
		case token.NOT:
			v := q.eval(f, x.X)
			if v.k == qBool {
				f.env[x] = qval{k: qBool, b: !v.b}
			} else {
				delete(f.env, x)
			}
		case token.MUL:
			if al, ok := x.X.(*ssa.Alloc); ok {
				if v, ok := f.cells[al]; ok && v.k != qUnknown {
					f.env[x] = v
					return one
				}
			}
			// an element of []byte(s): a byte of the input string, as long as the copy is only read
			if ia, ok := x.X.(*ssa.IndexAddr); ok {
				if sv := q.eval(f, ia.X); sv.k == qStr {
					onlyRead := true
					for _, r := range referrersOf(ia) {
						if u, ok := r.(*ssa.UnOp); !ok || u.Op != token.MUL {
							if _, dbg := r.(*ssa.DebugRef); !dbg {
								onlyRead = false
							}
						}
					}
					if onlyRead {
						return q.readInputByte(st, f, x, ia.X, ia.Index)
					}
				}
			}
			// a read of a value table built at init by constant stores
			if ia, ok := x.X.(*ssa.IndexAddr); ok {
				if g, ok := ia.X.(*ssa.Global); ok {
					if tab, ok := q.valueTab[g]; ok {
						if iv := q.eval(f, ia.Index); (iv.k == qInt || iv.k == qByte) && iv.i >= 0 && iv.i < 256 {
							f.env[x] = qval{k: qInt, i: tab[iv.i]}
							return one
						}
					}
				}
			}
			// a read of a membership table built at init from a constant string
			if ia, ok := x.X.(*ssa.IndexAddr); ok {
				if g, ok := ia.X.(*ssa.Global); ok {
					if k, ok := q.memberTab[g]; ok {
						if iv := q.eval(f, ia.Index); iv.k == qInt || iv.k == qByte {
							f.env[x] = qval{k: qBool, b: iv.i >= 0 && iv.i < 256 && strings.IndexByte(k, byte(iv.i)) >= 0}
							return one
						}
					}
				}
			}
			switch {
			case isStringType(x.Type()):
				// a string read from memory (an element of the argument list): a fresh input string
				st.strs[x] = &qstr{cur: -1, flags: map[*ssa.Function][]int8{}}
				f.env[x] = qval{k: qStr, key: x}
				if ia, ok := x.X.(*ssa.IndexAddr); ok {
					if sv := q.eval(f, ia.X); sv.k == qSlice {
						q.consumeElem(st, f, sv, ia.Index, x.Pos())
					}
				}
			case isBufType(x.Type()):
				f.env[x] = qval{k: qBuf}
			default:
				delete(f.env, x)
			}
		case token.SUB:
			if v := q.eval(f, x.X); v.k == qInt {
				f.env[x] = qval{k: qInt, i: -v.i}
			} else {
				delete(f.env, x)
			}
		default:
			delete(f.env, x)
		}
		return one
	case *ssa.Convert:
		f.env[x] = q.eval(f, x.X)
		return one
	case *ssa.ChangeType:
		f.env[x] = q.eval(f, x.X)
		return one
	case *ssa.MakeInterface:
		f.env[x] = q.eval(f, x.X)
		return one
	case *ssa.TypeAssert:
		if isBufType(x.AssertedType) {
			f.env[x] = qval{k: qBuf}
		} else {
			f.env[x] = q.eval(f, x.X)
		}
		return one
	case *ssa.Extract:
		t := q.eval(f, x.Tuple)
		if t.k == qTuple && x.Index < len(t.tup) {
			f.env[x] = t.tup[x.Index]
		} else if isBufType(x.Type()) {
			f.env[x] = qval{k: qBuf}
		} else {
			delete(f.env, x)
		}
		return one
	case *ssa.Slice:
		if v := q.eval(f, x.X); v.k == qSlice {
			nv := qval{k: qSlice, key: x, root: v.root, i: v.i, b: v.b} // a sub-list: its own emptiness
			if x.Low != nil {
				if lo := q.eval(f, x.Low); lo.k == qInt && lo.i >= 0 {
					nv.i += lo.i
				} else {
					nv.root = nil // starts somewhere the analysis cannot place
				}
			}
			if x.High != nil {
				nv.b = true
			}
			f.env[x] = nv
		} else {
			delete(f.env, x)
		}
		return one
	case *ssa.Index:
		return q.readInputByte(st, f, x, x.X, x.Index)
	case *ssa.Range, *ssa.Next:
		if r, ok := in.(*ssa.Range); ok && isStringType(r.X.Type()) {
			if v := q.eval(f, r.X); v.k == qStr {
				q.problem(in.Pos(), "the input string is iterated by runes: bytes that are not valid UTF-8 would be replaced")
			}
		}
		if v, ok := in.(ssa.Value); ok {
			delete(f.env, v)
		}
		return one
	case *ssa.BinOp:
		return q.binop(st, f, x)
	case *ssa.Call:
		return q.call(st, f, x)
	case *ssa.Jump:
		q.enter(st, f.b.Succs[0], f.b)
		return one
	case *ssa.If:
		cond, neg := x.Cond, false
		for {
			u, ok := cond.(*ssa.UnOp)
			if !ok || u.Op != token.NOT {
				break
			}
			cond, neg = u.X, !neg
		}
		v := q.eval(f, cond)
		if v.k == qBool {
			idx := 1
			if v.b != neg {
				idx = 0
			}
			q.enter(st, f.b.Succs[idx], f.b)
			return one
		}
		var out []*qstate
		for _, choice := range []bool{true, false} {
			n := st.clone()
			nf := n.top()
			nf.env[cond] = qval{k: qBool, b: choice}
			idx := 1
			if choice != neg {
				idx = 0
			}
			q.enter(n, nf.b.Succs[idx], nf.b)
			out = append(out, n)
		}
		return out
	case *ssa.Panic:
		return nil
	case *ssa.Return:
		var res qval
		switch len(x.Results) {
		case 0:
		case 1:
			res = q.eval(f, x.Results[0])
		default:
			res.k = qTuple
			for _, r := range x.Results {
				res.tup = append(res.tup, q.eval(f, r))
			}
		}
		if len(st.frames) == 1 {
			return q.finish(st, res, x.Pos())
		}
		call := f.call
		st.frames = st.frames[:len(st.frames)-1]
		st.top().env[call] = res
		return one
	default:
		if v, ok := in.(ssa.Value); ok {
			switch {
			case isBufType(v.Type()):
				f.env[v] = qval{k: qBuf}
			default:
				delete(f.env, v)
			}
		}
		return one
	}
}

func qcmpInt(op token.Token, a, b int64) (bool, bool) {
	switch op {
	case token.EQL:
		return a == b, true
	case token.NEQ:
		return a != b, true
	case token.LSS:
		return a < b, true
	case token.LEQ:
		return a <= b, true
	case token.GTR:
		return a > b, true
	case token.GEQ:
		return a >= b, true
	}
	return false, false
}

func (q *qx) binop(st *qstate, f *qframe, x *ssa.BinOp) []*qstate {
	one := []*qstate{st}
	X, Y := q.eval(f, x.X), q.eval(f, x.Y)
	setB := func(s *qstate, b bool) { s.top().env[x] = qval{k: qBool, b: b} }
	// normalise: the "interesting" operand on the left
	op := x.Op
	if (Y.k == qLen || Y.k == qStr || Y.k == qSliceLen || Y.k == qByte) && !(X.k == qLen || X.k == qStr || X.k == qSliceLen || X.k == qByte) {
		X, Y, op = Y, X, flipOp(op)
	}
	num := func(v qval) (int64, bool) {
		switch v.k {
		case qInt:
			return v.i, true
		case qByte:
			return v.i, true
		}
		return 0, false
	}
	switch {
	case X.k == qBool && Y.k == qBool:
		switch op {
		case token.EQL:
			setB(st, X.b == Y.b)
		case token.NEQ:
			setB(st, X.b != Y.b)
		case token.AND:
			setB(st, X.b && Y.b)
		case token.OR:
			setB(st, X.b || Y.b)
		default:
			delete(f.env, x)
		}
		return one
	case X.k == qIdx && Y.k == qInt, X.k == qInt && Y.k == qIdx:
		// a position found (≥ 0) against a constant ≤ 0
		small, o := Y, op
		if X.k == qInt {
			small, o = X, flipOp(op)
		}
		if small.i <= 0 {
			if r, ok := qcmpInt(o, 0, small.i); ok {
				if r2, _ := qcmpInt(o, 1<<20, small.i); r2 == r {
					setB(st, r)
					return one
				}
			}
		}
		delete(f.env, x)
		return one
	case X.k == qBig && Y.k == qInt, X.k == qInt && Y.k == qBig:
		// big ≥ 4 against a small constant
		big, small, o := X, Y, op
		if X.k == qInt {
			big, small, o = Y, X, flipOp(op)
		}
		_ = big
		if r, ok := qcmpInt(o, 4, small.i); ok && small.i <= 3 {
			// for k ≤ 3 the comparison has the same outcome for every value ≥ 4
			setB(st, r)
			return one
		}
		switch {
		case op == token.ADD && small.i >= 0, op == token.SUB && X.k == qBig && small.i <= 0:
			f.env[x] = qval{k: qBig}
		default:
			delete(f.env, x)
		}
		return one
	case (X.k == qInt || X.k == qByte) && (Y.k == qInt || Y.k == qByte):
		a, _ := num(X)
		b, _ := num(Y)
		if X.k == qByte && Y.k == qByte && (X.key != Y.key) {
			delete(f.env, x)
			return one
		}
		if r, ok := qcmpInt(op, a, b); ok {
			setB(st, r)
			return one
		}
		if X.k == qByte || Y.k == qByte {
			delete(f.env, x) // arithmetic on an input byte: not tracked
			return one
		}
		var r int64
		switch op {
		case token.ADD:
			r = a + b
		case token.SUB:
			r = a - b
		case token.MUL:
			r = a * b
		case token.OR:
			r = a | b
		case token.AND:
			r = a & b
		case token.XOR:
			r = a ^ b
		case token.AND_NOT:
			r = a &^ b
		case token.SHL:
			if b < 0 || b > 62 {
				delete(f.env, x)
				return one
			}
			r = a << uint(b)
		case token.SHR:
			if b < 0 || b > 62 {
				delete(f.env, x)
				return one
			}
			r = a >> uint(b)
		default:
			delete(f.env, x)
			return one
		}
		f.env[x] = qsat(qval{k: qInt, i: r})
		return one
	case X.k == qStr && Y.k == qCStr && Y.s == "" && (op == token.EQL || op == token.NEQ):
		return q.decideEmpty(st, x, X.key, op == token.EQL)
	case X.k == qLen:
		// position compared with the length (is there another byte?), or the length compared with a constant (emptiness)
		other := x.X
		if q.eval(f, x.X).k == qLen {
			other = x.Y
		}
		if bo, ok := other.(*ssa.BinOp); ok && bo.Op == token.ADD && isConstInt(bo.Y, 1) && inductionIndex(bo.X) {
			other = bo.X // rotated loop: the latch tests the next position
		}
		if inductionIndex(other) {
			// op is "len OP i"
			switch op {
			case token.GTR, token.NEQ: // len > i
				return q.decideMore(st, x, X.key, true)
			case token.LEQ, token.EQL: // len <= i
				return q.decideMore(st, x, X.key, false)
			}
			delete(f.env, x)
			return one
		}
		if Y.k == qInt {
			emptyIff := map[token.Token]map[int64]bool{token.EQL: {0: true}, token.LEQ: {0: true}, token.LSS: {1: true}}
			nonEmptyIff := map[token.Token]map[int64]bool{token.NEQ: {0: true}, token.GTR: {0: true}, token.GEQ: {1: true}}
			if emptyIff[op][Y.i] {
				return q.decideEmpty(st, x, X.key, true)
			}
			if nonEmptyIff[op][Y.i] {
				return q.decideEmpty(st, x, X.key, false)
			}
		}
		delete(f.env, x)
		return one
	case X.k == qSliceLen && rangeLike(otherOperand(x, f, q)):
		// "is there another element": free choice, but when the answer is no the elements consumed must be all
		var out []*qstate
		for _, more := range []bool{true, false} {
			var res bool
			switch op {
			case token.GTR, token.NEQ: // len > i
				res = more
			case token.LEQ, token.EQL:
				res = !more
			default:
				delete(f.env, x)
				return one
			}
			n := st.clone()
			// consistency with what is already known about the length
			if p0, ok := q.absPos(n.top(), otherOperand(x, n.top(), q), 0); ok {
				if p0 == 0 {
					if d := n.sl[X.key]; (d == 1 && more) || (d == 2 && !more) {
						continue
					}
					if more {
						n.sl[X.key] = 2
					} else {
						n.sl[X.key] = 1
					}
				}
				if e, pinned := n.exact[X.root]; pinned && X.root != nil && X.i == 0 && !X.b && p0 < 4 {
					if (more && p0 >= e) || (!more && p0 != e) {
						continue
					}
				}
			}
			if !more && X.root != nil {
				pos, ok := q.absPos(n.top(), otherOperand(x, n.top(), q), X.i)
				c := n.cov[X.root]
				switch {
				case c == -2:
				case !ok || pos != c:
					q.problem(x.Pos(), "the loop over the list ends at an element position that is not the number of elements written so far: an element is skipped or written twice")
					n.cov[X.root] = -2
				case X.b:
					q.problem(x.Pos(), "the loop runs over a part of the list that stops before its end: trailing elements are never written")
					n.cov[X.root] = -2
				default:
					n.cov[X.root] = -1
				}
			}
			setB(n, res)
			out = append(out, n)
		}
		return out
	case X.k == qSliceLen && Y.k == qInt && (op == token.EQL || op == token.NEQ) && Y.i >= 1 && Y.i <= 3 && X.root != nil && X.i == 0 && !X.b:
		// the length of the whole list compared with a small constant
		var out []*qstate
		for _, eq := range []bool{true, false} {
			if e, ok := st.exact[X.root]; ok && (e == int8(Y.i)) != eq {
				continue
			}
			if eq && st.sl[X.key] == 1 {
				continue
			}
			n := st.clone()
			if eq {
				n.exact[X.root] = int8(Y.i)
				n.sl[X.key] = 2
			}
			setB(n, eq == (op == token.EQL))
			out = append(out, n)
		}
		return out
	case X.k == qSliceLen && Y.k == qInt:
		var trueMeansEmpty, known bool
		switch {
		case (op == token.EQL && Y.i == 0) || (op == token.LEQ && Y.i == 0) || (op == token.LSS && Y.i == 1):
			trueMeansEmpty, known = true, true
		case (op == token.NEQ && Y.i == 0) || (op == token.GTR && Y.i == 0) || (op == token.GEQ && Y.i == 1):
			trueMeansEmpty, known = false, true
		}
		if !known {
			delete(f.env, x)
			return one
		}
		var out []*qstate
		for _, empty := range []bool{true, false} {
			if d := st.sl[X.key]; (d == 1 && !empty) || (d == 2 && empty) {
				continue
			}
			n := st.clone()
			if empty {
				n.sl[X.key] = 1
			} else {
				n.sl[X.key] = 2
			}
			setB(n, empty == trueMeansEmpty)
			out = append(out, n)
		}
		return out
	}
	delete(f.env, x)
	return one
}

func (q *qx) decideEmpty(st *qstate, x *ssa.BinOp, key ssa.Value, trueMeansEmpty bool) []*qstate {
	var out []*qstate
	for _, empty := range []bool{true, false} {
		s := q.strOf(st, key)
		if (s.empty == 1 && !empty) || (s.empty == 2 && empty) || (empty && s.consumed) {
			continue
		}
		if empty {
			flagged := false
			for _, fl := range s.flags {
				for _, v := range fl {
					if v == 1 {
						flagged = true
					}
				}
			}
			if flagged {
				continue
			}
		}
		n := st.clone()
		ns := q.strOf(n, key)
		if empty {
			ns.empty = 1
			ns.exhausted = true
			q.markDone(n, ns)
		} else {
			ns.empty = 2
		}
		n.top().env[x] = qval{k: qBool, b: empty == trueMeansEmpty}
		out = append(out, n)
	}
	return out
}

func (q *qx) decideMore(st *qstate, x *ssa.BinOp, key ssa.Value, moreWhenTrue bool) []*qstate {
	var out []*qstate
	s0 := q.strOf(st, key)
	if s0.cur >= 0 && !s0.curWritten && q.mode != qmSummary {
		q.problem(x.Pos(), "the scan moves on to the next byte although the current input byte was not written: a byte of the input is dropped")
	}
	// no more bytes
	if !(s0.empty == 2 && !s0.consumed) {
		n := st.clone()
		ns := q.strOf(n, key)
		ns.exhausted, ns.cur = true, -1
		if !ns.consumed {
			ns.empty = 1
		}
		q.markDone(n, ns)
		n.top().env[x] = qval{k: qBool, b: !moreWhenTrue}
		out = append(out, n)
	}
	if !s0.exhausted && s0.empty != 1 {
		for c := range q.alpha {
			if !q.allowed(s0, c) {
				continue
			}
			n := st.clone()
			ns := q.strOf(n, key)
			ns.cur, ns.curWritten, ns.consumed, ns.empty = c, false, true, 2
			if q.mode == qmSummary || len(ns.flags) == 0 {
				ns.seen |= 1 << uint(c)
			}
			n.top().env[x] = qval{k: qBool, b: moreWhenTrue}
			out = append(out, n)
		}
	}
	return out
}

func (q *qx) call(st *qstate, f *qframe, x *ssa.Call) []*qstate {
	one := []*qstate{st}
	setUnknown := func() {
		if isBufType(x.Type()) {
			f.env[x] = qval{k: qBuf}
		} else {
			delete(f.env, x)
		}
	}
	if b, ok := x.Call.Value.(*ssa.Builtin); ok {
		switch b.Name() {
		case "len":
			v := q.eval(f, x.Call.Args[0])
			switch v.k {
			case qStr:
				f.env[x] = qval{k: qLen, key: v.key}
			case qCStr:
				f.env[x] = qval{k: qInt, i: int64(len(v.s))}
			case qSlice:
				f.env[x] = qval{k: qSliceLen, key: v.key, root: v.root, i: v.i, b: v.b}
			default:
				delete(f.env, x)
			}
		default:
			setUnknown()
		}
		return one
	}
	cal := x.Call.StaticCallee()
	if cal == nil {
		setUnknown()
		return one
	}
	args := make([]qval, len(x.Call.Args))
	for i, a := range x.Call.Args {
		args[i] = q.eval(f, a)
	}
	full := cal.String()
	if len(args) == 2 && args[0].k == qStr {
		if sum, index, ok := q.libPred(full, args[1]); ok {
			out := q.applySummary(st, x, sum, args[0].key)
			if index {
				for _, n := range out {
					if v := n.top().env[x]; v.k == qBool && v.b {
						n.top().env[x] = qval{k: qIdx}
					} else {
						n.top().env[x] = qval{k: qInt, i: -1}
					}
				}
			}
			return out
		}
	}
	if full == "strings.ReplaceAll" && len(args) == 3 && args[0].k == qStr && args[1].k == qCStr && len(args[1].s) == 1 && args[1].s[0] < 0x80 && args[2].k == qCStr {
		if cl := q.alpha[q.classOf[args[1].s[0]]]; len(cl.bytes) == 1 {
			f.env[x] = qval{k: qRepl, key: args[0].key, i: int64(args[1].s[0]), s: args[2].s}
			return one
		}
	}
	switch {
	case full == "strings.IndexByte" && len(args) == 2:
		if args[0].k == qCStr && (args[1].k == qByte || args[1].k == qInt) {
			f.env[x] = qval{k: qInt, i: int64(strings.IndexByte(args[0].s, byte(args[1].i)))}
		} else {
			delete(f.env, x)
		}
		return one
	case (full == "strings.ContainsRune" || full == "strings.IndexRune") && len(args) == 2:
		if args[0].k == qCStr && (args[1].k == qByte || args[1].k == qInt) && args[1].i < 0x80 {
			i := strings.IndexByte(args[0].s, byte(args[1].i))
			if full == "strings.ContainsRune" {
				f.env[x] = qval{k: qBool, b: i >= 0}
			} else {
				f.env[x] = qval{k: qInt, i: int64(i)}
			}
		} else {
			delete(f.env, x)
		}
		return one
	}
	// methods of *bytes.Buffer
	if recv := cal.Signature.Recv(); recv != nil && isBufType(recv.Type()) {
		switch cal.Name() {
		case "WriteByte", "WriteRune":
			v := args[1]
			switch v.k {
			case qByte:
				if cal.Name() == "WriteRune" && v.i >= 0x80 {
					q.problem(x.Pos(), "an input byte ≥ 0x80 is written as a rune: it would be re-encoded as two bytes")
				}
				s := q.strOf(st, v.key)
				if s.cur < 0 || int64(q.alpha[s.cur].rep) != v.i {
					q.problem(x.Pos(), "an input byte is written after the scan has moved on from it")
				} else if s.curWritten {
					q.problem(x.Pos(), "an input byte is written twice")
				}
				s.curWritten = true
				q.feed(st, true, byte(v.i), x.Pos())
			case qInt:
				if v.i < 0 || v.i > 255 {
					q.problem(x.Pos(), "a non-byte constant is written")
				} else {
					q.feedConst(st, string([]byte{byte(v.i)}), x.Pos())
				}
			default:
				q.problem(x.Pos(), "a byte of unknown value is written: the quoting cannot be followed")
			}
			delete(f.env, x)
			return one
		case "WriteString":
			v := args[1]
			switch v.k {
			case qCStr:
				q.feedConst(st, v.s, x.Pos())
			case qStr:
				delete(f.env, x)
				return q.feedWhole(st, q.strOf(st, v.key), x.Pos())
			case qRepl:
				delete(f.env, x)
				return q.feedWholeRepl(st, q.strOf(st, v.key), x.Pos(), &v)
			default:
				q.problem(x.Pos(), "a string of unknown content is written: the quoting cannot be followed")
			}
			delete(f.env, x)
			return one
		case "Write":
			q.problem(x.Pos(), "bytes of unknown content are written: the quoting cannot be followed")
			delete(f.env, x)
			return one
		case "Reset":
			q.resetOutput(st)
			return one
		case "String":
			f.env[x] = qval{k: qOut}
			return one
		case "Grow", "Len", "Cap", "Available":
			delete(f.env, x)
			return one
		default:
			q.problem(x.Pos(), "the buffer is used through %s, which the quoting analysis does not model", cal.Name())
			delete(f.env, x)
			return one
		}
	}
	if cal.Pkg != q.pkg || cal.Blocks == nil {
		setUnknown()
		return one
	}
	// package-local: a summarised predicate over the string, or inlined
	if sum := q.summaries[cal]; sum != nil && sum.ok && len(args) == 1 && args[0].k == qStr {
		return q.applySummary(st, x, sum, args[0].key)
	}
	if len(st.frames) >= 6 {
		q.problem(x.Pos(), "call depth exceeded while following %s", cal.Name())
		setUnknown()
		return one
	}
	nf := &qframe{fn: cal, env: map[ssa.Value]qval{}, cells: map[*ssa.Alloc]qval{}, call: x}
	for i, p := range cal.Params {
		if i < len(args) {
			nf.env[p] = args[i]
			if args[i].k == qUnknown && isBufType(p.Type()) {
				nf.env[p] = qval{k: qBuf}
			}
		}
	}
	st.frames = append(st.frames, nf)
	nf.b = cal.Blocks[0]
	nf.ip = 0
	return one
}

func (q *qx) applySummary(st *qstate, x *ssa.Call, sum *qsummary, key ssa.Value) []*qstate {
	n := len(sum.sets)
	var out []*qstate
	s0 := q.strOf(st, key)
	for mask := 0; mask < 1<<uint(n); mask++ {
		okc := true
		fl := make([]int8, n)
		for k := 0; k < n; k++ {
			val := mask&(1<<uint(k)) != 0
			if val {
				fl[k] = 1
			} else {
				fl[k] = 2
			}
			if prev, ok := s0.flags[sum.fn]; ok && prev[k] != 0 && prev[k] != fl[k] {
				okc = false
			}
			if val && (s0.empty == 1 || (s0.exhausted && s0.seen&sum.sets[k] == 0)) {
				okc = false
			}
			if !val && s0.seen&sum.sets[k] != 0 {
				okc = false
			}
			// what other predicates already said about the same string
			for f2, fl2 := range s0.flags {
				sum2 := q.summaries[f2]
				if sum2 == nil || f2 == sum.fn {
					continue
				}
				for k2, v2 := range fl2 {
					if k2 >= len(sum2.sets) || sum2.sets[k2] == 0 || sum.sets[k] == 0 {
						continue
					}
					if v2 == 1 && !val && sum2.sets[k2]&^sum.sets[k] == 0 {
						okc = false // a byte of a subset was found
					}
					if v2 == 2 && val && sum.sets[k]&^sum2.sets[k2] == 0 {
						okc = false // no byte of a superset exists
					}
				}
			}
		}
		if !okc {
			continue
		}
		ns := st.clone()
		s := q.strOf(ns, key)
		s.flags[sum.fn] = fl
		if mask != 0 {
			s.empty = 2
		}
		var res qval
		if n == 1 {
			res = qval{k: qBool, b: fl[0] == 1}
		} else {
			res.k = qTuple
			for k := 0; k < n; k++ {
				res.tup = append(res.tup, qval{k: qBool, b: fl[k] == 1})
			}
		}
		ns.top().env[x] = res
		out = append(out, ns)
	}
	return out
}

// finish: the root returns.
func (q *qx) finish(st *qstate, res qval, pos token.Pos) []*qstate {
	if q.mode == qmSummary {
		o := qobs{pos: pos}
		for _, s := range st.strs {
			o.seen, o.exhausted = s.seen, s.exhausted
			for f, fl := range s.flags {
				if _, lib := q.libName[f]; lib && len(fl) == 1 {
					if o.lib == nil {
						o.lib = map[*ssa.Function]int8{}
					}
					o.lib[f] = fl[0]
				}
			}
		}
		vals := res.tup
		if res.k != qTuple {
			vals = []qval{res}
		}
		for _, v := range vals {
			switch {
			case v.k != qBool:
				o.res = append(o.res, 0)
			case v.b:
				o.res = append(o.res, 1)
			default:
				o.res = append(o.res, 2)
			}
		}
		q.obs = append(q.obs, o)
		return nil
	}
	name := q.root.Name()
	switch res.k {
	case qOut:
	case qCStr:
		q.resetOutput(st)
		for i := 0; i < len(res.s); i++ {
			q.feed(st, false, res.s[i], pos)
		}
	case qStr:
		q.resetOutput(st)
		for _, n := range q.feedWhole(st, q.strOf(st, res.key), pos) {
			q.finalCheck(n, pos)
		}
		return nil
	default:
		q.problem(pos, "%s returns a string the analysis cannot follow (not the buffer's contents, a constant, or the input itself)", name)
		return nil
	}
	q.finalCheck(st, pos)
	return nil
}

func (q *qx) finalCheck(st *qstate, pos token.Pos) {
	name := q.root.Name()
	if q.mode == qmQuote && st.totalDone != 1 {
		q.problem(pos, "%s can return without having written its whole argument", name)
		return
	}
	if q.mode == qmJoin {
		for _, d := range st.sl {
			if d == 2 && st.totalDone == 0 {
				q.problem(pos, "%s can return for a non-empty list without having written any element", name)
				return
			}
		}
		for root, c := range st.cov {
			e, pinned := st.exact[root]
			switch {
			case c == -1 || c == -2:
			case pinned && c == e:
			case c == 0 && st.sl[root] == 1:
			default:
				q.problem(pos, "%s can return after writing only the first %s elements of the list: the remaining strings are dropped", name, posName(c))
			}
		}
	}
	wantPending := st.doneRef == 1
	if st.doneRef > 1 {
		q.problem(pos, "at the end of %s's result %d strings have been written without a word boundary between them (POSIX shell)", name, st.doneRef)
	} else {
		if refPending(st.ref) != wantPending {
			q.problem(pos, "at the end of %s's result a POSIX shell has pending-word=%v, but the last string requires %v (an empty string must still yield a word)", name, refPending(st.ref), wantPending)
		}
		if !refComplete(st.ref) {
			q.problem(pos, "%s's result ends inside a quotation or after a backslash (POSIX shell)", name)
		}
	}
	if q.sm != nil {
		wantPending = st.doneImpl == 1
		if st.doneImpl > 1 {
			q.problem(pos, "at the end of %s's result %d strings have been written without a word boundary between them (the package's own Split)", name, st.doneImpl)
		} else {
			if q.sm.pending[st.impl] != wantPending {
				q.problem(pos, "at the end of %s's result the package's own Split has a pending field=%v in state %s, but the last string requires %v", name, q.sm.pending[st.impl], q.sm.stateName[st.impl], wantPending)
			}
			if !q.sm.complete[st.impl] {
				q.problem(pos, "%s's result leaves the package's own Split in state %s, which it reports as incomplete", name, q.sm.stateName[st.impl])
			}
		}
	}
}

// rootState builds the initial state for fn.
func (q *qx) rootState(fn *ssa.Function) *qstate {
	st := &qstate{strs: map[ssa.Value]*qstr{}, sl: map[ssa.Value]int8{}, cov: map[ssa.Value]int8{}, exact: map[ssa.Value]int8{}}
	q.resetOutput(st)
	f := &qframe{fn: fn, b: fn.Blocks[0], env: map[ssa.Value]qval{}, cells: map[*ssa.Alloc]qval{}}
	for _, p := range fn.Params {
		switch {
		case isStringType(p.Type()):
			st.strs[p] = &qstr{cur: -1, flags: map[*ssa.Function][]int8{}}
			f.env[p] = qval{k: qStr, key: p}
		case isStringSlice(p.Type()):
			f.env[p] = qval{k: qSlice, key: p, root: p}
			st.cov[p] = 0
		case isBufType(p.Type()):
			f.env[p] = qval{k: qBuf}
		}
	}
	st.frames = []*qframe{f}
	return st
}

// summarise explores a predicate f(s string) (bool…) and decides whether each
// result is "some byte of s lies in a fixed set"; returns the sets.
func (q *qx) summarise(fn *ssa.Function) (*qsummary, []string) {
	sum := &qsummary{fn: fn}
	nres := fn.Signature.Results().Len()
	q.mode, q.root = qmSummary, fn
	q.seen, q.obs = map[string]bool{}, nil
	saved := q.problems
	q.problems = map[string]token.Pos{}
	q.explore(q.rootState(fn))
	var probs []string
	for msg := range q.problems {
		probs = append(probs, msg)
	}
	q.problems = saved
	if q.overflow {
		probs = append(probs, "state space too large")
	}
	sum.sets = make([]uint64, nres)
	// a predicate that scans nothing itself and answers from the library's whole-string tests: each result must be
	// the disjunction of some of those tests, over every combination of their answers
	viaLib := len(q.obs) > 0
	for _, o := range q.obs {
		if o.seen != 0 || o.exhausted || len(o.lib) == 0 {
			viaLib = false
		}
	}
	if viaLib && len(probs) == 0 {
		for k := 0; k < nres; k++ {
			J := map[*ssa.Function]bool{}
			for _, o := range q.obs {
				for f := range o.lib {
					J[f] = true
				}
			}
			for _, o := range q.obs {
				for f, v := range o.lib {
					if v == 1 && (k >= len(o.res) || o.res[k] != 1) {
						delete(J, f)
					}
				}
			}
			okk := true
			for _, o := range q.obs {
				if k >= len(o.res) || o.res[k] == 0 {
					okk = false
					continue
				}
				any := false
				for f := range J {
					if o.lib[f] == 1 {
						any = true
					}
					if o.lib[f] == 0 {
						okk = false
					}
				}
				if (o.res[k] == 1) != any {
					okk = false
				}
			}
			if !okk {
				probs = append(probs, fmt.Sprintf("result %d is not 'some byte of the string lies in a fixed set': it is not the disjunction of the library tests consulted", k))
				continue
			}
			for f := range J {
				sum.sets[k] |= q.summaries[f].sets[0]
			}
		}
		sort.Strings(probs)
		sum.ok = len(probs) == 0
		return sum, probs
	}
	// the sets: single-byte strings scanned to the end
	for _, o := range q.obs {
		if !o.exhausted || o.seen == 0 || o.seen&(o.seen-1) != 0 {
			continue
		}
		for k := 0; k < nres && k < len(o.res); k++ {
			if o.res[k] == 1 {
				sum.sets[k] |= o.seen
			}
		}
	}
	for _, o := range q.obs {
		for k := 0; k < nres; k++ {
			if k >= len(o.res) || o.res[k] == 0 {
				probs = append(probs, fmt.Sprintf("result %d is not determined by the bytes scanned", k))
				continue
			}
			truth := o.seen&sum.sets[k] != 0
			got := o.res[k] == 1
			switch {
			case o.exhausted && got != truth:
				probs = append(probs, fmt.Sprintf("for a string made of the byte classes %s result %d is %v, but a single byte of one of these classes gives %v: the flag is not 'some byte lies in the set'", q.classSetDesc(o.seen), k, got, truth))
			case !o.exhausted && !(got && truth):
				probs = append(probs, fmt.Sprintf("the scan can stop before the end of the string (after %s) while result %d is still false: a later byte is missed", q.classSetDesc(o.seen), k))
			}
		}
	}
	sort.Strings(probs)
	probs = dedupStrings(probs)
	sum.ok = len(probs) == 0 && len(q.obs) > 0
	if len(q.obs) == 0 {
		probs = append(probs, "no return reached")
	}
	return sum, probs
}

func dedupStrings(in []string) []string {
	var out []string
	for i, s := range in {
		if i == 0 || s != in[i-1] {
			out = append(out, s)
		}
	}
	return out
}

func (q *qx) classSetDesc(set uint64) string {
	var ps []string
	for c := range q.alpha {
		if set&(1<<uint(c)) != 0 {
			ps = append(ps, q.classDesc(c))
		}
	}
	if len(ps) == 0 {
		return "(nothing)"
	}
	return "{" + strings.Join(ps, ", ") + "}"
}

// bytesOfSets: all bytes whose class is in any of the sets.
func (q *qx) bytesOfSets(sets []uint64) map[byte]bool {
	out := map[byte]bool{}
	for c, cl := range q.alpha {
		for _, s := range sets {
			if s&(1<<uint(c)) != 0 {
				for _, b := range cl.bytes {
					out[b] = true
				}
			}
		}
	}
	return out
}

func predIndex(b *ssa.BasicBlock) int {
	if b == nil {
		return -1
	}
	return b.Index
}

// qsat: integers are tracked exactly up to 3 (enough for masks and "first element?" tests), then as "big".
func qsat(v qval) qval {
	if v.k == qInt && v.i > 3 && v.i < 1<<20 {
		return qval{k: qBig}
	}
	if v.k == qInt && v.i < -3 {
		return qval{}
	}
	return v
}

// otherOperand: the operand of a comparison that is not the length.
func otherOperand(x *ssa.BinOp, f *qframe, q *qx) ssa.Value {
	if v := q.eval(f, x.X); v.k == qSliceLen || v.k == qLen {
		return x.Y
	}
	return x.X
}

// rangeLike: v is the index of an element-by-element loop: a φ starting at -1 or 0 and advancing by one, or that φ + 1.
func rangeLike(v ssa.Value) bool {
	if bo, ok := v.(*ssa.BinOp); ok && bo.Op == token.ADD && isConstInt(bo.Y, 1) {
		v = bo.X
	}
	ph, ok := v.(*ssa.Phi)
	if !ok {
		return false
	}
	init, step := false, false
	for i, e := range ph.Edges {
		if ph.Block().Dominates(ph.Block().Preds[i]) {
			f, ok := affOf(e, ph, nil, 0)
			if !ok || f != (aff{1, 1, 1}) {
				return false
			}
			step = true
		} else {
			if k, ok := constInt(e); !ok || k < -1 || k > 3 {
				return false
			}
			init = true
		}
	}
	return init && step
}

// absPos: the abstract position in the list (0..3, 4 = many) of index value v in a slice at offset off.
func (q *qx) absPos(f *qframe, v ssa.Value, off int64) (int8, bool) {
	x := q.eval(f, v)
	switch x.k {
	case qInt:
		p := x.i + off
		if p < 0 {
			return 0, false
		}
		if p > 3 {
			p = 4
		}
		return int8(p), true
	case qBig:
		if rangeLike(v) {
			return 4, true
		}
	}
	return 0, false
}

// consumeElem: element idx of slice sv is read; the elements of a list must be read one by one from the start.
func (q *qx) consumeElem(st *qstate, f *qframe, sv qval, idx ssa.Value, pos token.Pos) {
	if sv.root == nil {
		return
	}
	c, tracked := st.cov[sv.root]
	if !tracked || c == -2 {
		return
	}
	p, ok := q.absPos(f, idx, sv.i)
	switch {
	case !ok:
		q.problem(pos, "an element of the list is read at a position the analysis cannot place: whether every string is written once, in order, is not known")
		st.cov[sv.root] = -2
	case c == -1 || p != c:
		q.problem(pos, "the elements of the list are not written one by one in order: element %s is read when %s elements have been written", posName(p), posName(c))
		st.cov[sv.root] = -2
	default:
		if c < 4 {
			st.cov[sv.root] = c + 1
		}
	}
}

func posName(p int8) string {
	switch {
	case p == -1:
		return "all"
	case p >= 4:
		return "≥4"
	}
	return fmt.Sprint(p)
}

// memberTables recognises package variables of the form
//
//	var tab = func() (t [256]bool) { for i := 0; i < len(K); i++ { t[K[i]] = true }; return t }()
//
// with K a constant string: a membership table whose contents are K's bytes.
// Anything else about the initialiser (a second store, a non-constant string, a
// value other than true) leaves the variable unrecognised.
func memberTables(pkg *ssa.Package) map[*ssa.Global]string {
	out := map[*ssa.Global]string{}
	if pkg == nil {
		return out
	}
	initFn := pkg.Func("init")
	if initFn == nil {
		return out
	}
	allInstrs(initFn, func(in ssa.Instruction) {
		st, ok := in.(*ssa.Store)
		if !ok {
			return
		}
		g, ok := st.Addr.(*ssa.Global)
		if !ok {
			return
		}
		arr, ok := g.Type().(*types.Pointer).Elem().Underlying().(*types.Array)
		if !ok {
			return
		}
		if b, ok := arr.Elem().Underlying().(*types.Basic); !ok || b.Kind() != types.Bool {
			return
		}
		call, ok := st.Val.(*ssa.Call)
		if !ok {
			return
		}
		var f *ssa.Function
		switch v := call.Call.Value.(type) {
		case *ssa.Function:
			f = v
		case *ssa.MakeClosure:
			f, _ = v.Fn.(*ssa.Function)
		}
		if f == nil || f.Blocks == nil || len(f.Params) != 0 {
			return
		}
		k, nStores, okShape := "", 0, true
		allInstrs(f, func(in2 ssa.Instruction) {
			switch y := in2.(type) {
			case *ssa.Store:
				ia, isIA := y.Addr.(*ssa.IndexAddr)
				if !isIA {
					if _, isAlloc := y.Addr.(*ssa.Alloc); !isAlloc {
						okShape = false
					}
					return
				}
				if _, isAlloc := ia.X.(*ssa.Alloc); !isAlloc {
					okShape = false
					return
				}
				cv, isK := y.Val.(*ssa.Const)
				if !isK || cv.Value == nil || cv.Value.String() != "true" {
					okShape = false
					return
				}
				idx := ia.Index
				if c2, ok := idx.(*ssa.Convert); ok {
					idx = c2.X
				}
				var strX ssa.Value
				switch lk := idx.(type) {
				case *ssa.Lookup:
					strX = lk.X
				case *ssa.Index:
					strX = lk.X
				}
				if strX == nil {
					okShape = false
					return
				}
				ks, isK2 := strX.(*ssa.Const)
				if !isK2 || ks.Value == nil || ks.Value.Kind() != constant.String {
					okShape = false
					return
				}
				k = constant.StringVal(ks.Value)
				nStores++
			case *ssa.Call:
				if b, ok := y.Call.Value.(*ssa.Builtin); !ok || b.Name() != "len" {
					okShape = false
				}
			}
		})
		if okShape && nStores == 1 && k != "" {
			out[g] = k
		}
	})
	return out
}

// builtTables recognises package variables of the form
//
//	var tab = func() (t [256]uint8) { for i := … len(K) … { t[K[i]] = c1 }; t[k2] = c2; return t }()
//
// (or initialised by a call of a named function of that shape): an integer array of 256 entries filled at package
// initialisation by stores of constants at constant positions or at the bytes of a constant string, applied in
// source order.  The table is READ OFF these constants; nothing is run.  Anything else in the builder (another
// store, a call other than len, a value that is not a constant) and the variable is not recognised.  A store at
// K[i] is taken to cover all of K only when i is a loop variable compared with len(K) (or with 0 for a downward
// loop) and stepped by one.
func builtTables(pkg *ssa.Package) map[*ssa.Global]*[256]int64 {
	out := map[*ssa.Global]*[256]int64{}
	if pkg == nil {
		return out
	}
	initFn := pkg.Func("init")
	if initFn == nil {
		return out
	}
	allInstrs(initFn, func(in ssa.Instruction) {
		st, ok := in.(*ssa.Store)
		if !ok {
			return
		}
		g, ok := st.Addr.(*ssa.Global)
		if !ok {
			return
		}
		arr, ok := g.Type().(*types.Pointer).Elem().Underlying().(*types.Array)
		if !ok || arr.Len() != 256 {
			return
		}
		eb, ok := arr.Elem().Underlying().(*types.Basic)
		if !ok || eb.Info()&types.IsInteger == 0 {
			return
		}
		call, ok := st.Val.(*ssa.Call)
		if !ok {
			return
		}
		var f *ssa.Function
		switch v := call.Call.Value.(type) {
		case *ssa.Function:
			f = v
		case *ssa.MakeClosure:
			f, _ = v.Fn.(*ssa.Function)
		}
		if f == nil || f.Blocks == nil || len(f.Params) != 0 || len(f.FreeVars) != 0 {
			return
		}
		var tab [256]int64
		okShape := true
		var local *ssa.Alloc
		for _, b := range f.Blocks { // block order is source order for a sequence of loops and statements
			for _, in2 := range b.Instrs {
				switch y := in2.(type) {
				case *ssa.Store:
					ia, isIA := y.Addr.(*ssa.IndexAddr)
					if !isIA {
						// the zero initialisation of the named result
						if al, isAlloc := y.Addr.(*ssa.Alloc); isAlloc {
							if k, isK := y.Val.(*ssa.Const); isK && k.Value == nil {
								continue
							}
							// the named result spilled onto itself before the return
							if ld, isLd := y.Val.(*ssa.UnOp); isLd && ld.Op == token.MUL && ld.X == ssa.Value(al) {
								continue
							}
						}
						okShape = false
						continue
					}
					al, isAlloc := ia.X.(*ssa.Alloc)
					if !isAlloc || (local != nil && local != al) {
						okShape = false
						continue
					}
					local = al
					v, isK := constInt(y.Val)
					if !isK {
						okShape = false
						continue
					}
					idx := ia.Index
					if c2, ok := idx.(*ssa.Convert); ok {
						idx = c2.X
					}
					if k, isK := constInt(idx); isK {
						if k < 0 || k > 255 {
							okShape = false
							continue
						}
						tab[k] = v
						continue
					}
					var strX, pos ssa.Value
					switch lk := idx.(type) {
					case *ssa.Lookup:
						strX, pos = lk.X, lk.Index
					case *ssa.Index:
						strX, pos = lk.X, lk.Index
					}
					ks, isK2 := strX.(*ssa.Const)
					if strX == nil || !isK2 || ks.Value == nil || ks.Value.Kind() != constant.String {
						okShape = false
						continue
					}
					K := constant.StringVal(ks.Value)
					// the position runs over all of K
					ph, isPhi := pos.(*ssa.Phi)
					if !isPhi {
						okShape = false
						continue
					}
					covers := false
					for _, r := range referrersOf(ph) {
						bo, ok := r.(*ssa.BinOp)
						if !ok {
							continue
						}
						other := bo.Y
						if bo.Y == ssa.Value(ph) {
							other = bo.X
						}
						if k, ok := constInt(other); ok && (k == int64(len(K)) || k == 0) && negOp(bo.Op) != token.ILLEGAL {
							covers = true
						}
						if ln, ok := isBuiltinCall(other, "len"); ok && ln.Call.Args[0] == strX && negOp(bo.Op) != token.ILLEGAL {
							covers = true
						}
					}
					step := false
					for i, e := range ph.Edges {
						if ph.Block().Dominates(ph.Block().Preds[i]) {
							if bo, ok := e.(*ssa.BinOp); ok && (bo.Op == token.ADD || bo.Op == token.SUB) && bo.X == ssa.Value(ph) && isConstInt(bo.Y, 1) {
								step = true
							}
						} else if k, ok := constInt(e); !ok || !(k == 0 || k == int64(len(K))-1) {
							covers = false
						}
					}
					if !covers || !step {
						okShape = false
						continue
					}
					for i := 0; i < len(K); i++ {
						tab[K[i]] = v
					}
				case *ssa.Call:
					if b, ok := y.Call.Value.(*ssa.Builtin); !ok || b.Name() != "len" {
						okShape = false
					}
				case *ssa.MapUpdate, *ssa.Go, *ssa.Defer, *ssa.Send:
					okShape = false
				}
			}
		}
		if okShape && local != nil {
			t := tab
			out[g] = &t
		}
	})
	return out
}
