package main

// C17 — slice utilities: R-CLIP, R-DIV-NONZERO, R-INDEX-GUARD, R-SWAP-ONLY.

import (
	"fmt"
	"go/token"
	"go/types"

	"golang.org/x/tools/go/ssa"
)

func init() {
	register(&propDef{ID: "C17", Level: "other", Run: runC17})
}

// ruleDivNonzero judges every integer / and % with a non-constant divisor in fns.
func ruleDivNonzero(c *Ctx, fns []*ssa.Function, extra func(v ssa.Value, b *ssa.BasicBlock) bool) {
	for _, fn := range fns {
		name := fnName(fn)
		allInstrs(fn, func(in ssa.Instruction) {
			bo, ok := in.(*ssa.BinOp)
			if !ok || (bo.Op != token.QUO && bo.Op != token.REM) {
				return
			}
			if bt, ok := bo.Type().Underlying().(*types.Basic); !ok || bt.Info()&types.IsInteger == 0 {
				return
			}
			if _, ok := constInt(bo.Y); ok {
				return // constant divisor: the compiler rejects a zero constant
			}
			c.sawFn(name)
			key := fmt.Sprintf("%s:%s %s", name, bo.Op, ksym(bo.Y))
			ok2, why := nonzeroValue(bo.Y, bo.Block(), 0)
			if !ok2 && extra != nil && extra(bo.Y, bo.Block()) {
				ok2 = true
			}
			if ok2 {
				c.ok("R-DIV-NONZERO", key, bo.Pos(), "divisor is non-zero on every path")
			} else {
				c.bad("R-DIV-NONZERO", key, bo.Pos(), "integer "+bo.Op.String()+" by a value that may be zero: "+why)
			}
		})
	}
}

// sliceRoot follows Slice/ChangeType/Phi chains to the underlying values.
func sliceRoots(v ssa.Value, seen map[ssa.Value]bool, out *[]ssa.Value) {
	if seen[v] {
		return
	}
	seen[v] = true
	switch x := v.(type) {
	case *ssa.Slice:
		sliceRoots(x.X, seen, out)
	case *ssa.ChangeType:
		sliceRoots(x.X, seen, out)
	case *ssa.Phi:
		for _, e := range x.Edges {
			sliceRoots(e, seen, out)
		}
	default:
		*out = append(*out, v)
	}
}

func runC17(c *Ctx) {
	P := c.P
	c.Explanation = "Decides structural clauses: (R-CLIP) every subslice of the input handed out by Partition, Chunks and Batches is a three-index slice whose capacity bound equals its length bound, so appending to a result cannot overwrite the caller's other elements (no test looks at cap); (R-DIV-NONZERO) no integer division or remainder in package slice has a divisor that may be zero on some path (facts from dominating branches, per-edge phi reasoning and predicate summaries of the range-check helpers); (R-INDEX-GUARD) At and PtrAt index only under a successful strict range check; (R-SWAP-ONLY) Partition writes its input only by exchanging two elements, so the slice stays a permutation of itself. A subslice bound derived from cap(input) violates the clip rule. (R-ALLOC-BOUNDED) an allocation sized by a bare count parameter is reached only with the count bounded by a length (at the site or at every call site of an unexported helper). Does NOT decide which elements end up where (Partition's order, Rotate's permutation, chunk/batch lengths, Head/Tail/Stripe contents)."
	c.rule("R-CLIP", 3, "every slice expression over the input in Partition/Chunks/Batches has Max present and equal to High")
	c.rule("R-DIV-NONZERO", 2, "every integer / and % in package slice has a divisor proved non-zero")
	c.rule("R-INDEX-GUARD", 2, "At/PtrAt: the index into the parameter slice satisfies 0 <= idx < len by a dominating successful range check")
	c.rule("R-SWAP-ONLY", 2, "every element store into Partition's input is half of an exchange of two elements loaded before either store")
	ruleAllocBounded(c, "slice", true)
	ruleSizeGuard(c, "slice")
	ruleConstIndex(c, "slice")
	ruleOffsetSiblings(c)
	ruleInPlaceWrites(c)
	// a count or index is never bounded by the CAPACITY of an input: what lies between len and cap is not part of it
	c.rule("R-NO-CAP-BOUND", 0, "no comparison in package slice bounds a count or index by cap(input) (floor 0: the unchanged tree has none)")
	for _, fn := range P.PkgFuncs("slice") {
		fn := fn
		n := 0
		allInstrs(fn, func(in ssa.Instruction) {
			bo, ok := in.(*ssa.BinOp)
			if !ok {
				return
			}
			switch bo.Op {
			case token.LSS, token.LEQ, token.GTR, token.GEQ, token.EQL, token.NEQ:
			default:
				return
			}
			for _, v := range []ssa.Value{bo.X, bo.Y} {
				cp, ok := isBuiltinCall(v, "cap")
				if !ok {
					continue
				}
				// of a parameter, or of an element of a parameter (a slice of slices)
				root := cp.Call.Args[0]
				for d := 0; d < 4; d++ {
					switch y := root.(type) {
					case *ssa.UnOp:
						root = y.X
					case *ssa.IndexAddr:
						root = y.X
					case *ssa.Index:
						root = y.X
					case *ssa.Phi:
						if len(y.Edges) > 0 {
							root = y.Edges[0]
						}
					case *ssa.Extract:
						root = y.Tuple
					case *ssa.Next:
						root = y.Iter
					case *ssa.Range:
						root = y.X
					}
				}
				if _, isP := root.(*ssa.Parameter); !isP {
					continue
				}
				n++
				c.sawFn(fnName(fn))
				c.bad("R-NO-CAP-BOUND", fmt.Sprintf("%s:compared with cap(%s) #%d", fnName(fn), ksym(cp.Call.Args[0]), n), bo.Pos(), "a count or index is tested against the capacity of an input slice instead of its length: elements between len and cap are not part of the slice, so the function reads or returns what is not there")
			}
		})
	}

	// ---- R-CLIP
	for _, fname := range []string{"Partition", "Chunks", "Batches"} {
		fn := P.Func("slice", "", fname)
		if fn == nil {
			c.undecided("ANCHOR", "slice."+fname, 0, "not found")
			continue
		}
		c.sawFn(fnName(fn))
		allInstrs(fn, func(in ssa.Instruction) {
			sl, ok := in.(*ssa.Slice)
			if !ok {
				return
			}
			var roots []ssa.Value
			sliceRoots(sl.X, map[ssa.Value]bool{}, &roots)
			fromInput := false
			for _, r := range roots {
				if r == fn.Params[0] {
					fromInput = true
				}
			}
			if !fromInput {
				return
			}
			key := fmt.Sprintf("%s:%s", fnName(fn), ksym(sl))
			// a bound taken from the CAPACITY of the input reaches past its length: elements that are not part of vs
			usesCap := false
			var walkB func(v ssa.Value, d int)
			walkB = func(v ssa.Value, d int) {
				if v == nil || d > 6 {
					return
				}
				if cp, ok := isBuiltinCall(v, "cap"); ok && cp.Call.Args[0] == ssa.Value(fn.Params[0]) {
					usesCap = true
				}
				switch x := v.(type) {
				case *ssa.BinOp:
					walkB(x.X, d+1)
					walkB(x.Y, d+1)
				case *ssa.Phi:
					for _, e := range x.Edges {
						walkB(e, d+1)
					}
				case *ssa.Call:
					if _, isB := x.Call.Value.(*ssa.Builtin); isB {
						for _, a := range x.Call.Args {
							walkB(a, d+1)
						}
					}
				}
			}
			walkB(sl.High, 0)
			walkB(sl.Low, 0)
			if usesCap {
				c.bad("R-CLIP", key, sl.Pos(), "a bound of this subslice is computed from cap(input): it can reach past len(input) into memory that is not part of the slice")
				return
			}
			switch {
			case sl.Max == nil:
				c.bad("R-CLIP", key, sl.Pos(), "subslice of the input is handed out without a capacity bound: append on the result overwrites the caller's following elements")
			case sl.High == nil || !(sl.Max == sl.High || sym(sl.Max) == sym(sl.High)):
				c.bad("R-CLIP", key, sl.Pos(), "capacity bound differs from the length bound")
			default:
				c.ok("R-CLIP", key, sl.Pos(), "capacity clipped to length")
			}
		})
	}

	// returning the input itself (unclipped) is tolerated only where the input is known to be empty
	if fn := P.Func("slice", "", "Partition"); fn != nil {
		allInstrs(fn, func(in ssa.Instruction) {
			ret, ok := in.(*ssa.Return)
			if !ok || len(ret.Results) != 1 || ret.Results[0] != ssa.Value(fn.Params[0]) {
				return
			}
			db := factsDBAt(ret.Block())
			ln := "len(" + sym(fn.Params[0]) + ")"
			empty := db.has(ln, token.EQL, "0") || db.has(ln, token.LEQ, "0") || db.has(ln, token.LSS, "1")
			c.judge(empty, "R-CLIP", "slice.Partition:return input itself", ret.Pos(), "only for an empty input (nothing to protect)", "the input slice itself is returned, with its full capacity, on a path where it may be non-empty: appending to the result overwrites memory behind it")
		})
	}

	// … and so is handing the input out as an element of the result (Chunks: []Slice{vs}, out = append(out, vs))
	for _, fname := range []string{"Chunks", "Batches"} {
		fn := P.Func("slice", "", fname)
		if fn == nil {
			continue
		}
		n := 0
		allInstrs(fn, func(in ssa.Instruction) {
			st, ok := in.(*ssa.Store)
			if !ok || st.Val != ssa.Value(fn.Params[0]) {
				return
			}
			if _, isIA := st.Addr.(*ssa.IndexAddr); !isIA {
				return
			}
			n++
			db := factsDBAt(st.Block())
			ln := "len(" + sym(fn.Params[0]) + ")"
			empty := db.has(ln, token.EQL, "0") || db.has(ln, token.LEQ, "0") || db.has(ln, token.LSS, "1")
			key := fmt.Sprintf("slice.%s:input handed out as a chunk", fname)
			if n > 1 {
				key = fmt.Sprintf("%s #%d", key, n)
			}
			c.judge(empty, "R-CLIP", key, st.Pos(), "only for an empty input (nothing to protect)", "the input slice itself becomes a chunk of the result, with its full capacity, on a path where it may be non-empty: appending to that chunk overwrites the memory behind the input, unlike every other chunk, which is clipped")
		})
	}

	// ---- R-DIV-NONZERO (package slice)
	var fns []*ssa.Function
	for _, fn := range P.PkgFuncs("slice") {
		fns = append(fns, fn)
	}
	ruleDivNonzero(c, fns, nil)

	// ---- R-INDEX-GUARD
	for _, fname := range []string{"At", "PtrAt"} {
		fn := P.Func("slice", "", fname)
		if fn == nil {
			c.undecided("ANCHOR", "slice."+fname, 0, "not found")
			continue
		}
		c.sawFn(fnName(fn))
		n := 0
		allInstrs(fn, func(in ssa.Instruction) {
			ia, ok := in.(*ssa.IndexAddr)
			if !ok {
				return
			}
			var roots []ssa.Value
			sliceRoots(ia.X, map[ssa.Value]bool{}, &roots)
			if len(roots) != 1 || roots[0] != fn.Params[0] {
				return
			}
			n++
			db := factsDBAt(ia.Block())
			idx := sym(ia.Index)
			lo := db.ge0(idx)
			hi := db.has(idx, token.LSS, "len("+sym(ia.X)+")")
			key := fmt.Sprintf("%s:index %s", fnName(fn), ksym(ia.Index))
			switch {
			case lo && hi:
				c.ok("R-INDEX-GUARD", key, ia.Pos(), "0 <= idx < len by the dominating range check")
			case lo && db.has(idx, token.LEQ, "len("+sym(ia.X)+")"):
				c.bad("R-INDEX-GUARD", key, ia.Pos(), "the dominating range check admits idx == len (off by one): indexing panics for an argument the check accepted")
			default:
				c.bad("R-INDEX-GUARD", key, ia.Pos(), "index into the parameter slice is not dominated by a successful range check")
			}
		})
		if n == 0 {
			// delegation: the sibling accessor does the indexing, and its result is used only when it is non-nil
			delegated, why := false, "no index into the parameter slice found"
			allInstrs(fn, func(in ssa.Instruction) {
				call, ok := in.(*ssa.Call)
				if !ok || len(call.Call.Args) < 2 || call.Call.Args[0] != ssa.Value(fn.Params[0]) {
					return
				}
				cal := origin(staticCallee(&call.Call))
				if cal == nil || cal == fn || (cal.Name() != "At" && cal.Name() != "PtrAt") || cal.Pkg != origin(fn).Pkg {
					return
				}
				delegated = true
				for _, r := range referrersOf(call) {
					ld, ok := r.(*ssa.UnOp)
					if !ok || ld.Op != token.MUL {
						continue
					}
					guarded := false
					for _, cm := range cmpsAt(ld.Block()) {
						if cm.X == ssa.Value(call) && isNilConst(cm.Y) && cm.Op == token.NEQ {
							guarded = true
						}
					}
					if !guarded {
						delegated, why = false, "the pointer returned by "+cal.Name()+" is dereferenced without a nil check"
					}
				}
			})
			if delegated {
				c.ok("R-INDEX-GUARD", fnName(fn)+":delegates", fn.Pos(), "indexing is delegated to the sibling accessor; its result is dereferenced only when non-nil")
			} else {
				c.undecided("R-INDEX-GUARD", fnName(fn), fn.Pos(), why)
			}
		}
	}

	// ---- R-SWAP-ONLY
	if fn := P.Func("slice", "", "Partition"); fn != nil {
		type est struct {
			st  *ssa.Store
			idx ssa.Value
		}
		byBlock := map[*ssa.BasicBlock][]est{}
		allInstrs(fn, func(in ssa.Instruction) {
			st, ok := in.(*ssa.Store)
			if !ok {
				return
			}
			ia, ok := st.Addr.(*ssa.IndexAddr)
			if !ok {
				return
			}
			var roots []ssa.Value
			sliceRoots(ia.X, map[ssa.Value]bool{}, &roots)
			for _, r := range roots {
				if r == fn.Params[0] {
					byBlock[in.Block()] = append(byBlock[in.Block()], est{st, ia.Index})
				}
			}
		})
		total := 0
		for _, sts := range byBlock {
			for _, s := range sts {
				total++
				key := fmt.Sprintf("slice.Partition:vs[%s]=", ksym(s.idx))
				// value must be loaded from vs[j] where another store in this block writes vs[j] with the value loaded from vs[i]
				okx := false
				if addr, ok := loadAddr(s.st.Val); ok {
					if ia2, ok := addr.(*ssa.IndexAddr); ok {
						j := ia2.Index
						for _, t := range sts {
							if t.st == s.st || !(t.idx == j || sym(t.idx) == sym(j)) {
								continue
							}
							if addr3, ok := loadAddr(t.st.Val); ok {
								if ia3, ok := addr3.(*ssa.IndexAddr); ok && (ia3.Index == s.idx || sym(ia3.Index) == sym(s.idx)) {
									// both loads precede both stores
									l1, l2 := s.st.Val.(ssa.Instruction), t.st.Val.(ssa.Instruction)
									if dominatesInstr(l1, s.st) && dominatesInstr(l1, t.st) && dominatesInstr(l2, s.st) && dominatesInstr(l2, t.st) {
										okx = true
									}
								}
							}
						}
					}
				}
				c.judge(okx, "R-SWAP-ONLY", key, s.st.Pos(), "half of an exchange", "element of the input overwritten without the matching counter-store: an element is lost or duplicated")
			}
		}
		if total == 0 {
			c.undecided("R-SWAP-ONLY", "slice.Partition", fn.Pos(), "no element store found")
		}
	}
}

// ruleAllocBounded: a function that cuts an input slice into pieces takes a
// count from its caller; the documentation caps that count at the length of the
// input.  An allocation sized by the bare count parameter must therefore be
// reached only with the count bounded (a dominating test against a length, or
// the clamped value itself): otherwise a huge count panics in make although the
// call is valid.
func ruleAllocBounded(c *Ctx, pkg string, needSliceParam bool) {
	// floor 0: when no allocation is sized by a bare count there is nothing to prove (Batches written with
	// min(n, len(vs))); the seeded changes are the positive examples
	c.rule("R-ALLOC-BOUNDED", 0, "an allocation sized by a count parameter is reached only after the count has been bounded by a length")
	for _, fn := range c.P.PkgFuncs(pkg) {
		hasSlice := false
		for _, p := range fn.Params {
			if sliceLike(p.Type()) {
				hasSlice = true
			}
		}
		if (needSliceParam && !hasSlice) || fn.Parent() != nil {
			continue
		}
		isParam := func(v ssa.Value) *ssa.Parameter {
			p, _ := v.(*ssa.Parameter)
			return p
		}
		bounded := func(p *ssa.Parameter, b *ssa.BasicBlock, extra *Cmp) bool {
			cms := cmpsAt(b)
			if extra != nil {
				cms = append(cms, *extra)
			}
			for _, cm := range cms {
				if cm.X == ssa.Value(p) && (cm.Op == token.LEQ || cm.Op == token.LSS || cm.Op == token.EQL) {
					if _, isK := constInt(cm.Y); !isK {
						return true
					}
				}
				if cm.Y == ssa.Value(p) && (cm.Op == token.GEQ || cm.Op == token.GTR || cm.Op == token.EQL) {
					if _, isK := constInt(cm.X); !isK {
						return true
					}
				}
			}
			return false
		}
		// an unexported helper's count may be bounded by every caller before the call
		bounded0 := bounded
		var boundedDeep func(p *ssa.Parameter, b *ssa.BasicBlock, extra *Cmp, depth int) bool
		boundedDeep = func(p *ssa.Parameter, b *ssa.BasicBlock, extra *Cmp, depth int) bool {
			if bounded0(p, b, extra) {
				return true
			}
			g := p.Parent()
			if depth > 2 || g.Object() == nil || g.Object().Exported() {
				return false
			}
			idx := -1
			for i, q := range g.Params {
				if q == p {
					idx = i
				}
			}
			sites := 0
			okAll := true
			for _, h := range c.P.PkgFuncs(pkg) {
				allInstrs(h, func(in2 ssa.Instruction) {
					call, ok := in2.(*ssa.Call)
					if !ok || origin(staticCallee(&call.Call)) != origin(g) || idx < 0 || idx >= len(call.Call.Args) {
						return
					}
					sites++
					a := call.Call.Args[idx]
					if ap, isP := a.(*ssa.Parameter); isP {
						if !boundedDeep(ap, call.Block(), nil, depth+1) {
							okAll = false
						}
					} else if ph, isPhi := a.(*ssa.Phi); isPhi {
						for i, e := range ph.Edges {
							if ep, isP := e.(*ssa.Parameter); isP {
								pred := ph.Block().Preds[i]
								var ex *Cmp
								if iff, ok := pred.Instrs[len(pred.Instrs)-1].(*ssa.If); ok {
									k := 0
									if pred.Succs[1] == ph.Block() {
										k = 1
									}
									if cm, ok := edgeCmp(iff, k); ok {
										ex = &cm
									}
								}
								if !boundedDeep(ep, pred, ex, depth+1) {
									okAll = false
								}
							}
						}
					}
					// any other expression is derived, not the bare count
				})
			}
			return sites > 0 && okAll
		}
		bounded = func(p *ssa.Parameter, b *ssa.BasicBlock, extra *Cmp) bool { return boundedDeep(p, b, extra, 0) }
		n := 0
		allInstrs(fn, func(in ssa.Instruction) {
			mk, ok := in.(*ssa.MakeSlice)
			if !ok {
				return
			}
			for _, sz := range []ssa.Value{mk.Len, mk.Cap} {
				var bare []*ssa.Parameter
				okAll := true
				if p := isParam(sz); p != nil && isIntType(p.Type()) {
					bare = append(bare, p)
					if !bounded(p, mk.Block(), nil) {
						okAll = false
					}
				} else if ph, ok := sz.(*ssa.Phi); ok {
					for i, e := range ph.Edges {
						if p := isParam(e); p != nil && isIntType(p.Type()) {
							bare = append(bare, p)
							pred := ph.Block().Preds[i]
							var extra *Cmp
							if iff, ok := pred.Instrs[len(pred.Instrs)-1].(*ssa.If); ok {
								idx := 0
								if pred.Succs[1] == ph.Block() {
									idx = 1
								}
								if cm, ok := edgeCmp(iff, idx); ok {
									extra = &cm
								}
							}
							if !bounded(p, pred, extra) {
								okAll = false
							}
						}
					}
				}
				if len(bare) == 0 {
					// a size computed from a length plus a count (a rounded-up quotient (len+n-1)/n): the sum overflows
					// for counts near the largest integer unless the count has been bounded first
					var adds, phiUnbounded []*ssa.Parameter
					var walkSz func(v ssa.Value, d int)
					walkSz = func(v ssa.Value, d int) {
						if d > 5 {
							return
						}
						bo, ok := v.(*ssa.BinOp)
						if !ok {
							return
						}
						if bo.Op == token.ADD {
							var hasLen bool
							var cnt *ssa.Parameter
							for _, o := range []ssa.Value{bo.X, bo.Y} {
								if _, isLen := isBuiltinCall(o, "len"); isLen {
									hasLen = true
								}
								if p := isParam(o); p != nil && isIntType(p.Type()) {
									cnt = p
								}
								// the count normalised on one branch (n == 0 ⇒ n = len(vs)) and passed through on the other
								if ph, ok := o.(*ssa.Phi); ok {
									for i, e := range ph.Edges {
										if p := isParam(e); p != nil && isIntType(p.Type()) {
											pred := ph.Block().Preds[i]
											var extra *Cmp
											if iff, ok := pred.Instrs[len(pred.Instrs)-1].(*ssa.If); ok {
												idx := 0
												if pred.Succs[1] == ph.Block() {
													idx = 1
												}
												if cm, ok := edgeCmp(iff, idx); ok {
													extra = &cm
												}
											}
											if !bounded(p, pred, extra) {
												phiUnbounded = append(phiUnbounded, p)
											}
										}
									}
								}
							}
							if hasLen && cnt != nil {
								adds = append(adds, cnt)
							}
						}
						walkSz(bo.X, d+1)
						walkSz(bo.Y, d+1)
					}
					walkSz(sz, 0)
					for _, p := range phiUnbounded {
						n++
						c.sawFn(fnName(fn))
						c.bad("R-ALLOC-BOUNDED", fmt.Sprintf("%s:size computed from len + %s #%d", fnName(fn), p.Name(), n), mk.Pos(), fmt.Sprintf("the allocation size is computed from len(…) + %s, and %s reaches the sum as passed in on some path: for a count near the largest integer the sum wraps around, the size comes out negative and make panics — for an argument the documentation allows", p.Name(), p.Name()))
					}
					for _, p := range adds {
						n++
						c.sawFn(fnName(fn))
						c.judge(bounded(p, mk.Block(), nil), "R-ALLOC-BOUNDED", fmt.Sprintf("%s:size computed from len + %s #%d", fnName(fn), p.Name(), n), mk.Pos(), "the count is bounded by a length before it enters the sum", fmt.Sprintf("the allocation size is computed from len(…) + %s with %s as passed in: for a count near the largest integer the sum wraps around, the size comes out negative and make panics — for an argument the documentation allows", p.Name(), p.Name()))
					}
					continue
				}
				n++
				c.sawFn(fnName(fn))
				c.judge(okAll, "R-ALLOC-BOUNDED", fmt.Sprintf("%s:make sized by %s #%d", fnName(fn), bare[0].Name(), n), mk.Pos(), "the count is bounded by a length where it sizes the allocation", fmt.Sprintf("the allocation is sized by the parameter %s as passed in: a count larger than the input (which the documentation allows and caps) makes it panic or allocate without bound", bare[0].Name()))
			}
		})
	}
}

// ruleOffsetSiblings (R-OFFSET-SIBLING): the package's offset normalisers — unexported functions (i, n int) (int, bool)
// that add n to a negative offset — agree on WHEN they add it: "negative offsets count backward from the end" is
// i < 0 in all of them.  One that adjusts on i <= 0 (or i < 1) turns offset 0 into n.
func ruleOffsetSiblings(c *Ctx) {
	c.rule("R-OFFSET-SIBLING", 0, "every offset normaliser (i, n int) (int, bool) of package slice adds n exactly when i < 0")
	for _, fn := range c.P.PkgFuncs("slice") {
		if fn.Parent() != nil || fn.Object() == nil || fn.Object().Exported() || len(fn.Params) != 2 || fn.Signature.Results().Len() != 2 {
			continue
		}
		if !isIntType(fn.Params[0].Type()) || !isIntType(fn.Params[1].Type()) {
			continue
		}
		i, n := ssa.Value(fn.Params[0]), ssa.Value(fn.Params[1])
		// i += n under a test of i
		fn := fn
		allInstrs(fn, func(in ssa.Instruction) {
			bo, ok := in.(*ssa.BinOp)
			if !ok || bo.Op != token.ADD || !((bo.X == i && bo.Y == n) || (bo.X == n && bo.Y == i)) {
				return
			}
			var guard *Cmp
			for _, cm := range cmpsAt(bo.Block()) {
				cm := cm
				if cm.X == i {
					if _, isK := constInt(cm.Y); isK {
						guard = &cm
					}
				}
			}
			if guard == nil {
				return
			}
			k, _ := constInt(guard.Y)
			good := (guard.Op == token.LSS && k == 0) || (guard.Op == token.LEQ && k == -1)
			c.sawFn(fnName(fn))
			c.judge(good, "R-OFFSET-SIBLING", fnName(fn)+":adjusts negative offsets", bo.Pos(), "i += n exactly when i < 0", fmt.Sprintf("%s adds the length when i %s %d: offset 0 is turned into the length (the end of the slice instead of its start)", fn.Name(), guard.Op, k))
		})
	}
}

// ruleInPlaceWrites (R-INPLACE-WRITES): the exported functions of package slice that return nothing and take a slice
// exist to change that slice in place (Reverse, Rotate, Zero): each of them writes through its parameter — an element
// store, or a call that is handed the slice — on some path.  A body that does neither does nothing at all.
func ruleInPlaceWrites(c *Ctx) {
	c.rule("R-INPLACE-WRITES", 0, "an exported function of package slice with a slice parameter and no result writes through that parameter")
	for _, fn := range c.P.PkgFuncs("slice") {
		if fn.Parent() != nil || fn.Object() == nil || !fn.Object().Exported() || fn.Signature.Results().Len() != 0 || len(fn.Params) == 0 {
			continue
		}
		p := ssa.Value(fn.Params[0])
		if !isSliceLike(p.Type()) {
			continue
		}
		writes := false
		for _, f := range withClosures(fn) {
			allInstrs(f, func(in ssa.Instruction) {
				switch x := in.(type) {
				case *ssa.Store:
					if ia, ok := x.Addr.(*ssa.IndexAddr); ok && (newOrig(f).of(ia.X).hasParam(0) || (f != fn && types.Identical(ia.X.Type(), p.Type()))) {
						writes = true // (in a closure — a range-over-func body — the captured slice is recognised by its type)
					}
				case *ssa.Call:
					for _, a := range x.Call.Args {
						if a == p {
							if b, isB := x.Call.Value.(*ssa.Builtin); isB && (b.Name() == "len" || b.Name() == "cap") {
								continue
							}
							writes = true
						}
						if ct, ok := a.(*ssa.ChangeType); ok && ct.X == p {
							writes = true
						}
					}
				}
			})
		}
		c.sawFn(fnName(fn))
		c.judge(writes, "R-INPLACE-WRITES", fnName(fn)+":writes its argument", fn.Pos(), "an element store or a call handed the slice", fn.Name()+" returns nothing and never writes through (or hands on) the slice it was given: it has no effect at all")
	}
}

// isSliceLike: a slice type, or a type parameter whose constraint is ~[]T.
func isSliceLike(t types.Type) bool {
	if _, ok := t.Underlying().(*types.Slice); ok {
		return true
	}
	tp, ok := types.Unalias(t).(*types.TypeParam)
	if !ok {
		return false
	}
	iface, ok := tp.Constraint().Underlying().(*types.Interface)
	if !ok {
		return false
	}
	for i := 0; i < iface.NumEmbeddeds(); i++ {
		if u, ok := iface.EmbeddedType(i).(*types.Union); ok {
			for j := 0; j < u.Len(); j++ {
				if _, ok := u.Term(j).Type().Underlying().(*types.Slice); ok {
					return true
				}
			}
		}
		if _, ok := iface.EmbeddedType(i).Underlying().(*types.Slice); ok {
			return true
		}
	}
	return false
}
