package main

// C20 — mbits/mstr: R-UNSAFE-BOUNDS, R-TRUNC-PREFIX, R-CMP-RANGE.

import (
	"fmt"
	"go/token"
	"go/types"
	"sort"
	"strings"

	"golang.org/x/tools/go/ssa"
)

func init() {
	register(&propDef{ID: "C20", Level: "other", Run: runC20, Canaries: map[string]string{"mbits": c20Canary}})
}

const c20Canary = `package mbits

import "unsafe"

// verifCanaryOverread reads a word at every index below len: over-reads the last 7 bytes.
func verifCanaryOverread(data []byte) (s uint64) {
	for i := 0; i < len(data); i += 8 {
		s += *(*uint64)(unsafe.Pointer(&data[i]))
	}
	return s
}

// verifTwinInBounds is the conforming twin.
func verifTwinInBounds(data []byte) (s uint64) {
	m := len(data) &^ 7
	for i := 0; i < m; i += 8 {
		s += *(*uint64)(unsafe.Pointer(&data[i]))
	}
	return s
}
`

// lin: a·n + b·q + c with n = len(data), q = n &^ 7 (0 <= q <= n, q ≡ 0 mod 8, n-q <= 7).
type lin struct{ a, b, c int64 }

func (l lin) String() string { return fmt.Sprintf("%d·n%+d·q%+d", l.a, l.b, l.c) }
func (l lin) add(m lin) lin  { return lin{l.a + m.a, l.b + m.b, l.c + m.c} }
func (l lin) sub(m lin) lin  { return lin{l.a - m.a, l.b - m.b, l.c - m.c} }

// min of the form under the axioms: form = A·(n-q) + B·q + c, A=a, B=a+b,
// with 0 <= n-q <= 7 and q >= 0 (unbounded above).
func (l lin) nonneg() bool {
	A, B := l.a, l.a+l.b
	if B < 0 {
		return false
	}
	m := l.c
	if A < 0 {
		m += 7 * A
	}
	return m >= 0
}

// residue mod 8, if determined.
func (l lin) mod8() (int64, bool) {
	if l.a%8 != 0 {
		return 0, false
	}
	return ((l.c % 8) + 8) % 8, true
}

type linCtx struct {
	data  ssa.Value         // the slice parameter
	subst map[ssa.Value]lin // a helper's parameter standing for its argument's form
}

func (lc *linCtx) of(v ssa.Value, depth int) (lin, bool) {
	if depth > 8 {
		return lin{}, false
	}
	if k, ok := constInt(v); ok {
		return lin{0, 0, k}, true
	}
	if ln, ok := isBuiltinCall(v, "len"); ok && ln.Call.Args[0] == lc.data {
		return lin{1, 0, 0}, true
	}
	if f, ok := lc.subst[v]; ok {
		return f, true
	}
	// a pure one-line helper of the package over one integer (wholeWords(size) = size &^ 7): its return expression,
	// with the argument's form in the place of the parameter
	if call, ok := v.(*ssa.Call); ok && len(call.Call.Args) == 1 {
		if h := origin(staticCallee(&call.Call)); h != nil && len(h.Blocks) == 1 && len(h.Params) == 1 && h.Signature.Results().Len() == 1 && isIntType(h.Params[0].Type()) {
			if ret, ok := h.Blocks[0].Instrs[len(h.Blocks[0].Instrs)-1].(*ssa.Return); ok {
				if af, ok := lc.of(call.Call.Args[0], depth+1); ok {
					sub := &linCtx{data: lc.data, subst: map[ssa.Value]lin{h.Params[0]: af}}
					return sub.of(ret.Results[0], depth+1)
				}
			}
		}
	}
	bo, ok := v.(*ssa.BinOp)
	if !ok {
		return lin{}, false
	}
	x, okx := lc.of(bo.X, depth+1)
	y, oky := lc.of(bo.Y, depth+1)
	switch bo.Op {
	case token.AND_NOT:
		if okx && x == (lin{1, 0, 0}) && isConstInt(bo.Y, 7) {
			return lin{0, 1, 0}, true
		}
	case token.AND:
		if okx && x == (lin{1, 0, 0}) && isConstInt(bo.Y, -8) {
			return lin{0, 1, 0}, true
		}
		if okx && x == (lin{1, 0, 0}) && isConstInt(bo.Y, 7) {
			return lin{1, -1, 0}, true // n & 7 = n − n&^7
		}
	case token.REM:
		if okx && x == (lin{1, 0, 0}) && isConstInt(bo.Y, 8) {
			return lin{1, -1, 0}, true // n ≥ 0, so n % 8 = n − n&^7
		}
	case token.ADD:
		if okx && oky {
			return x.add(y), true
		}
	case token.SUB:
		if okx && oky {
			return x.sub(y), true
		}
	case token.MUL:
		if okx && oky && x.a == 0 && x.b == 0 {
			return lin{y.a * x.c, y.b * x.c, y.c * x.c}, true
		}
		if okx && oky && y.a == 0 && y.b == 0 {
			return lin{x.a * y.c, x.b * y.c, x.c * y.c}, true
		}
	}
	return lin{}, false
}

func runC20(c *Ctx) {
	P := c.P
	c.Explanation = "Decides: (R-UNSAFE-BOUNDS) each of the unsafe 8-byte word accesses in package mbits lies inside the slice for every length: index expressions are reduced to linear forms over n = len(data) and q = n &^ 7 with the axioms 0 ≤ q ≤ n, q ≡ 0 (mod 8), n − q ≤ 7; induction variables get a congruence from their ±8 step and a one-sided bound from their initial value, the dominating loop guard supplies the other side; the obligations 0 ≤ i and i + 8 ≤ n are then decided by sign analysis of the linear forms. These are exactly the accesses Go's own bounds checks do not cover. (R-TRUNC-PREFIX) Trunc returns its argument or s[:h] with h reached from n only by decrements, under n < len(s), and every s[h−1] is guarded by h > 0 — so the result is a prefix of at most n bytes and cannot panic. (R-CMP-RANGE) every value CompareNatural returns is a result of cmp.Compare, hence in {−1,0,1}. (R-CLASS-AGREE) the two token parsers of CompareNatural classify characters with the same named predicate. Does NOT decide that the zero counts are right, UTF-8 validity of the result beyond the byte-class tests, the 4-byte clause, or that CompareNatural is a total preorder."
	c.rule("R-UNSAFE-BOUNDS", 0, "every *uint64 access through unsafe.Pointer(&data[i]) satisfies 0 <= i and i+8 <= len(data)")
	c.rule("R-TRUNC-PREFIX", 2, "Trunc returns s or s[:h], h ∈ closure{n, h'−c}, under n < len(s); every s[h−1] is dominated by h > 0")
	c.rule("R-CLASS-AGREE", 0, "the token parsers CompareNatural alternates between classify bytes with the same predicate: what one refuses as a digit the other accepts as text (otherwise neither consumes and the comparison never ends)")
	if cn := P.Func("mstr", "", "CompareNatural"); cn != nil {
		isPred := func(t types.Type) bool {
			sig, ok := t.Underlying().(*types.Signature)
			if !ok || sig.Params().Len() != 1 || sig.Results().Len() != 1 {
				return false
			}
			pb, ok1 := sig.Params().At(0).Type().Underlying().(*types.Basic)
			rb, ok2 := sig.Results().At(0).Type().Underlying().(*types.Basic)
			return ok1 && ok2 && pb.Info()&types.IsInteger != 0 && rb.Kind() == types.Bool
		}
		// the parsers: same-package static callees of CompareNatural that take a string
		var parsers []*ssa.Function
		seenP := map[*ssa.Function]bool{}
		allInstrs(cn, func(in ssa.Instruction) {
			if call, ok := in.(*ssa.Call); ok {
				if cal := staticCallee(&call.Call); cal != nil && origin(cal).Blocks != nil && origin(cal).Pkg == origin(cn).Pkg && !seenP[origin(cal)] && len(origin(cal).Params) == 1 {
					if b, ok := origin(cal).Params[0].Type().Underlying().(*types.Basic); ok && b.Kind() == types.String {
						seenP[origin(cal)] = true
						parsers = append(parsers, origin(cal))
					}
				}
			}
		})
		preds := func(fn *ssa.Function) []string {
			set := map[string]bool{}
			for _, g := range buildCallScope(fn).fns {
				allInstrs(g, func(in ssa.Instruction) {
					call, ok := in.(*ssa.Call)
					if !ok {
						return
					}
					if cal := staticCallee(&call.Call); cal != nil && isPred(origin(cal).Signature) {
						set[fnName(origin(cal))] = true
					}
					for _, a := range call.Call.Args {
						if f, ok := a.(*ssa.Function); ok && isPred(f.Signature) {
							set[fnName(origin(f))] = true
						}
						if mc, ok := a.(*ssa.MakeClosure); ok && isPred(mc.Fn.(*ssa.Function).Signature) {
							set["closure in "+fnName(g)] = true
						}
					}
				})
			}
			var out []string
			for k := range set {
				if !strings.HasPrefix(k, fnName(fn)) {
					out = append(out, k)
				}
			}
			sort.Strings(out)
			return out
		}
		if len(parsers) >= 2 {
			c.sawFn(fnName(cn))
			ref := preds(parsers[0])
			okAll := true
			var desc []string
			for _, p := range parsers {
				ps := preds(p)
				desc = append(desc, fmt.Sprintf("%s uses %v", fnName(p), ps))
				// a parser that classifies inline (no named predicate) cannot be compared by identity: not judged
				if len(ps) > 0 && len(ref) > 0 && strings.Join(ps, ",") != strings.Join(ref, ",") {
					okAll = false
				}
				if len(ref) == 0 {
					ref = ps
				}
			}
			// only judged when the parsers classify through named predicates at all
			if len(ref) > 0 || !okAll {
				c.judge(okAll, "R-CLASS-AGREE", "mstr.CompareNatural:token classes", cn.Pos(), strings.Join(desc, "; "), "the token parsers classify characters differently ("+strings.Join(desc, "; ")+"): a character that is a digit for one and not for the other is consumed by neither, so CompareNatural loops forever or splits tokens inconsistently")
			}
		}
	}
	ruleTokenCases(c)
	ruleDigitBase(c)
	ruleTokenParser(c)
	ruleUTF8Class(c)
	ruleZeroReturnsLen(c)
	c.rule("R-CMP-RANGE", 2, "every return of CompareNatural is a cmp.Compare result or a constant in {-1,0,1}")

	// ---- R-UNSAFE-BOUNDS
	judgeAccess := func(key string, pos token.Pos, dataV, idxV ssa.Value, at *ssa.BasicBlock, width int64) {
		lc := &linCtx{data: dataV}
		if _, isParam := dataV.(*ssa.Parameter); !isParam {
			// a window on the data (rest = rest[8:]) accessed at a constant offset k: inside the window — and so
			// inside the data — when a dominating guard says len(window) ≥ k + width
			if k, isK := constInt(idxV); isK && k >= 0 {
				for _, cm := range cmpsAt(at) {
					x, y, op := cm.X, cm.Y, cm.Op
					if _, isLen := isBuiltinCall(y, "len"); isLen {
						x, y, op = y, x, flipOp(op)
					}
					ln, isLen := isBuiltinCall(x, "len")
					if !isLen || ln.Call.Args[0] != dataV {
						continue
					}
					b, isB := constInt(y)
					if !isB {
						continue
					}
					if (op == token.GEQ && b >= k+width) || (op == token.GTR && b >= k+width-1) {
						c.ok("R-UNSAFE-BOUNDS", key, pos, fmt.Sprintf("offset %d of a window known to hold at least %d bytes", k, k+width))
						return
					}
				}
				c.bad("R-UNSAFE-BOUNDS", key, pos, fmt.Sprintf("the %d-byte access at offset %d of %s is not under a guard len(%s) ≥ %d: it may read or write past the end of the slice", width, k, ksym(dataV), ksym(dataV), k+width))
				return
			}
			c.undecided("R-UNSAFE-BOUNDS", key, pos, "the accessed slice is not the function's parameter")
			return
		}
		// index = phi + c0
		idx := idxV
		off := int64(0)
		if bo, ok := idx.(*ssa.BinOp); ok && (bo.Op == token.ADD || bo.Op == token.SUB) {
			if k, ok := constInt(bo.Y); ok {
				if bo.Op == token.SUB {
					k = -k
				}
				idx, off = bo.X, k
			}
		}
		// a word counter: index 8·w (or w<<3) for w counting words, 0 ≤ w < len(data)>>3 — then 8w + 8 ≤ 8·(n>>3) ≤ n
		if width == 8 {
			var w ssa.Value
			if bo, ok := idxV.(*ssa.BinOp); ok {
				switch {
				case bo.Op == token.MUL && isConstInt(bo.X, 8):
					w = bo.Y
				case bo.Op == token.MUL && isConstInt(bo.Y, 8):
					w = bo.X
				case bo.Op == token.SHL && isConstInt(bo.Y, 3):
					w = bo.X
				}
			}
			if wp, ok := w.(*ssa.Phi); ok {
				var isWords func(v ssa.Value) bool
				isWords = func(v ssa.Value) bool {
					// a result of a one-line helper over the length (nw, tail := split(len(data)), split(n) = n>>3, n&7)
					if ex, ok := v.(*ssa.Extract); ok {
						if call, ok := ex.Tuple.(*ssa.Call); ok && len(call.Call.Args) == 1 {
							if ln, isLen := isBuiltinCall(call.Call.Args[0], "len"); isLen && ln.Call.Args[0] == dataV {
								if h := origin(staticCallee(&call.Call)); h != nil && len(h.Blocks) == 1 && len(h.Params) == 1 {
									if ret, ok := h.Blocks[0].Instrs[len(h.Blocks[0].Instrs)-1].(*ssa.Return); ok && ex.Index < len(ret.Results) {
										if bo, ok := ret.Results[ex.Index].(*ssa.BinOp); ok && bo.X == ssa.Value(h.Params[0]) {
											return (bo.Op == token.SHR && isConstInt(bo.Y, 3)) || (bo.Op == token.QUO && isConstInt(bo.Y, 8))
										}
									}
								}
							}
						}
						return false
					}
					bo, ok := v.(*ssa.BinOp)
					if !ok {
						return false
					}
					ln, isLen := isBuiltinCall(bo.X, "len")
					if !isLen || ln.Call.Args[0] != dataV {
						return false
					}
					return (bo.Op == token.SHR && isConstInt(bo.Y, 3)) || (bo.Op == token.QUO && isConstInt(bo.Y, 8))
				}
				// counting up by one from 0, `w != nw` ends the loop exactly where `w < nw` would
				upByOne := true
				for i, e := range wp.Edges {
					if wp.Block().Dominates(wp.Block().Preds[i]) {
						if bo, ok := e.(*ssa.BinOp); !ok || bo.Op != token.ADD || bo.X != ssa.Value(wp) || !isConstInt(bo.Y, 1) {
							upByOne = false
						}
					} else if !isConstInt(e, 0) {
						upByOne = false
					}
				}
				boundOp := func(op token.Token) bool { return op == token.LSS || (op == token.NEQ && upByOne) }
				below := false
				for _, cm := range cmpsAt(at) {
					if cm.X == w && boundOp(cm.Op) && isWords(cm.Y) {
						below = true
					}
				}
				if !below {
					// a rotated loop: each value the counter takes is tested against the word count on the edge that brings it
					below = true
					for i, e := range wp.Edges {
						pred := wp.Block().Preds[i]
						iff, ok := pred.Instrs[len(pred.Instrs)-1].(*ssa.If)
						edgeOK := false
						if ok {
							for si, sb := range pred.Succs {
								if sb != wp.Block() {
									continue
								}
								sameVal := func(a, b ssa.Value) bool {
									ka, oka := constInt(a)
									kb, okb := constInt(b)
									return a == b || (oka && okb && ka == kb)
								}
								if cm, ok := edgeCmp(iff, si); ok && sameVal(cm.X, e) && boundOp(cm.Op) && isWords(cm.Y) {
									edgeOK = true
								}
							}
						}
						if !edgeOK {
							below = false
						}
					}
				}
				nonneg := true
				for i, e := range wp.Edges {
					if wp.Block().Dominates(wp.Block().Preds[i]) {
						bo, ok := e.(*ssa.BinOp)
						if !ok || bo.Op != token.ADD || bo.X != ssa.Value(wp) {
							nonneg = false
						} else if k, ok := constInt(bo.Y); !ok || k < 0 {
							nonneg = false
						}
					} else if k, ok := constInt(e); !ok || k < 0 {
						nonneg = false
					}
				}
				if below && nonneg {
					c.ok("R-UNSAFE-BOUNDS", key, pos, "word "+ksym(w)+" of the len>>3 whole words: 0 ≤ 8w and 8w + 8 ≤ 8·(len>>3) ≤ len")
					return
				}
				// the counter runs to a word count that is rounded UP ((len+k)>>3): the last word reaches past the end
				roundedUp := func(v ssa.Value) bool {
					bo, ok := v.(*ssa.BinOp)
					if !ok || !((bo.Op == token.SHR && isConstInt(bo.Y, 3)) || (bo.Op == token.QUO && isConstInt(bo.Y, 8))) {
						return false
					}
					add, ok := bo.X.(*ssa.BinOp)
					if !ok || add.Op != token.ADD {
						return false
					}
					k, isK := constInt(add.Y)
					ln, isLen := isBuiltinCall(add.X, "len")
					return isK && k > 0 && isLen && ln.Call.Args[0] == dataV
				}
				for _, e := range wp.Edges {
					for _, r := range referrersOf(e) {
						if cmp, ok := r.(*ssa.BinOp); ok && cmp.Op == token.LSS && cmp.X == e && roundedUp(cmp.Y) {
							c.bad("R-UNSAFE-BOUNDS", key, pos, "the word counter "+ksym(w)+" runs up to a word count that is rounded up ("+ksym(cmp.Y)+"): when the length is not a multiple of 8 the last 8-byte access at 8·w reaches past the end of the slice")
							return
						}
					}
				}
			}
		}
		ph, ok := idx.(*ssa.Phi)
		if !ok {
			// loop-free direct form
			if f, ok := lc.of(idxV, 0); ok {
				lo := f.nonneg()
				hi := (lin{1, 0, -width}).sub(f).nonneg()
				c.judge(lo && hi, "R-UNSAFE-BOUNDS", key, pos, "index "+f.String()+" within [0, n-"+fmt.Sprint(width)+"]", "index "+f.String()+" is not provably within [0, n-"+fmt.Sprint(width)+"]")
				return
			}
			c.undecided("R-UNSAFE-BOUNDS", key, pos, "index is neither an induction variable nor a linear form: "+sym(idxV))
			return
		}
		// induction variable: init, step
		var init lin
		var step int64
		haveInit, haveStep := false, false
		for i, e := range ph.Edges {
			if ph.Block().Dominates(ph.Block().Preds[i]) {
				f, ok := affOf(e, ph, nil, 0)
				if !ok || f.a != 1 || f.d != 1 || (haveStep && f.b != step) {
					c.undecided("R-UNSAFE-BOUNDS", key, pos, "induction step not of the form i ± const")
					return
				}
				step, haveStep = f.b, true
			} else {
				f, ok := lc.of(e, 0)
				if !ok {
					c.undecided("R-UNSAFE-BOUNDS", key, pos, "initial value of the induction variable is not linear in n, n&^7: "+sym(e))
					return
				}
				init, haveInit = f, true
			}
		}
		if !haveInit || !haveStep || step == 0 {
			c.undecided("R-UNSAFE-BOUNDS", key, pos, "induction variable not recognised")
			return
		}
		// congruence of i (mod 8) if step ≡ 0 mod 8
		var res int64
		haveRes := false
		if step%8 == 0 {
			if r, ok := init.mod8(); ok {
				res, haveRes = r, true
			}
		}
		// guards on phi at the site
		var lowers, uppers []lin // i >= L ; i <= U
		if step > 0 {
			lowers = append(lowers, init)
		} else {
			uppers = append(uppers, init)
		}
		for _, cm := range cmpsAt(at) {
			x, y, op := cm.X, cm.Y, cm.Op
			// the compared value may be φ + shift
			isPhiForm := func(v ssa.Value) (int64, bool) {
				if v == ssa.Value(ph) {
					return 0, true
				}
				if f, ok := affOf(v, ph, nil, 0); ok && f.a == 1 && f.d == 1 {
					return f.b, true
				}
				return 0, false
			}
			if _, ok := isPhiForm(x); !ok {
				if _, ok2 := isPhiForm(y); ok2 {
					x, y, op = y, x, flipOp(op)
				}
			}
			shift, ok := isPhiForm(x)
			if !ok {
				continue
			}
			g, ok := lc.of(y, 0)
			if !ok {
				continue
			}
			g.c -= shift // φ + shift OP g  ⇔  φ OP g − shift
			switch op {
			case token.LSS:
				u := lin{g.a, g.b, g.c - 1}
				if gr, ok := g.mod8(); ok && haveRes && gr == res {
					u = lin{g.a, g.b, g.c - 8} // same residue: strictly less means at least 8 less
				} else if step%8 == 0 {
					if d, ok := g.sub(init).mod8(); ok && d == 0 {
						u = lin{g.a, g.b, g.c - 8}
					}
				}
				uppers = append(uppers, u)
			case token.LEQ:
				uppers = append(uppers, g)
			case token.GEQ:
				lowers = append(lowers, g)
			case token.GTR:
				l := lin{g.a, g.b, g.c + 1}
				// same residue (the bound differs from the variable's start by a multiple of 8, and the step is
				// one): strictly greater means at least 8 greater
				if step%8 == 0 {
					if d, ok := g.sub(init).mod8(); ok && d == 0 {
						l = lin{g.a, g.b, g.c + 8}
					}
				}
				lowers = append(lowers, l)
			}
		}
		loOK, hiOK := false, false
		for _, l := range lowers {
			if (lin{l.a, l.b, l.c + off}).nonneg() {
				loOK = true
			}
		}
		for _, u := range uppers {
			// n - (u + off + width) >= 0
			if (lin{1, 0, 0}).sub(lin{u.a, u.b, u.c + off + width}).nonneg() {
				hiOK = true
			}
		}
		msg := fmt.Sprintf("i: init %s step %+d", init, step)
		if haveRes {
			msg += fmt.Sprintf(" (i ≡ %d mod 8)", res)
		}
		switch {
		case loOK && hiOK:
			c.ok("R-UNSAFE-BOUNDS", key, pos, msg+"; 0 ≤ i and i+"+fmt.Sprint(width)+" ≤ n proved")
		case !hiOK:
			c.bad("R-UNSAFE-BOUNDS", key, pos, msg+fmt.Sprintf("; cannot prove i%+d+%d ≤ len(data): the %d-byte access may read or write past the end of the slice (upper bounds known: %v)", off, width, width, uppers))
		default:
			c.bad("R-UNSAFE-BOUNDS", key, pos, msg+fmt.Sprintf("; cannot prove 0 ≤ i%+d: the access may start before the slice (lower bounds known: %v)", off, lowers))
		}
	}
	nSites := 0
	for _, fn := range P.PkgFuncs("mbits") {
		name := fnName(fn)
		allInstrs(fn, func(in ssa.Instruction) {
			cv, ok := in.(*ssa.Convert)
			if !ok || cv.Type().String() != "unsafe.Pointer" {
				return
			}
			c.sawFn(name)
			nSites++
			key := name + ":word access"
			ia, ok := cv.X.(*ssa.IndexAddr)
			if !ok {
				c.undecided("R-UNSAFE-BOUNDS", key, cv.Pos(), "unsafe.Pointer is not taken from an element address &data[i]")
				return
			}
			// width of the access: the pointer's target type
			width := int64(0)
			for _, r := range referrersOf(cv) {
				if cv2, ok := r.(*ssa.Convert); ok {
					if pt, ok := cv2.Type().Underlying().(*types.Pointer); ok {
						if bt, ok := pt.Elem().Underlying().(*types.Basic); ok {
							switch bt.Kind() {
							case types.Uint64, types.Int64:
								width = 8
							case types.Uint32, types.Int32:
								width = 4
							case types.Uint16, types.Int16:
								width = 2
							}
						}
					}
				}
			}
			if width == 0 {
				c.undecided("R-UNSAFE-BOUNDS", key, cv.Pos(), "width of the unsafe access not recognised")
				return
			}
			// a word VIEW instead of a single word: unsafe.Slice((*uintN)(unsafe.Pointer(&data[i])), count) spans width·count bytes
			var viewCount ssa.Value
			for _, r := range referrersOf(cv) {
				if cv2, ok := r.(*ssa.Convert); ok {
					for _, r2 := range referrersOf(cv2) {
						if call, ok := r2.(*ssa.Call); ok {
							if b, ok := call.Call.Value.(*ssa.Builtin); ok && b.Name() == "Slice" && len(call.Call.Args) == 2 && call.Call.Args[0] == ssa.Value(cv2) {
								viewCount = call.Call.Args[1]
							}
						}
					}
				}
			}
			if viewCount != nil {
				lc := &linCtx{data: ia.X}
				key2 := name + ":word view"
				if _, isParam := ia.X.(*ssa.Parameter); !isParam {
					c.undecided("R-UNSAFE-BOUNDS", key2, cv.Pos(), "the viewed slice is not the function's parameter")
					return
				}
				f, okI := lc.of(ia.Index, 0)
				// span in bytes: width · count, with count = len(data) >> 3 or len(data) / 8 giving n &^ 7 when width = 8
				var span lin
				okS := false
				if bo, ok := viewCount.(*ssa.BinOp); ok {
					if x, okx := lc.of(bo.X, 0); okx && x == (lin{1, 0, 0}) && width == 8 {
						if (bo.Op == token.SHR && isConstInt(bo.Y, 3)) || (bo.Op == token.QUO && isConstInt(bo.Y, 8)) {
							span, okS = lin{0, 1, 0}, true
						}
					}
				}
				if k, ok := constInt(viewCount); ok && k >= 0 {
					span, okS = lin{0, 0, k * width}, true
				}
				if !okI || !okS {
					c.undecided("R-UNSAFE-BOUNDS", key2, cv.Pos(), "start or length of the word view is not a form the analysis can bound: "+sym(ia.Index)+", "+sym(viewCount))
					return
				}
				lo := f.nonneg()
				hi := (lin{1, 0, 0}).sub(f).sub(span).nonneg()
				c.judge(lo && hi, "R-UNSAFE-BOUNDS", key2, cv.Pos(), "view ["+f.String()+", +"+span.String()+") within the slice", "the word view starting at "+f.String()+" and spanning "+span.String()+" bytes is not provably inside the slice")
				return
			}
			// the access may sit in a helper that receives the slice and the index: judge it at every call site
			if dp, ok := ia.X.(*ssa.Parameter); ok {
				if ip, ok := ia.Index.(*ssa.Parameter); ok && fn.Object() != nil && !fn.Object().Exported() {
					di, ii := -1, -1
					for k, p := range fn.Params {
						if p == dp {
							di = k
						}
						if p == ip {
							ii = k
						}
					}
					sites := 0
					escaped := false
					for _, caller := range P.PkgFuncs("mbits") {
						allInstrs(caller, func(in2 ssa.Instruction) {
							for _, op := range in2.Operands(nil) {
								if *op == ssa.Value(fn) {
									if call, ok := in2.(*ssa.Call); !ok || call.Call.Value != ssa.Value(fn) {
										escaped = true
									}
								}
							}
							call, ok := in2.(*ssa.Call)
							if !ok || origin(staticCallee(&call.Call)) != origin(fn) || P.isCanaryFn(caller) != P.isCanaryFn(fn) {
								return
							}
							sites++
							c.sawFn(fnName(caller))
							judgeAccess(fmt.Sprintf("%s:word access via %s", fnName(caller), fn.Name()), call.Pos(), call.Call.Args[di], call.Call.Args[ii], call.Block(), width)
						})
					}
					if escaped || sites == 0 {
						c.undecided("R-UNSAFE-BOUNDS", key, cv.Pos(), "the helper performing the unsafe access escapes or has no call site: its index cannot be judged")
					}
					return
				}
			}
			judgeAccess(key, cv.Pos(), ia.X, ia.Index, cv.Block(), width)
		})
	}
	c.Extra["unsafe_word_access_sites"] = nSites // zero would mean Go's own bounds checks cover everything; the canary keeps the matcher honest

	c.CanaryBad["R-UNSAFE-BOUNDS/mbits.verifCanaryOverread:word access"] = true
	c.CanaryOK["R-UNSAFE-BOUNDS/mbits.verifTwinInBounds:word access"] = true

	// ---- R-TRUNC-PREFIX
	if fn := P.Func("mstr", "", "Trunc"); fn != nil {
		c.sawFn(fnName(fn))
		s, n := fn.Params[0], fn.Params[1]
		// closure of n under decrement and phi
		var inClosure func(v ssa.Value, seen map[ssa.Value]bool) bool
		clamped := false // the cut point starts from min(n, len(s)): it can never exceed the length
		inClosure = func(v ssa.Value, seen map[ssa.Value]bool) bool {
			if v == ssa.Value(n) {
				return true
			}
			if mn, ok := isBuiltinCall(v, "min"); ok && len(mn.Call.Args) == 2 {
				isN := func(a ssa.Value) bool { return a == ssa.Value(n) }
				isLen := func(a ssa.Value) bool {
					ln, ok := isBuiltinCall(a, "len")
					return ok && ln.Call.Args[0] == ssa.Value(s)
				}
				if (isN(mn.Call.Args[0]) && isLen(mn.Call.Args[1])) || (isN(mn.Call.Args[1]) && isLen(mn.Call.Args[0])) {
					clamped = true
					return true
				}
			}
			if seen[v] {
				return true
			}
			seen[v] = true
			switch x := v.(type) {
			case *ssa.Phi:
				for _, e := range x.Edges {
					if !inClosure(e, seen) {
						return false
					}
				}
				return true
			case *ssa.BinOp:
				if k, ok := constInt(x.Y); ok && ((x.Op == token.SUB && k > 0) || (x.Op == token.ADD && k < 0)) {
					return inClosure(x.X, seen)
				}
			}
			return false
		}
		// helperMode: the second pass, over a private helper that computes the cut point from (s, n) — s[:cutPoint(s, n)]
		helperMode, cutAtEntry, kpfx := false, false, "mstr.Trunc"
		var pendingHelper *ssa.Call
		var visitor func(in ssa.Instruction)
		visitor = func(in ssa.Instruction) {
			switch x := in.(type) {
			case *ssa.Return:
				if helperMode {
					var ls []ssa.Value
					phiLeaves(x.Results[0], nil, map[ssa.Value]bool{}, &ls)
					for _, r := range ls {
						c.judge(inClosure(r, map[ssa.Value]bool{}), "R-TRUNC-PREFIX", kpfx+":return "+ksym(r), x.Pos(), "a cut point reached from n by decrements only", "the helper hands back "+ksym(r)+", which is not obtained from its argument n by decrements only: the cut point may exceed n")
					}
					return
				}
				// a single exit that returns "s or the cut s" is a φ of the two: each is judged as if returned
				var leaves []ssa.Value
				phiLeaves(x.Results[0], nil, map[ssa.Value]bool{}, &leaves)
				for _, r := range leaves {
					key := "mstr.Trunc:return " + ksym(r)
					if r == ssa.Value(s) {
						c.ok("R-TRUNC-PREFIX", key, x.Pos(), "returns s itself")
						continue
					}
					sl, ok := r.(*ssa.Slice)
					if !ok || sl.X != ssa.Value(s) {
						c.bad("R-TRUNC-PREFIX", key, x.Pos(), "returns something other than s or a slice of s")
						continue
					}
					var probs []string
					if sl.Low != nil && !isConstInt(sl.Low, 0) {
						probs = append(probs, "the result does not start at offset 0 (not a prefix)")
					}
					if hc, isCall := sl.High.(*ssa.Call); isCall && sl.High != nil {
						if cal := origin(staticCallee(&hc.Call)); cal != nil && cal.Blocks != nil && cal.Pkg == origin(fn).Pkg && len(hc.Call.Args) == 2 && hc.Call.Args[0] == ssa.Value(s) && hc.Call.Args[1] == ssa.Value(n) && len(cal.Params) == 2 {
							pendingHelper = hc
						}
					}
					if sl.High == nil {
						probs = append(probs, "no upper bound")
					} else if pendingHelper != nil && ssa.Value(pendingHelper) == sl.High {
						// judged in the helper, below
					} else if !inClosure(sl.High, map[ssa.Value]bool{}) {
						probs = append(probs, "the cut point "+sym(sl.High)+" is not obtained from n by decrements only (it may exceed n)")
					}
					// under the fact n < len(s)
					db := factsDBAt(sl.Block())
					ls := "len(" + sym(s) + ")"
					if !(db.has(sym(n), token.LSS, ls) || db.has(sym(n), token.LEQ, ls)) && !clamped {
						probs = append(probs, "slicing is reachable without n < len(s): s[:n] can panic")
					}
					c.judge(len(probs) == 0, "R-TRUNC-PREFIX", key, x.Pos(), "prefix cut at a point ≤ n < len(s)", fmt.Sprint(probs))
				}
			case *ssa.BinOp:
				// a step back of the cut point happens only when the string really has to be cut (n < len(s)):
				// for n ≥ len(s) the result is s itself, whatever its last character is
				if k, ok := constInt(x.Y); ok && x.Op == token.SUB && k > 0 && isIntType(x.Type()) && inClosure(x.X, map[ssa.Value]bool{}) {
					used := false
					for _, r := range referrersOf(x) {
						switch r.(type) {
						case *ssa.Phi, *ssa.Slice:
							used = true
						}
					}
					if !used {
						return // h-1 as an index, not a new cut point
					}
					db := factsDBAt(x.Block())
					ls := "len(" + sym(s) + ")"
					cutting := cutAtEntry || db.has(sym(n), token.LSS, ls)
					// … or the clamped start min(n, len(s)) is known to differ from len(s), which is the same thing
					for _, cm := range cmpsAt(x.Block()) {
						for _, pr := range [][2]ssa.Value{{cm.X, cm.Y}, {cm.Y, cm.X}} {
							mn, ok1 := isBuiltinCall(pr[0], "min")
							ln, ok2 := isBuiltinCall(pr[1], "len")
							if ok1 && ok2 && ln.Call.Args[0] == ssa.Value(s) && inClosure(mn, map[ssa.Value]bool{}) && (cm.Op == token.NEQ || (cm.Op == token.LSS && pr[0] == cm.X) || (cm.Op == token.GTR && pr[0] == cm.Y)) {
								cutting = true
							}
						}
					}
					c.judge(cutting, "R-TRUNC-PREFIX", kpfx+":backs up only when cutting", x.Pos(), "under n < len(s)", "the cut point is moved back on a path where n < len(s) is not known: for n ≥ len(s) the whole string must be returned, but a string ending in a multi-byte character loses it")
				}
			case *ssa.Index:
				// s[h-1] on a string
				if x.X != ssa.Value(s) {
					return
				}
				key := kpfx + ":index " + ksym(x.Index)
				bo, ok := x.Index.(*ssa.BinOp)
				if !ok || bo.Op != token.SUB || !isConstInt(bo.Y, 1) || !inClosure(bo.X, map[ssa.Value]bool{}) {
					c.undecided("R-TRUNC-PREFIX", key, x.Pos(), "index is not h−1 for a cut point h")
					return
				}
				db := factsDBAt(x.Block())
				c.judge(db.pos(sym(bo.X), 0), "R-TRUNC-PREFIX", key, x.Pos(), "guarded by h > 0", "s[h-1] is read without h > 0: index -1 panics for n that backs up to 0")
			}
		}
		allInstrs(fn, visitor)
		if pendingHelper != nil {
			h := origin(staticCallee(&pendingHelper.Call))
			db := factsDBAt(pendingHelper.Block())
			cutAtEntry = db.has(sym(n), token.LSS, "len("+sym(s)+")")
			helperMode, kpfx = true, "mstr.Trunc via "+h.Name()
			s, n = h.Params[0], h.Params[1]
			c.sawFn(fnName(h))
			allInstrs(h, visitor)
		}
	} else {
		c.undecided("ANCHOR", "mstr.Trunc", 0, "not found")
	}

	// ---- R-CMP-RANGE
	if fn := P.Func("mstr", "", "CompareNatural"); fn != nil {
		c.sawFn(fnName(fn))
		var okVal func(v ssa.Value, seen map[ssa.Value]bool) (bool, string)
		seenFn := map[*ssa.Function]bool{}
		okVal = func(v ssa.Value, seen map[ssa.Value]bool) (bool, string) {
			if seen[v] {
				return true, ""
			}
			seen[v] = true
			switch x := v.(type) {
			case *ssa.Const:
				if k, ok := constInt(x); ok && k >= -1 && k <= 1 {
					return true, ""
				}
				return false, "constant outside {-1,0,1}"
			case *ssa.Call:
				if x.Call.StaticCallee() == nil && !x.Call.IsInvoke() {
					// a comparison chosen at run time among named functions (compare := cmp.Compare; if … { compare = f })
					var fs []*ssa.Function
					var leaves func(w ssa.Value, d int) bool
					leaves = func(w ssa.Value, d int) bool {
						if d > 4 {
							return false
						}
						switch y := w.(type) {
						case *ssa.Function:
							fs = append(fs, y)
							return true
						case *ssa.Phi:
							for _, e := range y.Edges {
								if !leaves(e, d+1) {
									return false
								}
							}
							return true
						case *ssa.ChangeType:
							return leaves(y.X, d+1)
						}
						return false
					}
					if leaves(x.Call.Value, 0) && len(fs) > 0 {
						for _, f := range fs {
							o := origin(f)
							inRange := o.Pkg != nil && (o.Pkg.Pkg.Path() == "cmp" || o.Pkg.Pkg.Path() == "strings" || o.Pkg.Pkg.Path() == "bytes") && o.Name() == "Compare"
							if !inRange && o.Pkg == fn.Pkg && o.Blocks != nil && !seenFn[o] {
								seenFn[o] = true
								inRange = true
								allInstrs(o, func(in2 ssa.Instruction) {
									if ret, ok := in2.(*ssa.Return); ok && len(ret.Results) == 1 && inRange {
										if ok2, _ := okVal(ret.Results[0], seen); !ok2 {
											inRange = false
										}
									}
								})
								delete(seenFn, o)
							}
							if !inRange {
								return false, "result of " + o.Name() + " (one of the functions the call can reach)"
							}
						}
						return true, ""
					}
				}
				if cal := x.Call.StaticCallee(); cal != nil {
					o := origin(cal)
					if o.Pkg != nil && o.Pkg.Pkg.Path() == "cmp" && o.Name() == "Compare" {
						return true, ""
					}
					if o == fn {
						return true, ""
					}
					// strings.Compare and bytes.Compare answer in {-1,0,1} too
					if o.Pkg != nil && (o.Pkg.Pkg.Path() == "strings" || o.Pkg.Pkg.Path() == "bytes") && o.Name() == "Compare" {
						return true, ""
					}
					// a helper of the same package all of whose results are in range
					if o.Pkg == fn.Pkg && o.Blocks != nil && o.Signature.Results().Len() == 1 && !seenFn[o] {
						seenFn[o] = true
						good, why := true, ""
						allInstrs(o, func(in2 ssa.Instruction) {
							if ret, ok := in2.(*ssa.Return); ok && len(ret.Results) == 1 && good {
								if ok2, w := okVal(ret.Results[0], seen); !ok2 {
									good, why = false, "helper "+o.Name()+": "+w
								}
							}
						})
						delete(seenFn, o)
						return good, why
					}
				}
				return false, "result of " + x.Call.Value.Name()
			case *ssa.Phi:
				for _, e := range x.Edges {
					if ok, why := okVal(e, seen); !ok {
						return false, why
					}
				}
				return true, ""
			case *ssa.UnOp:
				if x.Op == token.SUB {
					return okVal(x.X, seen)
				}
			}
			return false, "value " + sym(v) + " is not a cmp.Compare result"
		}
		allInstrs(fn, func(in ssa.Instruction) {
			if ret, ok := in.(*ssa.Return); ok && len(ret.Results) == 1 {
				good, why := okVal(ret.Results[0], map[ssa.Value]bool{})
				c.judge(good, "R-CMP-RANGE", "mstr.CompareNatural:return "+ksym(ret.Results[0]), ret.Pos(), "in {-1,0,1}", "CompareNatural can return a value outside {-1,0,1}: "+why)
			}
		})
	} else {
		c.undecided("ANCHOR", "mstr.CompareNatural", 0, "not found")
	}
	ruleCmpChain(c)
}

// ruleCmpChain (R-CMP-CHAIN): CompareNatural and the helpers it reaches compare piecewise: "if this piece decides,
// return its verdict, otherwise go on to the next piece".  Where the result c of a comparison call is returned
// under a test of c itself, that test must let both signs through (c != 0); a one-sided test (c > 0, c < 0, c == 1)
// sends the other sign on to a later piece, which then decides an order the earlier piece had already decided
// the other way.
func ruleCmpChain(c *Ctx) {
	c.rule("R-CMP-CHAIN", 0, "in CompareNatural's scope a comparison result returned under a test of itself is returned for both signs (c != 0)")
	fn := c.P.Func("mstr", "", "CompareNatural")
	if fn == nil {
		return
	}
	// the scope: what CompareNatural calls, and the package functions it uses as values (a comparison chosen
	// among named functions)
	scope := append([]*ssa.Function{}, buildCallScope(fn).fns...)
	inScope := map[*ssa.Function]bool{}
	for _, f := range scope {
		inScope[f] = true
	}
	for i := 0; i < len(scope) && i < 64; i++ {
		allInstrs(scope[i], func(in ssa.Instruction) {
			for _, op := range in.Operands(nil) {
				if op == nil || *op == nil {
					continue
				}
				if g, ok := (*op).(*ssa.Function); ok && g.Pkg == fn.Pkg && g.Blocks != nil && !inScope[g] {
					inScope[g] = true
					scope = append(scope, g)
				}
			}
		})
	}
	for _, f := range scope {
		if f.Pkg != fn.Pkg || f.Signature.Results().Len() != 1 || !isIntType(f.Signature.Results().At(0).Type()) {
			continue
		}
		f := f
		n := 0
		allInstrs(f, func(in ssa.Instruction) {
			ret, ok := in.(*ssa.Return)
			if !ok || len(ret.Results) != 1 {
				return
			}
			call, ok := ret.Results[0].(*ssa.Call)
			if !ok || !isIntType(call.Type()) {
				return
			}
			for _, cm := range cmpsAt(ret.Block()) {
				x, y, op := cm.X, cm.Y, cm.Op
				if y == ssa.Value(call) {
					x, y, op = y, x, flipOp(op)
				}
				if x != ssa.Value(call) {
					continue
				}
				k, isK := constInt(y)
				if !isK {
					continue
				}
				n++
				c.sawFn(fnName(f))
				// inside a loop over the pieces: when this piece is a tie (c == 0) the walk goes round to the next
				// piece — the tie edge does not leave the loop
				if op == token.NEQ && k == 0 {
					{
						// the branch that guards this return
						for _, pb := range ret.Block().Preds {
							iff, ok := pb.Instrs[len(pb.Instrs)-1].(*ssa.If)
							if !ok || len(pb.Succs) != 2 {
								continue
							}
							var hdr *ssa.BasicBlock
							for _, b := range f.Blocks {
								isH := false
								for _, p := range b.Preds {
									if b.Dominates(p) {
										isH = true
									}
								}
								if isH && b.Dominates(pb) && (hdr == nil || hdr.Dominates(b)) {
									hdr = b
								}
							}
							if hdr == nil {
								continue
							}
							// where the loop goes when its own condition ends it
							exits := map[*ssa.BasicBlock]bool{}
							for _, sc := range hdr.Succs {
								if !loopBlocks(hdr)[sc] {
									exits[sc] = true
								}
							}
							if len(exits) == 0 {
								continue
							}
							tie := pb.Succs[1]
							if pb.Succs[1] == ret.Block() {
								tie = pb.Succs[0]
							}
							_ = iff
							leaves := false
							seenB := map[*ssa.BasicBlock]bool{}
							var walk func(b *ssa.BasicBlock)
							walk = func(b *ssa.BasicBlock) {
								if seenB[b] || b == hdr {
									return
								}
								seenB[b] = true
								if exits[b] {
									leaves = true
									return
								}
								for _, sc := range b.Succs {
									walk(sc)
								}
							}
							walk(tie)
							c.judge(!leaves, "R-CMP-CHAIN", fmt.Sprintf("%s:tie of %s #%d goes on", fnName(f), ksym(call), n), ret.Pos(), "after a tie the loop takes the next piece", fmt.Sprintf("when %s is a tie the loop is left instead of going on to the next piece: what follows is compared as plain text, so later numeric runs are ordered lexically", ksym(call)))
						}
					}
				}
				c.judge(op == token.NEQ && k == 0, "R-CMP-CHAIN", fmt.Sprintf("%s:verdict of %s #%d", fnName(f), ksym(call), n), ret.Pos(), "returned whenever it is not 0", fmt.Sprintf("the verdict of %s is returned only when it is %s %d: the other sign is passed on to the next comparison, which can contradict it (the order is no longer consistent)", ksym(call), op, k))
			}
		})
	}
}
