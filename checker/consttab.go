package main

// E-const: reading package-level constant tables out of the typed AST.  The
// literal is read; no code of the repository is run.

import (
	"fmt"
	"go/ast"
	"go/constant"
	"go/token"
	"go/types"

	"golang.org/x/tools/go/packages"
	"golang.org/x/tools/go/ssa"
)

// pkgVarInit finds the initializer expression of a package-level variable.
func pkgVarInit(p *packages.Package, name string) (ast.Expr, token.Pos) {
	for _, f := range p.Syntax {
		for _, d := range f.Decls {
			gd, ok := d.(*ast.GenDecl)
			if !ok || gd.Tok != token.VAR {
				continue
			}
			for _, s := range gd.Specs {
				vs := s.(*ast.ValueSpec)
				for i, n := range vs.Names {
					if n.Name == name && i < len(vs.Values) {
						return vs.Values[i], n.Pos()
					}
				}
			}
		}
	}
	return nil, token.NoPos
}

func constIntOf(info *types.Info, e ast.Expr) (int64, bool) {
	tv, ok := info.Types[e]
	if !ok || tv.Value == nil {
		return 0, false
	}
	v := constant.ToInt(tv.Value)
	if v.Kind() != constant.Int {
		return 0, false
	}
	i, ok := constant.Int64Val(v)
	return i, ok
}

// litElems enumerates (index, element expr) of an array/slice composite
// literal with optional constant keys.
func litElems(info *types.Info, cl *ast.CompositeLit) ([]int64, []ast.Expr, error) {
	var idx []int64
	var els []ast.Expr
	next := int64(0)
	for _, e := range cl.Elts {
		if kv, ok := e.(*ast.KeyValueExpr); ok {
			k, ok := constIntOf(info, kv.Key)
			if !ok {
				return nil, nil, fmt.Errorf("non-constant key at %v", kv.Key.Pos())
			}
			next = k
			e = kv.Value
		}
		idx = append(idx, next)
		els = append(els, e)
		next++
	}
	return idx, els, nil
}

// constsOfType lists package-level constants of the named type: value -> name.
func constsOfType(p *packages.Package, typeName string) (map[int64]string, map[string]int64) {
	byVal, byName := map[int64]string{}, map[string]int64{}
	sc := p.Types.Scope()
	for _, n := range sc.Names() {
		c, ok := sc.Lookup(n).(*types.Const)
		if !ok {
			continue
		}
		nt, ok := c.Type().(*types.Named)
		if !ok || nt.Obj().Name() != typeName || nt.Obj().Pkg() != p.Types {
			continue
		}
		if v, ok := constant.Int64Val(constant.ToInt(c.Val())); ok {
			byVal[v] = n
			byName[n] = v
		}
	}
	return byVal, byName
}

// ---------------------------------------------------------------- mini evaluator

// evalCtx evaluates a side-effect-free fragment of SSA over constants, with
// loads of designated fields replaced by given constants.  It is constant
// propagation on a finite domain, used to read predicates such as
// `st == stBreak || st == stWord` as sets.
type evalCtx struct {
	fieldVal func(f *types.Var) (constant.Value, bool)
	env      map[ssa.Value]constant.Value
	steps    int
	depth    int
	// pkgFuncs: the source functions of the package under evaluation (when given, loads of constant indices of a
	// package-level array that only its initialiser writes are read from the initialiser)
	pkgFuncs []*ssa.Function
}

// globalElem: the value of g[k] for a package-level array g whose only writes are the constant element stores of
// the package initialiser (var t = [...]bool{a: true, b: true}); ok is false when anything else writes g.
func (e *evalCtx) globalElem(g *ssa.Global, k int64) (constant.Value, bool) {
	arr, isArr := g.Type().(*types.Pointer).Elem().Underlying().(*types.Array)
	if !isArr || g.Pkg == nil || e.pkgFuncs == nil || k < 0 || k >= arr.Len() {
		return nil, false
	}
	eb, isBasic := arr.Elem().Underlying().(*types.Basic)
	if !isBasic {
		return nil, false
	}
	var val constant.Value
	switch {
	case eb.Info()&types.IsBoolean != 0:
		val = constant.MakeBool(false)
	case eb.Info()&types.IsInteger != 0:
		val = constant.MakeInt64(0)
	default:
		return nil, false
	}
	clean := true
	scan := func(fn *ssa.Function, isInit bool) {
		allInstrs(fn, func(in ssa.Instruction) {
			st, ok := in.(*ssa.Store)
			if !ok {
				// the array handed out by address or sliced: anything may write it
				for _, op := range in.Operands(nil) {
					if op != nil && *op == ssa.Value(g) {
						if _, isIA := in.(*ssa.IndexAddr); !isIA {
							if u, isLd := in.(*ssa.UnOp); !isLd || u.Op != token.MUL {
								clean = false
							}
						}
					}
				}
				return
			}
			if st.Addr == ssa.Value(g) {
				clean = false
				return
			}
			ia, ok := st.Addr.(*ssa.IndexAddr)
			if !ok || ia.X != ssa.Value(g) {
				return
			}
			ki, okK := constInt(ia.Index)
			cv, okV := st.Val.(*ssa.Const)
			if !isInit || !okK || !okV || cv.Value == nil {
				clean = false
				return
			}
			if ki == k {
				val = cv.Value
			}
		})
	}
	if init := g.Pkg.Func("init"); init != nil {
		scan(init, true)
	}
	for _, fn := range e.pkgFuncs {
		for _, f := range withClosures(fn) {
			scan(f, false)
		}
	}
	return val, clean
}

func (e *evalCtx) val(v ssa.Value, pred *ssa.BasicBlock) (constant.Value, error) {
	if c, ok := e.env[v]; ok {
		return c, nil
	}
	switch x := v.(type) {
	case *ssa.Const:
		if x.Value == nil {
			return nil, fmt.Errorf("nil constant")
		}
		return x.Value, nil
	case *ssa.UnOp:
		if x.Op == token.MUL {
			if fa, ok := x.X.(*ssa.FieldAddr); ok {
				_, f := fieldVarOf(fa)
				if c, ok := e.fieldVal(f); ok {
					return c, nil
				}
			}
			if ia, ok := x.X.(*ssa.IndexAddr); ok {
				if g, ok := ia.X.(*ssa.Global); ok {
					if kv, err := e.val(ia.Index, pred); err == nil {
						if k, ok := constant.Int64Val(constant.ToInt(kv)); ok {
							if c, ok := e.globalElem(g, k); ok {
								return c, nil
							}
						}
					}
				}
			}
			return nil, fmt.Errorf("load of unknown location %s", sym(x))
		}
		a, err := e.val(x.X, pred)
		if err != nil {
			return nil, err
		}
		if x.Op == token.NOT {
			return constant.MakeBool(!constant.BoolVal(a)), nil
		}
		return constant.UnaryOp(x.Op, a, 0), nil
	case *ssa.BinOp:
		a, err := e.val(x.X, pred)
		if err != nil {
			return nil, err
		}
		b, err := e.val(x.Y, pred)
		if err != nil {
			return nil, err
		}
		switch x.Op {
		case token.EQL, token.NEQ, token.LSS, token.LEQ, token.GTR, token.GEQ:
			return constant.MakeBool(constant.Compare(a, x.Op, b)), nil
		}
		return constant.BinaryOp(a, x.Op, b), nil
	case *ssa.Convert:
		return e.val(x.X, pred)
	case *ssa.ChangeType:
		return e.val(x.X, pred)
	case *ssa.Call:
		// a helper that is itself a side-effect-free fragment over constants (st.balanced()): evaluated with its
		// parameters bound to the arguments' values; any store or further unknown call inside it is an error
		cal := x.Call.StaticCallee()
		if cal == nil || cal.Blocks == nil || e.depth > 3 || len(cal.Params) != len(x.Call.Args) {
			return nil, fmt.Errorf("side effect in evaluated fragment at %v", x)
		}
		sub := &evalCtx{fieldVal: e.fieldVal, env: map[ssa.Value]constant.Value{}, depth: e.depth + 1, pkgFuncs: e.pkgFuncs}
		for i, a := range x.Call.Args {
			c, err := e.val(a, pred)
			if err != nil {
				// an argument that is not a constant (the receiver pointer) is simply left unbound
				continue
			}
			sub.env[cal.Params[i]] = c
		}
		res, err := sub.run(cal.Blocks[0], nil)
		if err != nil {
			return nil, err
		}
		if len(res) != 1 {
			return nil, fmt.Errorf("helper %s does not return one value", cal.Name())
		}
		e.steps += sub.steps
		return res[0], nil
	}
	return nil, fmt.Errorf("cannot evaluate %T %s", v, v.Name())
}

// run interprets from block b (entered from pred) to a Return; returns the
// constant values returned.
func (e *evalCtx) run(b, pred *ssa.BasicBlock) ([]constant.Value, error) {
	for {
		e.steps++
		if e.steps > 200 {
			return nil, fmt.Errorf("evaluation does not terminate")
		}
		// phis first
		for _, in := range b.Instrs {
			ph, ok := in.(*ssa.Phi)
			if !ok {
				break
			}
			found := false
			for i, p := range b.Preds {
				if p == pred {
					c, err := e.val(ph.Edges[i], pred)
					if err != nil {
						return nil, err
					}
					e.env[ph] = c
					found = true
					break
				}
			}
			if !found {
				return nil, fmt.Errorf("phi without matching predecessor")
			}
		}
		last := b.Instrs[len(b.Instrs)-1]
		for _, in := range b.Instrs {
			switch y := in.(type) {
			case *ssa.Call:
				if cal := y.Call.StaticCallee(); cal != nil && cal.Blocks != nil && y.Parent() != nil && cal.Pkg == y.Parent().Pkg && cal.Signature.Results().Len() == 1 {
					// evaluated here (and thereby checked for effects), whether or not its value is used
					c, err := e.val(y, pred)
					if err != nil {
						return nil, err
					}
					e.env[y] = c
					continue
				}
				return nil, fmt.Errorf("side effect in evaluated fragment at %v", in)
			case *ssa.Store, ssa.CallInstruction, *ssa.MapUpdate:
				return nil, fmt.Errorf("side effect in evaluated fragment at %v", in)
			}
		}
		switch t := last.(type) {
		case *ssa.Return:
			var out []constant.Value
			for _, r := range t.Results {
				c, err := e.val(r, pred)
				if err != nil {
					return nil, err
				}
				out = append(out, c)
			}
			return out, nil
		case *ssa.Jump:
			pred, b = b, b.Succs[0]
		case *ssa.If:
			c, err := e.val(t.Cond, pred)
			if err != nil {
				return nil, err
			}
			if constant.BoolVal(c) {
				pred, b = b, b.Succs[0]
			} else {
				pred, b = b, b.Succs[1]
			}
		default:
			return nil, fmt.Errorf("unsupported terminator %T", last)
		}
	}
}
