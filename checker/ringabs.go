package main

// Abstract interpretation of queue.Queue's ring arithmetic.
//
// Every integer is abstracted by an interval whose bounds are linear in
// L = len(q.vs) of the CURRENT buffer:  a·L + b.  Each root method is analysed
// twice: with L = 0 (the zero value / cleared queue) and with L ≥ 1.  The
// analysis tracks the abstract contents of the fields head and n, prunes
// infeasible branches, re-expresses all bounds when the buffer is replaced
// (growth: L' ≥ L+1; reset to nil: L' = 0), follows calls to other methods of
// the same queue (and closures capturing it), and checks
//   - every index into q.vs lies in [0, L-1]; every slice of it is within [0, L];
//   - every remainder/division by len(q.vs) happens with L ≥ 1;
//   - at every return 0 ≤ n ≤ L and 0 ≤ head ≤ max(L-1, 0).
// Bit masks are deliberately not modelled (x & m is only a wrap when the
// length is a power of two, which nothing guarantees).

import (
	"fmt"
	"go/constant"
	"go/token"
	"go/types"

	"golang.org/x/tools/go/ssa"
)

type rbound struct {
	a, b int64
	inf  int8 // -1: -inf, +1: +inf
}

func rconst(k int64) rbound { return rbound{0, k, 0} }

var (
	rNegInf = rbound{inf: -1}
	rPosInf = rbound{inf: 1}
	rL      = rbound{1, 0, 0}
	rLm1    = rbound{1, -1, 0}
)

func (x rbound) String() string {
	switch {
	case x.inf < 0:
		return "-∞"
	case x.inf > 0:
		return "+∞"
	case x.a == 0:
		return fmt.Sprint(x.b)
	case x.b == 0 && x.a == 1:
		return "L"
	case x.b == 0:
		return fmt.Sprintf("%d·L", x.a)
	case x.a == 1:
		return fmt.Sprintf("L%+d", x.b)
	}
	return fmt.Sprintf("%d·L%+d", x.a, x.b)
}

type rival struct{ lo, hi rbound }

func (v rival) String() string { return "[" + v.lo.String() + ", " + v.hi.String() + "]" }

var rTop = rival{rNegInf, rPosInf}

func rexact(b rbound) rival { return rival{b, b} }

type rctx struct{ lzero bool } // lzero: L == 0 exactly; else L >= 1

func (c rctx) norm(x rbound) rbound {
	if c.lzero && x.inf == 0 {
		return rbound{0, x.b, 0}
	}
	return x
}

func (c rctx) normIv(v rival) rival { return rival{c.norm(v.lo), c.norm(v.hi)} }

// leq: x <= y for every admissible L.
func (c rctx) leq(x, y rbound) bool {
	if x.inf < 0 || y.inf > 0 {
		return true
	}
	if x.inf > 0 || y.inf < 0 {
		return false
	}
	x, y = c.norm(x), c.norm(y)
	da, db := y.a-x.a, y.b-x.b
	if c.lzero {
		return db >= 0
	}
	return da >= 0 && da+db >= 0 // L >= 1
}

func radd(x, y rbound) rbound {
	if x.inf != 0 {
		return x
	}
	if y.inf != 0 {
		return y
	}
	return rbound{x.a + y.a, x.b + y.b, 0}
}

func rneg(x rbound) rbound {
	if x.inf != 0 {
		return rbound{inf: -x.inf}
	}
	return rbound{-x.a, -x.b, 0}
}

func (c rctx) minB(x, y rbound) rbound {
	if c.leq(x, y) {
		return x
	}
	if c.leq(y, x) {
		return y
	}
	return x // incomparable: keeping either is sound for a refinement
}

func (c rctx) maxB(x, y rbound) rbound {
	if c.leq(x, y) {
		return y
	}
	if c.leq(y, x) {
		return x
	}
	return x
}

var rUpperCands = []rbound{{0, 0, 0}, {0, 1, 0}, {1, -2, 0}, {1, -1, 0}, {1, 0, 0}, {2, -2, 0}, {2, -1, 0}, {2, 0, 0}}
var rLowerCands = []rbound{{1, 0, 0}, {0, 1, 0}, {0, 0, 0}, {0, -1, 0}, {-1, 0, 0}}

func (c rctx) join(x, y rival) rival {
	var r rival
	switch {
	case c.leq(x.lo, y.lo):
		r.lo = x.lo
	case c.leq(y.lo, x.lo):
		r.lo = y.lo
	default:
		r.lo = rNegInf
		for _, cand := range rLowerCands {
			if c.leq(cand, x.lo) && c.leq(cand, y.lo) {
				r.lo = cand
				break
			}
		}
	}
	switch {
	case c.leq(x.hi, y.hi):
		r.hi = y.hi
	case c.leq(y.hi, x.hi):
		r.hi = x.hi
	default:
		r.hi = rPosInf
		for _, cand := range rUpperCands {
			if c.leq(x.hi, cand) && c.leq(y.hi, cand) {
				r.hi = cand
				break
			}
		}
	}
	return r
}

// same: the two intervals denote the same set for every admissible L
func (c rctx) same(x, y rival) bool {
	return c.leq(x.lo, y.lo) && c.leq(y.lo, x.lo) && c.leq(x.hi, y.hi) && c.leq(y.hi, x.hi)
}

func (c rctx) empty(v rival) bool {
	if v.lo.inf > 0 || v.hi.inf < 0 {
		return true
	}
	return v.lo.inf == 0 && v.hi.inf == 0 && c.leq(radd(v.hi, rconst(1)), v.lo)
}

func (c rctx) refineIv(X, Y rival, op token.Token) (rival, rival) {
	switch op {
	case token.LSS:
		X.hi = c.minB(X.hi, radd(Y.hi, rconst(-1)))
		Y.lo = c.maxB(Y.lo, radd(X.lo, rconst(1)))
	case token.LEQ:
		X.hi = c.minB(X.hi, Y.hi)
		Y.lo = c.maxB(Y.lo, X.lo)
	case token.GTR:
		X.lo = c.maxB(X.lo, radd(Y.lo, rconst(1)))
		Y.hi = c.minB(Y.hi, radd(X.hi, rconst(-1)))
	case token.GEQ:
		X.lo = c.maxB(X.lo, Y.lo)
		Y.hi = c.minB(Y.hi, X.hi)
	case token.EQL:
		lo, hi := c.maxB(X.lo, Y.lo), c.minB(X.hi, Y.hi)
		X, Y = rival{lo, hi}, rival{lo, hi}
	case token.NEQ:
		trim := func(A, B rival) rival {
			if B.lo.inf == 0 && B.hi.inf == 0 && c.norm(B.lo) == c.norm(B.hi) {
				if A.lo.inf == 0 && c.norm(A.lo) == c.norm(B.lo) {
					A.lo = radd(A.lo, rconst(1))
				}
				if A.hi.inf == 0 && c.norm(A.hi) == c.norm(B.hi) {
					A.hi = radd(A.hi, rconst(-1))
				}
			}
			return A
		}
		X, Y = trim(X, Y), trim(Y, X)
	}
	return X, Y
}

func (c rctx) decideIv(X, Y rival, op token.Token) (mustTrue, mustFalse bool) {
	lt := func(A, B rival) bool { return A.hi.inf == 0 && B.lo.inf == 0 && c.leq(radd(A.hi, rconst(1)), B.lo) }
	le := func(A, B rival) bool { return A.hi.inf == 0 && B.lo.inf == 0 && c.leq(A.hi, B.lo) }
	eq := func() bool {
		return X.lo.inf == 0 && X.hi.inf == 0 && Y.lo.inf == 0 && Y.hi.inf == 0 && c.norm(X.lo) == c.norm(X.hi) && c.norm(Y.lo) == c.norm(Y.hi) && c.norm(X.lo) == c.norm(Y.lo)
	}
	switch op {
	case token.LSS:
		return lt(X, Y), le(Y, X)
	case token.LEQ:
		return le(X, Y), lt(Y, X)
	case token.GTR:
		return lt(Y, X), le(X, Y)
	case token.GEQ:
		return le(Y, X), lt(X, Y)
	case token.EQL:
		return eq(), lt(X, Y) || lt(Y, X)
	case token.NEQ:
		return lt(X, Y) || lt(Y, X), eq()
	}
	return false, false
}

// ---------------------------------------------------------------- position classes

// rcls is the residue class of an integer modulo L, as a linear form over the
// entry values H (head) and N (n) of the root method, at most one further
// root value r (a parameter or a loop-carried φ), and a constant; multiples of
// L are dropped.
type rcls struct {
	ok      bool
	h, n, k int64
	r       ssa.Value
	rc      int64
}

func clsConst(k int64) rcls { return rcls{ok: true, k: k} }

func (a rcls) add(b rcls, sign int64) rcls {
	if !a.ok || !b.ok {
		return rcls{}
	}
	out := rcls{ok: true, h: a.h + sign*b.h, n: a.n + sign*b.n, k: a.k + sign*b.k, r: a.r, rc: a.rc}
	switch {
	case b.r == nil:
	case out.r == nil:
		out.r, out.rc = b.r, sign*b.rc
	case out.r == b.r:
		out.rc += sign * b.rc
	default:
		return rcls{}
	}
	if out.rc == 0 {
		out.r = nil
	}
	return out
}

func (a rcls) scale(k int64) rcls {
	if !a.ok {
		return a
	}
	a.h, a.n, a.k, a.rc = a.h*k, a.n*k, a.k*k, a.rc*k
	if a.rc == 0 {
		a.r = nil
	}
	return a
}

func (a rcls) String() string {
	if !a.ok {
		return "?"
	}
	out := ""
	term := func(c int64, name string) {
		if c == 0 {
			return
		}
		switch {
		case c == 1:
			out += "+" + name
		case c == -1:
			out += "-" + name
		default:
			out += fmt.Sprintf("%+d·%s", c, name)
		}
	}
	term(a.h, "head₀")
	term(a.n, "n₀")
	if a.r != nil {
		term(a.rc, ksym(a.r))
	}
	if a.k != 0 || out == "" {
		out += fmt.Sprintf("%+d", a.k)
	}
	if len(out) > 0 && out[0] == '+' {
		out = out[1:]
	}
	return out
}

// ---------------------------------------------------------------- state

type rstate struct {
	env              map[ssa.Value]rival
	cls              map[ssa.Value]rcls
	head, n          rival
	headC, nC        rcls
	headSrc, nSrc    ssa.Value // SSA value last stored to the field (for backward refinement)
	Hiv, Niv         rival     // what is known about the entry values on this path
	hver, nver, vver int
	fieldOf          map[ssa.Value]*types.Var
	loadVer          map[ssa.Value]int
	ub               map[ssa.Value]ssa.Value
	lzero            bool
	unreach          bool
	lchanged         int
	rotated          bool
	grownOK          bool // the buffer was extended exactly when full with head 0: slot classes restart with head₀ = 0
	grewBy           int64
	ltN              map[rcls]bool // classes of values known to be < n (the entry value, n not yet changed)
	geZ              map[rcls]bool // classes of values known to be ≥ 0
	zeroC            map[rcls]bool // classes known to be ≡ 0 (mod L): a value of class c was found equal to k ⇒ c − k
	paramArg         map[ssa.Value]ssa.Value // helper parameter → the caller's argument (refinements flow back)
	phiSrc           map[ssa.Value]ssa.Value // path enumeration only: the edge value a φ took on this path
	ret              rival
	retC             rcls
	hasRet           bool
	retB             map[int]rival // boolean results of the helper just returned from, by result index, when known exactly
}

func newRState(lzero bool) *rstate {
	s := &rstate{env: map[ssa.Value]rival{}, cls: map[ssa.Value]rcls{}, fieldOf: map[ssa.Value]*types.Var{}, loadVer: map[ssa.Value]int{}, ub: map[ssa.Value]ssa.Value{}, lzero: lzero, ltN: map[rcls]bool{}, geZ: map[rcls]bool{}, zeroC: map[rcls]bool{}, paramArg: map[ssa.Value]ssa.Value{}}
	if lzero {
		s.head, s.n = rexact(rconst(0)), rexact(rconst(0))
	} else {
		s.head, s.n = rival{rconst(0), rLm1}, rival{rconst(0), rL}
	}
	s.Hiv, s.Niv = s.head, s.n
	s.headC, s.nC = rcls{ok: true, h: 1}, rcls{ok: true, n: 1}
	return s
}

func (s *rstate) clone() *rstate {
	n := *s
	n.env = make(map[ssa.Value]rival, len(s.env))
	for k, v := range s.env {
		n.env[k] = v
	}
	n.cls = make(map[ssa.Value]rcls, len(s.cls))
	for k, v := range s.cls {
		n.cls[k] = v
	}
	n.loadVer = make(map[ssa.Value]int, len(s.loadVer))
	for k, v := range s.loadVer {
		n.loadVer[k] = v
	}
	n.fieldOf = make(map[ssa.Value]*types.Var, len(s.fieldOf))
	for k, v := range s.fieldOf {
		n.fieldOf[k] = v
	}
	n.ub = make(map[ssa.Value]ssa.Value, len(s.ub))
	for k, v := range s.ub {
		n.ub[k] = v
	}
	n.ltN = make(map[rcls]bool, len(s.ltN))
	for k, v := range s.ltN {
		n.ltN[k] = v
	}
	n.geZ = make(map[rcls]bool, len(s.geZ))
	for k, v := range s.geZ {
		n.geZ[k] = v
	}
	n.zeroC = make(map[rcls]bool, len(s.zeroC))
	for k, v := range s.zeroC {
		n.zeroC[k] = v
	}
	n.paramArg = make(map[ssa.Value]ssa.Value, len(s.paramArg))
	for k, v := range s.paramArg {
		n.paramArg[k] = v
	}
	if s.phiSrc != nil {
		n.phiSrc = make(map[ssa.Value]ssa.Value, len(s.phiSrc))
		for k, v := range s.phiSrc {
			n.phiSrc[k] = v
		}
	}
	return &n
}

func (s *rstate) ver(f *types.Var, m *ringModel) int {
	switch {
	case sameField(f, m.headF):
		return s.hver
	case sameField(f, m.nF):
		return s.nver
	}
	return s.vver
}

// slotSpec: the ring-deque meaning of an exported method, in residue classes
// relative to the entry state (H = head, N = n).  API names are the anchors.
type slotSpec struct {
	name          string
	index         *rcls // every slot touched is ≡ this (nil: see walk/peek)
	walk          bool  // slots are visited by a loop-carried position starting ≡ H and advancing by 1
	peek          bool  // slot ≡ H + (the offset parameter [+ N for a negative offset])
	headD, nD     int64 // at a return that changed the queue: head ≡ H+headD, n = N+nD
	mutates       bool
	mayLeaveEmpty bool // head is free once n == 0
	noopIfEmpty   bool // a return with the state unchanged is allowed when N == 0
}

func ringSpecs() map[string]*slotSpec {
	c := func(h, n, k int64) *rcls { return &rcls{ok: true, h: h, n: n, k: k} }
	return map[string]*slotSpec{
		"Add":     {name: "Add", index: c(1, 1, 0), headD: 0, nD: 1, mutates: true},
		"Push":    {name: "Push", index: c(1, 0, -1), headD: -1, nD: 1, mutates: true},
		"Pop":     {name: "Pop", index: c(1, 0, 0), headD: 1, nD: -1, mutates: true, mayLeaveEmpty: true, noopIfEmpty: true},
		"PopLast": {name: "PopLast", index: c(1, 1, -1), headD: 0, nD: -1, mutates: true, mayLeaveEmpty: true, noopIfEmpty: true},
		"Front":   {name: "Front", index: c(1, 0, 0)},
		"Peek":    {name: "Peek", peek: true},
		"Each":    {name: "Each", walk: true},
		"Slice":   {name: "Slice", walk: true},
		"Len":     {name: "Len"},
		"IsEmpty": {name: "IsEmpty"},
	}
}

type ringAbs struct {
	m       *ringModel
	sites   map[string]token.Pos
	probs   map[string]string
	remOK   map[ssa.Value]bool
	remBad  map[ssa.Value]bool
	depth   int
	label   string
	roots   []string
	spec    *slotSpec
	rootFn  *ssa.Function
	silent  bool // fixpoint phase: nothing is reported until the final pass
	phiEdge map[*ssa.Phi]map[int]rcls
	paths   int
	slotOn  bool
}

func newRingAbs(m *ringModel) *ringAbs {
	return &ringAbs{m: m, sites: map[string]token.Pos{}, probs: map[string]string{}, remOK: map[ssa.Value]bool{}, remBad: map[ssa.Value]bool{}, phiEdge: map[*ssa.Phi]map[int]rcls{}, slotOn: true}
}

func (ra *ringAbs) site(key string, pos token.Pos) {
	if ra.silent {
		return
	}
	if _, ok := ra.sites[key]; !ok {
		ra.sites[key] = pos
	}
}

func (ra *ringAbs) problem(key string, pos token.Pos, format string, args ...any) {
	if ra.silent {
		return
	}
	ra.site(key, pos)
	if _, ok := ra.probs[key]; !ok {
		ra.probs[key] = fmt.Sprintf(format, args...) + " [" + ra.label + "]"
		ra.sites[key] = pos
	}
}

func (ra *ringAbs) valOf(s *rstate, v ssa.Value) rival {
	if iv, ok := s.env[v]; ok {
		return iv
	}
	if k, ok := constInt(v); ok {
		return rexact(rconst(k))
	}
	if c, ok := v.(*ssa.Const); ok && c.Value != nil && c.Value.Kind() == constant.Bool {
		if constant.BoolVal(c.Value) {
			return rexact(rconst(1))
		}
		return rexact(rconst(0))
	}
	return rTop
}

func isBoolVal(v ssa.Value) bool {
	b, ok := v.Type().Underlying().(*types.Basic)
	return ok && b.Info()&types.IsBoolean != 0
}

// clsOf: residue class of v in state s (loads, φs, parameters and call
// results are recorded when executed; pure operators are derived).
func (ra *ringAbs) clsOf(s *rstate, v ssa.Value, d int) rcls {
	if c, ok := s.cls[v]; ok {
		return c
	}
	if k, ok := constInt(v); ok {
		return clsConst(k)
	}
	if d > 8 {
		return rcls{}
	}
	switch x := v.(type) {
	case *ssa.Parameter:
		if isIntVal(x) {
			return rcls{ok: true, r: x, rc: 1}
		}
	case *ssa.Convert:
		if isIntVal(x) && isIntVal(x.X) {
			return ra.clsOf(s, x.X, d+1)
		}
	case *ssa.ChangeType:
		if isIntVal(x) && isIntVal(x.X) {
			return ra.clsOf(s, x.X, d+1)
		}
	case *ssa.UnOp:
		if x.Op == token.SUB && isIntVal(x) {
			return ra.clsOf(s, x.X, d+1).scale(-1)
		}
	case *ssa.BinOp:
		if !isIntVal(x) {
			return rcls{}
		}
		switch x.Op {
		case token.ADD:
			return ra.clsOf(s, x.X, d+1).add(ra.clsOf(s, x.Y, d+1), 1)
		case token.SUB:
			return ra.clsOf(s, x.X, d+1).add(ra.clsOf(s, x.Y, d+1), -1)
		case token.MUL:
			if k, ok := constInt(x.Y); ok {
				return ra.clsOf(s, x.X, d+1).scale(k)
			}
			if k, ok := constInt(x.X); ok {
				return ra.clsOf(s, x.Y, d+1).scale(k)
			}
		case token.REM:
			// recorded at execution time when the divisor is the current length
		}
	}
	return rcls{}
}

// clsEq: a ≡ b (mod L) on this path, using what is known exactly about H, N and the root.
func (ra *ringAbs) clsEq(s *rstate, a, b rcls) bool {
	d := a.add(b, -1)
	if !d.ok {
		return false
	}
	exact := func(iv rival) (int64, bool) {
		iv = (rctx{s.lzero}).normIv(iv)
		if iv.lo.inf == 0 && iv.hi.inf == 0 && iv.lo == iv.hi {
			return iv.lo.b, true // a·L + b ≡ b
		}
		return 0, false
	}
	if d.h != 0 {
		if b, ok := exact(s.Hiv); ok {
			d.k, d.h = d.k+d.h*b, 0
		}
	}
	if d.n != 0 {
		if b, ok := exact(s.Niv); ok {
			d.k, d.n = d.k+d.n*b, 0
		}
	}
	if d.r != nil {
		if b, ok := exact(ra.valOf(s, d.r)); ok {
			d.k, d.rc, d.r = d.k+d.rc*b, 0, nil
		}
	}
	if d.h == 0 && d.n == 0 && d.rc == 0 && d.k == 0 {
		return true
	}
	// a ≡ b follows from a class known to be ≡ 0 on this path
	for z := range s.zeroC {
		for _, m := range []int64{1, -1} {
			if e := d.add(z, -m); e.ok && e.h == 0 && e.n == 0 && e.rc == 0 && e.k == 0 {
				return true
			}
		}
	}
	return false
}

func isIntVal(v ssa.Value) bool {
	b, ok := v.Type().Underlying().(*types.Basic)
	return ok && b.Info()&types.IsInteger != 0
}

// fieldLoad: v is a load of qv.f
func (ra *ringAbs) fieldLoad(v, qv ssa.Value) *types.Var {
	u, ok := v.(*ssa.UnOp)
	if !ok || u.Op != token.MUL {
		return nil
	}
	fa, ok := u.X.(*ssa.FieldAddr)
	if !ok || fa.X != qv {
		return nil
	}
	_, f := fieldVarOf(fa)
	return f
}

// curVs: v is a load of qv.vs made since the last replacement of the buffer.
func (ra *ringAbs) curVs(s *rstate, v, qv ssa.Value) (isVs, current bool) {
	f := ra.fieldLoad(v, qv)
	if f == nil || !sameField(f, ra.m.vsF) {
		return false, false
	}
	ver, ok := s.loadVer[v]
	return true, ok && ver == s.vver
}

func (ra *ringAbs) sameVal(s *rstate, a, b ssa.Value) bool {
	if a == b {
		return true
	}
	fa, fb := s.fieldOf[a], s.fieldOf[b]
	return fa != nil && fb != nil && sameField(fa, fb) && s.loadVer[a] == s.loadVer[b]
}

// lenOf: abstract length of a slice value.
func (ra *ringAbs) lenOf(s *rstate, v, qv ssa.Value, d int) rival {
	nonneg := rival{rconst(0), rPosInf}
	if d > 4 {
		return nonneg
	}
	if isVs, cur := ra.curVs(s, v, qv); isVs {
		if cur {
			return rexact(rL)
		}
		return nonneg
	}
	switch x := v.(type) {
	case *ssa.MakeSlice:
		return ra.valOf(s, x.Len)
	case *ssa.Slice:
		base := ra.lenOf(s, x.X, qv, d+1)
		hi, lo := base, rexact(rconst(0))
		if x.High != nil {
			hi = ra.valOf(s, x.High)
		}
		if x.Low != nil {
			lo = ra.valOf(s, x.Low)
		}
		r := rival{radd(hi.lo, rneg(lo.hi)), radd(hi.hi, rneg(lo.lo))}
		if !(rctx{s.lzero}).leq(rconst(0), r.lo) {
			r.lo = rconst(0)
		}
		return r
	}
	return nonneg
}

// rewriteForNewL re-expresses every bound after the buffer changed length.
// grow >= 0: L' >= L+grow; grow < 0: L' = 0 and nothing relates it to the old L.
func (ra *ringAbs) rewriteForNewL(s *rstate, grow int64) {
	ctx := rctx{s.lzero}
	lmin := int64(1)
	if s.lzero {
		lmin = 0
	}
	reset := grow < 0
	up := func(x rbound) rbound {
		if x.inf != 0 {
			return x
		}
		x = ctx.norm(x)
		if x.a == 0 {
			return x
		}
		if reset {
			return rPosInf
		}
		if x.a > 0 {
			return rbound{x.a, x.b - x.a*grow, 0} // L <= L'-grow
		}
		return rconst(x.a*lmin + x.b) // L >= lmin
	}
	lo := func(x rbound) rbound {
		if x.inf != 0 {
			return x
		}
		x = ctx.norm(x)
		if x.a == 0 {
			return x
		}
		if reset {
			if x.a > 0 {
				return rconst(x.a*lmin + x.b)
			}
			return rNegInf
		}
		if x.a > 0 {
			return rconst(x.a*lmin + x.b)
		}
		return rbound{x.a, x.b - x.a*grow, 0}
	}
	conv := func(v rival) rival { return rival{lo(v.lo), up(v.hi)} }
	for k, v := range s.env {
		s.env[k] = conv(v)
	}
	s.head, s.n = conv(s.head), conv(s.n)
	s.Hiv, s.Niv = conv(s.Hiv), conv(s.Niv)
	if s.hasRet {
		s.ret = conv(s.ret)
	}
	if reset {
		s.lzero = true
	} else if grow >= 1 {
		s.lzero = false
	}
	s.vver++
	s.lchanged++
}

func (c rctx) meet(x, y rival) rival { return rival{c.maxB(x.lo, y.lo), c.minB(x.hi, y.hi)} }

// setRefined records that v lies in iv, and propagates the knowledge to the
// field the value was loaded from, to the value that was stored there, and
// backwards through ± constant.
func (ra *ringAbs) setRefined(s *rstate, v ssa.Value, iv rival, d int) {
	if _, isConst := v.(*ssa.Const); isConst || d > 6 {
		return
	}
	ctx := rctx{s.lzero}
	if old, ok := s.env[v]; ok {
		iv = ctx.meet(old, iv)
	}
	s.env[v] = iv
	// the value last stored into a field is that field (q.n = last; if last == 0 …)
	if d == 0 {
		if s.nSrc == v {
			s.n = ctx.meet(s.n, iv)
		}
		if s.headSrc == v {
			s.head = ctx.meet(s.head, iv)
		}
	}
	if niv := ctx.normIv(iv); niv.lo.inf == 0 && niv.hi.inf == 0 && niv.lo == niv.hi && niv.lo.a == 0 {
		// v = k exactly: its class is ≡ k
		if cv := ra.clsOf(s, v, 0); cv.ok && (cv.h != 0 || cv.n != 0 || cv.rc != 0) {
			z := cv.add(clsConst(niv.lo.b), -1)
			if z.ok && s.zeroC != nil {
				s.zeroC[z] = true
			}
		}
	}
	if a, ok := s.paramArg[v]; ok && a != v {
		ra.setRefined(s, a, iv, d+1)
	}
	if src, ok := s.phiSrc[v]; ok && src != v {
		ra.setRefined(s, src, iv, d+1)
	}
	if f := s.fieldOf[v]; f != nil {
		isHead := sameField(f, ra.m.headF)
		if s.loadVer[v] == 0 {
			if isHead {
				s.Hiv = ctx.meet(s.Hiv, iv)
			} else if sameField(f, ra.m.nF) {
				s.Niv = ctx.meet(s.Niv, iv)
			}
		}
		if s.loadVer[v] == s.ver(f, ra.m) {
			if isHead {
				s.head = ctx.meet(s.head, iv)
				if s.headSrc != nil && s.headSrc != v {
					ra.setRefined(s, s.headSrc, iv, d+1)
				}
			} else if sameField(f, ra.m.nF) {
				s.n = ctx.meet(s.n, iv)
				if s.nSrc != nil && s.nSrc != v {
					ra.setRefined(s, s.nSrc, iv, d+1)
				}
			}
		}
	}
	switch x := v.(type) {
	case *ssa.BinOp:
		shift := func(iv rival, k int64) rival { return rival{radd(iv.lo, rconst(k)), radd(iv.hi, rconst(k))} }
		// an operand whose value is known exactly (a constant handed to a helper) counts as a constant
		exactK := func(v ssa.Value) (int64, bool) {
			if k, ok := constInt(v); ok {
				return k, true
			}
			e := ctx.normIv(ra.valOf(s, v))
			if e != rTop && e.lo.inf == 0 && e.hi.inf == 0 && e.lo == e.hi && e.lo.a == 0 {
				return e.lo.b, true
			}
			return 0, false
		}
		switch x.Op {
		case token.ADD:
			if k, ok := exactK(x.Y); ok {
				ra.setRefined(s, x.X, shift(iv, -k), d+1)
			} else if k, ok := exactK(x.X); ok {
				ra.setRefined(s, x.Y, shift(iv, -k), d+1)
			}
		case token.SUB:
			if k, ok := exactK(x.Y); ok {
				ra.setRefined(s, x.X, shift(iv, k), d+1)
			}
		}
	case *ssa.Convert:
		if isIntVal(x.X) {
			ra.setRefined(s, x.X, iv, d+1)
		}
	}
}

type ringPred struct {
	x, y ringOperand
	op   token.Token
}

type ringOperand struct {
	field *types.Var // head or n
	isLen bool
	k     int64
}

func (ra *ringAbs) operandOf(v ssa.Value, recv ssa.Value) (ringOperand, bool) {
	if k, ok := constInt(v); ok {
		return ringOperand{k: k}, true
	}
	if f := ra.fieldLoad(v, recv); f != nil && (sameField(f, ra.m.headF) || sameField(f, ra.m.nF)) {
		return ringOperand{field: f}, true
	}
	if ln, ok := isBuiltinCall(v, "len"); ok {
		if f := ra.fieldLoad(ln.Call.Args[0], recv); f != nil && sameField(f, ra.m.vsF) {
			return ringOperand{isLen: true}, true
		}
	}
	return ringOperand{}, false
}

func singleReturn(cal *ssa.Function) (ssa.Value, bool) {
	if cal == nil || len(cal.Blocks) != 1 || len(cal.Params) != 1 {
		return nil, false
	}
	ret, ok := cal.Blocks[0].Instrs[len(cal.Blocks[0].Instrs)-1].(*ssa.Return)
	if !ok || len(ret.Results) != 1 {
		return nil, false
	}
	return ret.Results[0], true
}

// predSummaryOf: a method `func (q *Queue) P() bool { return <a> op <b> }` with
// operands among q.head, q.n, len(q.vs) and integer constants.
func (ra *ringAbs) predSummaryOf(cal *ssa.Function) (ringPred, bool) {
	r, ok := singleReturn(cal)
	if !ok {
		return ringPred{}, false
	}
	bo, ok := r.(*ssa.BinOp)
	if !ok {
		return ringPred{}, false
	}
	switch bo.Op {
	case token.LSS, token.LEQ, token.GTR, token.GEQ, token.EQL, token.NEQ:
	default:
		return ringPred{}, false
	}
	x, ok1 := ra.operandOf(bo.X, cal.Params[0])
	y, ok2 := ra.operandOf(bo.Y, cal.Params[0])
	if !ok1 || !ok2 {
		return ringPred{}, false
	}
	return ringPred{x, y, bo.Op}, true
}

// valueSummaryOf: a method `func (q *Queue) F() int { return q.f }` or len(q.vs).
func (ra *ringAbs) valueSummaryOf(cal *ssa.Function) (ringOperand, bool) {
	r, ok := singleReturn(cal)
	if !ok {
		return ringOperand{}, false
	}
	if _, isC := r.(*ssa.Const); isC {
		return ringOperand{}, false
	}
	return ra.operandOf(r, cal.Params[0])
}

func (ra *ringAbs) operandIv(s *rstate, o ringOperand) rival {
	switch {
	case o.field != nil && sameField(o.field, ra.m.headF):
		return s.head
	case o.field != nil:
		return s.n
	case o.isLen:
		return rexact(rL)
	}
	return rexact(rconst(o.k))
}

func (ra *ringAbs) setOperand(s *rstate, o ringOperand, iv rival) {
	ctx := rctx{s.lzero}
	switch {
	case o.field != nil && sameField(o.field, ra.m.headF):
		s.head = iv
		if s.hver == 0 {
			s.Hiv = ctx.meet(s.Hiv, iv)
		}
		if s.headSrc != nil {
			ra.setRefined(s, s.headSrc, iv, 1)
		}
	case o.field != nil:
		s.n = iv
		if s.nver == 0 {
			s.Niv = ctx.meet(s.Niv, iv)
		}
		if s.nSrc != nil {
			ra.setRefined(s, s.nSrc, iv, 1)
		}
	}
}

func hasLoop(fn *ssa.Function) bool {
	for _, b := range fn.Blocks {
		for _, sc := range b.Succs {
			if sc.Dominates(b) {
				return true
			}
		}
	}
	return false
}

// run analyses fn (whose queue pointer is qv) from the entry state and returns
// the abstract states at its normal returns: one per path for loop-free
// functions, a single joined one for functions with loops.
func (ra *ringAbs) run(fn *ssa.Function, qv ssa.Value, entry *rstate, checkExit bool) []*rstate {
	ra.depth++
	defer func() { ra.depth-- }()
	name := fnName(fn)
	if ra.depth > 4 {
		ra.problem(name+":analysis", fn.Pos(), "call depth exceeded while following helper methods")
		return []*rstate{entry}
	}
	if !hasLoop(fn) {
		var exits []*rstate
		budget := 400
		if ra.runPaths(fn, qv, fn.Blocks[0], nil, entry, checkExit, &exits, &budget) {
			return exits
		}
		// too many paths: fall back to the joined analysis
	}
	ex := ra.fixpoint(fn, qv, entry, checkExit)
	if ex == nil {
		return nil
	}
	return []*rstate{ex}
}

// runPaths: depth-first enumeration of the paths of a loop-free function.
func (ra *ringAbs) runPaths(fn *ssa.Function, qv ssa.Value, b, pred *ssa.BasicBlock, s *rstate, checkExit bool, exits *[]*rstate, budget *int) bool {
	*budget--
	if *budget < 0 {
		return false
	}
	states := []*rstate{s}
	// phis
	if pred != nil {
		type pv struct {
			ph *ssa.Phi
			iv rival
			c  rcls
			f  *types.Var
			lv int
		}
		var nv []pv
		for _, ins := range b.Instrs {
			ph, ok := ins.(*ssa.Phi)
			if !ok {
				break
			}
			if !isIntVal(ph) {
				continue
			}
			for j, p := range b.Preds {
				if p == pred {
					e := ph.Edges[j]
					nv = append(nv, pv{ph, ra.valOf(s, e), ra.phiEdgeClass(s, ph, j), s.fieldOf[e], s.loadVer[e]})
					break
				}
			}
		}
		for _, x := range nv {
			s.env[x.ph], s.cls[x.ph] = x.iv, x.c
			for j, p := range b.Preds {
				if p == pred {
					if s.phiSrc == nil {
						s.phiSrc = map[ssa.Value]ssa.Value{}
					}
					s.phiSrc[x.ph] = x.ph.Edges[j]
					break
				}
			}
			if x.f != nil {
				s.fieldOf[x.ph], s.loadVer[x.ph] = x.f, x.lv
			} else {
				delete(s.fieldOf, x.ph)
			}
		}
	}
	for _, ins := range b.Instrs {
		var next []*rstate
		for _, st := range states {
			if st.unreach {
				continue
			}
			next = append(next, ra.step(fn, qv, st, ins, checkExit, exits)...)
		}
		states = next
		if len(states) == 0 {
			return true
		}
	}
	last := b.Instrs[len(b.Instrs)-1]
	for _, st := range states {
		if st.unreach {
			continue
		}
		for i, sc := range b.Succs {
			o := st
			if len(b.Succs) > 1 || len(states) > 1 {
				o = st.clone()
			}
			if iff, ok := last.(*ssa.If); ok {
				if !ra.applyEdge(o, qv, iff, i) {
					continue
				}
			}
			if !ra.runPaths(fn, qv, sc, b, o, checkExit, exits, budget) {
				return false
			}
		}
	}
	return true
}

// fixpoint: joined analysis for functions with loops; silent until the final pass.
func (ra *ringAbs) fixpoint(fn *ssa.Function, qv ssa.Value, entry *rstate, checkExit bool) *rstate {
	name := fnName(fn)
	wasSilent := ra.silent
	ra.silent = true
	in := map[*ssa.BasicBlock]*rstate{fn.Blocks[0]: entry}
	visits := map[*ssa.BasicBlock]int{}
	work := []*ssa.BasicBlock{fn.Blocks[0]}
	queued := map[*ssa.BasicBlock]bool{fn.Blocks[0]: true}
	converged := true
	var sink []*rstate
	type edgeKey struct {
		from *ssa.BasicBlock
		idx  int
	}
	edgeOut := map[edgeKey]*rstate{}
	propagate := func(b *ssa.BasicBlock, s *rstate, final bool) {
		last := b.Instrs[len(b.Instrs)-1]
		for i, sc := range b.Succs {
			o := s.clone()
			if iff, ok := last.(*ssa.If); ok {
				if !ra.applyEdge(o, qv, iff, i) {
					continue
				}
			}
			type pv struct {
				ph *ssa.Phi
				iv rival
				c  rcls
			}
			var newVals []pv
			for _, ins := range sc.Instrs {
				ph, ok := ins.(*ssa.Phi)
				if !ok {
					break
				}
				if !isIntVal(ph) {
					continue
				}
				for j, p := range sc.Preds {
					if p == b {
						c := ra.phiEdgeClass(o, ph, j)
						if ra.phiEdge[ph] == nil {
							ra.phiEdge[ph] = map[int]rcls{}
						}
						ra.phiEdge[ph][j] = c
						newVals = append(newVals, pv{ph, ra.valOf(o, ph.Edges[j]), c})
						break
					}
				}
			}
			for _, nv := range newVals {
				o.env[nv.ph], o.cls[nv.ph] = nv.iv, nv.c
				delete(o.fieldOf, nv.ph)
			}
			if final {
				continue
			}
			edgeOut[edgeKey{b, i}] = o
			var acc *rstate
			for _, p := range sc.Preds {
				for k, s2 := range p.Succs {
					if s2 == sc {
						if e := edgeOut[edgeKey{p, k}]; e != nil {
							acc, _ = ra.joinState(acc, e, false, sc)
						}
					}
				}
			}
			old := in[sc]
			if old != nil && ra.sameState(old, acc) {
				continue
			}
			if old != nil && visits[sc] > 8 {
				// widening belongs at loop heads only: a block inside the loop gets its state from the head through
				// the loop test, and widening it again would throw the bound that test gave away (i < n ⇒ i ≤ L−1)
				head := false
				for _, p := range sc.Preds {
					if sc.Dominates(p) {
						head = true
					}
				}
				if head || visits[sc] > 40 {
					ra.widen(old, acc)
				}
			}
			in[sc] = acc
			if !queued[sc] {
				work, queued[sc] = append(work, sc), true
			}
		}
	}
	for len(work) > 0 {
		b := work[0]
		work = work[1:]
		queued[b] = false
		visits[b]++
		if visits[b] > 60 {
			converged = false
			break
		}
		states := []*rstate{in[b].clone()}
		for _, ins := range b.Instrs {
			var next []*rstate
			for _, st := range states {
				if !st.unreach {
					next = append(next, ra.step(fn, qv, st, ins, false, &sink)...)
				}
			}
			states = next
		}
		// several states (a helper with several returns): one joined state leaves the block
		var joined *rstate
		for _, st := range states {
			if !st.unreach {
				joined, _ = ra.joinState(joined, st, false, b)
			}
		}
		if joined != nil {
			propagate(b, joined, false)
		}
	}
	ra.silent = wasSilent
	if !converged {
		ra.problem(name+":analysis", fn.Pos(), "abstract interpretation does not converge")
		return nil
	}
	// final pass: every reachable block once, from its converged entry state, reporting
	var exits []*rstate
	for _, b := range fn.Blocks {
		if in[b] == nil {
			continue
		}
		states := []*rstate{in[b].clone()}
		for _, ins := range b.Instrs {
			var next []*rstate
			for _, st := range states {
				if !st.unreach {
					next = append(next, ra.step(fn, qv, st, ins, checkExit, &exits)...)
				}
			}
			states = next
		}
		var joined *rstate
		for _, st := range states {
			if !st.unreach {
				joined, _ = ra.joinState(joined, st, false, b)
			}
		}
		if joined != nil {
			propagate(b, joined, true)
		}
	}
	var exit *rstate
	for _, e := range exits {
		exit, _ = ra.joinState(exit, e, false, nil)
	}
	return exit
}

// joinState joins b into a (at block `at`, whose φs get their own root class
// when the incoming classes differ).
func (ra *ringAbs) joinState(a, b *rstate, widen bool, at *ssa.BasicBlock) (*rstate, bool) {
	if a == nil {
		return b.clone(), true
	}
	changed := false
	r := a.clone()
	r.phiSrc = nil
	ctx := rctx{a.lzero}
	if a.lzero != b.lzero {
		// one path has an empty buffer, the other L ≥ 1: forget symbolic bounds (sound; not produced by today's code)
		ctx = rctx{false}
		r.lzero = false
		weak := func(v rival) rival {
			if v.lo.inf == 0 && v.lo.a != 0 {
				v.lo = rNegInf
			}
			if v.hi.inf == 0 && v.hi.a != 0 {
				v.hi = rPosInf
			}
			return v
		}
		r.head, r.n, r.Hiv, r.Niv = weak(r.head), weak(r.n), weak(r.Hiv), weak(r.Niv)
		bb := b.clone()
		bb.head, bb.n, bb.Hiv, bb.Niv = weak(bb.head), weak(bb.n), weak(bb.Hiv), weak(bb.Niv)
		for k, v := range r.env {
			r.env[k] = weak(v)
		}
		for k, v := range bb.env {
			bb.env[k] = weak(v)
		}
		b = bb
		changed = true
	}
	jf := func(x, y rival) rival {
		j := ctx.join(x, y)
		if !ctx.same(j, x) {
			changed = true
			if widen {
				if !ctx.leq(j.hi, x.hi) {
					j.hi = rPosInf
				}
				if !ctx.leq(x.lo, j.lo) {
					j.lo = rNegInf
				}
			}
			return j
		}
		return x
	}
	r.head, r.n = jf(r.head, b.head), jf(r.n, b.n)
	r.Hiv, r.Niv = jf(r.Hiv, b.Hiv), jf(r.Niv, b.Niv)
	if r.hasRet && b.hasRet {
		r.ret = jf(r.ret, b.ret)
		if r.retC != b.retC {
			r.retC = rcls{}
		}
	} else {
		r.hasRet = false
	}
	for k, va := range r.env {
		if vb, ok := b.env[k]; ok {
			r.env[k] = jf(va, vb)
		} else {
			delete(r.env, k)
			changed = true
		}
	}
	jc := func(x, y rcls) rcls {
		if x == y {
			return x
		}
		if x.ok {
			changed = true
		}
		return rcls{}
	}
	r.headC, r.nC = jc(r.headC, b.headC), jc(r.nC, b.nC)
	for k, ca := range r.cls {
		cb, ok := b.cls[k]
		switch {
		case ok && ca == cb:
		default:
			own := rcls{}
			if ph, isPhi := k.(*ssa.Phi); isPhi {
				own = rcls{ok: true, r: ph, rc: 1} // φ ≡ φ holds on every path
			}
			if ca != own {
				r.cls[k] = own
				changed = true
			}
		}
	}
	if r.headSrc != b.headSrc {
		r.headSrc = nil
	}
	if r.nSrc != b.nSrc {
		r.nSrc = nil
	}
	for k, f := range r.fieldOf {
		if g, ok := b.fieldOf[k]; !ok || !sameField(f, g) || r.loadVer[k] != b.loadVer[k] {
			delete(r.fieldOf, k)
		}
	}
	for k, v := range r.loadVer {
		if v2, ok := b.loadVer[k]; !ok || v2 != v {
			delete(r.loadVer, k)
			delete(r.fieldOf, k)
		}
	}
	for k, u := range r.ub {
		if u2, ok := b.ub[k]; !ok || u2 != u {
			delete(r.ub, k)
		}
	}
	for k := range r.ltN {
		if !b.ltN[k] {
			delete(r.ltN, k)
		}
	}
	for k := range r.zeroC {
		if !b.zeroC[k] {
			delete(r.zeroC, k)
		}
	}
	for k := range r.geZ {
		if !b.geZ[k] {
			delete(r.geZ, k)
		}
	}
	mx := func(x *int, y int) {
		if y > *x {
			*x = y
			changed = true
		}
	}
	mx(&r.hver, b.hver)
	mx(&r.nver, b.nver)
	mx(&r.vver, b.vver)
	mx(&r.lchanged, b.lchanged)
	if b.rotated && !r.rotated {
		r.rotated, changed = true, true
	}
	if r.grownOK && !b.grownOK {
		r.grownOK, changed = false, true
	}
	if b.grewBy > 0 && (r.grewBy == 0 || b.grewBy < r.grewBy) && b.lchanged > 0 {
		r.grewBy = b.grewBy
	}
	return r, changed
}

// applyEdge refines o by the condition of the edge; false if the edge is infeasible.
func (ra *ringAbs) applyEdge(o *rstate, qv ssa.Value, iff *ssa.If, i int) bool {
	ctx := rctx{o.lzero}
	cond, truth := iff.Cond, i == 0
	for {
		u, ok := cond.(*ssa.UnOp)
		if !ok || u.Op != token.NOT {
			break
		}
		cond, truth = u.X, !truth
	}
	// a flag that merges a conjunction (ok := a && b; if ok): on this path the flag is what the edge it came in
	// on gave it — a constant false where a failed, b itself where a held
	viaPhi := false
	for k := 0; k < 4; k++ {
		ph, isPhi := cond.(*ssa.Phi)
		if !isPhi || !isBoolVal(ph) {
			break
		}
		src, ok := o.phiSrc[ph]
		if !ok || src == cond {
			break
		}
		cond, viaPhi = src, true
		for {
			u, ok := cond.(*ssa.UnOp)
			if !ok || u.Op != token.NOT {
				break
			}
			cond, truth = u.X, !truth
		}
	}
	if viaPhi {
		if k, ok := cond.(*ssa.Const); ok && k.Value != nil && k.Value.Kind() == constant.Bool {
			return constant.BoolVal(k.Value) == truth
		}
	}
	if call, ok := cond.(*ssa.Call); ok {
		// predicate helper: if q.isX() { ... }
		cal := staticCallee(&call.Call)
		if cal != nil && len(call.Call.Args) == 1 && call.Call.Args[0] == qv {
			if p, ok := ra.predSummaryOf(cal); ok {
				if ver, ok := o.loadVer[call]; ok && ver == o.hver+o.nver+o.vver {
					op := p.op
					if !truth {
						op = negOp(op)
					}
					X, Y := ra.operandIv(o, p.x), ra.operandIv(o, p.y)
					if _, mf := ctx.decideIv(X, Y, op); mf {
						return false
					}
					X, Y = ctx.refineIv(X, Y, op)
					if ctx.empty(X) || ctx.empty(Y) {
						return false
					}
					ra.setOperand(o, p.x, X)
					ra.setOperand(o, p.y, Y)
				}
			}
		}
		return true
	}
	if _, isCmp := cond.(*ssa.BinOp); !isCmp && isBoolVal(cond) {
		// a boolean value known exactly (a constant handed to a helper)
		if bv := ra.valOf(o, cond); bv != rTop && ctx.same(bv, rexact(bv.lo)) && bv.lo.inf == 0 {
			if (bv.lo.b != 0) != truth {
				return false
			}
		}
		return true
	}
	cm, okc := edgeCmp(iff, i)
	if viaPhi {
		okc = false
		if bo, ok := cond.(*ssa.BinOp); ok {
			op := bo.Op
			if !truth {
				op = negOp(op)
			}
			if op != token.ILLEGAL {
				cm, okc = Cmp{bo.X, bo.Y, op}, true
			}
		}
	}
	if !okc || !(isIntVal(cm.X) || isBoolVal(cm.X)) {
		return true
	}
	// u + v against u itself: decided by v against 0 (Peek's `n += q.n; … n >= q.n`)
	cx := cm.X
	for i := 0; i < 4; i++ {
		if src, ok := o.phiSrc[cx]; ok {
			cx = src
		}
	}
	if bo, ok := cx.(*ssa.BinOp); ok && bo.Op == token.ADD && isIntVal(bo) {
		for _, pr := range [][2]ssa.Value{{bo.X, bo.Y}, {bo.Y, bo.X}} {
			if ra.sameVal(o, cm.Y, pr[0]) {
				if _, mf := ctx.decideIv(ra.valOf(o, pr[1]), rexact(rconst(0)), cm.Op); mf {
					return false
				}
			}
		}
	}
	X, Y := ra.valOf(o, cm.X), ra.valOf(o, cm.Y)
	if _, mf := ctx.decideIv(X, Y, cm.Op); mf {
		return false
	}
	X, Y = ctx.refineIv(X, Y, cm.Op)
	if ctx.empty(X) || ctx.empty(Y) {
		return false
	}
	ra.setRefined(o, cm.X, X, 0)
	ra.setRefined(o, cm.Y, Y, 0)
	// relational facts the intervals cannot hold: v < n (entry value of the count), v ≥ 0
	isEntryN := func(v ssa.Value) bool {
		f := o.fieldOf[v]
		return f != nil && sameField(f, ra.m.nF) && o.loadVer[v] == 0 && o.nver == 0
	}
	switch {
	case isEntryN(cm.Y) && cm.Op == token.LSS:
		if c := ra.clsOf(o, cm.X, 0); c.ok {
			o.ltN[c] = true
		}
	case isEntryN(cm.X) && cm.Op == token.GTR:
		if c := ra.clsOf(o, cm.Y, 0); c.ok {
			o.ltN[c] = true
		}
	}
	if k, ok := constInt(cm.Y); ok && ((cm.Op == token.GEQ && k >= 0) || (cm.Op == token.GTR && k >= -1)) {
		if c := ra.clsOf(o, cm.X, 0); c.ok {
			o.geZ[c] = true
		}
	}
	if k, ok := constInt(cm.X); ok && ((cm.Op == token.LEQ && k >= 0) || (cm.Op == token.LSS && k >= -1)) {
		if c := ra.clsOf(o, cm.Y, 0); c.ok {
			o.geZ[c] = true // written as  0 <= v
		}
	}
	if ctx.empty(o.head) || ctx.empty(o.n) {
		return false
	}
	return true
}

func appendCount(ap *ssa.Call) int64 {
	if len(ap.Call.Args) < 2 {
		return 0
	}
	if sl, ok := ap.Call.Args[1].(*ssa.Slice); ok {
		if al, ok := sl.X.(*ssa.Alloc); ok {
			if pt, ok := al.Type().Underlying().(*types.Pointer); ok {
				if at, ok := pt.Elem().Underlying().(*types.Array); ok && sl.Low == nil && sl.High == nil {
					return at.Len()
				}
			}
		}
	}
	return 0
}

// slotActive: residue classes are meaningful (a non-empty buffer that has not
// been rotated or replaced on this path) and a spec applies.
func (ra *ringAbs) slotActive(s *rstate) bool {
	return ra.slotOn && ra.spec != nil && !s.lzero && !s.rotated && (s.lchanged == 0 || (s.grownOK && s.lchanged == 1))
}

func (ra *ringAbs) checkSlot(name string, s *rstate, x *ssa.IndexAddr) {
	if !ra.slotActive(s) {
		return
	}
	sp := ra.spec
	key := fmt.Sprintf("%s:slot q.vs[%s]", name, ksym(x.Index))
	ra.site(key, x.Pos())
	c := ra.clsOf(s, x.Index, 0)
	if !c.ok {
		ra.problem(key, x.Pos(), "which slot of the ring this index denotes (relative to head and n at entry of %s) could not be determined", sp.name)
		return
	}
	ra.checkLive(name, s, x, c)
	switch {
	case sp.index != nil:
		if !ra.clsEq(s, c, *sp.index) {
			ra.problem(key, x.Pos(), "%s must touch slot ≡ %s (mod len), but on some path this index is ≡ %s: an in-range but WRONG slot", sp.name, *sp.index, c)
		}
	case sp.peek:
		okP := c.h == 1 && c.k == 0 && c.rc == 1 && (c.n == 0 || c.n == 1)
		if okP {
			_, okP = c.r.(*ssa.Parameter)
		}
		if okP && c.n == 1 {
			// + n only for a negative offset
			okP = (rctx{s.lzero}).leq(ra.valOf(s, c.r).hi, rconst(-1))
		}
		if okP && c.n == 0 {
			okP = (rctx{s.lzero}).leq(rconst(0), ra.valOf(s, c.r).lo)
		}
		if !okP {
			ra.problem(key, x.Pos(), "Peek(i) must read slot ≡ head + i (i ≥ 0) or head + n + i (i < 0), but on some path this index is ≡ %s", c)
		}
	case sp.walk:
		ph, isPhi := c.r.(*ssa.Phi)
		if isPhi && c.rc == 1 && c.h == 1 && c.n == 0 {
			// the walk written with a counter instead of a cursor: slot ≡ head + i (+ k), i counting the elements
			// from −k up by one — the same slots in the same order
			init, step, okI, okS := rcls{}, rcls{}, false, false
			for j, p := range ph.Block().Preds {
				e, seen := ra.phiEdge[ph][j]
				if !seen {
					continue
				}
				if ph.Block().Dominates(p) {
					step, okS = e, true
				} else {
					init, okI = e, true
				}
			}
			if okI && okS && ra.clsEq(s, init, clsConst(-c.k)) && ra.clsEq(s, step, rcls{ok: true, r: ph, rc: 1, k: 1}) {
				return
			}
		}
		if !(isPhi && c.rc == 1 && c.h == 0 && c.n == 0 && c.k == 0) {
			// a loop-free visit of slot head (e.g. a first element handled apart) is fine too; inside a loop the
			// same slot would be visited for every element
			if ra.clsEq(s, c, rcls{ok: true, h: 1}) {
				if blockInLoop(x.Block()) {
					ra.problem(key, x.Pos(), "%s reads slot ≡ head on every round of its loop: the position is never advanced, so every element visited is the front one", sp.name)
				}
				return
			}
			ra.problem(key, x.Pos(), "%s must visit the slots head, head+1, … in order, but this index is ≡ %s", sp.name, c)
			return
		}
		init, step, okI, okS := rcls{}, rcls{}, false, false
		for j, p := range ph.Block().Preds {
			e, seen := ra.phiEdge[ph][j]
			if !seen {
				continue
			}
			if ph.Block().Dominates(p) {
				step, okS = e, true
			} else {
				init, okI = e, true
			}
		}
		if !okI || !ra.clsEq(s, init, rcls{ok: true, h: 1}) {
			ra.problem(key, x.Pos(), "%s must start its walk at slot ≡ head, but the position starts ≡ %s", sp.name, init)
		} else if !okS || !ra.clsEq(s, step, rcls{ok: true, r: ph, rc: 1, k: 1}) {
			ra.problem(key, x.Pos(), "%s must advance its position by exactly one slot per element, but the next position is ≡ %s", sp.name, step)
		}
	default:
		ra.problem(key, x.Pos(), "%s is not expected to touch the ring buffer", sp.name)
	}
}

func (ra *ringAbs) checkSlotExit(name string, s *rstate, pos token.Pos) {
	if !ra.slotActive(s) || ra.depth != 1 {
		return
	}
	sp := ra.spec
	ctx := rctx{s.lzero}
	key := fmt.Sprintf("%s:effect on head and n", name)
	ra.site(key, pos)
	H, N := rcls{ok: true, h: 1}, rcls{ok: true, n: 1}
	unchanged := ra.clsEq(s, s.headC, H) && ra.clsEq(s, s.nC, N)
	if !sp.mutates {
		if !unchanged {
			ra.problem(key, pos, "%s must not change head or n, but at this return head ≡ %s and n ≡ %s", sp.name, s.headC, s.nC)
		}
		return
	}
	if unchanged && sp.noopIfEmpty && ctx.same(s.Niv, rexact(rconst(0))) {
		return
	}
	wantN := N.add(clsConst(sp.nD), 1)
	if !ra.clsEq(s, s.nC, wantN) {
		ra.problem(key, pos, "%s must leave n = %s, but on some path n ≡ %s", sp.name, wantN, s.nC)
		return
	}
	if sp.mayLeaveEmpty && ctx.same(s.n, rexact(rconst(0))) {
		return // empty: head is free
	}
	wantH := H.add(clsConst(sp.headD), 1)
	if !ra.clsEq(s, s.headC, wantH) {
		ra.problem(key, pos, "%s must leave head ≡ %s (mod len), but on some path head ≡ %s: the remaining elements are addressed from the wrong slot", sp.name, wantH, s.headC)
	}
}

// step executes one instruction; a call to a helper may split the state.
func (ra *ringAbs) step(fn *ssa.Function, qv ssa.Value, s *rstate, ins ssa.Instruction, checkExit bool, exits *[]*rstate) []*rstate {
	m := ra.m
	ctx := rctx{s.lzero}
	name := fnName(fn)
	one := []*rstate{s}
	switch x := ins.(type) {
	case *ssa.Phi:
		// assigned on the edge
	case *ssa.UnOp:
		if x.Op == token.MUL {
			if f := ra.fieldLoad(x, qv); f != nil {
				switch {
				case sameField(f, m.headF):
					s.env[x], s.fieldOf[x], s.loadVer[x], s.cls[x] = s.head, f, s.hver, s.headC
				case sameField(f, m.nF):
					s.env[x], s.fieldOf[x], s.loadVer[x], s.cls[x] = s.n, f, s.nver, s.nC
				case sameField(f, m.vsF):
					s.loadVer[x] = s.vver
				}
			}
			return one
		}
		if x.Op == token.SUB && isIntVal(x) {
			v := ra.valOf(s, x.X)
			s.env[x] = rival{rneg(v.hi), rneg(v.lo)}
		}
	case *ssa.Convert:
		if isIntVal(x) && isIntVal(x.X) {
			s.env[x] = ra.valOf(s, x.X)
		}
	case *ssa.ChangeType:
		if isIntVal(x) && isIntVal(x.X) {
			s.env[x] = ra.valOf(s, x.X)
		}
	case *ssa.Call:
		if ln, ok := isBuiltinCall(x, "len"); ok {
			s.env[x] = ra.lenOf(s, ln.Call.Args[0], qv, 0)
			if isVs, cur := ra.curVs(s, ln.Call.Args[0], qv); isVs && cur {
				s.cls[x] = clsConst(0)
			} else {
				s.cls[x] = rcls{}
			}
			return one
		}
		if cp, ok := isBuiltinCall(x, "cap"); ok {
			lv := ra.lenOf(s, cp.Call.Args[0], qv, 0)
			s.env[x], s.cls[x] = rival{lv.lo, rPosInf}, rcls{}
			return one
		}
		if mn, ok := isBuiltinCall(x, "min"); ok && len(mn.Call.Args) == 2 && isIntVal(x) {
			a, b := ra.valOf(s, mn.Call.Args[0]), ra.valOf(s, mn.Call.Args[1])
			s.env[x], s.cls[x] = rival{ctx.minB(a.lo, b.lo), ctx.minB(a.hi, b.hi)}, rcls{}
			return one
		}
		if mxc, ok := isBuiltinCall(x, "max"); ok && len(mxc.Call.Args) == 2 && isIntVal(x) {
			a, b := ra.valOf(s, mxc.Call.Args[0]), ra.valOf(s, mxc.Call.Args[1])
			s.env[x], s.cls[x] = rival{ctx.maxB(a.lo, b.lo), ctx.maxB(a.hi, b.hi)}, rcls{}
			return one
		}
		if cp, ok := isBuiltinCall(x, "copy"); ok {
			d, sr := ra.lenOf(s, cp.Call.Args[0], qv, 0), ra.lenOf(s, cp.Call.Args[1], qv, 0)
			s.env[x], s.cls[x] = rival{rconst(0), ctx.minB(d.hi, sr.hi)}, rcls{}
			if mk, ok := cp.Call.Args[0].(*ssa.MakeSlice); ok {
				s.ub[x] = mk.Len
			}
			return one
		}
		cal := staticCallee(&x.Call)
		if cal == m.rotate && len(x.Call.Args) > 0 {
			if isVs, _ := ra.curVs(s, x.Call.Args[0], qv); isVs {
				s.rotated = true
			}
			return one
		}
		if isIntVal(x) {
			s.cls[x] = rcls{}
		}
		if cal == nil || cal.Blocks == nil {
			return one
		}
		qi := -1
		for i, a := range x.Call.Args {
			if a == qv {
				qi = i
			}
		}
		if qi < 0 || qi >= len(cal.Params) {
			return one
		}
		if p, ok := ra.valueSummaryOf(cal); ok && qi == 0 {
			s.env[x] = ra.operandIv(s, p)
			switch {
			case p.field != nil && sameField(p.field, m.headF):
				s.fieldOf[x], s.loadVer[x], s.cls[x] = p.field, s.hver, s.headC
			case p.field != nil:
				s.fieldOf[x], s.loadVer[x], s.cls[x] = p.field, s.nver, s.nC
			case p.isLen:
				s.cls[x] = clsConst(0)
			}
			return one
		}
		if _, ok := ra.predSummaryOf(cal); ok && qi == 0 {
			s.loadVer[x] = s.hver + s.nver + s.vver
			return one
		}
		// helper on the same queue: analyse it from the current abstract memory
		sub := s.clone()
		sub.hasRet = false
		for i, p := range cal.Params {
			if i < len(x.Call.Args) && isIntVal(p) {
				sub.env[p], sub.cls[p] = ra.valOf(s, x.Call.Args[i]), ra.clsOf(s, x.Call.Args[i], 0)
				sub.paramArg[p] = x.Call.Args[i]
			}
			if i < len(x.Call.Args) && isBoolVal(p) {
				if bv := ra.valOf(s, x.Call.Args[i]); bv != rTop {
					sub.env[p] = bv
				}
			}
		}
		results := ra.run(cal, cal.Params[qi], sub, false)
		var out []*rstate
		for _, res := range results {
			res.headSrc, res.nSrc = nil, nil
			if isIntVal(x) && res.hasRet {
				res.env[x], res.cls[x] = res.ret, res.retC
			}
			// boolean results (found, ok): what this path of the helper answered
			if isBoolVal(x) {
				if bv, ok := res.retB[0]; ok {
					res.env[x] = bv
				} else {
					delete(res.env, x)
				}
			}
			for _, r := range referrersOf(x) {
				if ex, ok := r.(*ssa.Extract); ok && isBoolVal(ex) {
					if bv, ok := res.retB[ex.Index]; ok {
						res.env[ex] = bv
					} else {
						delete(res.env, ex)
					}
				}
			}
			res.retB = nil
			res.hasRet = false
			out = append(out, res)
		}
		return out
	case *ssa.BinOp:
		if !isIntVal(x) {
			return one
		}
		X, Y := ra.valOf(s, x.X), ra.valOf(s, x.Y)
		switch x.Op {
		case token.ADD:
			s.env[x] = rival{radd(X.lo, Y.lo), radd(X.hi, Y.hi)}
		case token.SUB:
			r := rival{radd(X.lo, rneg(Y.hi)), radd(X.hi, rneg(Y.lo))}
			if u, ok := s.ub[x.Y]; ok && ra.sameVal(s, u, x.X) && !ctx.leq(rconst(0), r.lo) {
				r.lo = rconst(0) // y ≤ x
			}
			s.env[x] = r
		case token.MUL:
			if k, ok := constInt(x.Y); ok && k >= 0 && X.lo.inf == 0 && X.hi.inf == 0 {
				s.env[x] = rival{rbound{X.lo.a * k, X.lo.b * k, 0}, rbound{X.hi.a * k, X.hi.b * k, 0}}
			} else if k, ok := constInt(x.X); ok && k >= 0 && Y.lo.inf == 0 && Y.hi.inf == 0 {
				s.env[x] = rival{rbound{Y.lo.a * k, Y.lo.b * k, 0}, rbound{Y.hi.a * k, Y.hi.b * k, 0}}
			}
		case token.REM, token.QUO:
			isLen := false
			if ln, ok := isBuiltinCall(x.Y, "len"); ok {
				if isVs, cur := ra.curVs(s, ln.Call.Args[0], qv); isVs && cur {
					if s.lzero {
						if !ra.silent {
							ra.remBad[x.Y] = true
						}
						ra.problem(fmt.Sprintf("%s:%s len(q.vs)", name, x.Op), x.Pos(), "%s by the length of the ring buffer is reachable while the buffer is empty (length 0): integer divide by zero", x.Op)
						s.unreach = true
						return one
					}
					if !ra.silent {
						ra.remOK[x.Y] = true
					}
					isLen = true
				}
			} else if !s.lzero && Y.lo == rL && Y.hi == rL {
				isLen = true
			}
			s.cls[x] = rcls{}
			if x.Op == token.REM && isLen {
				s.cls[x] = ra.clsOf(s, x.X, 0)
				if ctx.leq(rconst(0), X.lo) {
					s.env[x] = rival{rconst(0), rLm1}
				} else {
					s.env[x] = rival{rbound{-1, 1, 0}, rLm1} // Go's % keeps the sign of the dividend
				}
			}
		default:
			s.cls[x] = rcls{}
		}
	case *ssa.IndexAddr:
		isVs, cur := ra.curVs(s, x.X, qv)
		if !isVs {
			return one
		}
		key := fmt.Sprintf("%s:index q.vs[%s]", name, ksym(x.Index))
		ra.site(key, x.Pos())
		if !cur {
			ra.problem(key, x.Pos(), "the indexed buffer was loaded before the buffer was replaced")
			return one
		}
		iv := ra.valOf(s, x.Index)
		okLo := ctx.leq(rconst(0), iv.lo)
		okHi := !s.lzero && ctx.leq(iv.hi, rLm1)
		if !okLo || !okHi {
			ra.problem(key, x.Pos(), "index into the ring buffer is not wrap-normalised: its abstract value %s is not within [0, L-1] (L = len of the buffer)", iv)
		} else {
			ra.checkSlot(name, s, x)
		}
	case *ssa.Slice:
		isVs, cur := ra.curVs(s, x.X, qv)
		if !isVs {
			return one
		}
		key := fmt.Sprintf("%s:slice %s", name, ksym(x))
		ra.site(key, x.Pos())
		if !cur {
			ra.problem(key, x.Pos(), "the sliced buffer was loaded before the buffer was replaced")
			return one
		}
		lo, hi := rexact(rconst(0)), rexact(rL)
		if x.Low != nil {
			lo = ra.valOf(s, x.Low)
		}
		if x.High != nil {
			hi = ra.valOf(s, x.High)
		}
		ordered := ctx.leq(lo.hi, hi.lo)
		if !ordered && x.Low != nil && x.High != nil {
			// high = low + nonneg
			if bo, ok := x.High.(*ssa.BinOp); ok && bo.Op == token.ADD {
				for _, pr := range [][2]ssa.Value{{bo.X, bo.Y}, {bo.Y, bo.X}} {
					if ra.sameVal(s, pr[0], x.Low) && ctx.leq(rconst(0), ra.valOf(s, pr[1]).lo) {
						ordered = true
					}
				}
			}
		}
		if !(ctx.leq(rconst(0), lo.lo) && ordered && ctx.leq(hi.hi, rL)) {
			ra.problem(key, x.Pos(), "slice bounds [%s : %s] of the ring buffer are not provably within 0 ≤ low ≤ high ≤ L", lo, hi)
		}
	case *ssa.Store:
		if x.Addr == qv {
			key := name + ":vs replaced"
			ra.site(key, x.Pos())
			if ra.zeroQueueValue(x.Val) {
				ra.rewriteForNewL(s, -1)
				s.head, s.n = rexact(rconst(0)), rexact(rconst(0))
			} else {
				ra.problem(key, x.Pos(), "the whole queue is overwritten by a value the analysis cannot relate to the invariant")
				ra.rewriteForNewL(s, -1)
				s.head, s.n = rTop, rTop
			}
			s.hver++
			s.nver++
			s.headSrc, s.nSrc = nil, nil
			s.headC, s.nC = clsConst(0), clsConst(0)
			return one
		}
		fa, ok := x.Addr.(*ssa.FieldAddr)
		if !ok || fa.X != qv {
			return one
		}
		_, f := fieldVarOf(fa)
		switch {
		case sameField(f, m.headF):
			s.head, s.headC, s.headSrc = ra.valOf(s, x.Val), ra.clsOf(s, x.Val, 0), x.Val
			s.hver++
		case sameField(f, m.nF):
			s.n, s.nC, s.nSrc = ra.valOf(s, x.Val), ra.clsOf(s, x.Val, 0), x.Val
			s.nver++
		case sameField(f, m.vsF):
			key := name + ":vs replaced"
			ra.site(key, x.Pos())
			v := x.Val
			if sl, ok := v.(*ssa.Slice); ok && sl.Low == nil {
				// w[:cap(w)], w[:len(w)] or w[:]
				full := sl.High == nil
				if sl.High != nil {
					if c2, ok := isBuiltinCall(sl.High, "cap"); ok && c2.Call.Args[0] == sl.X {
						full = true
					}
					if c2, ok := isBuiltinCall(sl.High, "len"); ok && c2.Call.Args[0] == sl.X {
						full = true
					}
				}
				if full {
					v = sl.X
				}
			}
			if ap, ok := isBuiltinCall(v, "append"); ok {
				if isVs, cur := ra.curVs(s, ap.Call.Args[0], qv); isVs && cur {
					g := appendCount(ap)
					if g > 1 {
						g = 1
					}
					if g == 0 && s.lzero {
						ra.problem(key, x.Pos(), "the buffer is re-appended with a number of elements the analysis cannot bound below")
					}
					// growth by append keeps cells 0..L-1 and puts the appended element at index L: that is the
					// logical position n of the new element only if the buffer is exactly full and starts at 0
					gk := name + ":growth appends at position n"
					ra.site(gk, x.Pos())
					// (the count may already include the element being added: n = L + 1 with the new cell at position n − 1)
					full := ctx.same(s.n, rexact(rL)) || ctx.same(s.n, rexact(radd(rL, rconst(1))))
					atZero := ctx.same(s.head, rexact(rconst(0)))
					switch {
					case !full:
						ra.problem(gk, x.Pos(), "the buffer is extended by append while n has abstract value %s, not exactly the buffer length: the appended cell is not the logical position n (a hole or an overwritten element)", s.n)
					case !atZero:
						ra.problem(gk, x.Pos(), "the buffer is extended by append while head has abstract value %s, not 0: the appended cell does not follow the last element", s.head)
					}
					ra.rewriteForNewL(s, g)
					s.grewBy = g
					if full && atZero && g >= 1 {
						// restart the slot classes in the grown buffer: logical head is cell 0
						s.grownOK, s.rotated = true, false
						s.Hiv = rexact(rconst(0))
						s.cls = map[ssa.Value]rcls{}
						s.headC = rcls{ok: true, h: 1}
					}
					return one
				}
			}
			if mk, ok := v.(*ssa.MakeSlice); ok {
				ln := ra.valOf(s, mk.Len)
				if ctx.leq(rbound{1, 1, 0}, ln.lo) {
					ra.rewriteForNewL(s, 1)
					s.grewBy = 1
					return one
				}
			}
			if isNilConst(x.Val) {
				ra.rewriteForNewL(s, -1)
				return one
			}
			ra.problem(key, x.Pos(), "the ring buffer is replaced by a value whose length the analysis cannot relate to the old one")
			ra.rewriteForNewL(s, -1)
			s.head, s.n = rTop, rTop
		}
	case *ssa.Return:
		pos := x.Pos()
		if pos == token.NoPos {
			pos = fn.Pos()
		}
		if checkExit {
			ra.checkInvariant(name, s, pos)
			ra.checkSlotExit(name, s, pos)
		}
		o := s.clone()
		if len(x.Results) == 1 && isIntVal(x.Results[0]) {
			o.ret, o.retC, o.hasRet = ra.valOf(s, x.Results[0]), ra.clsOf(s, x.Results[0], 0), true
		}
		o.retB = nil
		for i, r := range x.Results {
			if isBoolVal(r) {
				if bv := ra.valOf(s, r); bv != rTop {
					if o.retB == nil {
						o.retB = map[int]rival{}
					}
					o.retB[i] = bv
				}
			}
		}
		*exits = append(*exits, o)
		s.unreach = true
	case *ssa.Panic:
		s.unreach = true
	}
	return one
}

// zeroQueueValue: the zero value of the queue struct (a zero constant, or a
// load of a fresh local that has no field initialised).
func (ra *ringAbs) zeroQueueValue(v ssa.Value) bool {
	if c, ok := v.(*ssa.Const); ok {
		return c.Value == nil
	}
	u, ok := v.(*ssa.UnOp)
	if !ok || u.Op != token.MUL {
		return false
	}
	al, ok := u.X.(*ssa.Alloc)
	if !ok {
		return false
	}
	for _, r := range referrersOf(al) {
		if _, isLoad := r.(*ssa.UnOp); !isLoad {
			return false
		}
	}
	return true
}

func (ra *ringAbs) checkInvariant(name string, s *rstate, pos token.Pos) {
	ctx := rctx{s.lzero}
	kn, kh := name+":n at return", name+":head at return"
	ra.site(kn, pos)
	ra.site(kh, pos)
	if !(ctx.leq(rconst(0), s.n.lo) && ctx.leq(s.n.hi, rL)) {
		ra.problem(kn, pos, "at this return n has abstract value %s, not provably within [0, L] (L = len of the buffer): the count can leave the buffer's range", s.n)
	}
	hiOK := ctx.leq(s.head.hi, rLm1)
	if s.lzero {
		hiOK = ctx.leq(s.head.hi, rconst(0))
	}
	if !(ctx.leq(rconst(0), s.head.lo) && hiOK) {
		ra.problem(kh, pos, "at this return head has abstract value %s, not provably within [0, max(L-1, 0)]: head is set to a value that is not wrap-normalised", s.head)
	}
}

// runRoots analyses every root method (and closures capturing the queue) in both buffer regimes.
func (ra *ringAbs) runRoots(methods []*ssa.Function) {
	called := map[*ssa.Function]bool{}
	for _, fn := range methods {
		allInstrs(fn, func(in ssa.Instruction) {
			if call, ok := in.(*ssa.Call); ok {
				if cal := staticCallee(&call.Call); cal != nil && cal != fn {
					called[cal] = true
				}
			}
		})
	}
	specs := ringSpecs()
	labels := map[bool]string{true: "case: empty buffer, L = 0", false: "case: L ≥ 1"}
	for _, fn := range methods {
		if fn.Blocks == nil || len(fn.Params) == 0 {
			continue
		}
		isRoot := fn.Object() == nil || fn.Object().Exported() || !called[fn]
		if !isRoot {
			continue
		}
		if _, isPtr := fn.Params[0].Type().Underlying().(*types.Pointer); !isPtr {
			continue
		}
		ra.roots = append(ra.roots, fnName(fn))
		ra.spec, ra.rootFn = specs[fn.Name()], fn
		for _, lz := range []bool{true, false} {
			ra.label = labels[lz]
			ra.run(fn, fn.Params[0], newRState(lz), true)
		}
		// closures capturing the receiver run later, in any state satisfying the invariant
		ra.spec = nil
		for _, cl := range withClosures(fn)[1:] {
			var mc *ssa.MakeClosure
			if cl.Parent() == nil {
				continue
			}
			allInstrs(cl.Parent(), func(in ssa.Instruction) {
				if x, ok := in.(*ssa.MakeClosure); ok && x.Fn == ssa.Value(cl) {
					mc = x
				}
			})
			if mc == nil {
				continue
			}
			for i, b := range mc.Bindings {
				if b == ssa.Value(fn.Params[0]) && i < len(cl.FreeVars) {
					for _, lz := range []bool{true, false} {
						ra.label = labels[lz]
						ra.run(cl, cl.FreeVars[i], newRState(lz), true)
					}
				}
			}
		}
	}
}

// sameState: the two abstract states are equal (fixpoint test).
func (ra *ringAbs) sameState(a, b *rstate) bool {
	if a.lzero != b.lzero || a.head != b.head || a.n != b.n || a.Hiv != b.Hiv || a.Niv != b.Niv || a.headC != b.headC || a.nC != b.nC ||
		a.hver != b.hver || a.nver != b.nver || a.vver != b.vver || a.lchanged != b.lchanged || a.rotated != b.rotated || a.grownOK != b.grownOK || len(a.env) != len(b.env) || len(a.cls) != len(b.cls) {
		return false
	}
	for k, v := range a.env {
		if w, ok := b.env[k]; !ok || w != v {
			return false
		}
	}
	for k, v := range a.cls {
		if w, ok := b.cls[k]; !ok || w != v {
			return false
		}
	}
	return true
}

// widen: bounds of nw that moved away from old go to infinity.
func (ra *ringAbs) widen(old, nw *rstate) {
	ctx := rctx{nw.lzero}
	w := func(o, n rival) rival {
		if !ctx.leq(n.hi, o.hi) {
			n.hi = rPosInf
		}
		if !ctx.leq(o.lo, n.lo) {
			n.lo = rNegInf
		}
		return n
	}
	nw.head, nw.n = w(old.head, nw.head), w(old.n, nw.n)
	for k, v := range nw.env {
		if o, ok := old.env[k]; ok {
			nw.env[k] = w(o, v)
		}
	}
}

// phiEdgeClass: the class of the value arriving at φ over edge j.  When the
// arriving value is provably ≡ (on this edge) to the value of another edge —
// a wrap such as  x == len → 0  or  x < 0 → len−1 — the more symbolic class
// is kept, so that a wrap does not look like a change of slot.
func (ra *ringAbs) phiEdgeClass(o *rstate, ph *ssa.Phi, j int) rcls {
	c := ra.clsOf(o, ph.Edges[j], 0)
	if !c.ok {
		return c
	}
	atoms := func(x rcls) int {
		n := 0
		if x.h != 0 {
			n++
		}
		if x.n != 0 {
			n++
		}
		if x.r != nil {
			n++
		}
		return n
	}
	for k, x := range ph.Edges {
		if k == j || x == ph.Edges[j] {
			continue
		}
		if _, seen := o.env[x]; !seen {
			continue
		}
		cx := ra.clsOf(o, x, 0)
		if cx.ok && atoms(cx) > atoms(c) && ra.clsEq(o, c, cx) {
			c = cx
		}
	}
	return c
}

// checkLive: an element that is READ must lie in the live window head₀ … head₀+n₀−1.
func (ra *ringAbs) checkLive(name string, s *rstate, x *ssa.IndexAddr, c rcls) {
	read := false
	for _, r := range referrersOf(x) {
		if st, ok := r.(*ssa.Store); ok && st.Addr == ssa.Value(x) {
			continue
		}
		read = true
	}
	if !read || s.nver != 0 && s.grownOK {
		return
	}
	ctx := rctx{s.lzero}
	key := fmt.Sprintf("%s:live q.vs[%s]", name, ksym(x.Index))
	o := c.add(rcls{ok: true, h: 1}, -1) // offset from the head
	if !o.ok || o.h != 0 {
		return
	}
	// N's lower bound on this path (n may have been decremented already: the entry value counts)
	nLo := s.Niv.lo
	atLeast := func(k int64) bool { return ctx.leq(rconst(k), nLo) }
	switch {
	case o.r == nil && o.n == 0: // constant offset k
		ra.site(key, x.Pos())
		if o.k < 0 || !atLeast(o.k+1) {
			ra.problem(key, x.Pos(), "the element at offset %d from the head is read while the queue may hold fewer than %d elements (n₀ ∈ %s): a stale slot is returned as if it were an element", o.k, o.k+1, s.Niv)
		}
	case o.r == nil && o.n == 1: // n₀ + k
		ra.site(key, x.Pos())
		if o.k >= 0 || !atLeast(-o.k) {
			ra.problem(key, x.Pos(), "the element at offset n₀%+d from the head is read, outside the live window 0 … n₀−1 (n₀ ∈ %s)", o.k, s.Niv)
		}
	case o.r != nil:
		if _, isParam := o.r.(*ssa.Parameter); !isParam {
			return // a loop position: the number of iterations is not decided here
		}
		ra.site(key, x.Pos())
		lo := ra.valOf(s, o.r).lo
		nonneg := s.geZ[o] || (o.n == 0 && o.rc == 1 && o.k == 0 && ctx.leq(rconst(0), lo))
		below := s.ltN[o] || (o.n == 1 && o.rc == 1 && o.k == 0 && ctx.leq(ra.valOf(s, o.r).hi, rconst(-1)))
		if !nonneg || !below {
			ra.problem(key, x.Pos(), "the element at offset %s from the head is read without that offset being known to lie in 0 … n₀−1: a slot outside the live window is returned as if it were an element", o)
		}
	}
}

// blockInLoop: b can reach itself.
func blockInLoop(b *ssa.BasicBlock) bool {
	seen := map[*ssa.BasicBlock]bool{}
	work := append([]*ssa.BasicBlock{}, b.Succs...)
	for len(work) > 0 {
		x := work[len(work)-1]
		work = work[:len(work)-1]
		if x == b {
			return true
		}
		if seen[x] {
			continue
		}
		seen[x] = true
		work = append(work, x.Succs...)
	}
	return false
}
