package main

// E-orig: flow-insensitive origin (provenance) of slice/map/pointer values
// inside one function.

import (
	"fmt"
	"go/token"
	"sort"
	"strings"

	"golang.org/x/tools/go/ssa"
)

type Origin struct {
	Fresh   bool         // allocated in this function (or nil)
	Params  map[int]bool // derived from these parameters
	Unknown bool         // anything else (free variable, field load, unknown call)
	Why     string
}

func (o Origin) String() string {
	var parts []string
	if o.Fresh {
		parts = append(parts, "Fresh")
	}
	var ps []int
	for p := range o.Params {
		ps = append(ps, p)
	}
	sort.Ints(ps)
	for _, p := range ps {
		parts = append(parts, fmt.Sprintf("Param(%d)", p))
	}
	if o.Unknown {
		parts = append(parts, "Unknown("+o.Why+")")
	}
	if len(parts) == 0 {
		return "None"
	}
	return strings.Join(parts, "|")
}

func (o Origin) onlyFresh() bool { return !o.Unknown && len(o.Params) == 0 }
func (o Origin) onlyParam(i int) bool {
	return !o.Unknown && !o.Fresh && len(o.Params) == 1 && o.Params[i]
}
func (o Origin) hasParam(i int) bool { return o.Params[i] }

func joinO(a, b Origin) Origin {
	r := Origin{Fresh: a.Fresh || b.Fresh, Unknown: a.Unknown || b.Unknown, Params: map[int]bool{}, Why: a.Why}
	if r.Why == "" {
		r.Why = b.Why
	}
	for p := range a.Params {
		r.Params[p] = true
	}
	for p := range b.Params {
		r.Params[p] = true
	}
	return r
}

type origCtx struct {
	fn   *ssa.Function
	memo map[ssa.Value]Origin
	busy map[ssa.Value]bool
	// self: captured cells whose own contents are being evaluated (a closure's `x = append(x, v)` on a
	// variable of its creator): a load of such a cell contributes nothing new
	self map[ssa.Value]bool
}

func newOrig(fn *ssa.Function) *origCtx {
	return &origCtx{fn: fn, memo: map[ssa.Value]Origin{}, busy: map[ssa.Value]bool{}}
}

var freshStdFuncs = map[string]bool{
	"slices.Clone": true, "maps.Clone": true, "slices.Collect": true, "slices.Sorted": true,
	"strings.Split": true, "strings.Fields": true, "strings.SplitN": true,
}

func (oc *origCtx) of(v ssa.Value) Origin {
	if o, ok := oc.memo[v]; ok {
		return o
	}
	if oc.busy[v] {
		return Origin{Params: map[int]bool{}} // cycle: neutral element
	}
	oc.busy[v] = true
	o := oc.compute(v)
	delete(oc.busy, v)
	oc.memo[v] = o
	return o
}

func (oc *origCtx) compute(v ssa.Value) Origin {
	none := func() Origin { return Origin{Params: map[int]bool{}} }
	switch x := v.(type) {
	case *ssa.Parameter:
		for i, p := range oc.fn.Params {
			if p == x {
				o := none()
				o.Params[i] = true
				return o
			}
		}
	case *ssa.Const:
		o := none()
		o.Fresh = true // nil: aliases nothing
		return o
	case *ssa.Alloc:
		o := none()
		o.Fresh = true
		return o
	case *ssa.MakeSlice, *ssa.MakeMap:
		o := none()
		o.Fresh = true
		return o
	case *ssa.Slice:
		return oc.of(x.X)
	case *ssa.ChangeType:
		return oc.of(x.X)
	case *ssa.Convert:
		return oc.of(x.X)
	case *ssa.IndexAddr:
		return oc.of(x.X)
	case *ssa.FieldAddr:
		return oc.of(x.X)
	case *ssa.Phi:
		o := none()
		for _, e := range x.Edges {
			o = joinO(o, oc.of(e))
		}
		return o
	case *ssa.UnOp:
		if x.Op == token.MUL {
			if oc.self[x.X] {
				return none() // the captured cell whose contents are being evaluated
			}
			// load from a local cell: join of everything stored into it
			if al, ok := x.X.(*ssa.Alloc); ok {
				o := none()
				n := 0
				for _, r := range referrersOf(al) {
					if st, ok := r.(*ssa.Store); ok && st.Addr == al {
						o = joinO(o, oc.of(st.Val))
						n++
					}
				}
				// the cell may also be captured by closures that store into it (a range-over-func body, a
				// callback that collects): join what they store, evaluated in the closure with the cell's
				// own contents neutral; a closure-side value that involves the closure's parameters is unknown
				for _, r := range referrersOf(al) {
					mc, ok := r.(*ssa.MakeClosure)
					if !ok {
						continue
					}
					cl := mc.Fn.(*ssa.Function)
					for bi, bnd := range mc.Bindings {
						if bnd != ssa.Value(al) || bi >= len(cl.FreeVars) {
							continue
						}
						fv := cl.FreeVars[bi]
						for _, r2 := range referrersOf(fv) {
							st2, ok := r2.(*ssa.Store)
							if !ok || st2.Addr != ssa.Value(fv) {
								continue
							}
							sub := newOrig(cl)
							sub.self = map[ssa.Value]bool{fv: true}
							o2 := sub.of(st2.Val)
							if len(o2.Params) > 0 {
								o2 = Origin{Unknown: true, Why: "value stored by a closure from its own parameter", Params: map[int]bool{}}
							}
							o = joinO(o, o2)
							n++
						}
					}
				}
				if n > 0 {
					return o
				}
			}
			// load of an element/field of a local array or struct variable (rows := [2][]T{…}; rows[j&1]):
			// join of everything stored into any of its elements, provided the variable does not escape
			var al *ssa.Alloc
			switch a := x.X.(type) {
			case *ssa.IndexAddr:
				al, _ = a.X.(*ssa.Alloc)
			case *ssa.FieldAddr:
				al, _ = a.X.(*ssa.Alloc)
			}
			if al != nil {
				o := none()
				o.Fresh = true // the zero value of an element aliases nothing
				escapes := false
				for _, r := range referrersOf(al) {
					switch y := r.(type) {
					case *ssa.IndexAddr, *ssa.FieldAddr:
						for _, r2 := range referrersOf(y.(ssa.Value)) {
							switch z := r2.(type) {
							case *ssa.Store:
								if z.Addr == y.(ssa.Value) {
									o = joinO(o, oc.of(z.Val))
								} else {
									escapes = true
								}
							case *ssa.UnOp, *ssa.DebugRef:
							default:
								escapes = true
							}
						}
					case *ssa.Store:
						if y.Addr == ssa.Value(al) {
							o = joinO(o, oc.of(y.Val))
						} else {
							escapes = true
						}
					case *ssa.UnOp, *ssa.DebugRef:
					default:
						escapes = true
					}
				}
				if !escapes {
					return o
				}
			}
			o := none()
			o.Unknown = true
			o.Why = "load " + sym(x)
			return o
		}
	case *ssa.Call:
		if b, ok := x.Call.Value.(*ssa.Builtin); ok {
			switch b.Name() {
			case "append":
				base := oc.of(x.Call.Args[0])
				// appending may reuse base's spare capacity or allocate: the result aliases base or is fresh
				r := joinO(base, Origin{Fresh: true, Params: map[int]bool{}})
				return r
			case "min", "max", "len", "cap":
				o := none()
				o.Fresh = true
				return o
			}
		}
		if cal := x.Call.StaticCallee(); cal != nil {
			full := ""
			if cal.Pkg != nil {
				full = cal.Pkg.Pkg.Name() + "." + origin(cal).Name()
			} else if cal.Object() != nil && cal.Object().Pkg() != nil {
				full = cal.Object().Pkg().Name() + "." + cal.Object().Name()
			}
			if freshStdFuncs[full] {
				o := none()
				o.Fresh = true
				return o
			}
			oc2 := origin(cal)
			if oc2.Blocks != nil {
				// summary: which of the callee's params can its result alias?
				sum := resultOrigin(oc2, 0)
				o := none()
				o.Fresh = sum.Fresh
				if sum.Unknown {
					o.Unknown, o.Why = true, "result of "+fnName(oc2)
				}
				args := x.Call.Args
				for p := range sum.Params {
					if p < len(args) {
						o = joinO(o, oc.of(args[p]))
					}
				}
				return o
			}
		}
		o := none()
		o.Unknown = true
		o.Why = "call " + x.Call.Value.Name()
		return o
	case *ssa.Extract:
		o := none()
		o.Unknown = true
		o.Why = "tuple element"
		return o
	case *ssa.FreeVar:
		o := none()
		o.Unknown = true
		o.Why = "captured variable " + x.Name()
		return o
	case *ssa.MakeInterface:
		return oc.of(x.X)
	case *ssa.TypeAssert:
		return oc.of(x.X)
	}
	o := none()
	o.Unknown = true
	o.Why = fmt.Sprintf("%T", v)
	return o
}

var resultOriginMemo = map[*ssa.Function]map[int]Origin{}
var resultOriginBusy = map[*ssa.Function]bool{}

// resultOrigin: origin of result idx of fn in terms of fn's own parameters.
func resultOrigin(fn *ssa.Function, idx int) Origin {
	fn = origin(fn)
	if m, ok := resultOriginMemo[fn]; ok {
		if o, ok := m[idx]; ok {
			return o
		}
	}
	if resultOriginBusy[fn] {
		return Origin{Params: map[int]bool{}}
	}
	resultOriginBusy[fn] = true
	defer delete(resultOriginBusy, fn)
	oc := newOrig(fn)
	o := Origin{Params: map[int]bool{}}
	n := 0
	allInstrs(fn, func(in ssa.Instruction) {
		if r, ok := in.(*ssa.Return); ok && idx < len(r.Results) {
			o = joinO(o, oc.of(r.Results[idx]))
			n++
		}
	})
	if n == 0 {
		o.Unknown, o.Why = true, "no returns"
	}
	if resultOriginMemo[fn] == nil {
		resultOriginMemo[fn] = map[int]Origin{}
	}
	resultOriginMemo[fn][idx] = o
	return o
}

// mutatedParams: which slice/map parameters of fn may be written through
// (element store, copy destination, append base, clear, delete, map update,
// or passed to a callee that does so).
var mutatedMemo = map[*ssa.Function]map[int]string{}
var mutatedBusy = map[*ssa.Function]bool{}

var stdMutatesArg0 = map[string]bool{
	"slices.Reverse": true, "slices.Sort": true, "slices.SortFunc": true, "slices.SortStableFunc": true,
	"slices.Compact": true, "slices.CompactFunc": true, "slices.Delete": true, "slices.DeleteFunc": true,
	"slices.Insert": true, "slices.Replace": true, "sort.Slice": true, "sort.SliceStable": true, "sort.Ints": true,
	"sort.Strings": true, "clear": true,
}

type writeEvent struct {
	in   ssa.Instruction
	what string
	base ssa.Value
}

// writeEvents lists every instruction in fn that writes through a
// slice/map/pointer value, with the value written through.
func writeEvents(fn *ssa.Function) []writeEvent {
	var out []writeEvent
	allInstrs(fn, func(in ssa.Instruction) {
		switch x := in.(type) {
		case *ssa.Store:
			switch a := x.Addr.(type) {
			case *ssa.IndexAddr:
				out = append(out, writeEvent{in, "element store", a.X})
			case *ssa.FieldAddr:
				if _, isAlloc := a.X.(*ssa.Alloc); !isAlloc {
					out = append(out, writeEvent{in, "field store", a.X})
				}
			}
		case *ssa.MapUpdate:
			out = append(out, writeEvent{in, "map update", x.Map})
		case ssa.CallInstruction:
			c := x.Common()
			if b, ok := c.Value.(*ssa.Builtin); ok {
				switch b.Name() {
				case "copy":
					out = append(out, writeEvent{in, "copy destination", c.Args[0]})
				case "append":
					// a base clipped to its length (s[:h:h]) has no spare capacity: append cannot write into it
					if sl, ok := c.Args[0].(*ssa.Slice); ok && sl.Max != nil && sl.High != nil && (sl.Max == sl.High || sym(sl.Max) == sym(sl.High)) {
						return
					}
					out = append(out, writeEvent{in, "append base", c.Args[0]})
				case "clear", "delete":
					out = append(out, writeEvent{in, b.Name(), c.Args[0]})
				}
				return
			}
			cal := c.StaticCallee()
			if cal == nil {
				return
			}
			full := ""
			if cal.Pkg != nil {
				full = cal.Pkg.Pkg.Name() + "." + origin(cal).Name()
			} else if cal.Object() != nil && cal.Object().Pkg() != nil {
				full = cal.Object().Pkg().Name() + "." + cal.Object().Name()
			}
			if stdMutatesArg0[full] && len(c.Args) > 0 {
				out = append(out, writeEvent{in, "argument of " + full, c.Args[0]})
				return
			}
			oc2 := origin(cal)
			if oc2.Blocks != nil && oc2.Pkg != nil && strings.HasPrefix(oc2.Pkg.Pkg.Path(), modPath) {
				// repository callee: summary computed from its body (standard library: frozen table above)
				for p, why := range mutatedParams(oc2) {
					if p < len(c.Args) {
						out = append(out, writeEvent{in, "argument of " + fnName(oc2) + " (" + why + ")", c.Args[p]})
					}
				}
			}
		}
	})
	return out
}

func mutatedParams(fn *ssa.Function) map[int]string {
	fn = origin(fn)
	if m, ok := mutatedMemo[fn]; ok {
		return m
	}
	if mutatedBusy[fn] {
		return nil
	}
	mutatedBusy[fn] = true
	defer delete(mutatedBusy, fn)
	res := map[int]string{}
	oc := newOrig(fn)
	for _, ev := range writeEvents(fn) {
		o := oc.of(ev.base)
		for p := range o.Params {
			if _, ok := res[p]; !ok {
				res[p] = ev.what
			}
		}
	}
	mutatedMemo[fn] = res
	return res
}
