package main

// C02 — scapegoat height bound.  The numeric bound itself is out of reach (see
// DESIGN §3 C02); what IS visible in the shape of the code is the wiring of the
// depth-budget mechanism that enforces it.  Each obligation is a necessary
// condition of the bound: break it and some insertion history grows a path
// without ever triggering a rebuild.

import (
	"fmt"
	"go/token"
	"go/types"
	"sort"
	"strings"

	"golang.org/x/tools/go/ssa"
)

func init() {
	register(&propDef{ID: "C02", Level: "other", Run: runC02})
}

func runC02(c *Ctx) {
	P := c.P
	c.Explanation = "Decides ONLY the wiring of the mechanism that enforces the bound, not the bound: (R-DEPTH-BUDGET) the recursive insertion passes a depth budget that decreases by a positive constant on every recursive descent (both sides), raises its 'too deep' flag when a node is created with the budget exhausted, and Add/Replace start it from the tree's limit function applied to the (prospective) size; (R-GOAT-REBUILD) on the way back up, under a raised flag, a subtree whose height exceeds its own limit is rebuilt from (that subtree, its size — sibling size + 1 + flagged size), the rebuilt subtree is what is returned, and the flag is cleared. Each is a necessary condition: without it some insertion history (e.g. ascending keys) grows a path of unbounded depth with no rebuild. The goat criterion's limit is taken for the very size the subtree is rebuilt with. (R-LOOKUP-COST) everything Tree.Get reaches compares keys at exactly one site, inside the descent: one comparison per level. Does NOT decide the numeric bound log_{2000/(1000+β)} P + 1 (limitFunc's floating-point formula, the choice of scapegoat, the DSW rebuild producing a balanced tree, the delete-side threshold), nor the minimum-height claim for New."
	c.rule("R-DEPTH-BUDGET", 4, "budget decreases by a positive constant on each recursive descent; exhaustion raises the flag at the new leaf; Add/Replace start from limit(size[+1])")
	ruleFractionRange(c)
	c.rule("R-LOOKUP-COST", 1, "everything Tree.Get reaches compares keys at exactly one site, which lies in a descent loop (or a self-recursive descent): one comparison per level")
	ruleLookupCost(c)
	c.rule("R-GOAT-REBUILD", 1, "under a raised flag and height > limit(subtree size) the subtree is rebuilt with its size, returned, and the flag cleared")
	ins := P.Func("stree", "Tree", "insert")
	rewrite := streeRebuild(P)
	nodeSize := P.Func("stree", "node", "size")
	sizeF := P.Field("stree", "Tree", "size")
	// the depth-limit role: the Tree field through which the initial budget of the insertion is computed — a
	// function-typed field that is called, or a field whose method is called — found at the insertion's call site
	var limitF *types.Var
	treeT := P.Named("stree", "Tree")
	limitCallField := func(v ssa.Value) *types.Var {
		call, ok := v.(*ssa.Call)
		if !ok {
			return nil
		}
		if _, f := loadedField(call.Call.Value); f != nil {
			return f
		}
		if call.Call.StaticCallee() != nil && len(call.Call.Args) >= 1 {
			if _, f := loadedField(call.Call.Args[0]); f != nil {
				return f
			}
		}
		return nil
	}
	if ins != nil && treeT != nil {
		for _, fn := range P.Methods("stree", "Tree") {
			allInstrs(fn, func(in ssa.Instruction) {
				call, ok := in.(*ssa.Call)
				if !ok || staticCallee(&call.Call) != ins || fn == ins {
					return
				}
				for _, a := range call.Call.Args {
					if f := limitCallField(a); f != nil && limitF == nil {
						for _, tf := range structFields(treeT) {
							if sameField(tf, f) {
								limitF = tf
							}
						}
					}
				}
			})
		}
	}
	// … or a method of the tree (t.limit(n)) computing the limit from fields it reads
	var limitM *ssa.Function
	var limitFields []*types.Var
	if ins != nil && treeT != nil && limitF == nil {
		for _, fn := range P.Methods("stree", "Tree") {
			allInstrs(fn, func(in ssa.Instruction) {
				call, ok := in.(*ssa.Call)
				if !ok || staticCallee(&call.Call) != ins || fn == ins || limitM != nil {
					return
				}
				for _, a := range call.Call.Args {
					lc, ok := a.(*ssa.Call)
					if !ok || len(fn.Params) == 0 || len(lc.Call.Args) < 2 || lc.Call.Args[0] != ssa.Value(fn.Params[0]) {
						continue
					}
					if cal := staticCallee(&lc.Call); cal != nil && cal.Blocks != nil && cal.Signature.Recv() != nil && isIntType(lc.Type()) {
						limitM = cal
					}
				}
			})
		}
		if limitM != nil {
			allInstrs(limitM, func(in ssa.Instruction) {
				v, isV := in.(ssa.Value)
				if !isV {
					return
				}
				if base, f := loadedField(v); f != nil && base == ssa.Value(limitM.Params[0]) {
					for _, g := range limitFields {
						if sameField(g, f) {
							return
						}
					}
					limitFields = append(limitFields, f)
				}
			})
		}
	} else if limitF != nil {
		limitFields = []*types.Var{limitF}
	}
	isLimitCall := func(v ssa.Value) bool {
		call, ok := v.(*ssa.Call)
		if !ok {
			return false
		}
		if limitM != nil {
			return staticCallee(&call.Call) == limitM
		}
		f := limitCallField(call)
		return f != nil && sameField(f, limitF)
	}
	isLimitField := func(f *types.Var) bool {
		for _, g := range limitFields {
			if sameField(g, f) {
				return true
			}
		}
		return false
	}
	if ins == nil || rewrite == nil || nodeSize == nil || len(limitFields) == 0 || sizeF == nil {
		c.undecided("ANCHOR", "stree.(*Tree).insert / rewrite / node.size / Tree.limit", 0, "anchor not found")
		return
	}
	c.sawFn(fnName(ins))
	// self-recursive calls and the budget parameter
	var selfCalls []*ssa.Call
	allInstrs(ins, func(in ssa.Instruction) {
		if call, ok := in.(*ssa.Call); ok && staticCallee(&call.Call) == ins {
			selfCalls = append(selfCalls, call)
		}
	})
	// one call serves both sides when its node argument is read through a pointer that selects the link
	// (child := &root.left; if cmp > 0 { child = &root.right }; … t.insert(…, *child, limit-1))
	bothSides := false
	if len(selfCalls) == 1 {
		for _, a := range selfCalls[0].Call.Args {
			ld, ok := a.(*ssa.UnOp)
			if !ok || ld.Op != token.MUL {
				continue
			}
			ph, ok := ld.X.(*ssa.Phi)
			if !ok {
				continue
			}
			flds := map[string]bool{}
			for _, e := range ph.Edges {
				if fa, ok := e.(*ssa.FieldAddr); ok {
					_, f := fieldVarOf(fa)
					flds[f.Name()] = true
				}
			}
			if len(flds) >= 2 {
				bothSides = true
			}
		}
	}
	if len(selfCalls) < 2 && !bothSides {
		c.undecided("R-DEPTH-BUDGET", "stree.(*Tree).insert:descent", ins.Pos(), fmt.Sprintf("%d recursive calls found (a binary descent has two)", len(selfCalls)))
		return
	}
	budget := -1
	for j, p := range ins.Params {
		if !isIntType(p.Type()) {
			continue
		}
		if f, ok := affOf(selfCalls[0].Call.Args[j], p, nil, 0); ok && f.a == 1 && f.d == 1 {
			budget = j
		}
	}
	if budget < 0 {
		c.undecided("R-DEPTH-BUDGET", "stree.(*Tree).insert:descent", ins.Pos(), "no integer parameter is passed on as itself ± constant: the depth budget was not recognised")
		return
	}
	bp := ins.Params[budget]
	for i, call := range selfCalls {
		key := fmt.Sprintf("stree.(*Tree).insert:descent#%d", i+1)
		f, ok := affOf(call.Call.Args[budget], bp, nil, 0)
		switch {
		case !ok || f.a != 1 || f.d != 1:
			c.bad("R-DEPTH-BUDGET", key, call.Pos(), "the recursive call does not pass the depth budget on as budget − constant")
		case f.b >= 0:
			c.bad("R-DEPTH-BUDGET", key, call.Pos(), fmt.Sprintf("the depth budget does not decrease on this descent (budget%+d): paths on this side can grow without ever exhausting it", f.b))
		default:
			c.ok("R-DEPTH-BUDGET", key, call.Pos(), fmt.Sprintf("budget%+d", f.b))
		}
	}
	// the flag result: the int result tested `> 0` on the ascent
	flagIdx := -1
	var flagPhi ssa.Value
	allInstrs(ins, func(in ssa.Instruction) {
		bo, ok := in.(*ssa.BinOp)
		if !ok {
			return
		}
		// any test that separates 0 from the positive values: > 0, <= 0, != 0, == 0, >= 1, < 1
		if k, isK := constInt(bo.Y); !isK || !((k == 0 && (bo.Op == token.GTR || bo.Op == token.LEQ || bo.Op == token.NEQ || bo.Op == token.EQL)) || (k == 1 && (bo.Op == token.GEQ || bo.Op == token.LSS))) {
			return
		}
		var ls []ssa.Value
		phiLeaves(bo.X, nil, map[ssa.Value]bool{}, &ls)
		for _, l := range ls {
			if ex, ok := l.(*ssa.Extract); ok {
				if call, ok := ex.Tuple.(*ssa.Call); ok && staticCallee(&call.Call) == ins {
					flagIdx, flagPhi = ex.Index, bo.X
				}
			}
		}
	})
	if flagIdx < 0 {
		c.undecided("R-GOAT-REBUILD", "stree.(*Tree).insert:flag", ins.Pos(), "no result of the recursive call is tested `> 0` on the way back up")
		return
	}
	// (b) leaf: a return that allocates the new node must raise the flag when the budget is exhausted
	leafOK, leafSeen := false, false
	var leafT int64
	haveLeafT := false
	var leafPos token.Pos
	allInstrs(ins, func(in ssa.Instruction) {
		ret, ok := in.(*ssa.Return)
		if !ok || len(ret.Results) <= flagIdx {
			return
		}
		if al, ok := ret.Results[0].(*ssa.Alloc); !ok || !al.Heap {
			return
		}
		leafSeen = true
		leafPos = ret.Pos()
		// the flag: a φ over the two cases, or a constant per return (one return per case)
		type fv struct {
			e    ssa.Value
			pred *ssa.BasicBlock
		}
		var fvs []fv
		if ph, ok := ret.Results[flagIdx].(*ssa.Phi); ok {
			for i, e := range ph.Edges {
				fvs = append(fvs, fv{e, ph.Block().Preds[i]})
			}
		} else {
			fvs = append(fvs, fv{ret.Results[flagIdx], ret.Block()})
		}
		for _, x := range fvs {
			e, pred := x.e, x.pred
			k, isC := constInt(e)
			if !isC || k == 0 {
				continue
			}
			// the edge must be guarded by budget < c (c in {0,1}) or budget <= c (c in {-1,0})
			for _, cm := range cmpsAt(pred) {
				if cm.X == ssa.Value(bp) {
					if k2, ok := constInt(cm.Y); ok && ((cm.Op == token.LSS && (k2 == 0 || k2 == 1)) || (cm.Op == token.LEQ && (k2 == -1 || k2 == 0))) {
						leafOK = true
						// flagged iff budget ≤ leafT
						leafT, haveLeafT = k2, true
						if cm.Op == token.LSS {
							leafT = k2 - 1
						}
					}
				}
			}
		}
	})
	if !leafSeen {
		c.undecided("R-DEPTH-BUDGET", "stree.(*Tree).insert:leaf", ins.Pos(), "the base case that allocates the new node was not recognised")
	} else {
		c.judge(leafOK, "R-DEPTH-BUDGET", "stree.(*Tree).insert:leaf", leafPos, "creating a node with the budget exhausted raises the flag", "a node created below the depth limit does not raise the 'too deep' flag: no scapegoat search is ever started")
	}
	// (a2) the height the goat criterion compares is the recursion's height plus one on EVERY descent
	// (a descent that forgets the +1 makes paths through it look shorter than they are)
	{
		// the height result: the int result of the recursion, other than the flag, that is compared with a limit call
		hIdx := -1
		allInstrs(ins, func(in ssa.Instruction) {
			bo, ok := in.(*ssa.BinOp)
			if !ok {
				return
			}
			for _, pr := range [][2]ssa.Value{{bo.X, bo.Y}, {bo.Y, bo.X}} {
				call, ok := pr[1].(*ssa.Call)
				if !ok || limitCallField(call) == nil {
					continue
				}
				var ls []ssa.Value
				phiLeaves(pr[0], nil, map[ssa.Value]bool{}, &ls)
				for _, l := range ls {
					if add, ok := l.(*ssa.BinOp); ok && add.Op == token.ADD {
						l = add.X
					}
					if ex, ok := l.(*ssa.Extract); ok && ex.Index != flagIdx {
						if c2, ok := ex.Tuple.(*ssa.Call); ok && staticCallee(&c2.Call) == ins {
							hIdx = ex.Index
						}
					}
				}
			}
		})
		if hIdx >= 0 {
			var bare []string
			n := 0
			for _, call := range selfCalls {
				for _, r := range referrersOf(call) {
					ex, ok := r.(*ssa.Extract)
					if !ok || ex.Index != hIdx {
						continue
					}
					n++
					// every use of the extracted height that flows on (φ, return, comparison) goes through +const>0
					for _, u := range referrersOf(ex) {
						switch x := u.(type) {
						case *ssa.BinOp:
							if k, ok := constInt(x.Y); ok && x.Op == token.ADD && k > 0 && x.X == ssa.Value(ex) {
								continue
							}
							bare = append(bare, c.P.pos(x.Pos()))
						case *ssa.Phi, *ssa.Return:
							bare = append(bare, c.P.pos(call.Pos()))
						}
					}
				}
			}
			sort.Strings(bare)
			if n > 0 {
				c.judge(len(bare) == 0, "R-DEPTH-BUDGET", "stree.(*Tree).insert:height counts every descent", ins.Pos(), "the recursion's height is incremented after each recursive call before it is used", fmt.Sprintf("the height returned by a recursive call is used without +1 (descent at %v): paths through that side look shorter than they are, and the scapegoat criterion never fires on them", bare))
			}
		}
	}
	// (a3) the limit function installed by New is built from New's balance parameter
	if nw := P.Func("stree", "", "New"); nw != nil {
		var betaParam *ssa.Parameter
		for _, p := range nw.Params {
			if isIntType(p.Type()) {
				betaParam = p
				break
			}
		}
		n := 0
		allInstrs(nw, func(in ssa.Instruction) {
			st, ok := in.(*ssa.Store)
			if !ok {
				return
			}
			fa, ok := st.Addr.(*ssa.FieldAddr)
			if !ok {
				return
			}
			if _, f := fieldVarOf(fa); !isLimitField(f) {
				return
			}
			if st.Val == ssa.Value(betaParam) && betaParam != nil {
				return // the balance factor itself, which the limit method reads
			}
			call, ok := st.Val.(*ssa.Call)
			if !ok || betaParam == nil {
				return
			}
			n++
			uses := false
			for _, a := range call.Call.Args {
				var ls []ssa.Value
				phiLeaves(a, nil, map[ssa.Value]bool{}, &ls)
				for _, l := range ls {
					if l == ssa.Value(betaParam) {
						uses = true
					}
					if cv, ok := l.(*ssa.Convert); ok && cv.X == ssa.Value(betaParam) {
						uses = true
					}
				}
			}
			c.sawFn(fnName(nw))
			c.judge(uses, "R-DEPTH-BUDGET", "stree.New:limit built from the balance factor", st.Pos(), "the limit function is constructed from New's balance parameter", "the depth-limit function New installs is not built from the balance factor it was given (a constant or another value is passed): every tree gets the same limit whatever its balance factor")
		})
	}
	// (a4) what the limit is computed from survives every method: a method that overwrites the whole tree value
	// (*t = Tree{…}) carries the limit's fields over, and none of them is set to a constant after construction
	c.rule("R-LIMIT-KEPT", 0, "no Tree method resets the fields the depth limit is computed from: a whole-value overwrite of the receiver copies them, no store of a constant")
	for _, fn := range P.Methods("stree", "Tree") {
		if len(fn.Params) == 0 {
			continue
		}
		recv := ssa.Value(fn.Params[0])
		fn := fn
		allInstrs(fn, func(in ssa.Instruction) {
			st, ok := in.(*ssa.Store)
			if !ok {
				return
			}
			if fa, ok := st.Addr.(*ssa.FieldAddr); ok && fa.X == recv {
				if _, f := fieldVarOf(fa); isLimitField(f) {
					if k, isK := st.Val.(*ssa.Const); isK {
						c.sawFn(fnName(fn))
						c.bad("R-LIMIT-KEPT", fnName(fn)+":store ."+f.Name(), st.Pos(), fmt.Sprintf("%s sets .%s, which the depth limit is computed from, to the constant %s: later insertions use a wrong limit (no rebalancing, or a panic)", fn.Name(), f.Name(), k.Name()))
					}
				}
				return
			}
			if st.Addr != recv {
				return
			}
			if _, zero := st.Val.(*ssa.Const); zero {
				// *t = Tree{…} compiled as: zero the receiver, then set the listed fields in place
				c.sawFn(fnName(fn))
				for _, f := range limitFields {
					var set *ssa.Store
					allInstrs(fn, func(in2 ssa.Instruction) {
						s2, ok := in2.(*ssa.Store)
						if !ok || !dominatesInstr(st, s2) {
							return
						}
						if fa, ok := s2.Addr.(*ssa.FieldAddr); ok && fa.X == recv {
							if _, g := fieldVarOf(fa); sameField(g, f) {
								set = s2
							}
						}
					})
					key := fnName(fn) + ":overwrite keeps ." + f.Name()
					if set == nil {
						c.bad("R-LIMIT-KEPT", key, st.Pos(), fmt.Sprintf("%s overwrites the whole tree with a value that leaves .%s zero: the depth limit of later insertions is computed from it (no rebalancing any more, or a nil function is called)", fn.Name(), f.Name()))
						continue
					}
					base, g := loadedField(set.Val)
					ldi, _ := set.Val.(ssa.Instruction)
					c.judge(g != nil && sameField(g, f) && base == recv && ldi != nil && dominatesInstr(ldi, st), "R-LIMIT-KEPT", key, st.Pos(), "the new value takes ."+f.Name()+" from the old one", fmt.Sprintf("%s overwrites the whole tree and sets .%s to %s rather than to the tree's own .%s", fn.Name(), f.Name(), ksym(set.Val), f.Name()))
				}
				return
			}
			ld, ok := st.Val.(*ssa.UnOp)
			if !ok || ld.Op != token.MUL {
				return
			}
			lit, ok := ld.X.(*ssa.Alloc)
			if !ok {
				return
			}
			c.sawFn(fnName(fn))
			for _, f := range limitFields {
				var set ssa.Value
				found := false
				for _, r := range referrersOf(lit) {
					fa, ok := r.(*ssa.FieldAddr)
					if !ok {
						continue
					}
					if _, g := fieldVarOf(fa); !sameField(g, f) {
						continue
					}
					for _, r2 := range referrersOf(fa) {
						if s2, ok := r2.(*ssa.Store); ok && s2.Addr == ssa.Value(fa) {
							set, found = s2.Val, true
						}
					}
				}
				key := fnName(fn) + ":overwrite keeps ." + f.Name()
				switch {
				case !found:
					c.bad("R-LIMIT-KEPT", key, st.Pos(), fmt.Sprintf("%s overwrites the whole tree with a value that leaves .%s zero: the depth limit of later insertions is computed from it (no rebalancing any more, or a nil function is called)", fn.Name(), f.Name()))
				default:
					base, g := loadedField(set)
					c.judge(g != nil && sameField(g, f) && base == recv, "R-LIMIT-KEPT", key, st.Pos(), "the new value takes ."+f.Name()+" from the old one", fmt.Sprintf("%s overwrites the whole tree and sets .%s to %s rather than to the tree's own .%s", fn.Name(), f.Name(), ksym(set), f.Name()))
				}
			}
		})
	}
	// (c) entry budget
	for _, name := range []string{"Add", "Replace"} {
		fn := P.Func("stree", "Tree", name)
		if fn == nil {
			c.undecided("ANCHOR", "stree.(*Tree)."+name, 0, "not found")
			continue
		}
		c.sawFn(fnName(fn))
		okE := false
		for _, sf := range buildCallScope(fn).fns {
			if sf == ins {
				continue
			}
			allInstrs(sf, func(in ssa.Instruction) {
				call, ok := in.(*ssa.Call)
				if !ok || staticCallee(&call.Call) != ins {
					return
				}
				lim, ok := call.Call.Args[budget].(*ssa.Call)
				if !ok {
					return
				}
				if !isLimitCall(lim) || len(lim.Call.Args) == 0 {
					return
				}
				a := lim.Call.Args[len(lim.Call.Args)-1]
				if bo, ok := a.(*ssa.BinOp); ok && bo.Op == token.ADD && isConstInt(bo.Y, 1) {
					a = bo.X
				}
				if isLoadOfField(a, sizeF) {
					okE = true
				}
			})
		}
		c.judge(okE, "R-DEPTH-BUDGET", "stree.(*Tree)."+name+":initial budget", fn.Pos(), "starts from t.limit(t.size[+1])", "the insertion does not start with the depth limit for the tree's (prospective) size")
	}
	// (d) rebuild — in the insertion itself or in a helper it calls on the way back up
	var rw *ssa.Call
	host := ins            // the function containing the rebuild
	var hostCall *ssa.Call // the call of the helper inside the insertion (nil when host == ins)
	allInstrs(ins, func(in ssa.Instruction) {
		if call, ok := in.(*ssa.Call); ok && staticCallee(&call.Call) == rewrite {
			rw = call
		}
	})
	if rw == nil {
		allInstrs(ins, func(in ssa.Instruction) {
			call, ok := in.(*ssa.Call)
			if !ok || rw != nil {
				return
			}
			h := staticCallee(&call.Call)
			if h == nil || h == ins || h.Blocks == nil || h.Pkg != ins.Pkg {
				return
			}
			allInstrs(h, func(in2 ssa.Instruction) {
				if c2, ok := in2.(*ssa.Call); ok && staticCallee(&c2.Call) == rewrite {
					rw, host, hostCall = c2, h, call
				}
			})
		})
	}
	if rw == nil {
		c.bad("R-GOAT-REBUILD", "stree.(*Tree).insert:rebuild", ins.Pos(), "the insertion never rebuilds a subtree: depth is never restored")
		return
	}
	// toIns maps a value of the host function to the corresponding value of the insertion
	toIns := func(v ssa.Value) ssa.Value {
		if hostCall == nil {
			return v
		}
		if p, ok := v.(*ssa.Parameter); ok {
			for i, q := range host.Params {
				if q == p && i < len(hostCall.Call.Args) {
					return hostCall.Call.Args[i]
				}
			}
		}
		return nil
	}
	var probs []string
	// under flag > 0
	under := false
	guardBlock := rw.Block()
	if hostCall != nil {
		guardBlock = hostCall.Block()
	}
	for _, cm := range cmpsAt(guardBlock) {
		if cm.X == flagPhi && ((isConstInt(cm.Y, 0) && (cm.Op == token.GTR || cm.Op == token.NEQ)) || (isConstInt(cm.Y, 1) && cm.Op == token.GEQ)) {
			under = true
		}
	}
	if !under {
		probs = append(probs, "the rebuild is not conditional on the 'too deep' flag")
	}
	// height vs limit(size) test: some dominating comparison whose other side is a call of t.limit
	limTest := false
	for _, cm := range cmpsAt(rw.Block()) {
		for _, v := range []ssa.Value{cm.X, cm.Y} {
			if call, ok := v.(*ssa.Call); ok && isLimitCall(call) {
				// height > limit(size)  ⇔  not (height <= limit)
				if (cm.Y == v && (cm.Op == token.GTR || cm.Op == token.GEQ)) || (cm.X == v && (cm.Op == token.LSS || cm.Op == token.LEQ)) {
					limTest = true
					// strictness: rebuilt iff height − limit ≥ g.  A leaf at depth d below the root is flagged iff
					// its budget L − d ≤ leafT, i.e. d − L ≥ −leafT; for the root of the tree (height d) the two
					// tests speak about the same quantity and must agree: g = −leafT
					g := int64(1)
					if cm.Op == token.GEQ || cm.Op == token.LEQ {
						g = 0
					}
					if haveLeafT && g != -leafT {
						probs = append(probs, fmt.Sprintf("a new leaf is flagged as too deep when depth − limit ≥ %d, but a subtree counts as the scapegoat when height − limit ≥ %d: with the weaker test the first small subtree around the new leaf is rebuilt (to the same height) and the search for the real scapegoat stops there", -leafT, g))
					}
					// the limit is taken for the size the subtree is rebuilt with: when both are
					// sums over the same terms, their constant parts must agree
					if len(call.Call.Args) == 1 && len(rw.Call.Args) > 1 {
						la, lk := sumTerms(call.Call.Args[0])
						ra, rk := sumTerms(rw.Call.Args[1])
						if la == ra && lk != rk {
							probs = append(probs, fmt.Sprintf("the height limit is computed for a size that differs by %+d from the size of the subtree being judged and rebuilt (line %d)", lk-rk, c.P.Fset.Position(call.Pos()).Line))
						}
					}
				}
			}
		}
	}
	if !limTest {
		probs = append(probs, "the rebuild is not guarded by height > limit(subtree size)")
	}
	// arguments: (root param, size made of flag + size(sibling) + 1)
	isNodeParam := false
	if a0 := toIns(rw.Call.Args[0]); a0 != nil {
		for _, p := range ins.Params {
			if a0 == ssa.Value(p) {
				isNodeParam = true
			}
		}
	}
	if !isNodeParam {
		probs = append(probs, "the rebuilt subtree is not the current root of the descent")
	}
	var ls []ssa.Value
	var walk func(v ssa.Value)
	walk = func(v ssa.Value) {
		ls = append(ls, v)
		if bo, ok := v.(*ssa.BinOp); ok && bo.Op == token.ADD {
			walk(bo.X)
			walk(bo.Y)
		}
	}
	if len(rw.Call.Args) < 2 {
		// a rebuild that counts the subtree itself: the count is the real number of nodes as long as it is taken
		// before the subtree is handed to anything else (flattening destroys the shape size() walks)
		if rf := origin(staticCallee(&rw.Call)); rf != nil && rf.Blocks != nil && len(rf.Params) >= 1 && len(probs) == 0 {
			var cnt *ssa.Call
			var others []*ssa.Call
			allInstrs(rf, func(in ssa.Instruction) {
				call, ok := in.(*ssa.Call)
				if !ok {
					return
				}
				takes := false
				for _, a := range call.Call.Args {
					if a == ssa.Value(rf.Params[0]) {
						takes = true
					}
				}
				if !takes {
					return
				}
				if origin(staticCallee(&call.Call)) == nodeSize {
					cnt = call
				} else {
					others = append(others, call)
				}
			})
			used := false
			if cnt != nil {
				for _, r := range referrersOf(cnt) {
					if call, ok := r.(*ssa.Call); ok && staticCallee(&call.Call) != nil {
						used = true
					}
				}
			}
			switch {
			case cnt == nil || !used:
			default:
				late := ""
				for _, o := range others {
					if !dominatesInstr(cnt, o) {
						late = origin(staticCallee(&o.Call)).Name()
					}
				}
				c.judge(late == "", "R-GOAT-REBUILD", "stree.(*Tree).insert:rebuild", rw.Pos(), "guarded by height > limit(subtree size); the rebuild counts the subtree itself, before anything else touches it", "the rebuild counts the subtree after handing it to "+late+": once flattened, size() no longer sees the nodes it is asked to rebalance, and the rebuilt tree loses or misplaces the rest")
				return
			}
		}
		c.undecided("R-GOAT-REBUILD", "stree.(*Tree).insert:rebuild", rw.Pos(), "the rebuild is not handed a node count: how many nodes it rebalances cannot be related to the size the scapegoat criterion was evaluated for")
		return
	}
	walk(rw.Call.Args[1])
	// a size that reaches the helper as a parameter is decomposed at the call site inside the insertion
	var insLeaves []ssa.Value
	if hostCall != nil {
		var walk2 func(v ssa.Value)
		walk2 = func(v ssa.Value) {
			insLeaves = append(insLeaves, v)
			if bo, ok := v.(*ssa.BinOp); ok && bo.Op == token.ADD {
				walk2(bo.X)
				walk2(bo.Y)
			}
		}
		for _, l := range ls {
			if tl := toIns(l); tl != nil {
				walk2(tl)
			}
		}
	}
	hasFlag, hasSib, hasOne := false, false, false
	for _, l := range insLeaves {
		if l == flagPhi {
			hasFlag = true
		}
		if call, ok := l.(*ssa.Call); ok && staticCallee(&call.Call) == nodeSize {
			hasSib = true
		}
		if isConstInt(l, 1) {
			hasOne = true
		}
	}
	for _, l := range ls {
		if tl := toIns(l); tl != nil && tl == flagPhi {
			hasFlag = true
		}
		if call, ok := l.(*ssa.Call); ok && staticCallee(&call.Call) == nodeSize {
			hasSib = true
		}
		if isConstInt(l, 1) {
			hasOne = true
		}
	}
	if !(hasFlag && hasSib && hasOne) {
		probs = append(probs, "the size given to the rebuild is not (flagged size + sibling size + 1)")
	}
	// the sibling whose size is added is a child of the current root on every way here: a nil left over from the
	// declaration (the assignment on one descent missing) counts that side as empty
	for _, l := range append(append([]ssa.Value{}, insLeaves...), ls...) {
		call, ok := l.(*ssa.Call)
		if !ok || staticCallee(&call.Call) != nodeSize || len(call.Call.Args) == 0 {
			continue
		}
		var lv []ssa.Value
		phiLeaves(call.Call.Args[0], nil, map[ssa.Value]bool{}, &lv)
		for _, v := range lv {
			if isNilConst(v) {
				probs = append(probs, "on one descent the sibling whose size enters the count is never assigned (nil): the subtree is taken to be smaller than it is, and the scapegoat test and the rebuild use a wrong size")
			}
		}
	}
	// result returned, flag cleared
	retOK := false
	if hostCall == nil {
		allInstrs(ins, func(in ssa.Instruction) {
			ret, ok := in.(*ssa.Return)
			if !ok || len(ret.Results) <= flagIdx {
				return
			}
			if ret.Results[0] == ssa.Value(rw) && isConstInt(ret.Results[flagIdx], 0) {
				retOK = true // return rewrite(…), …, 0, …
				return
			}
			ph0, ok0 := ret.Results[0].(*ssa.Phi)
			ph1, ok1 := ret.Results[flagIdx].(*ssa.Phi)
			if !ok0 || !ok1 {
				return
			}
			for i, e := range ph0.Edges {
				if e == ssa.Value(rw) && i < len(ph1.Edges) && isConstInt(ph1.Edges[i], 0) {
					retOK = true
				}
			}
		})
	} else {
		// the helper returns (rebuilt subtree, 0) together; the insertion returns those two results as its subtree and flag
		hr, hf := -1, -1
		allInstrs(host, func(in ssa.Instruction) {
			ret, ok := in.(*ssa.Return)
			if !ok {
				return
			}
			for i, r := range ret.Results {
				if r == ssa.Value(rw) {
					for j, r2 := range ret.Results {
						if j != i && isConstInt(r2, 0) {
							hr, hf = i, j
						}
					}
				}
			}
		})
		if hr >= 0 {
			fromExtract := func(v ssa.Value, idx int) bool {
				var lvs []ssa.Value
				phiLeaves(v, nil, map[ssa.Value]bool{}, &lvs)
				for _, l := range lvs {
					if ex, ok := l.(*ssa.Extract); ok && ex.Tuple == ssa.Value(hostCall) && ex.Index == idx {
						return true
					}
				}
				return false
			}
			allInstrs(ins, func(in ssa.Instruction) {
				ret, ok := in.(*ssa.Return)
				if !ok || len(ret.Results) <= flagIdx {
					return
				}
				if fromExtract(ret.Results[0], hr) && fromExtract(ret.Results[flagIdx], hf) {
					retOK = true
				}
			})
		}
	}
	if !retOK {
		probs = append(probs, "the rebuilt subtree is not returned with the flag cleared")
	}
	c.judge(len(probs) == 0, "R-GOAT-REBUILD", "stree.(*Tree).insert:rebuild", rw.Pos(), "rewrite(root, sib+1+size) under flag ∧ height > limit; returned; flag cleared", fmt.Sprint(probs))
}

// sumTerms flattens v over + and − into a canonical rendering of its
// non-constant terms and the sum of its integer constants.
func sumTerms(v ssa.Value) (string, int64) {
	var terms []string
	var k int64
	var walk func(v ssa.Value, sign int64)
	walk = func(v ssa.Value, sign int64) {
		if n, ok := constInt(v); ok {
			k += sign * n
			return
		}
		if bo, ok := v.(*ssa.BinOp); ok {
			switch bo.Op {
			case token.ADD:
				walk(bo.X, sign)
				walk(bo.Y, sign)
				return
			case token.SUB:
				walk(bo.X, sign)
				walk(bo.Y, -sign)
				return
			}
		}
		t := fmt.Sprintf("%p", v)
		if sign < 0 {
			t = "-" + t
		}
		terms = append(terms, t)
	}
	walk(v, 1)
	sort.Strings(terms)
	return strings.Join(terms, "+"), k
}

// ruleLookupCost: the property's last clause bounds a lookup by depth+1
// comparisons.  The structural part: in everything Tree.Get reaches inside the
// package there is exactly one call of the comparison, and it sits in a loop
// (or in a function that calls itself) — so a lookup compares once per level
// and never again.  R-ORIENT (C01) decides that each iteration of that loop
// goes one level down.
func ruleLookupCost(c *Ctx) {
	get := c.P.Func("stree", "Tree", "Get")
	if get == nil {
		c.undecided("ANCHOR", "stree.(*Tree).Get", 0, "not found")
		return
	}
	sc := buildCallScope(get)
	type site struct {
		fn   *ssa.Function
		call *ssa.Call
	}
	var sites []site
	for _, fn := range sc.fns {
		fn := fn
		allInstrs(fn, func(in ssa.Instruction) {
			if call, ok := in.(*ssa.Call); ok && isCmpCall(call) {
				sites = append(sites, site{fn, call})
			}
		})
	}
	key := "stree.(*Tree).Get:comparison sites"
	if len(sites) == 0 {
		c.undecided("R-LOOKUP-COST", key, get.Pos(), "no call of the comparison is reachable from Get")
		return
	}
	if len(sites) > 1 {
		var where []string
		for _, s := range sites {
			where = append(where, fmt.Sprintf("%s (%s)", c.P.pos(s.call.Pos()), fnName(s.fn)))
		}
		c.bad("R-LOOKUP-COST", key, get.Pos(), fmt.Sprintf("a lookup reaches %d comparison sites: %s — a key at the permitted depth d then costs more than the d+1 comparisons the property allows", len(sites), strings.Join(where, ", ")))
		return
	}
	s := sites[0]
	inLoop := false
	b := s.call.Block()
	seen := map[*ssa.BasicBlock]bool{}
	var dfs func(x *ssa.BasicBlock)
	dfs = func(x *ssa.BasicBlock) {
		for _, y := range x.Succs {
			if y == b {
				inLoop = true
			}
			if !seen[y] {
				seen[y] = true
				dfs(y)
			}
		}
	}
	dfs(b)
	selfRec := false
	allInstrs(s.fn, func(in ssa.Instruction) {
		if call, ok := in.(*ssa.Call); ok {
			if cal := staticCallee(&call.Call); cal != nil && origin(cal) == origin(s.fn) {
				selfRec = true
			}
		}
	})
	// the function holding the comparison is entered once per lookup
	entered := 0
	for _, st := range sc.sitesOf(s.fn) {
		_ = st
		entered++
	}
	if s.fn != get && !selfRec && entered > 1 {
		c.bad("R-LOOKUP-COST", key, s.call.Pos(), fmt.Sprintf("the descent %s is entered from %d call sites under Get: the path is searched more than once per lookup", fnName(s.fn), entered))
		return
	}
	c.judge(inLoop || selfRec, "R-LOOKUP-COST", key, s.call.Pos(), "one comparison site, in the descent "+fnName(s.fn), "the only comparison under Get is not in a descent loop or recursive descent")
}
