package main

// R-YIELD — stoppable iteration: after a yield-like call has returned false,
// no further yield-like call is reachable before the function exits.

import (
	"fmt"
	"go/token"
	"go/types"

	"golang.org/x/tools/go/ssa"
)

// isYieldType: func(...) bool
func isYieldType(t types.Type) bool {
	sig, ok := t.Underlying().(*types.Signature)
	if !ok || sig.Results().Len() != 1 {
		return false
	}
	b, ok := sig.Results().At(0).Type().Underlying().(*types.Basic)
	return ok && b.Kind() == types.Bool
}

// yieldValues: parameters and free variables of yield type in fn, the cells
// they are spilled to when captured by reference, and loads of such cells.
func yieldValues(fn *ssa.Function) map[ssa.Value]bool {
	out := map[ssa.Value]bool{}
	cells := map[ssa.Value]bool{}
	for _, p := range fn.Params {
		if isYieldType(p.Type()) {
			out[p] = true
			for _, r := range referrersOf(p) {
				if st, ok := r.(*ssa.Store); ok && st.Val == p {
					if al, ok := st.Addr.(*ssa.Alloc); ok {
						cells[al] = true
					}
				}
			}
		}
	}
	for _, fv := range fn.FreeVars {
		if isYieldType(fv.Type()) {
			out[fv] = true
		}
		if pt, ok := fv.Type().Underlying().(*types.Pointer); ok && isYieldType(pt.Elem()) {
			cells[fv] = true
		}
	}
	for c := range cells {
		out[c] = true
		for _, r := range referrersOf(c) {
			if ld, ok := r.(*ssa.UnOp); ok && ld.Op == token.MUL {
				out[ld] = true
			}
		}
	}
	return out
}

// yieldSites returns the yield-like call sites of fn: calls of a yield value,
// or calls that pass a yield value (directly or captured in a closure) on.
func yieldSites(fn *ssa.Function) []*ssa.Call {
	ys := yieldValues(fn)
	if len(ys) == 0 {
		return nil
	}
	carries := func(v ssa.Value) bool {
		if ys[v] {
			return true
		}
		if mc, ok := v.(*ssa.MakeClosure); ok {
			for _, b := range mc.Bindings {
				if ys[b] {
					return true
				}
			}
		}
		if ct, ok := v.(*ssa.ChangeType); ok {
			return ys[ct.X]
		}
		return false
	}
	var out []*ssa.Call
	allInstrs(fn, func(in ssa.Instruction) {
		c, ok := in.(*ssa.Call)
		if !ok {
			return
		}
		if carries(c.Call.Value) && !c.Call.IsInvoke() {
			if _, isClosure := c.Call.Value.(*ssa.MakeClosure); !isClosure {
				out = append(out, c)
				return
			}
		}
		for _, a := range c.Call.Args {
			if carries(a) {
				out = append(out, c)
				return
			}
		}
	})
	return out
}

// ruleYield judges every yield-like call site of the given functions.
func ruleYield(c *Ctx, fns []*ssa.Function) {
	c.assume("iteration callbacks do not mutate the container they iterate (needed to relate loads across callback calls)")
	for _, fn := range fns {
		sites := yieldSites(fn)
		if len(sites) == 0 {
			continue
		}
		c.sawFn(fnName(fn))
		isSite := map[ssa.Instruction]bool{}
		for _, s := range sites {
			isSite[s] = true
		}
		returnsFlag := fn.Signature.Results().Len() == 1 && isYieldResult(fn)
		for _, k := range sites {
			key := fmt.Sprintf("%s:yield-call", fnName(fn))
			if good, why, applicable := wrappedYield(c.P, fn, k); applicable {
				// the callback travels inside a wrapper closure to a helper with its own predicate polarity;
				// afterwards nothing yield-like may be reachable in fn itself
				found, wit := reachesWithout(c.P, k, false, func(in ssa.Instruction) bool { return isSite[in] }, func(ssa.Instruction) bool { return false })
				switch {
				case !good:
					c.bad("R-YIELD", key, k.Pos(), why)
				case found:
					c.bad("R-YIELD", key, k.Pos(), "another yield-like call is reachable after the helper returned ("+wit+")")
				default:
					c.ok("R-YIELD", key, k.Pos(), why)
				}
				continue
			}
			hasBool := false
			if b, ok := k.Type().Underlying().(*types.Basic); ok && b.Kind() == types.Bool {
				hasBool = true
			}
			refs := referrersOf(k)
			if !hasBool || len(refs) == 0 {
				// result discarded or absent: no yield-like call may be reachable after k
				found, wit := reachesWithout(c.P, k, false, func(in ssa.Instruction) bool { return isSite[in] }, func(ssa.Instruction) bool { return false })
				if found {
					c.bad("R-YIELD", key, k.Pos(), "continue-flag of this yield-like call is discarded, yet another yield-like call is reachable after it ("+wit+")")
				} else {
					c.ok("R-YIELD", key, k.Pos(), "flag discarded/absent and nothing yield-like is reachable afterwards")
				}
				continue
			}
			// find the false edges
			var falseStarts []*ssa.BasicBlock
			okShape := true
			var why string
			for _, r := range refs {
				switch x := r.(type) {
				case *ssa.If:
					falseStarts = append(falseStarts, x.Block().Succs[1])
				case *ssa.UnOp:
					if x.Op != token.NOT {
						okShape, why = false, "flag used in "+x.String()
						break
					}
					for _, r2 := range referrersOf(x) {
						if iff, ok := r2.(*ssa.If); ok {
							falseStarts = append(falseStarts, iff.Block().Succs[0])
						} else if _, ok := r2.(*ssa.Return); ok {
							// return !flag: not a continue flag; ignore
						} else {
							okShape, why = false, "negated flag used in "+r2.String()
						}
					}
				case *ssa.Return:
					// return f(x): function exits immediately with the flag
				case *ssa.Store:
					// named-result spill (*t0 = flag) followed by return
					if _, isAlloc := x.Addr.(*ssa.Alloc); !isAlloc {
						okShape, why = false, "flag stored to memory"
					}
				case *ssa.Phi:
					okShape, why = false, "flag merged in a phi (unrecognised idiom)"
				case *ssa.DebugRef:
				default:
					okShape, why = false, fmt.Sprintf("flag used by %T", r)
				}
			}
			if !okShape {
				c.undecided("R-YIELD", key, k.Pos(), why)
				continue
			}
			var prob, undec string
			for _, fs := range falseStarts {
				if len(fs.Instrs) == 0 {
					continue
				}
				start := fs.Instrs[0]
				found, wit := reachesWithout(c.P, start, true, func(in ssa.Instruction) bool { return isSite[in] }, func(ssa.Instruction) bool { return false })
				if found {
					prob = "a yield-like call is reachable after this one returned false (" + wit + ")"
					break
				}
				if returnsFlag {
					// every return reachable from the false edge must return false (or the flag itself)
					w := walkFrom(start, true, nil)
					for _, in := range w.order {
						ret, ok := in.(*ssa.Return)
						if !ok {
							continue
						}
						if !returnsFalseOr(ret, k) {
							if cst, ok := ret.Results[0].(*ssa.Const); ok && cst.Value != nil {
								prob = "function forwards the continue flag but returns true after the callee said stop (" + w.witness(c.P, in) + ")"
							} else {
								undec = "function forwards the continue flag through an unrecognised value " + ret.Results[0].Name()
							}
						}
					}
				}
			}
			if prob != "" {
				c.bad("R-YIELD", key, k.Pos(), prob)
			} else if undec != "" {
				c.undecided("R-YIELD", key, k.Pos(), undec)
			} else {
				c.ok("R-YIELD", key, k.Pos(), fmt.Sprintf("%d false edge(s); no yield-like call reachable from any", len(falseStarts)))
			}
		}
	}
}

// isYieldResult: the function returns a single bool and takes a yield value:
// it is a forwarder of the continue flag.
func isYieldResult(fn *ssa.Function) bool {
	b, ok := fn.Signature.Results().At(0).Type().Underlying().(*types.Basic)
	return ok && b.Kind() == types.Bool && len(yieldValues(fn)) > 0
}

func returnsFalseOr(ret *ssa.Return, flag ssa.Value) bool {
	if len(ret.Results) != 1 {
		return true
	}
	v := ret.Results[0]
	if v == flag {
		return true
	}
	if cst, ok := v.(*ssa.Const); ok && cst.Value != nil && cst.Value.String() == "false" {
		return true
	}
	// spilled named result: load of an alloc whose reaching store is false — accept
	// only the direct forms; anything else is judged false (violated).
	return false
}

// ---- callbacks handed on inside a wrapper closure, to a helper whose predicate may have the opposite polarity

// contAfter: for helper h and its func parameter p (bool result): may p be called again after it returned
// true / after it returned false?  ok=false if the uses of p's result are not plain branches.
func contAfter(P *Prog, h *ssa.Function, p *ssa.Parameter) (contTrue, contFalse, ok bool) {
	var calls []*ssa.Call
	allInstrs(h, func(in ssa.Instruction) {
		if c, isCall := in.(*ssa.Call); isCall && c.Call.Value == ssa.Value(p) {
			calls = append(calls, c)
		}
	})
	if len(calls) == 0 {
		return false, false, false
	}
	isCall := func(in ssa.Instruction) bool {
		c, ok := in.(*ssa.Call)
		return ok && c.Call.Value == ssa.Value(p)
	}
	for _, r := range referrersOf(p) {
		switch x := r.(type) {
		case *ssa.Call:
			if x.Call.Value != ssa.Value(p) {
				return false, false, false // handed on again
			}
		case *ssa.DebugRef:
		default:
			return false, false, false
		}
	}
	ok = true
	for _, k := range calls {
		branched := false
		for _, r := range referrersOf(k) {
			if _, dbg := r.(*ssa.DebugRef); !dbg {
				branched = true
			}
		}
		if !branched {
			// the predicate's result is thrown away: whatever it said, what follows the call follows
			if f, _ := reachesWithout(P, k, false, isCall, func(ssa.Instruction) bool { return false }); f {
				contTrue, contFalse = true, true
			}
			continue
		}
		for _, r := range referrersOf(k) {
			var tEdge, fEdge *ssa.BasicBlock
			switch x := r.(type) {
			case *ssa.If:
				tEdge, fEdge = x.Block().Succs[0], x.Block().Succs[1]
			case *ssa.UnOp:
				if x.Op != token.NOT {
					return false, false, false
				}
				for _, r2 := range referrersOf(x) {
					if iff, isIf := r2.(*ssa.If); isIf {
						tEdge, fEdge = iff.Block().Succs[1], iff.Block().Succs[0]
					} else {
						return false, false, false
					}
				}
			case *ssa.DebugRef:
				continue
			default:
				return false, false, false
			}
			if tEdge == nil {
				continue
			}
			if f, _ := reachesWithout(P, tEdge.Instrs[0], true, isCall, func(ssa.Instruction) bool { return false }); f {
				contTrue = true
			}
			if f, _ := reachesWithout(P, fEdge.Instrs[0], true, isCall, func(ssa.Instruction) bool { return false }); f {
				contFalse = true
			}
		}
	}
	return contTrue, contFalse, ok
}

// wrappedYield: call hands a closure that wraps the yield value y of fn to a same-package helper.  Decides
// whether "y returned false" makes the helper stop calling the closure.  applicable=false if call is not of
// this form.
func wrappedYield(P *Prog, fn *ssa.Function, call *ssa.Call) (good bool, why string, applicable bool) {
	ys := yieldValues(fn)
	h := staticCallee(&call.Call)
	if h == nil || h.Blocks == nil {
		return false, "", false
	}
	for ai, a := range call.Call.Args {
		mc, isMC := a.(*ssa.MakeClosure)
		if !isMC || ai >= len(h.Params) {
			continue
		}
		cl := mc.Fn.(*ssa.Function)
		var yfv *ssa.FreeVar
		for bi, b := range mc.Bindings {
			if ys[b] && bi < len(cl.FreeVars) {
				yfv = cl.FreeVars[bi]
			}
		}
		if yfv == nil {
			continue
		}
		applicable = true
		// the wrapper: exactly one call of the yield value; every return is its result or the negation of it
		var ycall *ssa.Call
		n := 0
		inner := yieldValues(cl) // the captured callback, directly or through the cell it was spilled to
		allInstrs(cl, func(in ssa.Instruction) {
			if c, ok := in.(*ssa.Call); ok && !c.Call.IsInvoke() && (c.Call.Value == ssa.Value(yfv) || inner[c.Call.Value]) {
				ycall = c
				n++
			}
		})
		if n != 1 {
			return false, "the wrapper closure does not call the callback exactly once", true
		}
		neg, plain := false, false
		shapeOK := true
		allInstrs(cl, func(in ssa.Instruction) {
			ret, ok := in.(*ssa.Return)
			if !ok || len(ret.Results) != 1 {
				return
			}
			switch v := ret.Results[0].(type) {
			case *ssa.Call:
				if v == ycall {
					plain = true
				} else {
					shapeOK = false
				}
			case *ssa.UnOp:
				if v.Op == token.NOT && v.X == ssa.Value(ycall) {
					neg = true
				} else {
					shapeOK = false
				}
			default:
				shapeOK = false
			}
		})
		if !shapeOK || neg == plain {
			return false, "the wrapper closure's result is not the callback's result or its negation", true
		}
		ct, cf, ok := contAfter(P, h, h.Params[ai])
		if !ok {
			return false, "how " + h.Name() + " reacts to its predicate's result could not be read", true
		}
		// callback said false ⇒ the wrapper returns `neg`; the helper must not call again after that value
		again := cf
		if neg {
			again = ct
		}
		if again {
			return false, "after the callback returned false the wrapper returns " + fmt.Sprint(neg) + ", on which " + h.Name() + " goes on calling it", true
		}
		return true, "the callback's false becomes " + fmt.Sprint(neg) + ", on which " + h.Name() + " stops", true
	}
	return false, "", false
}
