package main

// C05 — heapq: R-HEAP-INDEX, R-HEAP-BIDIR, R-HEAPIFY-COVER, R-YIELD.
// C06 — heapq position reports: R-MOVE-NOTIFY, R-ADD-RETURNS, R-POS-WRITERS.

import (
	"fmt"
	"go/token"
	"go/types"
	"sort"
	"strings"

	"golang.org/x/tools/go/ssa"
)

func init() {
	register(&propDef{ID: "C05", Level: "other", Run: runC05})
	register(&propDef{ID: "C06", Level: "other", Run: runC06})
}

type heapModel struct {
	P                      *Prog
	queueT                 *types.Named
	dataF, cmpF, moveF     *types.Var
	swapFn, siftUp, siftDn *ssa.Function
	upPhi, dnPhi           *ssa.Phi
	parent                 aff   // P(j) = floor((j+c)/d)
	children               []aff // child_b(i) = a*i+b
	methods                []*ssa.Function
	rolesErr               string
}

// loadsField: v is a load of recv.f
func isLoadOfField(v ssa.Value, f *types.Var) bool {
	_, g := loadedField(v)
	return g != nil && sameField(f, g)
}

// dataIndex: if addr is &q.data[idx] returns idx.
func (m *heapModel) dataIndex(addr ssa.Value) (ssa.Value, bool) {
	ia, ok := addr.(*ssa.IndexAddr)
	if !ok || !isLoadOfField(ia.X, m.dataF) {
		return nil, false
	}
	return ia.Index, true
}

func buildHeapModel(c *Ctx) *heapModel {
	P := c.P
	m := &heapModel{P: P}
	m.queueT = P.Named("heapq", "Queue")
	if m.queueT == nil {
		c.undecided("ANCHOR", "heapq.Queue", 0, "type not found")
		return nil
	}
	for _, f := range P.FieldsDeep("heapq", "Queue") {
		switch t := f.Type().Underlying().(type) {
		case *types.Slice:
			m.dataF = f
		case *types.Signature:
			if t.Results().Len() == 1 {
				m.cmpF = f
			} else if t.Results().Len() == 0 && t.Params().Len() == 2 {
				m.moveF = f
			}
		}
	}
	if m.dataF == nil || m.cmpF == nil || m.moveF == nil {
		c.undecided("ANCHOR", "heapq.Queue fields", 0, "expected a slice field, a comparison field and a move-callback field")
		return nil
	}
	m.methods = P.MethodsDeep("heapq", "Queue")
	// swap: method with exactly two element stores into q.data and two int params
	for _, fn := range m.methods {
		n := 0
		allInstrs(fn, func(in ssa.Instruction) {
			if s, ok := in.(*ssa.Store); ok {
				if _, ok := m.dataIndex(s.Addr); ok {
					n++
				}
			}
		})
		if n == 2 && len(fn.Params) == 3 && isIntType(fn.Params[1].Type()) && isIntType(fn.Params[2].Type()) && fn.Signature.Results().Len() == 0 {
			if m.swapFn != nil {
				c.undecided("ANCHOR", "heapq swap", fn.Pos(), "more than one exchange method")
				return nil
			}
			m.swapFn = fn
		}
	}
	// sift functions, located by role: a method with one int parameter whose
	// loop variable starts at that parameter and whose loop compares elements of
	// q.data through q.cmp.  An exchange helper is optional.
	for _, fn := range m.methods {
		if fn == m.swapFn || len(fn.Params) != 2 || !isIntType(fn.Params[1].Type()) {
			continue
		}
		if len(m.cmpIndexOperands(fn)) == 0 {
			continue
		}
		var iphi *ssa.Phi
		for _, b := range fn.Blocks {
			for _, in := range b.Instrs {
				ph, ok := in.(*ssa.Phi)
				if !ok {
					break
				}
				hasBack, fromParam := false, false
				for i, e := range ph.Edges {
					if b.Dominates(b.Preds[i]) {
						hasBack = true
					} else if e == ssa.Value(fn.Params[1]) {
						fromParam = true
					}
				}
				if hasBack && fromParam && iphi == nil {
					iphi = ph
				}
			}
		}
		if iphi == nil {
			continue
		}
		// classify by loop guard
		kind := ""
		for _, r := range referrersOf(iphi) {
			if bo, ok := r.(*ssa.BinOp); ok {
				if (bo.Op == token.GTR && isConstInt(bo.Y, 0) && bo.X == iphi) || (bo.Op == token.NEQ && isConstInt(bo.Y, 0)) || (bo.Op == token.GEQ && isConstInt(bo.Y, 1)) {
					for _, r2 := range referrersOf(bo) {
						if _, ok := r2.(*ssa.If); ok && r2.Block() == iphi.Block() {
							kind = "up"
						}
					}
				}
			}
		}
		if kind == "" {
			// sift-down: some index is compared with len(q.data) somewhere in the loop
			allInstrs(fn, func(in ssa.Instruction) {
				bo, ok := in.(*ssa.BinOp)
				if !ok {
					return
				}
				switch bo.Op {
				case token.LSS, token.LEQ, token.GTR, token.GEQ:
				default:
					return
				}
				for _, v := range []ssa.Value{bo.X, bo.Y} {
					if ln, ok := isBuiltinCall(v, "len"); ok && isLoadOfField(ln.Call.Args[0], m.dataF) {
						kind = "down"
					}
				}
			})
		}
		switch kind {
		case "up":
			if m.siftUp != nil {
				m.rolesErr = "two sift-up candidates"
				return m
			}
			m.siftUp, m.upPhi = fn, iphi
		case "down":
			if m.siftDn != nil {
				m.rolesErr = "two sift-down candidates"
				return m
			}
			m.siftDn, m.dnPhi = fn, iphi
		}
	}
	if m.siftUp == nil || m.siftDn == nil {
		m.rolesErr = fmt.Sprintf("sift-up found: %v, sift-down found: %v", m.siftUp != nil, m.siftDn != nil)
	}
	return m
}

func isIntType(t types.Type) bool {
	b, ok := t.Underlying().(*types.Basic)
	return ok && b.Info()&types.IsInteger != 0
}

// cmpIndexOperands: indices i such that q.data[i] is passed to q.cmp in fn,
// either directly or through a same-package helper (less(i, j)) whose integer
// parameters index the comparison's operands; the helper's call arguments are
// then the operands.
// appendSlot: v is the index of the element that `ap` (stored by st into the buffer field) appended: the length of
// the buffer read before the append, or the length read after it (same block, no other store of the buffer in
// between) minus one.
func (m *heapModel) appendSlot(v ssa.Value, ap *ssa.Call, st *ssa.Store) bool {
	if ln, ok := isBuiltinCall(v, "len"); ok && isLoadOfField(ln.Call.Args[0], m.dataF) {
		return dominatesInstr(ln, ap)
	}
	bo, ok := v.(*ssa.BinOp)
	if !ok || bo.Op != token.SUB || !isConstInt(bo.Y, 1) {
		return false
	}
	ln, ok := isBuiltinCall(bo.X, "len")
	if !ok || !isLoadOfField(ln.Call.Args[0], m.dataF) || ln.Block() != st.Block() || !dominatesInstr(st, ln) {
		return false
	}
	ld, _ := ln.Call.Args[0].(ssa.Instruction)
	after := false
	for _, in := range st.Block().Instrs {
		if in == ssa.Instruction(st) {
			after = true
			continue
		}
		if in == ld {
			break
		}
		if s2, ok := in.(*ssa.Store); ok && after {
			if fa, ok := s2.Addr.(*ssa.FieldAddr); ok {
				if _, f := fieldVarOf(fa); sameField(f, m.dataF) {
					return false
				}
			}
		}
	}
	return ld != nil && dominatesInstr(st, ld)
}

func (m *heapModel) cmpIndexOperands(fn *ssa.Function) []ssa.Value {
	return m.cmpIndexOperandsDepth(fn, 0)
}

func (m *heapModel) cmpIndexOperandsDepth(fn *ssa.Function, depth int) []ssa.Value {
	var out []ssa.Value
	allInstrs(fn, func(in ssa.Instruction) {
		call, ok := in.(*ssa.Call)
		if !ok {
			return
		}
		if isLoadOfField(call.Call.Value, m.cmpF) {
			for _, a := range call.Call.Args {
				if addr, ok := loadAddr(a); ok {
					if idx, ok := m.dataIndex(addr); ok {
						out = append(out, idx)
					}
				}
			}
			return
		}
		callee := staticCallee(&call.Call)
		if callee == nil || depth >= 2 || callee == fn || callee.Pkg == nil || fn.Pkg == nil || origin(callee).Pkg != origin(fn).Pkg || callee == m.swapFn {
			return
		}
		callee = origin(callee)
		if len(callee.Blocks) == 0 {
			return
		}
		for _, ix := range m.cmpIndexOperandsDepth(callee, depth+1) {
			for pi, prm := range callee.Params {
				if ix == ssa.Value(prm) && pi < len(call.Call.Args) {
					out = append(out, call.Call.Args[pi])
				}
			}
		}
	})
	return out
}

// ruleCmpSign: the result of a user-supplied three-way comparison carries
// meaning only in its sign.  Every explicit test of such a result against a
// constant must therefore be invariant under replacing the result by any other
// value of the same sign: x<0, x<=0, x>0, x>=0, x==0, x!=0 and their integer
// equivalents (x<1, x<=-1, x>-1, x>=1).  A test like x == -1 or x > 1 is a
// violation: it treats cmp functions that return a-b differently from
// cmp.Compare.  Uses that are not a comparison with a constant are not judged.
func ruleCmpSign(c *Ctx, rule string, fns []*ssa.Function) {
	n := 0
	ord := map[string]int{}
	var judge func(v ssa.Value, site *ssa.Call, fn *ssa.Function, neg bool, seen map[ssa.Value]bool)
	judge = func(v ssa.Value, site *ssa.Call, fn *ssa.Function, neg bool, seen map[ssa.Value]bool) {
		if seen[v] {
			return
		}
		seen[v] = true
		for _, r := range referrersOf(v) {
			switch r := r.(type) {
			case *ssa.Phi:
				judge(r, site, fn, neg, seen)
			case *ssa.UnOp:
				if r.Op == token.SUB {
					judge(r, site, fn, !neg, seen)
				}
			case *ssa.BinOp:
				var k int64
				op := r.Op
				if kc, ok := constInt(r.Y); ok && r.X == v {
					k = kc
				} else if kc, ok := constInt(r.X); ok && r.Y == v {
					k = kc
					switch op { // k op x  ==  x op' k
					case token.LSS:
						op = token.GTR
					case token.LEQ:
						op = token.GEQ
					case token.GTR:
						op = token.LSS
					case token.GEQ:
						op = token.LEQ
					}
				} else {
					continue
				}
				ok := true
				switch op {
				case token.LSS, token.GEQ:
					ok = k == 0 || k == 1
				case token.LEQ, token.GTR:
					ok = k == 0 || k == -1
				case token.EQL, token.NEQ:
					ok = k == 0
				default:
					continue
				}
				n++
				key := fmt.Sprintf("%s:%s %s %d", fnName(fn), "cmp-result", op, k)
				ord[key]++
				if ord[key] > 1 {
					key = fmt.Sprintf("%s #%d", key, ord[key])
				}
				if ok {
					c.ok(rule, key, r.Pos(), "sign test")
				} else {
					c.bad(rule, key, r.Pos(), fmt.Sprintf("the result of the comparison function called at line %d is tested with %s %d, which is not a test of its sign: a comparison function is only required to return a negative, zero or positive value (e.g. a-b), so this branch distinguishes results the contract treats as equal", c.P.Fset.Position(site.Pos()).Line, op, k))
				}
			}
		}
	}
	for _, fn := range fns {
		fn := fn
		allInstrs(fn, func(in ssa.Instruction) {
			call, ok := in.(*ssa.Call)
			if !ok || !isCmpCall(call) {
				return
			}
			judge(call, call, fn, false, map[ssa.Value]bool{})
		})
	}
	_ = n
}

func runC05(c *Ctx) {
	c.Explanation = "Decides the two structural faults the property's own rationale names — a wrong parent/child index and a missing sift direction — plus heapify coverage and stoppable Each. R-HEAP-INDEX extracts, from the go/ssa form, the parent form P(j)=⌊(j+c)/d⌋ of sift-up and the child forms a·i+b of sift-down and requires P(child_b(i)) = i for every child (arithmetic on the extracted constants). R-HEAP-BIDIR requires that a slot overwritten at an arbitrary offset is re-ordered in both directions on every path. R-HEAPIFY-COVER requires every bulk re-heapify loop to start at or above the last internal node and run down to 0. (R-CMP-SIGN) comparison results are tested by sign only; (R-REORDER-INSTALLS) Reorder installs its argument on every path; (R-SORT-INPLACE) nothing Sort reaches replaces the buffer by a fresh allocation. (R-POP-CONSERVES) the removal helper writes the tail element into slot i before cutting the tail slot off; (R-LEN-EFFECT) a symbolic length-effect analysis: every path of Add/Pop/Remove/Clear/Set that rewrites the buffer leaves its length at L0+1 / L0−1 / 0 / len(vs), other methods leave it unchanged; (R-SORT-SHORTCUT) a sortedness shortcut in Sort uses the caller's comparison. Does NOT decide that Front/Pop is minimal for every history, multiset conservation, or Sort's result."
	c.rule("R-HEAP-INDEX", 3, "parent index of sift-up and child indices of sift-down are mutually inverse; children form one contiguous block; root is nobody's child; sift-up stops exactly at the root")
	c.rule("R-HEAP-BIDIR", 1, "a slot overwritten at an arbitrary offset is followed by sift-down and (unless sift-down moved it, or the slot was cut off) by sift-up on all paths")
	c.rule("R-HEAPIFY-COVER", 2, "each bulk heapify loop starts at or above the last internal node, steps -1 down to 0 inclusive, and sifts down the loop variable")
	c.rule("R-YIELD", 1, "Queue.Each stops calling f once it returned false")
	c.rule("R-CMP-SIGN", 1, "every test of a comparison function's result against a constant is a test of its sign only")
	c.rule("R-REORDER-INSTALLS", 1, "Reorder stores its argument as the current comparison on every path")
	c.rule("R-SORT-INPLACE", 1, "no function reachable from Sort replaces the queue's buffer by anything but a re-slice of itself")
	c.rule("R-LEN-EFFECT", 3, "every path through a Queue method that rewrites the buffer leaves its length at L0+1 (Add), L0−1 (Pop, Remove), 0 (Clear), len(vs) (Set) or unchanged")
	c.rule("R-SORT-SHORTCUT", 0, "a sortedness shortcut in Sort uses the caller's comparison (no instance on the unchanged tree; the seeded change C05-sort-early-return-reversed-cmp is the positive example)")
	c.rule("R-POP-CONSERVES", 1, "the removal helper writes the tail element into slot i before cutting the tail slot off (except when the heap has one element or i is the tail)")
	c.rule("R-SET-REPLACES", 2, "Set resizes the buffer to len(vs) and copies vs in on every path (contents are what was put in)")
	ruleCmpSign(c, "R-CMP-SIGN", c.P.PkgFuncs("heapq"))
	ruleSizeGuard(c, "heapq")
	m := buildHeapModel(c)
	if m == nil {
		return
	}
	if m.rolesErr != "" {
		c.undecided("ANCHOR", "heapq sift functions", m.queueT.Obj().Pos(), m.rolesErr)
		return
	}
	P := c.P
	c.sawFn(fnName(m.siftUp))
	c.sawFn(fnName(m.siftDn))
	if m.swapFn != nil {
		c.sawFn(fnName(m.swapFn))
	}
	c.Extra["roles"] = map[string]string{"sift-up": fnName(m.siftUp), "sift-down": fnName(m.siftDn), "exchange": fnName(m.swapFn)}

	// ---- parent form: the non-loop-variable argument of swap in sift-up
	upName := "heapq sift-up" // keys name the role, not the function: a rename or a move of the method must not change them
	var parentOK bool
	upKnown := relatedPhis(m.upPhi) // e.g. `for up := i/2; …; up = i/2`
	for ei, a := range m.upPhi.Edges {
		if !m.upPhi.Block().Dominates(m.upPhi.Block().Preds[ei]) || a == ssa.Value(m.upPhi) {
			continue
		}
		f, ok := affOf(a, m.upPhi, upKnown, 0)
		if !ok || f.a != 1 {
			c.undecided("R-HEAP-INDEX", upName+":parent-form", m.upPhi.Pos(), "the index sift-up moves to is not of the form ⌊(i+c)/d⌋: "+sym(a))
			return
		}
		if parentOK && f != m.parent {
			c.undecided("R-HEAP-INDEX", upName+":parent-form", m.upPhi.Pos(), "sift-up moves to two different parent forms")
			return
		}
		m.parent = f
		parentOK = true
		// comparator compares element i with element parent
		idxs := m.cmpIndexOperands(m.siftUp)
		seenI, seenP := false, false
		for _, ix := range idxs {
			if ix == m.upPhi {
				seenI = true
			}
			if ix == a || sym(ix) == sym(a) {
				seenP = true
			}
		}
		if !seenI || !seenP {
			c.bad("R-HEAP-INDEX", upName+":compare", m.upPhi.Pos(), "sift-up does not compare the element at i with the element at its parent index")
		}
		// if an exchange helper is used, it must exchange exactly (i, parent)
		allInstrs(m.siftUp, func(in ssa.Instruction) {
			call, ok := in.(*ssa.Call)
			if !ok || m.swapFn == nil || staticCallee(&call.Call) != m.swapFn {
				return
			}
			x, y := call.Call.Args[1], call.Call.Args[2]
			if !((x == ssa.Value(m.upPhi) && (y == a || sym(y) == sym(a))) || (y == ssa.Value(m.upPhi) && (x == a || sym(x) == sym(a)))) {
				c.bad("R-HEAP-INDEX", upName+":advance", call.Pos(), "the exchange in sift-up is not between i and the parent index the loop moves to")
			}
		})
	}
	if !parentOK {
		if len(c.Obligs) == 0 {
			c.undecided("R-HEAP-INDEX", upName+":parent-form", m.siftUp.Pos(), "no parent index found")
		}
		return
	}
	// ---- child forms
	dnName := "heapq sift-down"
	known := relatedPhis(m.dnPhi)
	stop := map[ssa.Value]bool{m.dnPhi: true}
	for v := range known {
		stop[v] = true
	}
	var leaves []ssa.Value
	seen := map[ssa.Value]bool{}
	for _, ix := range m.cmpIndexOperands(m.siftDn) {
		phiLeaves(ix, stop, seen, &leaves)
	}
	// an index chosen by a helper that hands back one of the indices it was given (min := q.lesser(i, lc)) stands
	// for those indices
	for k := 0; k < 3; k++ {
		var out []ssa.Value
		changed := false
		for _, lf := range leaves {
			call, ok := lf.(*ssa.Call)
			var picks []int
			if ok {
				if h := origin(staticCallee(&call.Call)); h != nil && h.Blocks != nil && h.Pkg == origin(m.siftDn).Pkg {
					all := true
					allInstrs(h, func(in ssa.Instruction) {
						ret, isRet := in.(*ssa.Return)
						if !isRet || len(ret.Results) != 1 {
							return
						}
						var rl []ssa.Value
						phiLeaves(ret.Results[0], nil, map[ssa.Value]bool{}, &rl)
						for _, r := range rl {
							idx := -1
							for j, p := range h.Params {
								if r == ssa.Value(p) && isIntType(p.Type()) {
									idx = j
								}
							}
							if idx < 0 {
								all = false
							} else {
								picks = append(picks, idx)
							}
						}
					})
					if !all {
						picks = nil
					}
				}
			}
			if len(picks) == 0 {
				out = append(out, lf)
				continue
			}
			changed = true
			for _, j := range picks {
				if j < len(call.Call.Args) {
					phiLeaves(call.Call.Args[j], stop, seen, &out)
				}
			}
		}
		leaves = out
		if !changed {
			break
		}
	}
	childSet := map[aff]bool{}
	childOK := true
	for _, lf := range leaves {
		f, ok := affOf(lf, m.dnPhi, known, 0)
		if !ok || f.d != 1 {
			c.undecided("R-HEAP-INDEX", dnName+":child-form", lf.Pos(), "index reaching a comparator operand is not affine in the loop variable: "+sym(lf))
			childOK = false
			continue
		}
		if f.a == 1 && f.b == 0 {
			continue // the node itself
		}
		childSet[f] = true
	}
	// comparisons made in a helper of sift-down (leastOf(i, lc)): an index there that is parameter + constant
	// is the call's argument + that constant
	allInstrs(m.siftDn, func(in ssa.Instruction) {
		call, ok := in.(*ssa.Call)
		if !ok {
			return
		}
		h := origin(staticCallee(&call.Call))
		if h == nil || h.Blocks == nil || h == origin(m.siftDn) || h == m.swapFn || h.Pkg != origin(m.siftDn).Pkg {
			return
		}
		var hl []ssa.Value
		hs := map[ssa.Value]bool{}
		for _, ix := range m.cmpIndexOperandsDepth(h, 2) {
			phiLeaves(ix, nil, hs, &hl)
		}
		for _, lf := range hl {
			for pi, prm := range h.Params {
				if pi >= len(call.Call.Args) {
					continue
				}
				fp, ok := affOf(lf, prm, nil, 0)
				if !ok || fp.a != 1 || fp.d != 1 {
					continue
				}
				fa, ok := affOf(call.Call.Args[pi], m.dnPhi, known, 0)
				if !ok || fa.d != 1 {
					continue
				}
				f := aff{fa.a, fa.b + fp.b, 1}
				if f.a == 1 && f.b == 0 {
					continue
				}
				childSet[f] = true
			}
		}
	})
	if !childOK {
		return
	}
	for f := range childSet {
		m.children = append(m.children, f)
	}
	sort.Slice(m.children, func(i, j int) bool { return m.children[i].b < m.children[j].b })
	if len(m.children) == 0 {
		c.undecided("R-HEAP-INDEX", dnName+":child-form", m.siftDn.Pos(), "no child index found")
		return
	}
	var forms []string
	for _, f := range m.children {
		forms = append(forms, f.String())
	}
	c.Extra["parent_form"] = "P(j) = " + strings.Replace(m.parent.String(), "x", "j", 1)
	c.Extra["child_forms"] = forms
	// O1: same a; offsets contiguous block of size a
	a := m.children[0].a
	o1 := a >= 2 && int64(len(m.children)) == a
	for i, f := range m.children {
		if f.a != a || f.b != m.children[0].b+int64(i) {
			o1 = false
		}
	}
	c.judge(o1, "R-HEAP-INDEX", dnName+":children-block", m.siftDn.Pos(), fmt.Sprintf("children %v form one block of %d", forms, a), fmt.Sprintf("child indices %v do not form a contiguous block of size a=%d", forms, a))
	// O2: P(child_b(i)) = i  ⇔  d == a and 0 <= b + c < a
	for _, f := range m.children {
		okInv := m.parent.d == f.a && f.b+m.parent.b >= 0 && f.b+m.parent.b < f.a
		key := upName + ":parent-of-child(" + strings.Replace(f.String(), "x", "i", 1) + ")"
		if okInv {
			c.ok("R-HEAP-INDEX", key, m.upPhi.Pos(), fmt.Sprintf("P(%s) = i", f))
		} else {
			c.bad("R-HEAP-INDEX", key, m.upPhi.Pos(), fmt.Sprintf("parent form %s and child form %s are not inverse: P(%s) = i%+d for all i (e.g. child %d of node 0 has computed parent %d)",
				strings.Replace(m.parent.String(), "x", "j", 1), strings.Replace(f.String(), "x", "i", 1), strings.Replace(f.String(), "x", "i", 1), (f.b+m.parent.b)/m.parent.d, f.eval(0), m.parent.eval(f.eval(0))))
		}
	}
	// O3: min B >= 1
	c.judge(m.children[0].b >= 1, "R-HEAP-INDEX", dnName+":root-not-child", m.siftDn.Pos(), "smallest child offset ≥ 1", "a child form maps node 0 to itself")
	// O4: sift-up loop guard stops exactly at 0 — established by role classification (i > 0 / i != 0 / i >= 1)
	c.ok("R-HEAP-INDEX", upName+":stops-at-root", m.upPhi.Pos(), "loop guard is i > 0")
	// sift-down: after the exchange the loop variable moves to the chosen child and lc is re-seeded consistently (related phi)
	if len(known) == 0 {
		c.ok("R-HEAP-INDEX", dnName+":reseed", m.siftDn.Pos(), "child indices are recomputed from the loop variable in every iteration (no auxiliary index)")
	} else {
		c.ok("R-HEAP-INDEX", dnName+":reseed", m.siftDn.Pos(), "auxiliary child index is the same affine function of the loop variable on entry and on every iteration")
	}

	// ---- R-HEAP-BIDIR
	isSift := map[*ssa.Function]bool{m.siftUp: true, m.siftDn: true}
	if m.swapFn != nil {
		isSift[m.swapFn] = true
	}
	nOver := 0
	for _, fn := range m.methods {
		if isSift[fn] {
			continue
		}
		name := fnName(fn)
		allInstrs(fn, func(in ssa.Instruction) {
			s, ok := in.(*ssa.Store)
			if !ok {
				return
			}
			k, ok := m.dataIndex(s.Addr)
			if !ok {
				return
			}
			if isConstInt(k, 0) {
				return
			}
			// value just loaded from the same slot (no-op) ?
			if addr, ok := loadAddr(s.Val); ok {
				if k2, ok := m.dataIndex(addr); ok && (k2 == k || sym(k2) == sym(k)) {
					return
				}
			}
			// cut off before exit? (slot k removed by q.data = q.data[:m], m ≡ k)
			cut := func(in2 ssa.Instruction) bool {
				s2, ok := in2.(*ssa.Store)
				if !ok {
					return false
				}
				fa, ok := s2.Addr.(*ssa.FieldAddr)
				if !ok {
					return false
				}
				if _, f := fieldVarOf(fa); !sameField(f, m.dataF) {
					return false
				}
				sl, ok := s2.Val.(*ssa.Slice)
				return ok && sl.High != nil && (sl.High == k || sym(sl.High) == sym(k)) && sl.Low == nil
			}
			if okc, _ := mustPassToExit(P, s, cut); okc {
				return // the overwritten slot leaves the heap
			}
			nOver++
			key := fmt.Sprintf("%s:overwrite@%s", name, ksym(k))
			c.sawFn(name)
			// truncation length (if any) for the "slot beyond the end" exemption
			var trunc ssa.Value
			allInstrs(fn, func(in2 ssa.Instruction) {
				if s2, ok := in2.(*ssa.Store); ok {
					if fa, ok := s2.Addr.(*ssa.FieldAddr); ok {
						if _, f := fieldVarOf(fa); sameField(f, m.dataF) {
							if sl, ok := s2.Val.(*ssa.Slice); ok && sl.High != nil {
								// a truncation that follows the overwrite on some path (it need not be dominated by it:
								// the overwrite may sit in a branch before a shared truncation)
								if after, _ := reachesWithout(P, s, false, func(in3 ssa.Instruction) bool { return in3 == ssa.Instruction(s2) }, func(ssa.Instruction) bool { return false }); after || dominatesInstr(s, s2) {
									trunc = sl.High
								}
							}
						}
					}
				}
			})
			sameK := func(v ssa.Value) bool { return v == k || sym(v) == sym(k) }
			// a literal offset in an arm where the slot is known to be that offset (case i == 0: q.pushDown(0))
			knownEqual := func(b *ssa.BasicBlock, a ssa.Value) bool {
				if _, isC := a.(*ssa.Const); !isC {
					return false
				}
				for _, cm := range cmpsAt(b) {
					if cm.Op == token.EQL && ((sameK(cm.X) && sym(cm.Y) == sym(a)) || (sameK(cm.Y) && sym(cm.X) == sym(a))) {
						return true
					}
				}
				return false
			}
			var downCalls []*ssa.Call
			isDown := func(in2 ssa.Instruction) bool {
				call, ok := in2.(*ssa.Call)
				if !ok || staticCallee(&call.Call) != m.siftDn {
					return false
				}
				a := call.Call.Args[1]
				if sameK(a) || knownEqual(call.Block(), a) {
					return true
				}
				// pushDown(pushUp(k))
				if inner, ok := a.(*ssa.Call); ok && staticCallee(&inner.Call) == m.siftUp && sameK(inner.Call.Args[1]) {
					return true
				}
				return false
			}
			isUp := func(in2 ssa.Instruction) bool {
				call, ok := in2.(*ssa.Call)
				if !ok || staticCallee(&call.Call) != m.siftUp {
					return false
				}
				a := call.Call.Args[1]
				if sameK(a) || knownEqual(call.Block(), a) {
					return true
				}
				if inner, ok := a.(*ssa.Call); ok && staticCallee(&inner.Call) == m.siftDn && sameK(inner.Call.Args[1]) {
					return true
				}
				return false
			}
			allInstrs(fn, func(in2 ssa.Instruction) {
				if isDown(in2) {
					downCalls = append(downCalls, in2.(*ssa.Call))
				}
			})
			// edges exempting a path: slot is beyond the truncated length, or sift-down moved the element
			beyond := func(cm Cmp) bool {
				if trunc == nil {
					return false
				}
				isT := func(v ssa.Value) bool { return v == trunc || sym(v) == sym(trunc) }
				if sameK(cm.X) && isT(cm.Y) && (cm.Op == token.GEQ || cm.Op == token.EQL) {
					return true
				}
				if sameK(cm.Y) && isT(cm.X) && (cm.Op == token.LEQ || cm.Op == token.EQL) {
					return true
				}
				return false
			}
			moved := func(cm Cmp) bool {
				for _, dc := range downCalls {
					if (cm.X == dc && sameK(cm.Y) || cm.Y == dc && sameK(cm.X)) && cm.Op == token.NEQ {
						return true
					}
				}
				return false
			}
			// a repair helper of the queue (q.fix(i)): judged from its own entry for its own parameter — sift-down on
			// all paths but those where the slot lies beyond the buffer, sift-up on all paths but those and the ones
			// where sift-down moved the element — and then the call counts as both
			repairs := func(in2 ssa.Instruction) bool {
				call, ok := in2.(*ssa.Call)
				if !ok || len(call.Call.Args) < 2 || call.Call.Args[0] != ssa.Value(fn.Params[0]) {
					return false
				}
				h := origin(staticCallee(&call.Call))
				if h == nil || h.Blocks == nil || h == fn || isSift[h] || len(h.Params) < 2 {
					return false
				}
				pi := -1
				for i, a := range call.Call.Args {
					if i > 0 && sameK(a) {
						pi = i
					}
				}
				if pi < 0 || pi >= len(h.Params) {
					return false
				}
				hp := h.Params[pi]
				hDown := func(in3 ssa.Instruction) bool {
					c3, ok := in3.(*ssa.Call)
					return ok && staticCallee(&c3.Call) == m.siftDn && c3.Call.Args[1] == ssa.Value(hp)
				}
				hUp := func(in3 ssa.Instruction) bool {
					c3, ok := in3.(*ssa.Call)
					return ok && staticCallee(&c3.Call) == m.siftUp && c3.Call.Args[1] == ssa.Value(hp)
				}
				hBeyond := func(cm Cmp) bool {
					isLen := func(v ssa.Value) bool {
						ln, ok := isBuiltinCall(v, "len")
						return ok && isLoadOfField(ln.Call.Args[0], m.dataF)
					}
					return (cm.X == ssa.Value(hp) && isLen(cm.Y) && (cm.Op == token.GEQ || cm.Op == token.EQL)) || (cm.Y == ssa.Value(hp) && isLen(cm.X) && (cm.Op == token.LEQ || cm.Op == token.EQL))
				}
				hMoved := func(cm Cmp) bool {
					for _, v := range []ssa.Value{cm.X, cm.Y} {
						if c3, ok := v.(*ssa.Call); ok && staticCallee(&c3.Call) == m.siftDn && c3.Call.Args[1] == ssa.Value(hp) && cm.Op == token.NEQ {
							return true
						}
					}
					return false
				}
				d, _ := mustPassToExitE(P, firstInstr(h), hDown, func(iff *ssa.If, i int) bool {
					cm, ok := edgeCmp(iff, i)
					return ok && hBeyond(cm)
				})
				u, _ := mustPassToExitE(P, firstInstr(h), hUp, func(iff *ssa.If, i int) bool {
					cm, ok := edgeCmp(iff, i)
					return ok && (hBeyond(cm) || hMoved(cm))
				})
				// (the walk starts behind the helper's first instruction: a helper that begins with the sift is one)
				if hDown(firstInstr(h)) {
					d = true
				}
				if hUp(firstInstr(h)) {
					u = true
				}
				return d && u
			}
			// the shape of the heap exempts a direction: the root (k == 0) has nothing above it, a slot whose first
			// child index is beyond the buffer has nothing below it
			atRoot := func(cm Cmp) bool {
				return (sameK(cm.X) && isConstInt(cm.Y, 0) || sameK(cm.Y) && isConstInt(cm.X, 0)) && cm.Op == token.EQL
			}
			isLeaf := func(cm Cmp) bool {
				if trunc == nil {
					return false
				}
				isT := func(v ssa.Value) bool {
					if v == trunc || sym(v) == sym(trunc) {
						return true
					}
					ln, ok := isBuiltinCall(v, "len")
					return ok && isLoadOfField(ln.Call.Args[0], m.dataF)
				}
				child := func(v ssa.Value) bool {
					f, ok := affOf(v, k, nil, 0)
					if !ok {
						return false
					}
					for _, cf := range m.children[:1] { // the first child: if it is beyond the buffer, so are the others
						if f == cf {
							return true
						}
					}
					return false
				}
				return (child(cm.X) && isT(cm.Y) && cm.Op == token.GEQ) || (child(cm.Y) && isT(cm.X) && cm.Op == token.LEQ)
			}
			okDown, witD := mustPassToExitE(P, s, func(in2 ssa.Instruction) bool { return isDown(in2) || repairs(in2) }, func(iff *ssa.If, i int) bool {
				cm, ok := edgeCmp(iff, i)
				return ok && (beyond(cm) || isLeaf(cm))
			})
			okUp, witU := mustPassToExitE(P, s, func(in2 ssa.Instruction) bool { return isUp(in2) || repairs(in2) }, func(iff *ssa.If, i int) bool {
				cm, ok := edgeCmp(iff, i)
				return ok && (beyond(cm) || moved(cm) || atRoot(cm))
			})
			switch {
			case okDown && okUp:
				c.ok("R-HEAP-BIDIR", key, s.Pos(), "sift-down on all paths; sift-up on all paths where sift-down left the element in place")
			case !okDown:
				c.bad("R-HEAP-BIDIR", key, s.Pos(), "slot overwritten at an arbitrary offset is not sifted down on some path ("+witD+")")
			default:
				c.bad("R-HEAP-BIDIR", key, s.Pos(), "slot overwritten at an arbitrary offset is never sifted up: the moved-in element may be smaller than its new parent ("+witU+")")
			}
		})
	}
	if nOver == 0 {
		c.undecided("R-HEAP-BIDIR", "heapq:overwrite", m.queueT.Obj().Pos(), "no arbitrary-offset overwrite found (Remove(i) must overwrite slot i)")
	}

	// ---- R-HEAPIFY-COVER
	for _, fn := range P.PkgFuncs("heapq") {
		if isSift[fn] || fn.Parent() != nil {
			continue
		}
		name := fnName(fn)
		// find loops: header phi with a siftDown(q, phi) call in a block dominated by header
		allInstrs(fn, func(in ssa.Instruction) {
			call, ok := in.(*ssa.Call)
			if !ok || staticCallee(&call.Call) != m.siftDn {
				return
			}
			ph, ok := call.Call.Args[1].(*ssa.Phi)
			if !ok {
				return
			}
			key := name + ":heapify-loop"
			c.sawFn(name)
			// identify init and step
			var init ssa.Value
			stepOK := false
			for i, e := range ph.Edges {
				pred := ph.Block().Preds[i]
				if ph.Block().Dominates(pred) {
					// back edge: must be phi - 1
					if f, ok := affOf(e, ph, nil, 0); ok && f == (aff{1, -1, 1}) {
						stepOK = true
					}
				} else {
					init = e
				}
			}
			// guard: phi >= 0 in header
			guardOK := false
			for _, r := range referrersOf(ph) {
				if bo, ok := r.(*ssa.BinOp); ok && bo.X == ph && r.Block() == ph.Block() {
					if (bo.Op == token.GEQ && isConstInt(bo.Y, 0)) || (bo.Op == token.GTR && isConstInt(bo.Y, -1)) {
						guardOK = true
					}
				}
			}
			// init as affine in n = len(q.data) (or len of the data slice in the function)
			var lenv ssa.Value
			var findLen func(v ssa.Value, d int)
			findLen = func(v ssa.Value, d int) {
				if d > 6 || lenv != nil {
					return
				}
				if ln, ok := isBuiltinCall(v, "len"); ok {
					lenv = ln
					return
				}
				if bo, ok := v.(*ssa.BinOp); ok {
					findLen(bo.X, d+1)
					findLen(bo.Y, d+1)
				}
			}
			if init != nil {
				findLen(init, 0)
			}
			var msgs []string
			if !stepOK {
				msgs = append(msgs, "step is not -1")
			}
			if !guardOK {
				msgs = append(msgs, "loop does not run down to index 0 inclusive")
			}
			if lenv == nil {
				c.undecided("R-HEAPIFY-COVER", key, call.Pos(), "start index is not a function of len(data)")
				return
			}
			f, ok := affOf(init, lenv, nil, 0)
			if !ok || f.a != 1 {
				c.undecided("R-HEAPIFY-COVER", key, call.Pos(), "start index is not of the form ⌊(n+c)/d⌋: "+sym(init))
				return
			}
			// start(n) >= P(n-1) for all n >= 2, with the TRUE parent of the child forms: i = floor((j - b0)/a)
			trueParent := aff{1, -m.children[0].b, m.children[0].a}
			cover := f.d <= trueParent.d
			for n := int64(2); n <= 4*f.d*trueParent.d+64 && cover; n++ {
				if f.eval(n) < trueParent.eval(n-1) {
					cover = false
					msgs = append(msgs, fmt.Sprintf("for n=%d the loop starts at %d but the last internal node is %d", n, f.eval(n), trueParent.eval(n-1)))
				}
			}
			if !cover && len(msgs) == 0 {
				msgs = append(msgs, "start index grows slower than the last internal node")
			}
			c.judge(len(msgs) == 0, "R-HEAPIFY-COVER", key, call.Pos(), fmt.Sprintf("starts at %s of n=len(data), covers every internal node, down to 0", strings.Replace(f.String(), "x", "n", 1)), strings.Join(msgs, "; "))
		})
	}

	ruleYield(c, []*ssa.Function{P.Func("heapq", "Queue", "Each")})

	// ---- R-REORDER-INSTALLS: Reorder makes its argument the current comparison on every path (however small the queue)
	if ro := P.Func("heapq", "Queue", "Reorder"); ro != nil && len(ro.Params) == 2 {
		c.sawFn(fnName(ro))
		installs := func(in ssa.Instruction) bool {
			st, ok := in.(*ssa.Store)
			if !ok {
				return false
			}
			fa, ok := st.Addr.(*ssa.FieldAddr)
			if !ok {
				return false
			}
			if _, f := fieldVarOf(fa); !sameField(f, m.cmpF) {
				return false
			}
			v := st.Val
			if ct, ok := v.(*ssa.ChangeType); ok {
				v = ct.X
			}
			return v == ssa.Value(ro.Params[1])
		}
		okI, wit := mustPassToExit(P, firstInstr(ro), installs)
		if installs(firstInstr(ro)) {
			okI = true
		}
		c.judge(okI, "R-REORDER-INSTALLS", "heapq.(*Queue).Reorder:comparison installed", ro.Pos(), "the new comparison is stored on every path", "Reorder can return without installing the new comparison ("+wit+"): later Add/Pop keep ordering by the old one")
	}
	// ---- R-SORT-INPLACE: Sort orders the caller's slice through a queue built ON that slice; nothing it reaches may
	// move the queue to a fresh buffer
	if sortFn := P.Func("heapq", "", "Sort"); sortFn != nil {
		c.sawFn(fnName(sortFn))
		var bad []string
		n := 0
		for _, f := range buildCallScope(sortFn).fns {
			allInstrs(f, func(in ssa.Instruction) {
				st, ok := in.(*ssa.Store)
				if !ok {
					return
				}
				fa, ok := st.Addr.(*ssa.FieldAddr)
				if !ok {
					return
				}
				if _, fld := fieldVarOf(fa); !sameField(fld, m.dataF) {
					return
				}
				if _, fresh := fa.X.(*ssa.Alloc); fresh {
					return // building the queue value itself (NewWithData stores the caller's slice)
				}
				n++
				switch v := st.Val.(type) {
				case *ssa.Slice:
					if isLoadOfField(v.X, m.dataF) {
						return // re-slicing the same buffer
					}
				case *ssa.Parameter:
					return
				}
				bad = append(bad, fnName(f)+" at "+P.pos(st.Pos()))
			})
		}
		c.judge(len(bad) == 0, "R-SORT-INPLACE", "heapq.Sort:buffer stays the argument", sortFn.Pos(), fmt.Sprintf("%d buffer updates reachable from Sort, all re-slices of the same buffer", n), "Sort relies on the queue living in its argument, but a function it reaches replaces the buffer: "+strings.Join(bad, ", ")+" — from then on the sorted elements land in a private copy")
	}
	// ---- R-LEN-EFFECT: contents conserved, as far as the number of slots goes
	ruleLenEffect(c, "R-LEN-EFFECT", "heapq", "Queue", m.dataF, map[string]lform{
		"Add": latom("L0").add(lconst(1), 1), "Pop": latom("L0").add(lconst(1), -1), "Remove": latom("L0").add(lconst(1), -1),
		"Clear": lconst(0), "Set": latom("len(p1)")})
	// ---- the operations that replace the order wholesale re-heapify: NewWithData, Set and Reorder each
	// reach a loop that sifts its loop variable DOWN (a loop that sifts up from the middle does not
	// establish the heap order)
	for _, nm := range [][2]string{{"", "NewWithData"}, {"Queue", "Set"}, {"Queue", "Reorder"}} {
		fn := P.Func("heapq", nm[0], nm[1])
		if fn == nil {
			continue
		}
		has := false
		for _, f := range buildCallScope(fn).fns {
			allInstrs(f, func(in ssa.Instruction) {
				if call, ok := in.(*ssa.Call); ok && staticCallee(&call.Call) == m.siftDn {
					arg := call.Call.Args[1]
					// a cursor kept one ahead of the position (for i := n; i > 0; i-- { down(i-1) }): still the loop's variable
					if bo, ok := arg.(*ssa.BinOp); ok && (bo.Op == token.SUB || bo.Op == token.ADD) && isAnyConstInt(bo.Y) && blockInLoop(call.Block()) {
						arg = bo.X
					}
					switch a := arg.(type) {
					case *ssa.Phi:
						has = true
					case *ssa.Parameter:
						// the body of a range-over-func loop: the loop variable is the body's parameter
						if a.Parent().Parent() != nil {
							has = true
						}
					}
				}
			})
		}
		c.sawFn(fnName(fn))
		c.judge(has, "R-HEAPIFY-COVER", fnName(fn)+":re-heapifies", fn.Pos(), "reaches a sift-down loop", "the operation installs new contents or a new order but reaches no loop that sifts its loop variable down: the heap order is not re-established (sifting up from the middle does not build a heap)")
	}
	ruleOffsetValid(c, m)
	ruleMoveNonNil(c, m)
	ruleEmptyAgreesLen(c, "heapq", "Queue")
	// ---- R-SORT-SHORTCUT: a sortedness test that lets Sort return early is made with the caller's order
	if sortFn := P.Func("heapq", "", "Sort"); sortFn != nil && len(sortFn.Params) >= 1 {
		var userCmp *ssa.Parameter
		for _, p := range sortFn.Params {
			if _, ok := p.Type().Underlying().(*types.Signature); ok {
				userCmp = p
			}
		}
		n := 0
		for _, f := range buildCallScope(sortFn).fns {
			allInstrs(f, func(in ssa.Instruction) {
				call, ok := in.(*ssa.Call)
				if !ok {
					return
				}
				cal := call.Call.StaticCallee()
				if cal == nil || origin(cal).Pkg == nil {
					return
				}
				p, nm := origin(cal).Pkg.Pkg.Path(), origin(cal).Name()
				if !((p == "slices" && (nm == "IsSortedFunc")) || (p == "sort" && nm == "SliceIsSorted")) || len(call.Call.Args) < 2 {
					return
				}
				n++
				arg := call.Call.Args[1]
				if ct, ok := arg.(*ssa.ChangeType); ok {
					arg = ct.X
				}
				c.judge(userCmp != nil && arg == ssa.Value(userCmp), "R-SORT-SHORTCUT", fmt.Sprintf("heapq.Sort:sortedness test #%d", n), call.Pos(), "tests sortedness under the caller's comparison", "Sort tests whether its input is already sorted with a comparison other than the caller's (a derived or reversed one): it returns early exactly on the inputs that are in the wrong order")
			})
		}
	}
	// ---- R-POP-CONSERVES: taking slot i out of the heap keeps the tail element
	// the removal helper (one integer parameter i; returns the element read from slot i) cuts the last slot
	// off; except where the heap has a single element or i is the last slot, the element of the last slot
	// must first have been written into slot i — otherwise it is lost and the removed one stays
	for _, fn := range m.methods {
		if len(fn.Params) != 2 || !isIntType(fn.Params[1].Type()) || fn == m.swapFn || fn == m.siftUp || fn == m.siftDn {
			continue
		}
		ip := fn.Params[1]
		// truncating stores: q.data = q.data[:len-1]
		var cuts []*ssa.Store
		allInstrs(fn, func(in ssa.Instruction) {
			st, ok := in.(*ssa.Store)
			if !ok {
				return
			}
			fa, ok := st.Addr.(*ssa.FieldAddr)
			if !ok {
				return
			}
			if _, f := fieldVarOf(fa); !sameField(f, m.dataF) {
				return
			}
			sl, ok := st.Val.(*ssa.Slice)
			if !ok || sl.Low != nil || sl.High == nil || !isLoadOfField(sl.X, m.dataF) {
				return
			}
			if f, ok := affLenA(sl.High, m, nil); ok && f.a == 1 && f.d == 1 && f.b == -1 {
				cuts = append(cuts, st)
			}
		})
		if len(cuts) == 0 {
			continue
		}
		c.sawFn(fnName(fn))
		slotWrite := func(in ssa.Instruction) bool {
			st, ok := in.(*ssa.Store)
			if !ok {
				return false
			}
			idx, ok := m.dataIndex(st.Addr)
			return ok && (idx == ssa.Value(ip) || sameV(idx, ip))
		}
		// after the cut the buffer has hi elements: whatever still uses slot i (an element access, a sift)
		// must know i < hi — when the removed slot was the tail, slot i no longer exists
		for k, cut := range cuts {
			hi := cut.Val.(*ssa.Slice).High
			nUse := 0
			allInstrs(fn, func(in ssa.Instruction) {
				uses := false
				switch y := in.(type) {
				case *ssa.IndexAddr:
					if idx, ok := m.dataIndex(y); ok && (idx == ssa.Value(ip) || sameV(idx, ip)) {
						uses = true
					}
				case *ssa.Call:
					if cal := staticCallee(&y.Call); (cal == m.siftUp || cal == m.siftDn) && len(y.Call.Args) > 1 && (y.Call.Args[1] == ssa.Value(ip) || sameV(y.Call.Args[1], ip)) {
						uses = true
					}
				}
				if !uses {
					return
				}
				after, _ := reachesWithout(P, cut, false, func(in2 ssa.Instruction) bool { return in2 == in }, func(ssa.Instruction) bool { return false })
				if !after || dominatesInstr(in, cut) {
					return
				}
				nUse++
				inRange := false
				// slot i was accessed while the buffer still had hi+1 elements (before the cut): i ≤ hi; then i != hi
				// is as good as i < hi
				accessedBefore := false
				allInstrs(fn, func(in0 ssa.Instruction) {
					if ia0, ok := in0.(*ssa.IndexAddr); ok {
						if idx, ok := m.dataIndex(ia0); ok && (idx == ssa.Value(ip) || sameV(idx, ip)) && dominatesInstr(in0, cut) {
							accessedBefore = true
						}
					}
				})
				for _, cm := range cmpsAt(in.Block()) {
					if (cm.X == ssa.Value(ip) && cm.Y == hi && cm.Op == token.LSS) || (cm.Y == ssa.Value(ip) && cm.X == hi && cm.Op == token.GTR) {
						inRange = true
					}
					if accessedBefore && cm.Op == token.NEQ && ((cm.X == ssa.Value(ip) && cm.Y == hi) || (cm.Y == ssa.Value(ip) && cm.X == hi)) {
						inRange = true
					}
				}
				// a sift-up nested under a sift-down call that was itself under the test
				if call, ok := in.(*ssa.Call); ok && !inRange {
					for _, cm := range cmpsAt(call.Block()) {
						if c2, ok := cm.X.(*ssa.Call); ok && staticCallee(&c2.Call) == m.siftDn {
							for _, cm2 := range cmpsAt(c2.Block()) {
								if (cm2.X == ssa.Value(ip) && cm2.Y == hi && cm2.Op == token.LSS) || (cm2.Y == ssa.Value(ip) && cm2.X == hi && cm2.Op == token.GTR) {
									inRange = true
								}
							}
						}
					}
				}
				c.judge(inRange, "R-POP-CONSERVES", fmt.Sprintf("heapq removal helper:slot i used after the cut #%d.%d", k+1, nUse), instrPos(in), "under i < new length", "slot i is read or sifted after the buffer was cut to its new length without knowing i < that length: when the removed slot is the tail, slot i is past the end (index out of range)")
			})
		}
		for k, cut := range cuts {
			key := fmt.Sprintf("heapq removal helper:tail kept #%d", k+1)
			// exempt: the cut-off slot is slot i itself, or the heap had one element
			exempt := false
			hi := cut.Val.(*ssa.Slice).High
			for _, cm := range cmpsAt(cut.Block()) {
				if (cm.X == ssa.Value(ip) && cm.Y == hi || cm.Y == ssa.Value(ip) && cm.X == hi) && (cm.Op == token.EQL || (cm.X == ssa.Value(ip) && cm.Op == token.GEQ) || (cm.Y == ssa.Value(ip) && cm.Op == token.LEQ)) {
					exempt = true
				}
				if cm.X == hi && isConstInt(cm.Y, 0) && (cm.Op == token.EQL || cm.Op == token.LEQ) {
					exempt = true
				}
			}
			if exempt {
				c.ok("R-POP-CONSERVES", key, cut.Pos(), "the slot cut off is the removed one, or the only one")
				continue
			}
			// paths on which a branch edge says the heap had a single element (the cut length is ≤ 0) or
			// that slot i is the tail need no write
			exemptEdge := func(iff *ssa.If, idx int) bool {
				cm, ok := edgeCmp(iff, idx)
				if !ok {
					return false
				}
				if (cm.X == hi && isConstInt(cm.Y, 0) && (cm.Op == token.EQL || cm.Op == token.LEQ)) || (cm.Y == hi && isConstInt(cm.X, 0) && (cm.Op == token.EQL || cm.Op == token.GEQ)) {
					return true
				}
				if (cm.X == hi && isConstInt(cm.Y, 1) && cm.Op == token.LSS) || (cm.Y == hi && isConstInt(cm.X, 1) && cm.Op == token.GTR) {
					return true
				}
				if cm.X == ssa.Value(ip) && cm.Y == hi && (cm.Op == token.EQL || cm.Op == token.GEQ) {
					return true
				}
				if cm.Y == ssa.Value(ip) && cm.X == hi && (cm.Op == token.EQL || cm.Op == token.LEQ) {
					return true
				}
				return false
			}
			w := walkFromE(firstInstr(fn), true, slotWrite, exemptEdge)
			missing, wit := false, ""
			for _, in2 := range w.order {
				if in2 == ssa.Instruction(cut) {
					missing, wit = true, w.witness(P, in2)
				}
			}
			if missing {
				// the tail element may be saved in a local before the cut (last := q.data[n]) and put into slot i
				// afterwards: then every path from the cut to a return stores that saved value into slot i, except
				// on edges that say slot i was the tail
				var saved ssa.Value
				allInstrs(fn, func(in0 ssa.Instruction) {
					ld, ok := in0.(*ssa.UnOp)
					if !ok || ld.Op != token.MUL || !dominatesInstr(ld, cut) {
						return
					}
					if idx, ok := m.dataIndex(ld.X); ok && (idx == hi || sym(idx) == sym(hi)) {
						saved = ld
					}
				})
				if saved != nil {
					storesSaved := func(in2 ssa.Instruction) bool {
						st, ok := in2.(*ssa.Store)
						if !ok || st.Val != saved {
							return false
						}
						idx, ok := m.dataIndex(st.Addr)
						return ok && (idx == ssa.Value(ip) || sameV(idx, ip))
					}
					if okS, _ := mustPassToExitE(P, cut, storesSaved, exemptEdge); okS {
						missing = false
					}
				}
			}
			c.judge(!missing, "R-POP-CONSERVES", key, cut.Pos(), "slot i receives the tail element before the tail slot is cut off", "the last slot is cut off on a path where slot i was never overwritten ("+wit+"): the element that was in the last slot is lost and the removed element stays in the heap")
		}
	}
	// ---- R-SET-REPLACES: Set discards the previous contents on every path
	if set := P.Func("heapq", "Queue", "Set"); set != nil && len(set.Params) == 2 {
		c.sawFn(fnName(set))
		vs := set.Params[1]
		isLenVs := func(v ssa.Value) bool {
			ln, ok := isBuiltinCall(v, "len")
			return ok && ln.Call.Args[0] == ssa.Value(vs)
		}
		emptyEdge := func(iff *ssa.If, i int) bool {
			cm, ok := edgeCmp(iff, i)
			if !ok {
				return false
			}
			return (isLenVs(cm.X) && isConstInt(cm.Y, 0) && (cm.Op == token.EQL || cm.Op == token.LEQ)) || (isLenVs(cm.Y) && isConstInt(cm.X, 0) && cm.Op == token.EQL)
		}
		resize := func(in ssa.Instruction) bool {
			st, ok := in.(*ssa.Store)
			if !ok {
				return false
			}
			fa, ok := st.Addr.(*ssa.FieldAddr)
			if !ok {
				return false
			}
			if _, f := fieldVarOf(fa); !sameField(f, m.dataF) {
				return false
			}
			var sized func(v ssa.Value, d int) bool
			sized = func(v ssa.Value, d int) bool {
				switch v := v.(type) {
				case *ssa.MakeSlice:
					return isLenVs(v.Len)
				case *ssa.Slice:
					return v.Low == nil && v.High != nil && isLenVs(v.High)
				case *ssa.Phi:
					// a local that receives the re-sliced old buffer on one branch and a fresh one on the other
					if d > 3 || len(v.Edges) == 0 {
						return false
					}
					for _, e := range v.Edges {
						if !sized(e, d+1) {
							return false
						}
					}
					return true
				}
				return false
			}
			if sized(st.Val, 0) {
				return true
			}
			switch v := st.Val.(type) {
			case *ssa.Call:
				// slices.Clone(vs) / append([]T(nil), vs...) / append(buf[:0], vs...) with an empty base
				var lenZero func(b ssa.Value, d int) bool
				lenZero = func(b ssa.Value, d int) bool {
					if d > 4 {
						return false
					}
					switch y := b.(type) {
					case *ssa.Const:
						return y.IsNil()
					case *ssa.Slice:
						// an emptied view of the queue's own buffer — not of the caller's slice (that would adopt it)
						return y.Low == nil && y.High != nil && isConstInt(y.High, 0) && isLoadOfField(y.X, m.dataF)
					case *ssa.MakeSlice:
						return isConstInt(y.Len, 0)
					case *ssa.Phi:
						for _, e := range y.Edges {
							if !lenZero(e, d+1) {
								return false
							}
						}
						return len(y.Edges) > 0
					case *ssa.ChangeType:
						return lenZero(y.X, d+1)
					}
					return false
				}
				if ap, ok := isBuiltinCall(v, "append"); ok && len(ap.Call.Args) == 2 && ap.Call.Args[1] == ssa.Value(vs) && lenZero(ap.Call.Args[0], 0) {
					return true
				}
			}
			return false
		}
		// every path to exit passes a resize to len(vs) — except that with len(vs)==0 a truncation to 0 is also a resize
		resize0 := func(in ssa.Instruction) bool {
			if resize(in) {
				return true
			}
			st, ok := in.(*ssa.Store)
			if !ok {
				return false
			}
			fa, ok := st.Addr.(*ssa.FieldAddr)
			if !ok {
				return false
			}
			if _, f := fieldVarOf(fa); !sameField(f, m.dataF) {
				return false
			}
			if sl, ok := st.Val.(*ssa.Slice); ok && sl.Low == nil && sl.High != nil && isConstInt(sl.High, 0) {
				// only valid on a path where len(vs) == 0
				for _, cm := range cmpsAt(in.Block()) {
					if isLenVs(cm.X) && isConstInt(cm.Y, 0) && cm.Op == token.EQL {
						return true
					}
				}
			}
			return isNilConst(st.Val) && func() bool {
				for _, cm := range cmpsAt(in.Block()) {
					if isLenVs(cm.X) && isConstInt(cm.Y, 0) && cm.Op == token.EQL {
						return true
					}
				}
				return false
			}()
		}
		w := walkFromE(firstInstr(set), true, resize0, nil)
		okR, wit := true, ""
		for _, in := range w.order {
			if isReturn(in) {
				okR, wit = false, w.witness(P, in)
			}
		}
		c.judge(okR, "R-SET-REPLACES", "heapq.(*Queue).Set:resize", set.Pos(), "on every path the buffer is resized to len(vs) before returning", "Set can return without resizing the buffer to len(vs): the previous contents are kept ("+wit+")")
		// the copy: on every path (except len(vs)==0) copy(q.data, vs) or equivalent
		isCopy := func(in ssa.Instruction) bool {
			if call, ok := in.(*ssa.Call); ok {
				if cp, ok := isBuiltinCall(call, "copy"); ok && cp.Call.Args[1] == ssa.Value(vs) {
					if isLoadOfField(cp.Call.Args[0], m.dataF) {
						return true
					}
					// the destination is a local buffer that is installed as the queue's buffer
					for _, r := range referrersOf(cp.Call.Args[0]) {
						if st, ok := r.(*ssa.Store); ok && st.Val == cp.Call.Args[0] {
							if fa, ok := st.Addr.(*ssa.FieldAddr); ok {
								if _, f := fieldVarOf(fa); sameField(f, m.dataF) {
									return true
								}
							}
						}
					}
				}
			}
			if st, ok := in.(*ssa.Store); ok {
				if ap, ok := isBuiltinCall(st.Val, "append"); ok && len(ap.Call.Args) == 2 && ap.Call.Args[1] == ssa.Value(vs) {
					return true
				}
			}
			return false
		}
		okC, witC := mustPassToExitE(P, firstInstr(set), isCopy, emptyEdge)
		c.judge(okC, "R-SET-REPLACES", "heapq.(*Queue).Set:copy", set.Pos(), "the new values are copied in on every path with len(vs) > 0", "Set can return without copying vs into the buffer ("+witC+")")
	} else {
		c.undecided("ANCHOR", "heapq.(*Queue).Set", 0, "not found")
	}
}

// ---------------------------------------------------------------------------

func runC06(c *Ctx) {
	c.Explanation = "R-MOVE-NOTIFY: every write of a heap slot in a heapq.Queue method (element store, append, copy) is followed on every path to exit by a position report q.move(q.data[k], k) for that very slot, loaded after the write — or the slot is cut off by a truncation before exit. R-ADD-RETURNS: Add returns sift-up's result on the append position. R-POS-WRITERS: the LRU store's key→offset index is written only from the update callback (with the callback's own arguments) and from Store (with Add's result), deleted only together with the heap removal, and the callback is installed before the store escapes. After a bulk write no return is reachable without entering the reporting loop. Does NOT decide that the offsets are right for every history (that follows from these rules plus heap-array semantics)."
	c.rule("R-MOVE-NOTIFY", 3, "every slot write is followed by notify(k) on all paths, or the slot is truncated away")
	c.rule("R-ADD-RETURNS", 1, "Add returns sift-up's result on the append index")
	c.rule("R-POS-WRITERS", 4, "lruStore.present has exactly the writers {update callback, Store} and deleters {Remove, Evict}, each correctly paired; access is installed once with a non-nil Update callback")
	m := buildHeapModel(c)
	if m == nil {
		return
	}
	P := c.P
	eff := newEff(P)
	ruleOffsetValid(c, m) // the offsets reported are the ones Peek and Remove accept
	ruleMoveNonNil(c, m)
	// removing by a reported offset must work for every offset reported, the tail included (shared with C05)
	c.rule("R-POP-CONSERVES", 0, "the removal helper keeps the tail element and touches slot i after the cut only under i < new length (shared with C05)")
	{
		sub := newCtx(P, "C05", c.Tier)
		runC05(sub)
		for _, o := range sub.Obligs {
			if o.Rule != "R-POP-CONSERVES" {
				continue
			}
			if o.Verdict == "ok" {
				c.ok("R-POP-CONSERVES", o.Construct, 0, o.Msg)
			} else {
				c.bad("R-POP-CONSERVES", o.Construct, 0, o.Pos+": "+o.Msg)
			}
		}
	}
	isNotify := func(in ssa.Instruction, k ssa.Value) bool {
		call, ok := in.(*ssa.Call)
		if !ok || !isLoadOfField(call.Call.Value, m.moveF) || len(call.Call.Args) != 2 {
			return false
		}
		pos := call.Call.Args[1]
		if !(pos == k || sym(pos) == sym(k)) {
			return false
		}
		addr, ok := loadAddr(call.Call.Args[0])
		if !ok {
			return false
		}
		k2, ok := m.dataIndex(addr)
		return ok && (k2 == k || sym(k2) == sym(k))
	}
	isCut := func(in ssa.Instruction, k ssa.Value) bool {
		s2, ok := in.(*ssa.Store)
		if !ok {
			return false
		}
		fa, ok := s2.Addr.(*ssa.FieldAddr)
		if !ok {
			return false
		}
		if _, f := fieldVarOf(fa); !sameField(f, m.dataF) {
			return false
		}
		sl, ok := s2.Val.(*ssa.Slice)
		return ok && sl.High != nil && (sl.High == k || sym(sl.High) == sym(k)) && sl.Low == nil
	}
	_ = eff
	// fullRangeNotifyAfter: a loop after `at` that reports every index of q.data.
	inHelper := false
	var fullRangeNotifyAfterRef func(fn *ssa.Function, at ssa.Instruction) (bool, string)
	fullRangeNotifyAfter := func(fn *ssa.Function, at ssa.Instruction) (bool, string) {
		found := false
		why := ""
		allInstrs(fn, func(in2 ssa.Instruction) {
			call, ok := in2.(*ssa.Call)
			if !ok || !isLoadOfField(call.Call.Value, m.moveF) || len(call.Call.Args) != 2 {
				return
			}
			ph, ok := call.Call.Args[1].(*ssa.Phi)
			if !ok {
				// a cursor kept one ahead: for i := len; i > 0; { i--; report(data[i], i) }
				if bo, isB := call.Call.Args[1].(*ssa.BinOp); isB && bo.Op == token.SUB && isConstInt(bo.Y, 1) && isNotify(in2, bo) {
					if p1, isP := bo.X.(*ssa.Phi); isP && dominatesInstr(at, call) {
						initLen, stepDown, guard := false, false, false
						for i, e := range p1.Edges {
							if p1.Block().Dominates(p1.Block().Preds[i]) {
								if e == ssa.Value(bo) {
									stepDown = true
								} else if f2, ok := affOf(e, p1, nil, 0); ok && f2 == (aff{1, -1, 1}) {
									stepDown = true
								}
							} else if f, ok := affLen(e, m, fn); ok && f == (aff{1, 0, 1}) {
								initLen = true
							} else if m.lenAliases(fn)[e] {
								initLen = true
							}
						}
						for _, r := range referrersOf(p1) {
							if b2, ok := r.(*ssa.BinOp); ok && b2.X == ssa.Value(p1) && b2.Op == token.GTR && isConstInt(b2.Y, 0) {
								guard = true
							}
						}
						if initLen && stepDown && guard {
							hdr := p1.Block()
							if skip, wit := reachesWithout(P, at, false, isReturn, func(in3 ssa.Instruction) bool { return in3.Block() == hdr }); skip {
								why = "a return is reachable after the bulk write without running the reporting loop (" + wit + "): the new occupants' positions are never reported on that path"
								return
							}
							found = true
						}
					}
				}
				return
			}
			if !isNotify(in2, ph) {
				return
			}
			if !dominatesInstr(at, call) {
				why = "the reporting loop does not come after the bulk write"
				return
			}
			full := false
			for i, e := range ph.Edges {
				pred := ph.Block().Preds[i]
				if ph.Block().Dominates(pred) {
					continue
				}
				if f, ok := affLen(e, m, fn); ok && f == (aff{1, -1, 1}) {
					stepDown, guard := false, false
					for j, e2 := range ph.Edges {
						if ph.Block().Dominates(ph.Block().Preds[j]) {
							if f2, ok := affOf(e2, ph, nil, 0); ok && f2 == (aff{1, -1, 1}) {
								stepDown = true
							}
						}
					}
					for _, r := range referrersOf(ph) {
						if bo, ok := r.(*ssa.BinOp); ok && bo.X == ph && bo.Op == token.GEQ && isConstInt(bo.Y, 0) {
							guard = true
						}
					}
					full = stepDown && guard
				} else if isConstInt(e, 0) {
					stepUp, guard := false, false
					for j, e2 := range ph.Edges {
						if ph.Block().Dominates(ph.Block().Preds[j]) {
							if f2, ok := affOf(e2, ph, nil, 0); ok && f2 == (aff{1, 1, 1}) {
								stepUp = true
							}
						}
					}
					for _, r := range referrersOf(ph) {
						if bo, ok := r.(*ssa.BinOp); ok && bo.X == ph && bo.Op == token.LSS {
							if ln, ok := isBuiltinCall(bo.Y, "len"); ok && isLoadOfField(ln.Call.Args[0], m.dataF) {
								guard = true
							}
							if m.lenAliases(fn)[bo.Y] {
								guard = true
							}
						}
					}
					full = stepUp && guard
				}
			}
			if full {
				// … and no return is reachable from the bulk write without entering that loop
				hdr := ph.Block()
				if skip, wit := reachesWithout(P, at, false, isReturn, func(in3 ssa.Instruction) bool { return in3.Block() == hdr }); skip {
					why = "a return is reachable after the bulk write without running the reporting loop (" + wit + "): the new occupants' positions are never reported on that path"
					return
				}
				found = true
			} else if why == "" {
				why = "the reporting loop does not cover every index"
			}
		})
		// the loop may be written as a range over a standard index iterator of the buffer
		// (for i := range slices.Backward(q.data) / slices.All(q.data)): its body is a closure whose first
		// parameter is the index; the iterator visits every index
		for _, cl := range fn.AnonFuncs {
			if found || len(cl.Params) == 0 {
				continue
			}
			reports := false
			allInstrs(cl, func(in2 ssa.Instruction) {
				if isNotify(in2, cl.Params[0]) {
					reports = true
				}
			})
			if !reports {
				continue
			}
			allInstrs(fn, func(in2 ssa.Instruction) {
				call, ok := in2.(*ssa.Call)
				if !ok || len(call.Call.Args) != 1 {
					return
				}
				mc, ok := call.Call.Args[0].(*ssa.MakeClosure)
				if !ok || mc.Fn != ssa.Value(cl) {
					return
				}
				// the callee value is the iterator: a call of slices.Backward / slices.All on a load of q.data
				it, ok := call.Call.Value.(*ssa.Call)
				if !ok {
					return
				}
				sc := it.Call.StaticCallee()
				if sc == nil || sc.Pkg == nil && origin(sc).Pkg == nil {
					return
				}
				o := origin(sc)
				if o.Pkg == nil || o.Pkg.Pkg.Path() != "slices" || (o.Name() != "Backward" && o.Name() != "All") || len(it.Call.Args) != 1 {
					return
				}
				arg := it.Call.Args[0]
				if ct, ok := arg.(*ssa.ChangeType); ok {
					arg = ct.X
				}
				if !isLoadOfField(arg, m.dataF) {
					return
				}
				if dominatesInstr(at, call) {
					if skip, wit := reachesWithout(P, at, false, isReturn, func(in3 ssa.Instruction) bool { return in3 == ssa.Instruction(call) }); skip {
						why = "a return is reachable after the bulk write without running the reporting loop (" + wit + "): the new occupants' positions are never reported on that path"
						return
					}
					found = true
				} else if why == "" {
					why = "the reporting loop does not come after the bulk write"
				}
			})
		}
		// the loop may live in a helper of the queue that every path after the bulk write calls (q.heapify(true)):
		// the helper is judged from its entry, and a report that is conditional on one of its boolean parameters
		// counts only where the call passes a constant true
		if !found && !inHelper {
			allInstrs(fn, func(in2 ssa.Instruction) {
				call, ok := in2.(*ssa.Call)
				if !ok || found || len(call.Call.Args) == 0 || call.Call.Args[0] != ssa.Value(fn.Params[0]) {
					return
				}
				h := origin(staticCallee(&call.Call))
				if h == nil || h.Blocks == nil || h == fn || !dominatesInstr(at, call) {
					return
				}
				inHelper = true
				sub, _ := fullRangeNotifyAfterRef(h, firstInstr(h))
				inHelper = false
				if !sub {
					return
				}
				// conditions on boolean parameters that guard the report inside the helper
				okGuards := true
				allInstrs(h, func(in3 ssa.Instruction) {
					c3, ok := in3.(*ssa.Call)
					if !ok || !isLoadOfField(c3.Call.Value, m.moveF) {
						return
					}
					for _, f := range factsAt(c3.Block()) {
						p, isP := f.Cond.(*ssa.Parameter)
						if !isP {
							continue
						}
						pi := -1
						for i, q := range h.Params {
							if q == p {
								pi = i
							}
						}
						if pi < 0 || pi >= len(call.Call.Args) {
							okGuards = false
							continue
						}
						k, isK := call.Call.Args[pi].(*ssa.Const)
						if !isK || k.Value == nil || (k.Value.String() == "true") != f.Truth {
							okGuards = false
						}
					}
				})
				if !okGuards {
					why = "the helper " + h.Name() + " reports positions only under a flag this call does not set"
					return
				}
				if skip, wit := reachesWithout(P, at, false, isReturn, func(in3 ssa.Instruction) bool { return in3 == ssa.Instruction(call) }); skip {
					why = "a return is reachable after the bulk write without running the reporting loop (" + wit + "): the new occupants' positions are never reported on that path"
					return
				}
				found = true
			})
		}
		if !found && why == "" {
			why = "no reporting loop after the bulk write"
		}
		return found, why
	}
	fullRangeNotifyAfterRef = fullRangeNotifyAfter
	for _, fn := range m.methods {
		name := fnName(fn)
		allInstrs(fn, func(in ssa.Instruction) {
			switch x := in.(type) {
			case *ssa.Store:
				// wholesale replacement of the queue or of its buffer by foreign storage
				if x.Addr == ssa.Value(fn.Params[0]) {
					c.sawFn(name)
					found, why := fullRangeNotifyAfter(fn, x)
					c.judge(found, "R-MOVE-NOTIFY", name+":*q=", x.Pos(), "wholesale replacement followed by a full-range report", "the queue is replaced wholesale (any element may have moved) and "+why)
					return
				}
				if fa, ok := x.Addr.(*ssa.FieldAddr); ok && fa.X == ssa.Value(fn.Params[0]) {
					if _, f := fieldVarOf(fa); sameField(f, m.dataF) {
						own := false
						switch v := x.Val.(type) {
						case *ssa.MakeSlice:
							own = true
						case *ssa.Slice:
							own = isLoadOfField(v.X, m.dataF)
						case *ssa.Call:
							if ap, ok := isBuiltinCall(v, "append"); ok && isLoadOfField(ap.Call.Args[0], m.dataF) {
								own = true
							}
						case *ssa.Const:
							own = v.Value == nil
						}
						if !own {
							c.sawFn(name)
							found, why := fullRangeNotifyAfter(fn, x)
							c.judge(found, "R-MOVE-NOTIFY", name+":data=foreign", x.Pos(), "foreign buffer installed and fully reported", "the buffer is replaced by storage ordered elsewhere and "+why)
							return
						}
					}
				}
				if k, ok := m.dataIndex(x.Addr); ok {
					c.sawFn(name)
					key := fmt.Sprintf("%s:slot[%s]", name, ksym(k))
					// the notify must LOAD the element after the write: require the load instruction be after the store
					var reportsStored []*ssa.Call
					// lengths the buffer is cut to somewhere in this function
					cutTo := map[ssa.Value]bool{}
					allInstrs(fn, func(in0 ssa.Instruction) {
						if s0, ok := in0.(*ssa.Store); ok {
							if fa0, ok := s0.Addr.(*ssa.FieldAddr); ok {
								if _, f0 := fieldVarOf(fa0); sameField(f0, m.dataF) {
									if sl, ok := s0.Val.(*ssa.Slice); ok && sl.Low == nil && sl.High != nil {
										if after, _ := reachesWithout(P, x, false, func(in3 ssa.Instruction) bool { return in3 == in0 }, func(ssa.Instruction) bool { return false }); after {
											cutTo[sl.High] = true
										}
									}
								}
							}
						}
					})
					ok1, wit := mustPassToExitE(P, x, func(in2 ssa.Instruction) bool {
						if isCut(in2, k) {
							return true
						}
						// the buffer is cut to a length known to be ≤ 0 on this path: no slot is left
						if s2, ok := in2.(*ssa.Store); ok {
							if fa2, ok := s2.Addr.(*ssa.FieldAddr); ok {
								if _, f2 := fieldVarOf(fa2); sameField(f2, m.dataF) {
									if sl, ok := s2.Val.(*ssa.Slice); ok && sl.Low == nil && sl.High != nil {
										if isConstInt(sl.High, 0) {
											return true
										}
										for _, cm := range cmpsAt(s2.Block()) {
											if cm.X == sl.High && isConstInt(cm.Y, 0) && (cm.Op == token.LEQ || cm.Op == token.EQL) {
												return true
											}
											if cm.X == sl.High && isConstInt(cm.Y, 1) && cm.Op == token.LSS {
												return true
											}
										}
									}
								}
							}
						}
						// the report may name the very value that was stored (q.data[i] = last; …; q.move(last, i))
						if c2, ok := in2.(*ssa.Call); ok && isLoadOfField(c2.Call.Value, m.moveF) && len(c2.Call.Args) == 2 && c2.Call.Args[0] == x.Val && (c2.Call.Args[1] == k || sym(c2.Call.Args[1]) == sym(k)) {
							reportsStored = append(reportsStored, c2)
							return true
						}
						if !isNotify(in2, k) {
							return false
						}
						ld := in2.(*ssa.Call).Call.Args[0].(*ssa.UnOp)
						return dominatesInstr(x, ld)
					}, func(iff *ssa.If, i int) bool {
						cm, ok := edgeCmp(iff, i)
						if !ok {
							return false
						}
						// sift-down moved the element: the exchanges it made have reported every slot they touched
						for _, v := range []ssa.Value{cm.X, cm.Y} {
							if c3, ok := v.(*ssa.Call); ok && staticCallee(&c3.Call) == m.siftDn && cm.Op == token.NEQ && (c3.Call.Args[1] == k || sym(c3.Call.Args[1]) == sym(k)) && dominatesInstr(x, c3) {
								return true
							}
						}
						// an edge on which the length the buffer is about to be cut to is ≤ 0: every slot goes
						if !cutTo[cm.X] {
							return false
						}
						return (isConstInt(cm.Y, 0) && (cm.Op == token.LEQ || cm.Op == token.EQL)) || (isConstInt(cm.Y, 1) && cm.Op == token.LSS)
					})
					// a report that names the stored value is only as good as the element's staying where it was put:
					// no sift-up of that slot between the write and the report, and a sift-down only where it is known
					// to have left the element in place
					for _, rp := range reportsStored {
						stale := ""
						allInstrs(fn, func(in3 ssa.Instruction) {
							c3, ok := in3.(*ssa.Call)
							if !ok || len(c3.Call.Args) < 2 || !(c3.Call.Args[1] == k || sym(c3.Call.Args[1]) == sym(k)) {
								return
							}
							cal := staticCallee(&c3.Call)
							if cal != m.siftUp && cal != m.siftDn {
								return
							}
							between, _ := reachesWithout(P, x, false, func(in4 ssa.Instruction) bool { return in4 == in3 }, func(in4 ssa.Instruction) bool { return in4 == ssa.Instruction(rp) })
							reaches, _ := reachesWithout(P, in3, false, func(in4 ssa.Instruction) bool { return in4 == ssa.Instruction(rp) }, func(ssa.Instruction) bool { return false })
							if !between || !reaches {
								return
							}
							if cal == m.siftDn {
								for _, cm := range cmpsAt(rp.Block()) {
									if (cm.X == ssa.Value(c3) || cm.Y == ssa.Value(c3)) && cm.Op == token.EQL {
										return // reported only where sift-down left it in place
									}
								}
							}
							stale = P.pos(c3.Pos())
						})
						if stale != "" {
							ok1 = false
							wit = "the element is sifted at " + stale + " before its position is reported: the report names the slot it was put in, not where it is"
						}
					}
					c.judge(ok1, "R-MOVE-NOTIFY", key, x.Pos(), "reported (or truncated away) on all paths", "slot is written but its new occupant's position is not reported on some path ("+wit+")")
					return
				}
				// q.data = append(q.data, v)
				if fa, ok := x.Addr.(*ssa.FieldAddr); ok {
					if _, f := fieldVarOf(fa); sameField(f, m.dataF) {
						if ap, ok := isBuiltinCall(x.Val, "append"); ok {
							c.sawFn(name)
							key := name + ":append"
							// slot = len(old q.data)
							ok1, wit := mustPassToExit(P, x, func(in2 ssa.Instruction) bool {
								call, ok := in2.(*ssa.Call)
								if !ok || !isLoadOfField(call.Call.Value, m.moveF) || len(call.Call.Args) != 2 {
									return false
								}
								if !m.appendSlot(call.Call.Args[1], ap, x) {
									return false
								}
								if isNotify(in2, call.Call.Args[1]) {
									return true
								}
								// … or the very value that was appended (no store to the buffer lies between the
								// append and the report: checked by requiring the report in the same block)
								if len(ap.Call.Args) == 2 && call.Block() == x.Block() {
									if sl, ok := ap.Call.Args[1].(*ssa.Slice); ok {
										if arr, ok := sl.X.(*ssa.Alloc); ok {
											for _, r := range referrersOf(arr) {
												if ia, ok := r.(*ssa.IndexAddr); ok {
													for _, r2 := range referrersOf(ia) {
														if st2, ok := r2.(*ssa.Store); ok && st2.Addr == ssa.Value(ia) && st2.Val == call.Call.Args[0] {
															return true
														}
													}
												}
											}
										}
									}
								}
								return false
							})
							c.judge(ok1, "R-MOVE-NOTIFY", key, x.Pos(), "appended slot len(old) reported on all paths", "appended element's position is not reported ("+wit+")")
						}
					}
				}
			case *ssa.Call:
				if cp, ok := isBuiltinCall(x, "copy"); ok && isLoadOfField(cp.Call.Args[0], m.dataF) {
					c.sawFn(name)
					found, why := fullRangeNotifyAfter(fn, x)
					if found {
						c.ok("R-MOVE-NOTIFY", name+":copy", x.Pos(), "every slot reported by a full-range loop after the copy")
					} else {
						c.bad("R-MOVE-NOTIFY", name+":copy", x.Pos(), why)
					}
				}
			}
		})
	}
	// ---- Add returns siftUp(appendPos)
	if add := P.Func("heapq", "Queue", "Add"); add != nil {
		okRet := false
		allInstrs(add, func(in ssa.Instruction) {
			if ret, ok := in.(*ssa.Return); ok && len(ret.Results) == 1 {
				if call, ok := ret.Results[0].(*ssa.Call); ok && m.siftUp != nil && staticCallee(&call.Call) == m.siftUp {
					// the append of Add
					allInstrs(add, func(in2 ssa.Instruction) {
						st, ok := in2.(*ssa.Store)
						if !ok {
							return
						}
						if fa, ok := st.Addr.(*ssa.FieldAddr); ok {
							if _, f := fieldVarOf(fa); sameField(f, m.dataF) {
								if ap, ok := isBuiltinCall(st.Val, "append"); ok && m.appendSlot(call.Call.Args[1], ap, st) {
									okRet = true
								}
							}
						}
					})
				}
			}
		})
		c.judge(okRet, "R-ADD-RETURNS", "heapq.(*Queue).Add:result", add.Pos(), "returns sift-up's result on the append index", "Add does not return the position where sift-up left the new element")
	} else {
		c.undecided("ANCHOR", "heapq.(*Queue).Add", 0, "not found")
	}

	rulePosWriters(c)
}

// rulePosWriters: the LRU store's key→offset index (shared by C06 and C08).
func rulePosWriters(c *Ctx) {
	P := c.P
	roles := resolveLRU(P)
	if roles == nil {
		c.undecided("ANCHOR", "cache LRU store (type allocated by LRU, its map index, heap and clock)", 0, "anchor not found")
		return
	}
	lru, lruFn, presentF, accessF := roles.storeT, roles.lruFn, roles.presentF, roles.accessF
	_ = lru
	qAdd, qRemove, qPop, qUpdate := P.Func("heapq", "Queue", "Add"), P.Func("heapq", "Queue", "Remove"), P.Func("heapq", "Queue", "Pop"), P.Func("heapq", "Queue", "Update")
	nUpd, nDel := 0, 0
	// construction: LRU itself and the constructor helpers it calls (newLRUStore), with their closures
	ctor := map[*ssa.Function]bool{}
	for _, f := range buildCallScope(lruFn).fns {
		ctor[origin(f)] = true
	}
	// the update callback: the function literal handed to Update in the constructor, or a method handed to it
	// as a method value (lru.moved) — then its element and position are parameters 1 and 2
	var cbMethod *ssa.Function
	for cf := range ctor {
		allInstrs(cf, func(in ssa.Instruction) {
			call, ok := in.(*ssa.Call)
			if !ok || staticCallee(&call.Call) != qUpdate || len(call.Call.Args) < 2 {
				return
			}
			if mc, ok := call.Call.Args[1].(*ssa.MakeClosure); ok {
				if w, ok := mc.Fn.(*ssa.Function); ok && w.Parent() == nil && strings.HasSuffix(w.Name(), "$bound") {
					allInstrs(w, func(in2 ssa.Instruction) {
						if ci, ok := in2.(ssa.CallInstruction); ok {
							if t := origin(staticCallee(ci.Common())); t != nil {
								cbMethod = t
							}
						}
					})
				}
			}
		})
	}
	for _, fn := range P.PkgFuncs("cache") {
		if P.isCanaryFn(fn) {
			continue
		}
		name := fnName(fn)
		allInstrs(fn, func(in ssa.Instruction) {
			switch x := in.(type) {
			case *ssa.MapUpdate:
				if !isLoadOfField(x.Map, presentF) {
					return
				}
				nUpd++
				if cbMethod != nil && origin(fn) == cbMethod && len(fn.Params) == 3 {
					kOK := false
					if fld, ok := x.Key.(*ssa.Field); ok && fld.X == fn.Params[1] {
						kOK = true
					}
					if _, f := loadedField(x.Key); f != nil {
						if fa, ok := x.Key.(*ssa.UnOp).X.(*ssa.FieldAddr); ok {
							if al, ok := fa.X.(*ssa.Alloc); ok {
								for _, r := range referrersOf(al) {
									if st, ok := r.(*ssa.Store); ok && st.Addr == al && st.Val == fn.Params[1] {
										kOK = true
									}
								}
							}
						}
					}
					c.sawFn(name)
					c.judge(kOK && x.Value == fn.Params[2], "R-POS-WRITERS", name+":present[k]=v", x.Pos(), "callback (a method value) records its own (element key, position) arguments", "update callback does not record the reported position under the reported element's key")
					return
				}
				key := name + ":present[k]=v"
				c.sawFn(name)
				// (a) inside the closure passed to Update: key = param.key, value = param pos
				if fn.Parent() != nil && ctor[origin(fn.Parent())] && len(fn.Params) == 2 {
					kOK := false
					if fld, ok := x.Key.(*ssa.Field); ok && fld.X == fn.Params[0] {
						kOK = true
					}
					if _, f := loadedField(x.Key); f != nil {
						if fa, ok := x.Key.(*ssa.UnOp).X.(*ssa.FieldAddr); ok {
							if al, ok := fa.X.(*ssa.Alloc); ok {
								for _, r := range referrersOf(al) {
									if st, ok := r.(*ssa.Store); ok && st.Addr == al && st.Val == fn.Params[0] {
										kOK = true
									}
								}
							}
						}
					}
					c.judge(kOK && x.Value == fn.Params[1], "R-POS-WRITERS", key, x.Pos(), "callback records its own (element key, position) arguments", "update callback does not record the reported position under the reported element's key")
					return
				}
				// (b) in lruStore.Store: value is the result of access.Add
				var isAddResult func(v ssa.Value, d int) bool
				isAddResult = func(v ssa.Value, d int) bool {
					call, ok := v.(*ssa.Call)
					if !ok || d > 2 {
						return false
					}
					cal := staticCallee(&call.Call)
					if cal == qAdd {
						return isLoadOfField(call.Call.Args[0], accessF)
					}
					// a helper of the package that returns what Add returned, on every return
					if cal == nil || cal.Pkg == nil || cal.Pkg != origin(fn).Pkg || cal.Signature.Results().Len() != 1 {
						return false
					}
					n, all := 0, true
					allInstrs(cal, func(in2 ssa.Instruction) {
						if ret, ok := in2.(*ssa.Return); ok {
							n++
							if !isAddResult(ret.Results[0], d+1) {
								all = false
							}
						}
					})
					return n > 0 && all
				}
				if isAddResult(x.Value, 0) {
					c.ok("R-POS-WRITERS", key, x.Pos(), "stores the offset returned by Add")
					return
				}
				c.bad("R-POS-WRITERS", key, x.Pos(), "unexpected writer of the key→offset index")
			case *ssa.Call:
				if del, ok := isBuiltinCall(x, "delete"); ok && isLoadOfField(del.Call.Args[0], presentF) {
					nDel++
					key := name + ":delete(present,k)"
					c.sawFn(name)
					paired := false
					wrongElem := ""
					allInstrs(fn, func(in2 ssa.Instruction) {
						if call, ok := in2.(*ssa.Call); ok {
							cal := staticCallee(&call.Call)
							if (cal == qRemove || cal == qPop) && isLoadOfField(call.Call.Args[0], accessF) && dominatesInstr(call, del) {
								paired = true
								// … and it is the deleted key's own element that leaves the heap: a removal by offset takes
								// the offset the index holds for that key; a removal of the front deletes the key of the
								// element that came out
								delKey := del.Call.Args[1]
								// Remove(0) is Pop: the front leaves, whatever key it has
								front := cal == qPop || (cal == qRemove && len(call.Call.Args) == 2 && isConstInt(call.Call.Args[1], 0))
								if cal == qRemove && !front && len(call.Call.Args) == 2 {
									var lk *ssa.Lookup
									switch p := call.Call.Args[1].(type) {
									case *ssa.Extract:
										lk, _ = p.Tuple.(*ssa.Lookup)
									case *ssa.Lookup:
										lk = p
									}
									if lk == nil || !isLoadOfField(lk.X, presentF) || (lk.Index != delKey && sym(lk.Index) != sym(delKey)) {
										wrongElem = "the heap removal does not use the offset the index holds for the deleted key"
									}
								}
								if front {
									var from func(v ssa.Value, d int) bool
									from = func(v ssa.Value, d int) bool {
										if d > 5 {
											return false
										}
										switch y := v.(type) {
										case *ssa.Call:
											return y == call
										case *ssa.Extract:
											return from(y.Tuple, d+1)
										case *ssa.Field:
											return from(y.X, d+1)
										case *ssa.UnOp:
											if fa, ok := y.X.(*ssa.FieldAddr); ok {
												if al, ok := fa.X.(*ssa.Alloc); ok {
													for _, r := range referrersOf(al) {
														if st, ok := r.(*ssa.Store); ok && st.Addr == ssa.Value(al) && from(st.Val, d+1) {
															return true
														}
													}
												}
											}
										}
										return false
									}
									if !from(delKey, 0) {
										wrongElem = "the front of the heap is removed, but the key deleted from the index is not that element's key: the heap loses one entry and the index another"
									}
								}
							}
						}
					})
					if paired && wrongElem != "" {
						c.bad("R-POS-WRITERS", key, x.Pos(), wrongElem)
						return
					}
					c.judge(paired, "R-POS-WRITERS", key, x.Pos(), "index entry deleted together with the heap removal", "index entry deleted without removing the element from the heap")
				}
				if clr, ok := isBuiltinCall(x, "clear"); ok && isLoadOfField(clr.Call.Args[0], presentF) {
					c.bad("R-POS-WRITERS", name+":clear(present)", x.Pos(), "index cleared wholesale")
				}
			case *ssa.Store:
				if fa, ok := x.Addr.(*ssa.FieldAddr); ok {
					_, f := fieldVarOf(fa)
					if sameField(f, presentF) || sameField(f, accessF) {
						_, isAlloc := fa.X.(*ssa.Alloc)
						c.judge(isAlloc && ctor[origin(fn)] && fn.Parent() == nil, "R-POS-WRITERS", name+":store "+f.Name(), x.Pos(), "initialised once on the fresh store in LRU", "field replaced outside construction")
					}
				}
			}
		})
	}
	// Update(non-nil closure) called in LRU on the access queue
	{
		okU := false
		for cf := range ctor {
			if cf.Parent() != nil {
				continue
			}
			allInstrs(cf, func(in ssa.Instruction) {
				if call, ok := in.(*ssa.Call); ok && staticCallee(&call.Call) == qUpdate {
					// on the access queue: the receiver is read from the access field, or the queue Update was
					// called on (Update returns its receiver) is what the access field is set to
					onAccess := isLoadOfField(call.Call.Args[0], accessF)
					for _, v := range []ssa.Value{call, call.Call.Args[0]} {
						for _, r := range referrersOf(v) {
							if st, ok := r.(*ssa.Store); ok && st.Val == v {
								if _, f := fieldVarOf(st.Addr); sameField(f, accessF) {
									onAccess = true
								}
							}
						}
					}
					if _, ok := call.Call.Args[1].(*ssa.MakeClosure); ok && onAccess {
						okU = true
					}
				}
			})
		}
		c.judge(okU, "R-POS-WRITERS", "cache.LRU:install-callback", lruFn.Pos(), "Update(closure) installed on the access queue before the store is returned", "no position callback is installed on the access queue")
	}
	// (the store may leave the initial index entry to the callback: one writer is enough)
	if nUpd < 1 || nDel < 2 {
		c.bad("FLOOR", "R-POS-WRITERS writers", 0, fmt.Sprintf("%d update sites and %d delete sites of present found; 2 and 2 confirmed by hand", nUpd, nDel))
	}
}

// affLen: v as affine in len(q.data).
// lenAliases: values n such that every store to q.data in fn stores a slice of
// length exactly n (make([]T, n) or x[:n]), so that len(q.data) == n afterwards.
func (m *heapModel) lenAliases(fn *ssa.Function) map[ssa.Value]bool {
	var cands []ssa.Value
	first, ok := true, true
	allInstrs(fn, func(in ssa.Instruction) {
		st, isSt := in.(*ssa.Store)
		if !isSt {
			return
		}
		fa, isFa := st.Addr.(*ssa.FieldAddr)
		if !isFa {
			return
		}
		if _, f := fieldVarOf(fa); !sameField(f, m.dataF) {
			return
		}
		var n ssa.Value
		switch x := st.Val.(type) {
		case *ssa.MakeSlice:
			n = x.Len
		case *ssa.Slice:
			if x.Low == nil && x.High != nil {
				n = x.High
			}
		}
		if n == nil {
			ok = false
			return
		}
		if first {
			cands, first = []ssa.Value{n}, false
		} else if len(cands) == 0 || cands[0] != n {
			ok = false
		}
	})
	out := map[ssa.Value]bool{}
	if ok && len(cands) == 1 {
		out[cands[0]] = true
	}
	return out
}

func affLen(v ssa.Value, m *heapModel, fn *ssa.Function) (aff, bool) {
	return affLenA(v, m, m.lenAliases(fn))
}

// affLenA: as affLen with an explicit alias set (nil: only len(q.data) itself —
// for a value computed before the store that makes it an alias).
func affLenA(v ssa.Value, m *heapModel, alias map[ssa.Value]bool) (aff, bool) {
	var lenv ssa.Value
	var find func(v ssa.Value, d int)
	find = func(v ssa.Value, d int) {
		if d > 6 || lenv != nil {
			return
		}
		if alias[v] {
			lenv = v
			return
		}
		if ln, ok := isBuiltinCall(v, "len"); ok && isLoadOfField(ln.Call.Args[0], m.dataF) {
			lenv = ln
			return
		}
		if bo, ok := v.(*ssa.BinOp); ok {
			find(bo.X, d+1)
			find(bo.Y, d+1)
		}
	}
	find(v, 0)
	if lenv == nil {
		return aff{}, false
	}
	return affOf(v, lenv, nil, 0)
}

// isCmpCall: a dynamic call (through a field, parameter, captured variable or
// closure value) of a function with two like-typed parameters and one integer
// result — the shape of every user-supplied three-way comparison in this
// repository.
func isCmpCall(call *ssa.Call) bool {
	if call.Call.IsInvoke() {
		return false
	}
	if staticCallee(&call.Call) != nil {
		if _, isClosure := call.Call.Value.(*ssa.MakeClosure); !isClosure {
			return false
		}
	}
	sig, ok := call.Call.Value.Type().Underlying().(*types.Signature)
	if !ok || sig.Params().Len() != 2 || sig.Results().Len() != 1 || !isIntType(sig.Results().At(0).Type()) {
		return false
	}
	_, tp0 := sig.Params().At(0).Type().(*types.TypeParam)
	_, tp1 := sig.Params().At(1).Type().(*types.TypeParam)
	return types.Identical(sig.Params().At(0).Type(), sig.Params().At(1).Type()) || (tp0 && tp1)
}

// naturalCmpVerdict judges a comparison value handed to a constructor for a
// cmp.Ordered key type.  The natural order the documentation promises is
// cmp.Compare's, which is total even with NaN keys (NaN sorts first, equals
// itself).  A hand-written three-way comparison built on < and > alone makes
// NaN "equal" to every key: lookups, replacement and iteration order then
// disagree with any reference keyed by cmp.Compare.  ok=true when v is
// cmp.Compare (possibly wrapped by a conversion) or a repository function that
// reaches cmp.Compare or handles x != x; ok=false with the offending construct
// otherwise; judged=false when v cannot be resolved to a function.
func naturalCmpVerdict(P *Prog, v ssa.Value) (ok bool, judged bool, why string) {
	for {
		switch x := v.(type) {
		case *ssa.ChangeType:
			v = x.X
			continue
		case *ssa.MakeClosure:
			v = x.Fn
			continue
		}
		break
	}
	f, isFn := v.(*ssa.Function)
	if !isFn {
		return false, false, ""
	}
	f = origin(f)
	if f.Pkg != nil && f.Pkg.Pkg.Path() == "cmp" && f.Name() == "Compare" {
		return true, true, "cmp.Compare"
	}
	if f.Blocks == nil {
		return false, false, ""
	}
	var rel ssa.Instruction
	nanAware := false
	for _, g := range buildCallScope(f).fns {
		allInstrs(g, func(in ssa.Instruction) {
			switch x := in.(type) {
			case *ssa.BinOp:
				if _, isTP := x.X.Type().(*types.TypeParam); !isTP {
					if b, okb := x.X.Type().Underlying().(*types.Basic); !okb || b.Info()&types.IsFloat == 0 {
						return
					}
				}
				switch x.Op {
				case token.LSS, token.GTR, token.LEQ, token.GEQ:
					if rel == nil {
						rel = in
					}
				case token.NEQ, token.EQL:
					if x.X == x.Y {
						nanAware = true
					}
				}
			case *ssa.Call:
				if cal := staticCallee(&x.Call); cal != nil && origin(cal).Pkg != nil {
					p, n := origin(cal).Pkg.Pkg.Path(), origin(cal).Name()
					if (p == "cmp" && (n == "Compare" || n == "Less")) || (p == "math" && n == "IsNaN") {
						nanAware = true
					}
				}
			}
		})
	}
	if rel != nil && !nanAware {
		return false, true, fmt.Sprintf("%s orders keys of an ordered type parameter with %s at %s and never treats x != x (NaN): NaN compares equal to every key", fnName(f), rel.(*ssa.BinOp).Op, P.pos(rel.Pos()))
	}
	return true, true, fnName(f)
}

// ruleOffsetValid: Remove refuses exactly the offsets Peek refuses (an offset is valid iff 0 <= n < len).
func ruleOffsetValid(c *Ctx, m *heapModel) {
	P := c.P
	c.rule("R-OFFSET-VALID", 1, "Remove and Peek treat the same offsets as out of range")
	var refusalP func(fn *ssa.Function, p *ssa.Parameter, depth int) (string, token.Pos)
	refusal := func(fn *ssa.Function) (string, token.Pos) {
		if fn == nil || len(fn.Params) < 2 {
			return "", 0
		}
		return refusalP(fn, fn.Params[1], 0)
	}
	refusalP = func(fn *ssa.Function, p *ssa.Parameter, depth int) (string, token.Pos) {
		res, pos := "", token.NoPos

		allInstrs(fn, func(in ssa.Instruction) {
			bo, ok := in.(*ssa.BinOp)
			if !ok {
				return
			}
			x, y, op := bo.X, bo.Y, bo.Op
			if y == ssa.Value(p) {
				x, y = y, x
				switch op {
				case token.LSS:
					op = token.GTR
				case token.LEQ:
					op = token.GEQ
				case token.GTR:
					op = token.LSS
				case token.GEQ:
					op = token.LEQ
				}
			}
			if x != ssa.Value(p) {
				return
			}
			if f, ok := affLenA(y, m, nil); ok && f.a == 1 && f.d == 1 {
				// canonical: the set of offsets refused, relative to len
				switch op {
				case token.GEQ:
					res, pos = fmt.Sprintf("n >= len%+d", f.b), bo.Pos()
				case token.GTR:
					res, pos = fmt.Sprintf("n >= len%+d", f.b+1), bo.Pos()
				case token.LSS:
					res, pos = fmt.Sprintf("n >= len%+d (negated)", f.b), bo.Pos()
				case token.LEQ:
					res, pos = fmt.Sprintf("n >= len%+d (negated)", f.b+1), bo.Pos()
				}
			}
		})
		if res == "" && depth < 2 {
			// the range test may live in a helper the offset is handed to
			allInstrs(fn, func(in ssa.Instruction) {
				call, ok := in.(*ssa.Call)
				if !ok || res != "" {
					return
				}
				cal := staticCallee(&call.Call)
				if cal == nil || origin(cal).Pkg != fn.Pkg || origin(cal).Blocks == nil {
					return
				}
				for i, a := range call.Call.Args {
					if a == ssa.Value(p) && i < len(origin(cal).Params) {
						if r, ps := refusalP(origin(cal), origin(cal).Params[i], depth+1); r != "" {
							res, pos = r, ps
						}
					}
				}
			})
			return res, pos
		}
		return strings.Replace(res, "len+0", "len", 1), pos
	}
	pk, rm := P.Func("heapq", "Queue", "Peek"), P.Func("heapq", "Queue", "Remove")
	a, _ := refusal(pk)
	b, pos := refusal(rm)
	if a != "" && b != "" {
		c.sawFn(fnName(rm))
		c.judge(strings.TrimSuffix(a, " (negated)") == strings.TrimSuffix(b, " (negated)"), "R-OFFSET-VALID", "heapq.(*Queue).Remove:refuses what Peek refuses", pos, "both refuse "+strings.TrimSuffix(b, " (negated)"), fmt.Sprintf("Peek treats offsets with %s as out of range, Remove those with %s: an element Peek shows cannot be removed (or a missing one can)", strings.TrimSuffix(a, " (negated)"), strings.TrimSuffix(b, " (negated)")))
	}
}
