package main

// Shared engines: symbolic paths (E-vn), branch facts (E-dom), instruction
// level reachability (E-path), effect summaries (E-eff), origins (E-orig).

import (
	"fmt"
	"go/constant"
	"go/token"
	"go/types"
	"sort"
	"strings"

	"golang.org/x/tools/go/ssa"
)

// ---------------------------------------------------------------- symbolic

// sym renders a canonical symbolic expression for v "as if memory did not
// change": two loads of the same field path get the same string.  Whether
// memory did change between two program points is a separate question
// answered by noKillBetween.
func sym(v ssa.Value) string { return symd(v, 0) }

// ksym renders v for use in construct keys: like sym, but SSA temporaries are
// named by their source-level role (phi comment, callee) instead of %tN, so
// that keys survive unrelated edits.
func ksym(v ssa.Value) string {
	symPretty = true
	defer func() { symPretty = false }()
	return symd(v, 0)
}

var symPretty bool

func opaque(v ssa.Value) string {
	if !symPretty {
		return "%" + v.Name()
	}
	switch x := v.(type) {
	case *ssa.Phi:
		if x.Comment != "" {
			return "φ" + x.Comment
		}
		return "φ"
	case *ssa.Call:
		if cal := x.Call.StaticCallee(); cal != nil {
			return origin(cal).Name() + "()"
		}
		return "call()"
	case *ssa.Extract:
		return fmt.Sprintf("%s#%d", symd(x.Tuple, 3), x.Index)
	}
	return "_"
}

func symd(v ssa.Value, d int) string {
	if v == nil {
		return "<nil>"
	}
	if d > 12 {
		return opaque(v)
	}
	switch x := v.(type) {
	case *ssa.Parameter:
		if n := len(symEnv); n > 0 {
			if t, ok := symEnv[n-1][x]; ok {
				return t
			}
		}
		return x.Name()
	case *ssa.FreeVar:
		return x.Name()
	case *ssa.Const:
		if x.Value == nil {
			return "nil"
		}
		return x.Value.ExactString()
	case *ssa.Global:
		return x.Name()
	case *ssa.Function:
		return "func:" + fnName(x)
	case *ssa.FieldAddr:
		_, f := fieldVarOf(x)
		return "&" + strings.TrimPrefix(symd(x.X, d+1), "&") + "." + f.Name()
	case *ssa.Field:
		_, f := fieldVarOf(x)
		return symd(x.X, d+1) + "." + f.Name()
	case *ssa.IndexAddr:
		return "&" + strings.TrimPrefix(symd(x.X, d+1), "&") + "[" + symd(x.Index, d+1) + "]"
	case *ssa.Index:
		return symd(x.X, d+1) + "[" + symd(x.Index, d+1) + "]"
	case *ssa.UnOp:
		if x.Op == token.MUL {
			s := symd(x.X, d+1)
			if strings.HasPrefix(s, "&") {
				return s[1:]
			}
			return "*" + s
		}
		return x.Op.String() + "(" + symd(x.X, d+1) + ")"
	case *ssa.BinOp:
		return "(" + symd(x.X, d+1) + " " + x.Op.String() + " " + symd(x.Y, d+1) + ")"
	case *ssa.Convert:
		return symd(x.X, d+1)
	case *ssa.ChangeType:
		return symd(x.X, d+1)
	case *ssa.Call:
		if b, ok := x.Call.Value.(*ssa.Builtin); ok && (b.Name() == "len" || b.Name() == "cap") && len(x.Call.Args) == 1 {
			return b.Name() + "(" + symd(x.Call.Args[0], d+1) + ")"
		}
		if cal := staticCallee(&x.Call); cal != nil && isIdentityFn(cal) && len(x.Call.Args) > 0 {
			return symd(x.Call.Args[0], d+1)
		}
		if cal := origin(staticCallee(&x.Call)); cal != nil && len(symEnv) < 4 {
			if rv, ok := pureGetter(cal); ok && len(x.Call.Args) == len(cal.Params) {
				// a side-effect free accessor: render its result expression over the arguments
				env := map[ssa.Value]string{}
				for i, p := range cal.Params {
					env[p] = symd(x.Call.Args[i], d+1)
				}
				symEnv = append(symEnv, env)
				t := symd(rv, d+1)
				symEnv = symEnv[:len(symEnv)-1]
				return t
			}
		}
		return opaque(x)
	case *ssa.Slice:
		s := symd(x.X, d+1) + "["
		if x.Low != nil {
			s += symd(x.Low, d+1)
		}
		s += ":"
		if x.High != nil {
			s += symd(x.High, d+1)
		}
		if x.Max != nil {
			s += ":" + symd(x.Max, d+1)
		}
		return s + "]"
	case *ssa.Alloc:
		if symPretty {
			return "new(" + x.Comment + ")"
		}
		return "alloc:" + x.Name()
	case *ssa.MakeSlice:
		if symPretty {
			return "make[]"
		}
	case *ssa.MakeMap:
		if symPretty {
			return "makemap"
		}
	}
	return opaque(v)
}

// load returns the address operand if v is a load (*addr).
func loadAddr(v ssa.Value) (ssa.Value, bool) {
	if u, ok := v.(*ssa.UnOp); ok && u.Op == token.MUL {
		return u.X, true
	}
	return nil, false
}

// loadedField: if v is a load of base.f returns (base, f).
func loadedField(v ssa.Value) (ssa.Value, *types.Var) {
	switch x := v.(type) {
	case *ssa.UnOp:
		if x.Op == token.MUL {
			if fa, ok := x.X.(*ssa.FieldAddr); ok {
				return fieldVarOf(fa)
			}
		}
	case *ssa.Field:
		return fieldVarOf(x)
	}
	return nil, nil
}

func constInt(v ssa.Value) (int64, bool) {
	if c, ok := v.(*ssa.Const); ok && c.Value != nil && c.Value.Kind() == constant.Int {
		if i, ok := constant.Int64Val(c.Value); ok {
			return i, true
		}
	}
	return 0, false
}

func isConstInt(v ssa.Value, n int64) bool {
	i, ok := constInt(v)
	return ok && i == n
}

func isNilConst(v ssa.Value) bool {
	c, ok := v.(*ssa.Const)
	return ok && c.Value == nil
}

func isBuiltinCall(v ssa.Value, name string) (*ssa.Call, bool) {
	c, ok := v.(*ssa.Call)
	if !ok {
		return nil, false
	}
	b, ok := c.Call.Value.(*ssa.Builtin)
	if !ok || b.Name() != name {
		return nil, false
	}
	return c, true
}

// ---------------------------------------------------------------- facts

type Fact struct {
	Cond  ssa.Value
	Truth bool
}

// factsAt returns branch conditions known at the start of block b (from
// dominating conditional edges whose target has a single predecessor).
func factsAt(b *ssa.BasicBlock) []Fact {
	var out []Fact
	for cur := b; cur != nil && cur.Idom() != nil; cur = cur.Idom() {
		d := cur.Idom()
		if len(d.Instrs) == 0 {
			continue
		}
		iff, ok := d.Instrs[len(d.Instrs)-1].(*ssa.If)
		if !ok {
			continue
		}
		// the edge d→cur carries a fact for cur if every other predecessor of
		// cur is dominated by cur (a back edge): cur can then only be entered
		// from outside through that edge.
		entered := false
		sole := true
		for _, p := range cur.Preds {
			if p == d {
				entered = true
			} else if !cur.Dominates(p) {
				sole = false
			}
		}
		if !entered || !sole {
			continue
		}
		if d.Succs[0] == d.Succs[1] {
			continue
		}
		if cur == d.Succs[0] {
			out = append(out, expandFact(Fact{iff.Cond, true})...)
		} else if cur == d.Succs[1] {
			out = append(out, expandFact(Fact{iff.Cond, false})...)
		}
	}
	return out
}

// expandFact strips negations, and opens a short-circuit condition that was materialised as a φ of booleans
// (`case a || b:` in a tagless switch, `x := a && b`): when a || b is false both are false, when a && b is true both
// are true.  The first fact returned is always the condition itself.
func expandFact(f Fact) []Fact {
	for {
		u, ok := f.Cond.(*ssa.UnOp)
		if !ok || u.Op != token.NOT {
			break
		}
		f = Fact{u.X, !f.Truth}
	}
	out := []Fact{f}
	ph, ok := f.Cond.(*ssa.Phi)
	if !ok || len(ph.Edges) < 2 {
		return out
	}
	isConst := func(v ssa.Value, want bool) bool {
		k, ok := v.(*ssa.Const)
		return ok && k.Value != nil && k.Value.String() == map[bool]string{true: "true", false: "false"}[want]
	}
	// a || b || …: edges are `true` (short-circuited) or the last operand; known false ⇒ no edge was `true`
	// a && b && …: edges are `false` or the last operand; known true ⇒ no edge was `false`
	short := !f.Truth // the constant that short-circuits: true for ||, false for &&
	var rest []ssa.Value
	shape := true
	for i, e := range ph.Edges {
		if isConst(e, short) {
			// the predecessor's own branch towards the φ was taken on its short-circuit edge: its condition had the
			// short-circuit value; since the φ does not have that value, that edge was not taken
			pred := ph.Block().Preds[i]
			if iff, ok := pred.Instrs[len(pred.Instrs)-1].(*ssa.If); ok {
				// which truth of pred's condition leads to the φ block?
				toPhi := pred.Succs[0] == ph.Block()
				// not taken ⇒ the condition had the other value
				out = append(out, expandFact(Fact{iff.Cond, !toPhi})...)
			}
			continue
		}
		if _, isK := e.(*ssa.Const); isK {
			shape = false
			break
		}
		rest = append(rest, e)
	}
	if shape && len(rest) == 1 {
		out = append(out, expandFact(Fact{rest[0], f.Truth})...)
	} else if !shape {
		return []Fact{f}
	}
	return out
}

// cmpFact normalises a comparison fact into (x op y) that HOLDS.
type Cmp struct {
	X, Y ssa.Value
	Op   token.Token
}

func negOp(op token.Token) token.Token {
	switch op {
	case token.EQL:
		return token.NEQ
	case token.NEQ:
		return token.EQL
	case token.LSS:
		return token.GEQ
	case token.GEQ:
		return token.LSS
	case token.GTR:
		return token.LEQ
	case token.LEQ:
		return token.GTR
	}
	return token.ILLEGAL
}

func flipOp(op token.Token) token.Token {
	switch op {
	case token.LSS:
		return token.GTR
	case token.GTR:
		return token.LSS
	case token.LEQ:
		return token.GEQ
	case token.GEQ:
		return token.LEQ
	}
	return op
}

// cmpsAt returns the comparisons that hold at the start of b.
func cmpsAt(b *ssa.BasicBlock) []Cmp {
	var out []Cmp
	for _, f := range factsAt(b) {
		if bo, ok := f.Cond.(*ssa.BinOp); ok {
			op := bo.Op
			if !f.Truth {
				op = negOp(op)
			}
			if op != token.ILLEGAL {
				out = append(out, Cmp{bo.X, bo.Y, op})
			}
		}
	}
	return out
}

// callFactsAt returns calls whose boolean result is known at b.
func callFactsAt(b *ssa.BasicBlock) map[*ssa.Call]bool {
	out := map[*ssa.Call]bool{}
	for _, f := range factsAt(b) {
		if c, ok := f.Cond.(*ssa.Call); ok {
			out[c] = f.Truth
		}
	}
	return out
}

// extractFacts: facts about tuple extracts (v, ok := f()) known at b.
func extractFactsAt(b *ssa.BasicBlock) map[*ssa.Extract]bool {
	out := map[*ssa.Extract]bool{}
	for _, f := range factsAt(b) {
		if e, ok := f.Cond.(*ssa.Extract); ok {
			out[e] = f.Truth
		}
	}
	return out
}

// ---------------------------------------------------------------- paths

type inode struct {
	b *ssa.BasicBlock
	i int
}

func nodeOf(in ssa.Instruction) inode {
	b := in.Block()
	for i, x := range b.Instrs {
		if x == in {
			return inode{b, i}
		}
	}
	panic("instruction not in its block")
}

func (n inode) instr() ssa.Instruction { return n.b.Instrs[n.i] }

func (n inode) succs() []inode {
	if n.i+1 < len(n.b.Instrs) {
		return []inode{{n.b, n.i + 1}}
	}
	var out []inode
	for _, s := range n.b.Succs {
		if len(s.Instrs) > 0 {
			out = append(out, inode{s, 0})
		}
	}
	return out
}

func (n inode) preds() []inode {
	if n.i > 0 {
		return []inode{{n.b, n.i - 1}}
	}
	var out []inode
	for _, p := range n.b.Preds {
		if len(p.Instrs) > 0 {
			out = append(out, inode{p, len(p.Instrs) - 1})
		}
	}
	return out
}

// instrsBetween returns every instruction lying on some path from a
// (exclusive) to b (exclusive) that does not pass through a again.
func instrsBetween(a, b ssa.Instruction) []ssa.Instruction {
	na, nb := nodeOf(a), nodeOf(b)
	fwd := map[inode]bool{}
	var stack []inode
	for _, s := range na.succs() {
		stack = append(stack, s)
	}
	for len(stack) > 0 {
		n := stack[len(stack)-1]
		stack = stack[:len(stack)-1]
		if fwd[n] || n == na {
			continue
		}
		fwd[n] = true
		stack = append(stack, n.succs()...)
	}
	bwd := map[inode]bool{}
	stack = append(stack[:0], nb.preds()...)
	for len(stack) > 0 {
		n := stack[len(stack)-1]
		stack = stack[:len(stack)-1]
		if bwd[n] || n == na {
			continue
		}
		bwd[n] = true
		stack = append(stack, n.preds()...)
	}
	var out []ssa.Instruction
	for n := range fwd {
		if bwd[n] && n != nb {
			out = append(out, n.instr())
		}
	}
	return out
}

// reachableFrom: DFS from the instruction after `from`; stop(in) halts the
// path at in (in itself is visited).  Returns visited instructions in order
// of discovery, and for each its DFS parent for witness reconstruction.
type walk struct {
	order  []ssa.Instruction
	parent map[ssa.Instruction]ssa.Instruction
}

func walkFrom(from ssa.Instruction, inclusive bool, stop func(ssa.Instruction) bool) *walk {
	return walkFromE(from, inclusive, stop, nil)
}

// edgeFact describes the comparison that holds on a conditional edge.
func edgeCmp(iff *ssa.If, succ int) (Cmp, bool) {
	f := expandFact(Fact{iff.Cond, succ == 0})[0]
	bo, ok := f.Cond.(*ssa.BinOp)
	if !ok {
		return Cmp{}, false
	}
	op := bo.Op
	if !f.Truth {
		op = negOp(op)
	}
	if op == token.ILLEGAL {
		return Cmp{}, false
	}
	return Cmp{bo.X, bo.Y, op}, true
}

// walkFromE is walkFrom with an edge filter: edgeStop(if, succIndex) == true
// means the walk does not follow that conditional edge.
func walkFromE(from ssa.Instruction, inclusive bool, stop func(ssa.Instruction) bool, edgeStop func(*ssa.If, int) bool) *walk {
	w := &walk{parent: map[ssa.Instruction]ssa.Instruction{}}
	seen := map[inode]bool{}
	type item struct {
		n inode
		p ssa.Instruction
	}
	var stack []item
	n0 := nodeOf(from)
	if inclusive {
		stack = append(stack, item{n0, nil})
	} else {
		for _, s := range n0.succs() {
			stack = append(stack, item{s, from})
		}
	}
	for len(stack) > 0 {
		it := stack[len(stack)-1]
		stack = stack[:len(stack)-1]
		if seen[it.n] {
			continue
		}
		seen[it.n] = true
		in := it.n.instr()
		w.order = append(w.order, in)
		w.parent[in] = it.p
		if stop != nil && stop(in) {
			continue
		}
		if iff, ok := in.(*ssa.If); ok && edgeStop != nil {
			for i, sb := range iff.Block().Succs {
				if edgeStop(iff, i) || len(sb.Instrs) == 0 {
					continue
				}
				stack = append(stack, item{inode{sb, 0}, in})
			}
			continue
		}
		for _, s := range it.n.succs() {
			stack = append(stack, item{s, in})
		}
	}
	return w
}

// mustPassToExitE: like mustPassToExit, but paths through conditional edges
// satisfying edgeStop are exempt.
func mustPassToExitE(P *Prog, from ssa.Instruction, event func(ssa.Instruction) bool, edgeStop func(*ssa.If, int) bool) (bool, string) {
	w := walkFromE(from, false, event, edgeStop)
	for _, in := range w.order {
		if isReturn(in) && !event(in) {
			return false, w.witness(P, in)
		}
	}
	return true, ""
}

func (w *walk) witness(P *Prog, to ssa.Instruction) string {
	var lines []string
	last := ""
	visited := map[ssa.Instruction]bool{}
	for in := to; in != nil && !visited[in]; in = w.parent[in] {
		visited[in] = true
		p := instrPos(in)
		if !p.IsValid() {
			continue
		}
		l := fmt.Sprint(P.Fset.Position(p).Line)
		if l != last {
			lines = append(lines, l)
			last = l
		}
	}
	// reverse
	for i, j := 0, len(lines)-1; i < j; i, j = i+1, j-1 {
		lines[i], lines[j] = lines[j], lines[i]
	}
	if len(lines) > 14 {
		lines = append(lines[:7], append([]string{"…"}, lines[len(lines)-6:]...)...)
	}
	return "lines " + strings.Join(lines, "→")
}

// isExit: a normal (non-panicking) function exit.
func isReturn(in ssa.Instruction) bool {
	_, ok := in.(*ssa.Return)
	return ok
}

// mustPassToExit: every path from `from` (exclusive) to a normal return passes
// an instruction satisfying event.  Returns ok and a witness otherwise.
func mustPassToExit(P *Prog, from ssa.Instruction, event func(ssa.Instruction) bool) (bool, string) {
	w := walkFrom(from, false, event)
	for _, in := range w.order {
		if isReturn(in) && !event(in) {
			return false, w.witness(P, in)
		}
	}
	return true, ""
}

// firstInstr returns the first instruction of fn.
func firstInstr(fn *ssa.Function) ssa.Instruction {
	return fn.Blocks[0].Instrs[0]
}

// reachesWithout: is target reachable from `from` (inclusive if incl) along a
// path that avoids instructions satisfying block()?
func reachesWithout(P *Prog, from ssa.Instruction, incl bool, target func(ssa.Instruction) bool, block func(ssa.Instruction) bool) (bool, string) {
	w := walkFrom(from, incl, func(in ssa.Instruction) bool { return block(in) })
	for _, in := range w.order {
		if target(in) && !block(in) {
			return true, w.witness(P, in)
		}
	}
	return false, ""
}

// dominatesInstr: a executes before b on every path to b.
func dominatesInstr(a, b ssa.Instruction) bool {
	if a.Block() == b.Block() {
		return nodeOf(a).i < nodeOf(b).i
	}
	return a.Block().Dominates(b.Block())
}

// ---------------------------------------------------------------- effects

// Effects of a function: fields possibly stored, and whether it may do
// something unknown (dynamic call to non-assumed-pure value).
type Effects struct {
	Fields      map[*types.Var]bool // origin field objects stored (via FieldAddr store)
	ElemStore   bool                // stores through IndexAddr
	MapUpdate   bool
	Unknown     bool // calls something we cannot see (other than callbacks assumed pure)
	GlobalStore bool
}

type effTable struct {
	P    *Prog
	memo map[*ssa.Function]*Effects
	busy map[*ssa.Function]bool
}

func newEff(P *Prog) *effTable {
	return &effTable{P: P, memo: map[*ssa.Function]*Effects{}, busy: map[*ssa.Function]bool{}}
}

// pureStd: standard library / builtin callees with no effect on repo state.
func pureStdPkg(path string) bool {
	switch path {
	case "cmp", "strings", "strconv", "fmt", "math", "math/bits", "errors", "unicode/utf8", "slices", "maps", "time", "iter":
		return true
	}
	return false
}

func (t *effTable) of(fn *ssa.Function) *Effects {
	fn = origin(fn)
	if e, ok := t.memo[fn]; ok {
		return e
	}
	e := &Effects{Fields: map[*types.Var]bool{}}
	if t.busy[fn] {
		return e // recursion: fixpoint approximated by the outer activation
	}
	if fn.Blocks == nil {
		// external: stdlib
		if fn.Pkg != nil && pureStdPkg(fn.Pkg.Pkg.Path()) {
			t.memo[fn] = e
			return e
		}
		e.Unknown = true
		t.memo[fn] = e
		return e
	}
	t.busy[fn] = true
	for _, b := range fn.Blocks {
		for _, in := range b.Instrs {
			switch x := in.(type) {
			case *ssa.Store:
				t.addStore(e, x.Addr)
			case *ssa.MapUpdate:
				e.MapUpdate = true
			case ssa.CallInstruction:
				c := x.Common()
				if c.IsInvoke() {
					// interface call: resolved by CHA restricted to repo
					for _, callee := range t.P.invokeTargets(c) {
						t.merge(e, t.of(callee))
					}
					continue
				}
				switch v := c.Value.(type) {
				case *ssa.Builtin:
					switch v.Name() {
					case "delete", "clear":
						e.MapUpdate = true
					case "copy":
						e.ElemStore = true
					case "append":
						// may write spare capacity of arg 0
						e.ElemStore = true
					}
				case *ssa.Function:
					t.merge(e, t.of(v))
				case *ssa.MakeClosure:
					t.merge(e, t.of(v.Fn.(*ssa.Function)))
				default:
					// call of a function value: parameter / field callback.
					// Assumption (recorded by callers): callbacks do not
					// mutate the container they are invoked from.
				}
			}
		}
	}
	delete(t.busy, fn)
	t.memo[fn] = e
	return e
}

func (t *effTable) addStore(e *Effects, addr ssa.Value) {
	switch a := addr.(type) {
	case *ssa.FieldAddr:
		_, f := fieldVarOf(a)
		if f != nil {
			e.Fields[f.Origin()] = true
		}
		// a store to x.f where x is itself an embedded struct field address:
		// also counts as a store into the outer field
		if fa, ok := a.X.(*ssa.FieldAddr); ok {
			t.addStore(e, fa)
		}
	case *ssa.IndexAddr:
		e.ElemStore = true
	case *ssa.Global:
		e.GlobalStore = true
	case *ssa.Alloc:
		// local
	default:
		// store through a pointer value (e.g. *s = ... for pointer receiver of map type)
		e.Unknown = e.Unknown || false
	}
}

func (t *effTable) merge(dst, src *Effects) {
	for f := range src.Fields {
		dst.Fields[f] = true
	}
	dst.ElemStore = dst.ElemStore || src.ElemStore
	dst.MapUpdate = dst.MapUpdate || src.MapUpdate
	dst.Unknown = dst.Unknown || src.Unknown
	dst.GlobalStore = dst.GlobalStore || src.GlobalStore
}

// invokeTargets: CHA restricted to repository types.
func (P *Prog) invokeTargets(c *ssa.CallCommon) []*ssa.Function {
	if !c.IsInvoke() {
		return nil
	}
	iface, ok := c.Value.Type().Underlying().(*types.Interface)
	if !ok {
		return nil
	}
	var out []*ssa.Function
	seen := map[*ssa.Function]bool{}
	for _, pk := range P.Pkgs {
		sc := pk.Types.Scope()
		for _, n := range sc.Names() {
			tn, ok := sc.Lookup(n).(*types.TypeName)
			if !ok {
				continue
			}
			named, ok := tn.Type().(*types.Named)
			if !ok || types.IsInterface(named) {
				continue
			}
			// For generic types we compare method names only (the interface is
			// generic too); restricted to the repo this is exact enough.
			for _, T := range []types.Type{named, types.NewPointer(named)} {
				ms := types.NewMethodSet(T)
				sel := ms.Lookup(c.Method.Pkg(), c.Method.Name())
				if sel == nil {
					continue
				}
				if !implementsByName(ms, iface) {
					continue
				}
				if f := P.SSA.FuncValue(sel.Obj().(*types.Func)); f != nil {
					f = origin(f)
					if !seen[f] {
						seen[f] = true
						out = append(out, f)
					}
				}
			}
		}
	}
	return out
}

func implementsByName(ms *types.MethodSet, iface *types.Interface) bool {
	for i := 0; i < iface.NumMethods(); i++ {
		m := iface.Method(i)
		if ms.Lookup(m.Pkg(), m.Name()) == nil {
			return false
		}
	}
	return iface.NumMethods() > 0
}

// killsField reports whether instruction in may store to field f (any base).
func (t *effTable) killsField(in ssa.Instruction, f *types.Var) bool {
	switch x := in.(type) {
	case *ssa.Store:
		if fa, ok := x.Addr.(*ssa.FieldAddr); ok {
			_, g := fieldVarOf(fa)
			return sameField(f, g)
		}
		// store through arbitrary pointer: could alias a field only if address taken; ignore IndexAddr/Alloc
		switch x.Addr.(type) {
		case *ssa.IndexAddr, *ssa.Alloc, *ssa.Global:
			return false
		}
		// pointer deref store (*p = v) — p may point to a struct containing f
		return types.Identical(x.Val.Type(), f.Type()) || structContains(x.Val.Type(), f)
	case ssa.CallInstruction:
		c := x.Common()
		var callees []*ssa.Function
		if c.IsInvoke() {
			callees = t.P.invokeTargets(c)
		} else {
			switch v := c.Value.(type) {
			case *ssa.Function:
				callees = []*ssa.Function{v}
			case *ssa.MakeClosure:
				callees = []*ssa.Function{v.Fn.(*ssa.Function)}
			case *ssa.Builtin:
				return false
			default:
				return false // callback: assumed not to mutate the container
			}
		}
		for _, cal := range callees {
			e := t.of(cal)
			if e.Fields[f.Origin()] {
				return true
			}
		}
	}
	return false
}

func structContains(t types.Type, f *types.Var) bool {
	st, ok := t.Underlying().(*types.Struct)
	if !ok {
		return false
	}
	for i := 0; i < st.NumFields(); i++ {
		if sameField(st.Field(i), f) {
			return true
		}
	}
	return false
}

// noFieldKillBetween: no instruction between a and b may store field f.
func (t *effTable) noFieldKillBetween(a, b ssa.Instruction, f *types.Var) bool {
	for _, in := range instrsBetween(a, b) {
		if t.killsField(in, f) {
			return false
		}
	}
	return true
}

// ---------------------------------------------------------------- misc

// allInstrs iterates over all instructions of fn.
func allInstrs(fn *ssa.Function, f func(ssa.Instruction)) {
	for _, b := range fn.Blocks {
		for _, in := range b.Instrs {
			f(in)
		}
	}
}

// withClosures returns fn and all (transitively) nested anonymous functions.
func withClosures(fn *ssa.Function) []*ssa.Function {
	out := []*ssa.Function{fn}
	for _, a := range fn.AnonFuncs {
		out = append(out, withClosures(a)...)
	}
	return out
}

// isPanicBlockEnd: block ends in panic.
func endsInPanic(b *ssa.BasicBlock) bool {
	if len(b.Instrs) == 0 {
		return false
	}
	_, ok := b.Instrs[len(b.Instrs)-1].(*ssa.Panic)
	return ok
}

// referrersOf returns referrers safely.
func referrersOf(v ssa.Value) []ssa.Instruction {
	r := v.Referrers()
	if r == nil {
		return nil
	}
	return *r
}

// callArgsNoRecv returns the arguments of a call excluding a method receiver.
func callArgsNoRecv(c *ssa.CallCommon) []ssa.Value {
	if c.IsInvoke() {
		return c.Args
	}
	if f := c.StaticCallee(); f != nil && f.Signature.Recv() != nil && len(c.Args) > 0 {
		return c.Args[1:]
	}
	return c.Args
}

func recvArg(c *ssa.CallCommon) ssa.Value {
	if c.IsInvoke() {
		return c.Value
	}
	if f := c.StaticCallee(); f != nil && f.Signature.Recv() != nil && len(c.Args) > 0 {
		return c.Args[0]
	}
	return nil
}

func sortStrings(s []string) { sort.Strings(s) }

// identityFns: repository functions known to return their first argument on
// every path (e.g. mlink's checkValid); sym looks through calls to them.
var identityFns = map[*ssa.Function]bool{}

// returnsParam0: every return of fn returns its first parameter.
func returnsParam0(fn *ssa.Function) bool {
	if fn == nil || fn.Blocks == nil || len(fn.Params) == 0 {
		return false
	}
	n := 0
	ok := true
	allInstrs(fn, func(in ssa.Instruction) {
		if r, isRet := in.(*ssa.Return); isRet {
			n++
			if len(r.Results) != 1 || r.Results[0] != fn.Params[0] {
				ok = false
			}
		}
	})
	return ok && n > 0
}

// returnsFresh: every non-nil return of fn (result index idx) is an allocation
// made in fn, or the result of a call to another returnsFresh function.
func returnsFresh(fn *ssa.Function, depth int) bool {
	fn = origin(fn)
	if fn == nil || fn.Blocks == nil || depth > 4 {
		return false
	}
	n := 0
	ok := true
	allInstrs(fn, func(in ssa.Instruction) {
		r, isRet := in.(*ssa.Return)
		if !isRet || len(r.Results) == 0 {
			return
		}
		n++
		switch x := r.Results[0].(type) {
		case *ssa.Alloc:
			if !x.Heap {
				ok = false
			}
		case *ssa.Const:
			if x.Value != nil {
				ok = false
			}
		case *ssa.Call:
			cal := staticCallee(&x.Call)
			if cal == nil || cal == fn || !returnsFresh(cal, depth+1) {
				ok = false
			}
		default:
			ok = false
		}
	})
	return ok && n > 0
}

// symEnv: parameter substitutions in force while sym renders the body of an
// inlined accessor.
var symEnv []map[ssa.Value]string

var pureGetterMemo = map[*ssa.Function]struct {
	rv ssa.Value
	ok bool
}{}

// pureGetter: fn is a single-block function made only of field addresses,
// loads, and calls to identity functions / other accessors, returning one
// value.  Panicking validators (identity functions) are allowed: sym abstracts
// from them anyway.
func pureGetter(fn *ssa.Function) (ssa.Value, bool) {
	if m, ok := pureGetterMemo[fn]; ok {
		return m.rv, m.ok
	}
	pureGetterMemo[fn] = struct {
		rv ssa.Value
		ok bool
	}{nil, false}
	if fn == nil || len(fn.Blocks) != 1 {
		return nil, false
	}
	var rv ssa.Value
	good := true
	for _, in := range fn.Blocks[0].Instrs {
		switch x := in.(type) {
		case *ssa.FieldAddr, *ssa.Field, *ssa.DebugRef:
		case *ssa.UnOp:
			if x.Op != token.MUL {
				good = false
			}
		case *ssa.Call:
			cal := origin(staticCallee(&x.Call))
			if cal == nil {
				good = false
				break
			}
			if isIdentityFn(cal) || isIdentityFn(staticCallee(&x.Call)) {
				break
			}
			if _, ok := pureGetter(cal); !ok {
				good = false
			}
		case *ssa.Return:
			if len(x.Results) != 1 {
				good = false
			} else {
				rv = x.Results[0]
			}
		default:
			good = false
		}
	}
	if !good || rv == nil {
		return nil, false
	}
	if _, isConst := rv.(*ssa.Const); isConst {
		return nil, false
	}
	pureGetterMemo[fn] = struct {
		rv ssa.Value
		ok bool
	}{rv, true}
	return rv, true
}

var identityMemo = map[*ssa.Function]bool{}

// isIdentityFn: registered in identityFns, or a repository function every
// return of which returns its first parameter.
func isIdentityFn(fn *ssa.Function) bool {
	if fn == nil {
		return false
	}
	if identityFns[fn] {
		return true
	}
	if v, ok := identityMemo[fn]; ok {
		return v
	}
	v := fn.Blocks != nil && returnsParam0(fn)
	identityMemo[fn] = v
	return v
}

// ---------------------------------------------------------------- call scopes

// callScope: a function together with the same-package functions it (transitively)
// calls statically and its closures; used by rules that must keep working when
// a part of the function is extracted into a helper.
type callScope struct {
	fns   []*ssa.Function
	sites map[*ssa.Function][]scopeSite
}

type scopeSite struct {
	caller *ssa.Function
	call   *ssa.Call
}

func buildCallScope(root *ssa.Function) *callScope {
	sc := &callScope{sites: map[*ssa.Function][]scopeSite{}}
	if root == nil {
		return sc
	}
	seen := map[*ssa.Function]bool{}
	pkg := origin(root).Pkg
	var add func(fn *ssa.Function)
	add = func(fn *ssa.Function) {
		if fn == nil || fn.Blocks == nil || seen[fn] || len(sc.fns) > 64 {
			return
		}
		seen[fn] = true
		sc.fns = append(sc.fns, fn)
		for _, a := range fn.AnonFuncs {
			add(a)
		}
		allInstrs(fn, func(in ssa.Instruction) {
			// a method value (c.clearLocked) handed on as a function: the method is part of the scope
			if mc, ok := in.(*ssa.MakeClosure); ok {
				if w, ok := mc.Fn.(*ssa.Function); ok && w.Parent() == nil && strings.HasSuffix(w.Name(), "$bound") {
					allInstrs(w, func(in2 ssa.Instruction) {
						if ci, ok := in2.(ssa.CallInstruction); ok {
							if t := origin(staticCallee(ci.Common())); t != nil && t.Blocks != nil && t.Pkg == pkg {
								add(t)
							}
						}
					})
				}
				return
			}
			call, ok := in.(*ssa.Call)
			if !ok {
				return
			}
			cal := origin(staticCallee(&call.Call))
			if cal == nil || cal.Blocks == nil || cal.Pkg == nil || cal.Pkg != pkg {
				return
			}
			sc.sites[cal] = append(sc.sites[cal], scopeSite{fn, call})
			add(cal)
		})
	}
	add(root)
	return sc
}

// paramArgs: the argument values passed for parameter p at the call sites inside the scope.
func (sc *callScope) paramArgs(p *ssa.Parameter) []ssa.Value {
	fn := p.Parent()
	idx := -1
	for i, q := range fn.Params {
		if q == p {
			idx = i
		}
	}
	var out []ssa.Value
	for _, s := range sc.sites[origin(fn)] {
		if idx >= 0 && idx < len(s.call.Call.Args) {
			out = append(out, s.call.Call.Args[idx])
		}
	}
	return out
}

// sitesOf: the call sites of fn inside the scope.
func (sc *callScope) sitesOf(fn *ssa.Function) []scopeSite { return sc.sites[origin(fn)] }
