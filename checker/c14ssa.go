package main

import (
	"go/constant"
	"go/token"
	"go/types"

	"golang.org/x/tools/go/ssa"
)

// SSA fallbacks for R-PREFIX-TABLES: the typed-AST readers of the unified writer's and reader's tables know the
// switch spellings; these read the same tables off the control-flow graph, so that an if/else chain, a disjunction
// (`e.Op == OpDrop || e.Op == OpReplace`), early `continue`s, or a filing routine under another name give the same
// table.  They only fill entries the AST readers left empty.

// isEditOpLoad: v is the .Op of an edit (a field of the ranged-over struct value, or a load of its address).
func isEditOpLoad(v ssa.Value) bool {
	switch x := v.(type) {
	case *ssa.Field:
		st, ok := x.X.Type().Underlying().(*types.Struct)
		return ok && st.Field(x.Field).Name() == "Op" && isEditOpType(st.Field(x.Field).Type())
	case *ssa.UnOp:
		if x.Op != token.MUL {
			return false
		}
		if fa, ok := x.X.(*ssa.FieldAddr); ok {
			_, f := fieldVarOf(fa)
			return f != nil && f.Name() == "Op" && isEditOpType(f.Type())
		}
	}
	return false
}

func isEditOpType(t types.Type) bool {
	nt, ok := t.(*types.Named)
	return ok && nt.Obj().Name() == "EditOp"
}

type ssaWriteLine struct {
	pfx, field string
}

// unifiedWriterTableSSA: for each opcode, the (prefix, field) pairs of the line-writing calls the body of the
// edit loop reaches when e.Op has that value — by walking the body with every test of e.Op decided.
func unifiedWriterTableSSA(P *Prog, ops []int64) map[int64][]ssaWriteLine {
	fn := P.Func("mdiff", "", "Unified")
	if fn == nil {
		return nil
	}
	// the body: the block of the first test of an edit's opcode
	var start *ssa.BasicBlock
	for _, b := range fn.Blocks {
		for _, in := range b.Instrs {
			if bo, ok := in.(*ssa.BinOp); ok && (bo.Op == token.EQL || bo.Op == token.NEQ) && isEditOpLoad(bo.X) && start == nil {
				start = b
			}
		}
	}
	if start == nil {
		return nil
	}
	lineCall := func(in ssa.Instruction) (ssaWriteLine, bool) {
		call, ok := in.(*ssa.Call)
		if !ok {
			return ssaWriteLine{}, false
		}
		cal := staticCallee(&call.Call)
		if cal == nil || cal.Pkg == nil || cal.Pkg != origin(fn).Pkg {
			return ssaWriteLine{}, false
		}
		var w ssaWriteLine
		for _, a := range call.Call.Args {
			if k, ok := a.(*ssa.Const); ok && k.Value != nil && k.Value.Kind() == constant.String {
				w.pfx = constant.StringVal(k.Value)
			}
			switch x := a.(type) {
			case *ssa.Field:
				if st, ok := x.X.Type().Underlying().(*types.Struct); ok {
					if n := st.Field(x.Field).Name(); n == "X" || n == "Y" {
						w.field = n
					}
				}
			case *ssa.UnOp:
				if _, f := loadedField(x); f != nil && (f.Name() == "X" || f.Name() == "Y") {
					w.field = f.Name()
				}
			}
		}
		return w, w.pfx != "" && w.field != ""
	}
	out := map[int64][]ssaWriteLine{}
	for _, op := range ops {
		b := start
		seen := map[*ssa.BasicBlock]bool{}
		var got []ssaWriteLine
		ok := true
		for steps := 0; steps < 64 && b != nil && !seen[b]; steps++ {
			if b != start && b.Dominates(start) {
				break // back at the loop header
			}
			seen[b] = true
			for _, in := range b.Instrs {
				if w, isW := lineCall(in); isW {
					got = append(got, w)
				}
			}
			switch t := b.Instrs[len(b.Instrs)-1].(type) {
			case *ssa.If:
				bo, isB := t.Cond.(*ssa.BinOp)
				if !isB || (bo.Op != token.EQL && bo.Op != token.NEQ) || !isEditOpLoad(bo.X) {
					ok = false
					b = nil
					break
				}
				k, isK := constInt(bo.Y)
				if !isK {
					ok = false
					b = nil
					break
				}
				truth := (k == op) == (bo.Op == token.EQL)
				if truth {
					b = b.Succs[0]
				} else {
					b = b.Succs[1]
				}
			case *ssa.Jump:
				b = b.Succs[0]
				if b.Dominates(start) && b != start {
					b = nil // back at the loop header
				}
			default:
				b = nil
			}
		}
		if ok {
			out[op] = got
		}
	}
	return out
}

type ssaReadLine struct {
	op, off int64
}

// unifiedReaderTableSSA: marker byte → (opcode, payload offset), read off the tests of line[0] in the chunk reader:
// on the edge where line[0] == K, the first call that is handed an EditOp constant and a tail slice line[k:].
func unifiedReaderTableSSA(P *Prog) map[byte]ssaReadLine {
	root := P.Func("mdiff", "", "readUnifiedChunk")
	if root == nil {
		return nil
	}
	out := map[byte]ssaReadLine{}
	isFirstByte := func(v ssa.Value) bool {
		for i := 0; i < 3; i++ {
			switch x := v.(type) {
			case *ssa.Index:
				if b, ok := x.X.Type().Underlying().(*types.Basic); ok && b.Info()&types.IsString != 0 {
					return isConstInt(x.Index, 0)
				}
				return false
			case *ssa.Convert:
				v = x.X
				continue
			case *ssa.Lookup:
				if b, ok := x.X.Type().Underlying().(*types.Basic); ok && b.Info()&types.IsString != 0 {
					return isConstInt(x.Index, 0)
				}
				return false
			}
			break
		}
		return false
	}
	for _, fn := range buildCallScope(root).fns {
		allInstrs(fn, func(in ssa.Instruction) {
			iff, ok := in.(*ssa.If)
			if !ok {
				return
			}
			for e := 0; e < 2; e++ {
				cm, ok := edgeCmp(iff, e)
				if !ok || cm.Op != token.EQL || !isFirstByte(cm.X) {
					continue
				}
				k, isK := constInt(cm.Y)
				if !isK || k < 0 || k > 255 {
					continue
				}
				// the arm: blocks from the edge's target along unconditional jumps
				b := iff.Block().Succs[e]
				for steps := 0; steps < 4 && b != nil; steps++ {
					found := false
					for _, in2 := range b.Instrs {
						call, ok := in2.(*ssa.Call)
						if !ok {
							continue
						}
						var r ssaReadLine
						haveOp, haveOff := false, false
						for _, a := range call.Call.Args {
							if kc, ok := a.(*ssa.Const); ok && isEditOpType(kc.Type()) {
								if v, ok := constInt(kc); ok {
									r.op, haveOp = v, true
								}
							}
							if sl, ok := a.(*ssa.Slice); ok && sl.High == nil && sl.Low != nil {
								if v, ok := constInt(sl.Low); ok {
									r.off, haveOff = v, true
								}
							}
						}
						if haveOp && haveOff {
							if _, dup := out[byte(k)]; !dup {
								out[byte(k)] = r
							}
							found = true
							break
						}
					}
					if found {
						break
					}
					if j, ok := b.Instrs[len(b.Instrs)-1].(*ssa.Jump); ok {
						b = j.Block().Succs[0]
					} else {
						b = nil
					}
				}
			}
		})
	}
	return out
}
