package main

import (
	"fmt"
	"go/token"
	"go/types"

	"golang.org/x/tools/go/ssa"
)

// ruleUnifyConsumes: three clauses about how UnifyChunks (and whatever helpers of package mdiff it is split into)
// takes overlapping context away, found by the mutation sweeps (DESIGN §8.7):
//
//	R-DROP-ONE          a chunk's edit list stored back as a re-slice of itself loses exactly one edit ([1:] or
//	                    [:len-1]) — `[2:]` drops a real edit with the context edit;
//	R-OVERLAP-CONSUMED  where a chunk's range is moved by the overlap (X.LStart += lap, X.LEnd -= lap), every path of
//	                    that iteration also takes the overlap out of the edits: a span cut by that amount, or an
//	                    edit dropped — otherwise the range no longer describes the edits;
//	R-STALE-READ (c)    a pointer to the first / last edit taken before that edit is dropped is not consulted for its
//	                    opcode or written through afterwards (it may be read for the length of what was dropped).
func ruleUnifyConsumes(c *Ctx) {
	P := c.P
	c.rule("R-DROP-ONE", 0, "an edit list re-sliced onto itself loses exactly one edit")
	c.rule("R-OVERLAP-CONSUMED", 0, "a range moved by the overlap is matched on every path by a span cut by it or an edit dropped")
	chunkT := P.Named("mdiff", "Chunk")
	editT := P.Named("slice", "Edit")
	if chunkT == nil || editT == nil {
		return
	}
	var listF *types.Var
	for _, f := range structFields(chunkT) {
		if _, ok := f.Type().Underlying().(*types.Slice); ok {
			listF = f
		}
	}
	if listF == nil {
		return
	}
	isSpanF := func(f *types.Var) bool {
		if f == nil {
			return false
		}
		if _, ok := f.Type().Underlying().(*types.Slice); !ok {
			return false
		}
		for _, g := range structFields(editT) {
			if sameField(f, g) {
				return true
			}
		}
		return false
	}
	isRangeF := func(f *types.Var) bool {
		if f == nil {
			return false
		}
		b, ok := f.Type().Underlying().(*types.Basic)
		if !ok || b.Info()&types.IsInteger == 0 {
			return false
		}
		for _, g := range structFields(chunkT) {
			if sameField(f, g) {
				return true
			}
		}
		return false
	}
	var mentions func(v, w ssa.Value, d int) bool
	mentions = func(v, w ssa.Value, d int) bool {
		if v == nil || d > 4 {
			return false
		}
		if v == w {
			return true
		}
		if bo, ok := v.(*ssa.BinOp); ok {
			return mentions(bo.X, w, d+1) || mentions(bo.Y, w, d+1)
		}
		return false
	}
	for _, fn := range P.PkgFuncs("mdiff") {
		fn := fn
		name := fnName(fn)
		nOne, nCons := 0, 0
		// stores to a chunk's edit list
		listStore := func(in ssa.Instruction) (*ssa.Store, bool) {
			st, ok := in.(*ssa.Store)
			if !ok {
				return nil, false
			}
			fa, ok := st.Addr.(*ssa.FieldAddr)
			if !ok {
				return nil, false
			}
			if _, f := fieldVarOf(fa); !sameField(f, listF) {
				return nil, false
			}
			return st, true
		}
		allInstrs(fn, func(in ssa.Instruction) {
			st, ok := listStore(in)
			if !ok {
				return
			}
			sl, ok := st.Val.(*ssa.Slice)
			if !ok {
				return
			}
			a, ok := loadAddr(sl.X)
			if !ok || sym(a) != sym(st.Addr) {
				return
			}
			how := ""
			switch {
			case sl.Low != nil && sl.High != nil:
				return // a window: not this rule's form
			case sl.Low != nil:
				if k, ok := constInt(sl.Low); ok && k > 1 {
					how = fmt.Sprintf("[%d:]", k)
				} else if !ok {
					return
				}
			case sl.High != nil:
				bo, ok := sl.High.(*ssa.BinOp)
				if !ok || bo.Op != token.SUB {
					return
				}
				ln, isLen := isBuiltinCall(bo.X, "len")
				k, isK := constInt(bo.Y)
				if !isLen || !isK {
					return
				}
				if a2, ok := loadAddr(ln.Call.Args[0]); !ok || sym(a2) != sym(st.Addr) {
					return
				}
				if k > 1 {
					how = fmt.Sprintf("[:len-%d]", k)
				}
			default:
				return
			}
			nOne++
			c.sawFn(name)
			c.judge(how == "", "R-DROP-ONE", fmt.Sprintf("%s:list re-sliced #%d", name, nOne), st.Pos(), "one edit", fmt.Sprintf("the edit list is cut %s: more than the one boundary edit leaves the chunk — an edit of the script goes with the context", how))
		})
		// ---- R-OVERLAP-CONSUMED
		allInstrs(fn, func(in ssa.Instruction) {
			st, ok := in.(*ssa.Store)
			if !ok {
				return
			}
			fa, ok := st.Addr.(*ssa.FieldAddr)
			if !ok {
				return
			}
			if _, f := fieldVarOf(fa); !isRangeF(f) {
				return
			}
			bo, ok := st.Val.(*ssa.BinOp)
			if !ok || (bo.Op != token.ADD && bo.Op != token.SUB) {
				return
			}
			a, ok := loadAddr(bo.X)
			if !ok || sym(a) != sym(fa) {
				return
			}
			v := bo.Y
			def, isInstr := v.(ssa.Instruction)
			if !isInstr {
				return // a constant or a parameter
			}
			if _, isLen := isBuiltinCall(v, "len"); isLen {
				return // moved by the length of a span (the join), not by the overlap
			}
			if _, isPhi := v.(*ssa.Phi); isPhi {
				return
			}
			if def.Parent() != fn {
				return
			}
			consumes := func(x ssa.Instruction) bool {
				switch y := x.(type) {
				case *ssa.Store:
					if _, ok := listStore(y); ok {
						if _, grows := isBuiltinCall(y.Val, "append"); !grows {
							return true
						}
					}
					if fa2, ok := y.Addr.(*ssa.FieldAddr); ok {
						if _, f := fieldVarOf(fa2); isSpanF(f) {
							if sl, ok := y.Val.(*ssa.Slice); ok && (mentions(sl.Low, v, 0) || mentions(sl.High, v, 0)) {
								return true
							}
						}
					}
				case *ssa.Call:
					if cal := y.Call.StaticCallee(); cal != nil && cal.Pkg != nil && cal.Pkg == fn.Pkg {
						for _, a := range y.Call.Args {
							if a == v {
								return true
							}
						}
					}
				}
				return false
			}
			nCons++
			c.sawFn(name)
			key := fmt.Sprintf("%s:%s moved by the overlap #%d", name, ksym(fa), nCons)
			// a path def → this store and a path this store → (def again | return), both free of a consumption
			before, _ := reachesWithout(P, def, false, func(x ssa.Instruction) bool { return x == ssa.Instruction(st) }, consumes)
			after, _ := reachesWithout(P, st, false, func(x ssa.Instruction) bool {
				_, isRet := x.(*ssa.Return)
				return isRet || x == def
			}, consumes)
			c.judge(!(before && after), "R-OVERLAP-CONSUMED", key, st.Pos(), "every path through it cuts a span by that amount or drops an edit", fmt.Sprintf("there is a path on which %s is moved by %s while no span is cut by it and no edit leaves the list: the range and the edits of the chunk disagree by that many lines", ksym(fa), ksym(v)))
		})
	}
}

// staleAcrossBlocks: R-STALE-READ (c), see ruleUnifyConsumes.
func staleAcrossBlocks(c *Ctx, fn *ssa.Function, n *int) {
	type ptr struct {
		call *ssa.Call
		list string
		k    int64
	}
	var ptrs []ptr
	allInstrs(fn, func(in ssa.Instruction) {
		x, ok := in.(*ssa.Call)
		if !ok {
			return
		}
		if cal := x.Call.StaticCallee(); cal != nil && origin(cal).Name() == "PtrAt" && len(x.Call.Args) == 2 {
			if k, ok := constInt(x.Call.Args[1]); ok && (k == 0 || k == -1) {
				if a, ok := loadAddr(x.Call.Args[0]); ok {
					ptrs = append(ptrs, ptr{x, sym(a), k})
				}
			}
		}
	})
	if len(ptrs) == 0 {
		return
	}
	allInstrs(fn, func(in ssa.Instruction) {
		st, ok := in.(*ssa.Store)
		if !ok {
			return
		}
		fa, ok := st.Addr.(*ssa.FieldAddr)
		if !ok {
			return
		}
		sl, ok := st.Val.(*ssa.Slice)
		if !ok {
			return
		}
		a, ok := loadAddr(sl.X)
		if !ok || sym(a) != sym(fa) {
			return
		}
		first := sl.High == nil && isConstInt(sl.Low, 1)
		last := sl.Low == nil && sl.High != nil
		for _, p := range ptrs {
			if p.list != sym(fa) || !((first && p.k == 0) || (last && p.k == -1)) {
				continue
			}
			if p.call.Block() == st.Block() || !dominatesInstr(p.call, st) {
				continue // the same-block case is clause (b)
			}
			// consulted or written through after the drop, before it is taken afresh
			var hit ssa.Instruction
			w := walkFrom(st, false, func(x ssa.Instruction) bool { return x == ssa.Instruction(p.call) })
			for _, x := range w.order {
				fa2, ok := x.(*ssa.FieldAddr)
				if !ok || fa2.X != ssa.Value(p.call) {
					continue
				}
				_, f := fieldVarOf(fa2)
				_, isSlice := f.Type().Underlying().(*types.Slice)
				for _, r := range referrersOf(fa2) {
					switch y := r.(type) {
					case *ssa.UnOp:
						if !isSlice {
							hit = y
						}
					case *ssa.Store:
						if y.Addr == ssa.Value(fa2) {
							hit = y
						}
					}
				}
			}
			if hit != nil {
				*n++
				c.sawFn(fnName(fn))
				c.bad("R-STALE-READ", fmt.Sprintf("%s:pointer outlives the drop #%d", fnName(fn), *n), p.call.Pos(), fmt.Sprintf("a pointer to an end of the edit list is taken, that end is dropped from the list at %s, and the pointer is consulted or written through afterwards at %s without being taken afresh: it refers to the edit that is no longer part of the chunk", c.P.pos(st.Pos()), c.P.pos(instrPos(hit))))
			}
		}
	})
}

// ruleHandoverReset (R-HANDOVER-RESET, package mdiff): a reader keeps what it has parsed so far in a slice field that
// grows by append (an accumulator: some function of the package stores `x.F = append(x.F, …)`).  Where a loop hands
// that field's value over to a result (stores it into another, freshly built struct), the accumulator must be
// emptied — stored with something that is not an append onto itself, directly or in a callee, or the state object
// built afresh — before the loop hands it over again: otherwise every later result also carries everything that
// belonged to the earlier ones (ReadGitPatch returning patch 2 with the chunks of patches 1 and 2).
func ruleHandoverReset(c *Ctx) {
	P := c.P
	c.rule("R-HANDOVER-RESET", 0, "an accumulator field handed over to a result inside a loop is emptied before it is handed over again")
	fns := P.PkgFuncs("mdiff")
	isSelfAppend := func(st *ssa.Store) bool {
		call, ok := isBuiltinCall(st.Val, "append")
		if !ok || len(call.Call.Args) == 0 {
			return false
		}
		a, ok := loadAddr(call.Call.Args[0])
		if !ok {
			return false
		}
		_, f1 := fieldVarOf(a)
		_, f2 := fieldVarOf(st.Addr)
		return f1 != nil && sameField(f1, f2)
	}
	acc := map[*types.Var]bool{}
	for _, fn := range fns {
		allInstrs(fn, func(in ssa.Instruction) {
			if st, ok := in.(*ssa.Store); ok {
				if _, isFA := st.Addr.(*ssa.FieldAddr); isFA && isSelfAppend(st) {
					_, f := fieldVarOf(st.Addr)
					acc[f.Origin()] = true
				}
			}
		})
	}
	if len(acc) == 0 {
		return
	}
	// functions that empty field f (directly or through a callee of the package)
	resets := map[*types.Var]map[*ssa.Function]bool{}
	for f := range acc {
		resets[f] = map[*ssa.Function]bool{}
	}
	directReset := func(in ssa.Instruction) *types.Var {
		st, ok := in.(*ssa.Store)
		if !ok {
			return nil
		}
		if _, isFA := st.Addr.(*ssa.FieldAddr); !isFA {
			return nil
		}
		_, f := fieldVarOf(st.Addr)
		if f == nil || !acc[f.Origin()] || isSelfAppend(st) {
			return nil
		}
		return f.Origin()
	}
	for changed := true; changed; {
		changed = false
		for _, fn := range fns {
			allInstrs(fn, func(in ssa.Instruction) {
				if f := directReset(in); f != nil && !resets[f][origin(fn)] {
					resets[f][origin(fn)] = true
					changed = true
				}
				if call, ok := in.(*ssa.Call); ok {
					if cal := staticCallee(&call.Call); cal != nil {
						for f := range acc {
							if resets[f][cal] && !resets[f][origin(fn)] {
								resets[f][origin(fn)] = true
								changed = true
							}
						}
					}
				}
			})
		}
	}
	for _, fn := range fns {
		fn := fn
		n := 0
		allInstrs(fn, func(in ssa.Instruction) {
			st, ok := in.(*ssa.Store)
			if !ok {
				return
			}
			dst, ok := st.Addr.(*ssa.FieldAddr)
			if !ok {
				return
			}
			a, ok := loadAddr(st.Val)
			if !ok {
				return
			}
			src, ok := a.(*ssa.FieldAddr)
			if !ok {
				return
			}
			_, f := fieldVarOf(src)
			if f == nil || !acc[f.Origin()] {
				return
			}
			if _, g := fieldVarOf(dst); g == nil || sameField(f, g) {
				return
			}
			if _, fresh := dst.X.(*ssa.Alloc); !fresh {
				return
			}
			if !blockInLoop(st.Block()) {
				return
			}
			n++
			c.sawFn(fnName(fn))
			emptied := func(x ssa.Instruction) bool {
				if g := directReset(x); g != nil && g == f.Origin() && sym(x.(*ssa.Store).Addr) == sym(src) {
					return true
				}
				if call, ok := x.(*ssa.Call); ok {
					if cal := staticCallee(&call.Call); cal != nil && resets[f.Origin()][cal] {
						return true
					}
				}
				if al, ok := x.(*ssa.Alloc); ok && ssa.Value(al) == src.X {
					return true
				}
				return false
			}
			again, _ := reachesWithout(P, st, false, func(x ssa.Instruction) bool { return x == ssa.Instruction(st) }, emptied)
			c.judge(!again, "R-HANDOVER-RESET", fmt.Sprintf("%s:%s handed over #%d", fnName(fn), f.Name(), n), st.Pos(), "emptied on every way round the loop", fmt.Sprintf("the loop hands %s over to a result and can come round to hand it over again without having emptied it: the next result also carries everything the earlier ones were given", ksym(src)))
		})
	}
}
