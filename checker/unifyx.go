package main

import (
	"fmt"
	"go/constant"
	"go/token"
	"go/types"

	"golang.org/x/tools/go/ssa"
)

// ruleUnifyConsumes: three clauses about how UnifyChunks (and whatever helpers of package mdiff it is split into)
// takes overlapping context away, found by the mutation sweeps (DESIGN §8.7):
//
//	R-DROP-ONE          a chunk's edit list stored back as a re-slice of itself loses exactly one edit ([1:] or
//	                    [:len-1]) — `[2:]` drops a real edit with the context edit;
//	R-OVERLAP-CONSUMED  where a chunk's range is moved by the overlap (X.LStart += lap, X.LEnd -= lap), every path of
//	                    that iteration also takes the overlap out of the edits: a span cut by that amount, or an
//	                    edit dropped — otherwise the range no longer describes the edits;
//	R-STALE-READ (c)    a pointer to the first / last edit taken before that edit is dropped is not consulted for its
//	                    opcode or written through afterwards (it may be read for the length of what was dropped).
func ruleUnifyConsumes(c *Ctx) {
	P := c.P
	c.rule("R-DROP-ONE", 0, "an edit list re-sliced onto itself loses exactly one edit")
	c.rule("R-OVERLAP-CONSUMED", 0, "a range moved by the overlap is matched on every path by a span cut by it or an edit dropped")
	chunkT := P.Named("mdiff", "Chunk")
	editT := P.Named("slice", "Edit")
	if chunkT == nil || editT == nil {
		return
	}
	var listF *types.Var
	for _, f := range structFields(chunkT) {
		if _, ok := f.Type().Underlying().(*types.Slice); ok {
			listF = f
		}
	}
	if listF == nil {
		return
	}
	isSpanF := func(f *types.Var) bool {
		if f == nil {
			return false
		}
		if _, ok := f.Type().Underlying().(*types.Slice); !ok {
			return false
		}
		for _, g := range structFields(editT) {
			if sameField(f, g) {
				return true
			}
		}
		return false
	}
	isRangeF := func(f *types.Var) bool {
		if f == nil {
			return false
		}
		b, ok := f.Type().Underlying().(*types.Basic)
		if !ok || b.Info()&types.IsInteger == 0 {
			return false
		}
		for _, g := range structFields(chunkT) {
			if sameField(f, g) {
				return true
			}
		}
		return false
	}
	var mentions func(v, w ssa.Value, d int) bool
	mentions = func(v, w ssa.Value, d int) bool {
		if v == nil || d > 4 {
			return false
		}
		if v == w {
			return true
		}
		if bo, ok := v.(*ssa.BinOp); ok {
			return mentions(bo.X, w, d+1) || mentions(bo.Y, w, d+1)
		}
		return false
	}
	for _, fn := range P.PkgFuncs("mdiff") {
		fn := fn
		name := fnName(fn)
		nOne, nCons := 0, 0
		// stores to a chunk's edit list
		listStore := func(in ssa.Instruction) (*ssa.Store, bool) {
			st, ok := in.(*ssa.Store)
			if !ok {
				return nil, false
			}
			fa, ok := st.Addr.(*ssa.FieldAddr)
			if !ok {
				return nil, false
			}
			if _, f := fieldVarOf(fa); !sameField(f, listF) {
				return nil, false
			}
			return st, true
		}
		allInstrs(fn, func(in ssa.Instruction) {
			st, ok := listStore(in)
			if !ok {
				return
			}
			sl, ok := st.Val.(*ssa.Slice)
			if !ok {
				return
			}
			a, ok := loadAddr(sl.X)
			if !ok || sym(a) != sym(st.Addr) {
				return
			}
			how := ""
			switch {
			case sl.Low != nil && sl.High != nil:
				return // a window: not this rule's form
			case sl.Low != nil:
				if k, ok := constInt(sl.Low); ok && k > 1 {
					how = fmt.Sprintf("[%d:]", k)
				} else if !ok {
					return
				}
			case sl.High != nil:
				bo, ok := sl.High.(*ssa.BinOp)
				if !ok || bo.Op != token.SUB {
					return
				}
				ln, isLen := isBuiltinCall(bo.X, "len")
				k, isK := constInt(bo.Y)
				if !isLen || !isK {
					return
				}
				if a2, ok := loadAddr(ln.Call.Args[0]); !ok || sym(a2) != sym(st.Addr) {
					return
				}
				if k > 1 {
					how = fmt.Sprintf("[:len-%d]", k)
				}
			default:
				return
			}
			nOne++
			c.sawFn(name)
			c.judge(how == "", "R-DROP-ONE", fmt.Sprintf("%s:list re-sliced #%d", name, nOne), st.Pos(), "one edit", fmt.Sprintf("the edit list is cut %s: more than the one boundary edit leaves the chunk — an edit of the script goes with the context", how))
		})
		// ---- R-OVERLAP-CONSUMED
		allInstrs(fn, func(in ssa.Instruction) {
			st, ok := in.(*ssa.Store)
			if !ok {
				return
			}
			fa, ok := st.Addr.(*ssa.FieldAddr)
			if !ok {
				return
			}
			if _, f := fieldVarOf(fa); !isRangeF(f) {
				return
			}
			bo, ok := st.Val.(*ssa.BinOp)
			if !ok || (bo.Op != token.ADD && bo.Op != token.SUB) {
				return
			}
			a, ok := loadAddr(bo.X)
			if !ok || sym(a) != sym(fa) {
				return
			}
			v := bo.Y
			def, isInstr := v.(ssa.Instruction)
			if !isInstr {
				return // a constant or a parameter
			}
			if _, isLen := isBuiltinCall(v, "len"); isLen {
				return // moved by the length of a span (the join), not by the overlap
			}
			if _, isPhi := v.(*ssa.Phi); isPhi {
				return
			}
			if def.Parent() != fn {
				return
			}
			consumes := func(x ssa.Instruction) bool {
				switch y := x.(type) {
				case *ssa.Store:
					if _, ok := listStore(y); ok {
						if _, grows := isBuiltinCall(y.Val, "append"); !grows {
							return true
						}
					}
					if fa2, ok := y.Addr.(*ssa.FieldAddr); ok {
						if _, f := fieldVarOf(fa2); isSpanF(f) {
							if sl, ok := y.Val.(*ssa.Slice); ok && (mentions(sl.Low, v, 0) || mentions(sl.High, v, 0)) {
								return true
							}
						}
					}
				case *ssa.Call:
					if cal := y.Call.StaticCallee(); cal != nil && cal.Pkg != nil && cal.Pkg == fn.Pkg {
						for _, a := range y.Call.Args {
							if a == v {
								return true
							}
						}
					}
				}
				return false
			}
			nCons++
			c.sawFn(name)
			key := fmt.Sprintf("%s:%s moved by the overlap #%d", name, ksym(fa), nCons)
			// a path def → this store and a path this store → (def again | return), both free of a consumption
			before, _ := reachesWithout(P, def, false, func(x ssa.Instruction) bool { return x == ssa.Instruction(st) }, consumes)
			after, _ := reachesWithout(P, st, false, func(x ssa.Instruction) bool {
				_, isRet := x.(*ssa.Return)
				return isRet || x == def
			}, consumes)
			c.judge(!(before && after), "R-OVERLAP-CONSUMED", key, st.Pos(), "every path through it cuts a span by that amount or drops an edit", fmt.Sprintf("there is a path on which %s is moved by %s while no span is cut by it and no edit leaves the list: the range and the edits of the chunk disagree by that many lines", ksym(fa), ksym(v)))
		})
	}
}

// staleAcrossBlocks: R-STALE-READ (c), see ruleUnifyConsumes.
func staleAcrossBlocks(c *Ctx, fn *ssa.Function, n *int) {
	type ptr struct {
		call *ssa.Call
		list string
		k    int64
	}
	var ptrs []ptr
	allInstrs(fn, func(in ssa.Instruction) {
		x, ok := in.(*ssa.Call)
		if !ok {
			return
		}
		if cal := x.Call.StaticCallee(); cal != nil && origin(cal).Name() == "PtrAt" && len(x.Call.Args) == 2 {
			if k, ok := constInt(x.Call.Args[1]); ok && (k == 0 || k == -1) {
				if a, ok := loadAddr(x.Call.Args[0]); ok {
					ptrs = append(ptrs, ptr{x, sym(a), k})
				}
			}
		}
	})
	if len(ptrs) == 0 {
		return
	}
	allInstrs(fn, func(in ssa.Instruction) {
		st, ok := in.(*ssa.Store)
		if !ok {
			return
		}
		fa, ok := st.Addr.(*ssa.FieldAddr)
		if !ok {
			return
		}
		sl, ok := st.Val.(*ssa.Slice)
		if !ok {
			return
		}
		a, ok := loadAddr(sl.X)
		if !ok || sym(a) != sym(fa) {
			return
		}
		first := sl.High == nil && isConstInt(sl.Low, 1)
		last := sl.Low == nil && sl.High != nil
		for _, p := range ptrs {
			if p.list != sym(fa) || !((first && p.k == 0) || (last && p.k == -1)) {
				continue
			}
			if p.call.Block() == st.Block() || !dominatesInstr(p.call, st) {
				continue // the same-block case is clause (b)
			}
			// consulted or written through after the drop, before it is taken afresh
			var hit ssa.Instruction
			w := walkFrom(st, false, func(x ssa.Instruction) bool { return x == ssa.Instruction(p.call) })
			for _, x := range w.order {
				fa2, ok := x.(*ssa.FieldAddr)
				if !ok || fa2.X != ssa.Value(p.call) {
					continue
				}
				_, f := fieldVarOf(fa2)
				_, isSlice := f.Type().Underlying().(*types.Slice)
				for _, r := range referrersOf(fa2) {
					switch y := r.(type) {
					case *ssa.UnOp:
						if !isSlice {
							hit = y
						}
					case *ssa.Store:
						if y.Addr == ssa.Value(fa2) {
							hit = y
						}
					}
				}
			}
			if hit != nil {
				*n++
				c.sawFn(fnName(fn))
				c.bad("R-STALE-READ", fmt.Sprintf("%s:pointer outlives the drop #%d", fnName(fn), *n), p.call.Pos(), fmt.Sprintf("a pointer to an end of the edit list is taken, that end is dropped from the list at %s, and the pointer is consulted or written through afterwards at %s without being taken afresh: it refers to the edit that is no longer part of the chunk", c.P.pos(st.Pos()), c.P.pos(instrPos(hit))))
			}
		}
	})
}

// ruleHandoverReset (R-HANDOVER-RESET, package mdiff): a reader keeps what it has parsed so far in a slice field that
// grows by append (an accumulator: some function of the package stores `x.F = append(x.F, …)`).  Where a loop hands
// that field's value over to a result (stores it into another, freshly built struct), the accumulator must be
// emptied — stored with something that is not an append onto itself, directly or in a callee, or the state object
// built afresh — before the loop hands it over again: otherwise every later result also carries everything that
// belonged to the earlier ones (ReadGitPatch returning patch 2 with the chunks of patches 1 and 2).
func ruleHandoverReset(c *Ctx) {
	P := c.P
	c.rule("R-HANDOVER-RESET", 0, "an accumulator field handed over to a result inside a loop is emptied before it is handed over again")
	fns := P.PkgFuncs("mdiff")
	isSelfAppend := func(st *ssa.Store) bool {
		call, ok := isBuiltinCall(st.Val, "append")
		if !ok || len(call.Call.Args) == 0 {
			return false
		}
		a, ok := loadAddr(call.Call.Args[0])
		if !ok {
			return false
		}
		_, f1 := fieldVarOf(a)
		_, f2 := fieldVarOf(st.Addr)
		return f1 != nil && sameField(f1, f2)
	}
	acc := map[*types.Var]bool{}
	for _, fn := range fns {
		allInstrs(fn, func(in ssa.Instruction) {
			if st, ok := in.(*ssa.Store); ok {
				if _, isFA := st.Addr.(*ssa.FieldAddr); isFA && isSelfAppend(st) {
					_, f := fieldVarOf(st.Addr)
					acc[f.Origin()] = true
				}
			}
		})
	}
	if len(acc) == 0 {
		return
	}
	// functions that empty field f (directly or through a callee of the package)
	resets := map[*types.Var]map[*ssa.Function]bool{}
	for f := range acc {
		resets[f] = map[*ssa.Function]bool{}
	}
	directReset := func(in ssa.Instruction) *types.Var {
		st, ok := in.(*ssa.Store)
		if !ok {
			return nil
		}
		if _, isFA := st.Addr.(*ssa.FieldAddr); !isFA {
			return nil
		}
		_, f := fieldVarOf(st.Addr)
		if f == nil || !acc[f.Origin()] || isSelfAppend(st) {
			return nil
		}
		return f.Origin()
	}
	for changed := true; changed; {
		changed = false
		for _, fn := range fns {
			allInstrs(fn, func(in ssa.Instruction) {
				if f := directReset(in); f != nil && !resets[f][origin(fn)] {
					resets[f][origin(fn)] = true
					changed = true
				}
				if call, ok := in.(*ssa.Call); ok {
					if cal := staticCallee(&call.Call); cal != nil {
						for f := range acc {
							if resets[f][cal] && !resets[f][origin(fn)] {
								resets[f][origin(fn)] = true
								changed = true
							}
						}
					}
				}
			})
		}
	}
	for _, fn := range fns {
		fn := fn
		n := 0
		allInstrs(fn, func(in ssa.Instruction) {
			st, ok := in.(*ssa.Store)
			if !ok {
				return
			}
			dst, ok := st.Addr.(*ssa.FieldAddr)
			if !ok {
				return
			}
			a, ok := loadAddr(st.Val)
			if !ok {
				return
			}
			src, ok := a.(*ssa.FieldAddr)
			if !ok {
				return
			}
			_, f := fieldVarOf(src)
			if f == nil || !acc[f.Origin()] {
				return
			}
			if _, g := fieldVarOf(dst); g == nil || sameField(f, g) {
				return
			}
			if _, fresh := dst.X.(*ssa.Alloc); !fresh {
				return
			}
			if !blockInLoop(st.Block()) {
				return
			}
			n++
			c.sawFn(fnName(fn))
			emptied := func(x ssa.Instruction) bool {
				if g := directReset(x); g != nil && g == f.Origin() && sym(x.(*ssa.Store).Addr) == sym(src) {
					return true
				}
				if call, ok := x.(*ssa.Call); ok {
					if cal := staticCallee(&call.Call); cal != nil && resets[f.Origin()][cal] {
						return true
					}
				}
				if al, ok := x.(*ssa.Alloc); ok && ssa.Value(al) == src.X {
					return true
				}
				return false
			}
			again, _ := reachesWithout(P, st, false, func(x ssa.Instruction) bool { return x == ssa.Instruction(st) }, emptied)
			c.judge(!again, "R-HANDOVER-RESET", fmt.Sprintf("%s:%s handed over #%d", fnName(fn), f.Name(), n), st.Pos(), "emptied on every way round the loop", fmt.Sprintf("the loop hands %s over to a result and can come round to hand it over again without having emptied it: the next result also carries everything the earlier ones were given", ksym(src)))
		})
	}
}

// ruleBuilderCarries (R-BUILDER-CARRIES, package cache): a builder method of Config (value receiver, returns a
// Config) that hands back a freshly written composite literal instead of the modified copy of its receiver must
// fill in every field: a field the literal leaves out is reset to its zero value, and a setting made earlier in
// the chain (New(n, LRU().OnEvict(f).WithSize(g))) is silently lost — the callback never runs.
func ruleBuilderCarries(c *Ctx) {
	c.rule("R-BUILDER-CARRIES", 0, "a Config builder that returns a fresh literal sets every field of it")
	cfgT := c.P.Named("cache", "Config")
	if cfgT == nil {
		return
	}
	fields := structFields(cfgT)
	for _, fn := range c.P.PkgFuncs("cache") {
		fn := fn
		r := fn.Signature.Recv()
		if r == nil || fn.Parent() != nil || !isNamedOrigin(r.Type(), cfgT) || fn.Signature.Results().Len() != 1 || !isNamedOrigin(fn.Signature.Results().At(0).Type(), cfgT) {
			continue
		}
		if _, isPtr := r.Type().(*types.Pointer); isPtr {
			continue
		}
		n := 0
		allInstrs(fn, func(in ssa.Instruction) {
			ret, ok := in.(*ssa.Return)
			if !ok {
				return
			}
			a, ok := loadAddr(ret.Results[0])
			if !ok {
				return
			}
			al, ok := a.(*ssa.Alloc)
			if !ok || al.Comment != "complit" {
				return
			}
			set := map[*types.Var]bool{}
			for _, rf := range referrersOf(al) {
				fa, ok := rf.(*ssa.FieldAddr)
				if !ok {
					continue
				}
				for _, r2 := range referrersOf(fa) {
					if st, ok := r2.(*ssa.Store); ok && st.Addr == ssa.Value(fa) {
						_, f := fieldVarOf(fa)
						if f != nil {
							set[f.Origin()] = true
						}
					}
				}
			}
			var missing []string
			for _, f := range fields {
				if !set[f.Origin()] {
					missing = append(missing, f.Name())
				}
			}
			n++
			c.sawFn(fnName(fn))
			c.judge(len(missing) == 0, "R-BUILDER-CARRIES", fmt.Sprintf("%s:returned literal #%d", fnName(fn), n), ret.Pos(), "every field set", fmt.Sprintf("the builder returns a fresh Config whose field(s) %v are left at their zero value: a setting made earlier in the chain is lost (an eviction callback registered before this call never runs; a size function is replaced by the default)", missing))
		})
	}
}

// ruleNilRing (R-NIL-RING, package ring): the operations documented to accept an empty (nil) ring — String, Pop, At,
// Peek, Each, Len, IsEmpty — do not reach a dereference of the receiver (a link or value access, or a helper or method
// that makes one on that argument) except where the receiver is known to be non-nil.  Next, Prev and Join are
// documented to panic on a nil ring and are not in the table.
func ruleNilRing(c *Ctx) {
	c.rule("R-NIL-RING", 5, "the nil-tolerant operations of ring.Ring dereference the receiver only under r != nil")
	memo := map[string][]ssa.Instruction{}
	var derefs func(fn *ssa.Function, pi int, depth int) []ssa.Instruction
	derefs = func(fn *ssa.Function, pi int, depth int) []ssa.Instruction {
		key := fmt.Sprintf("%p/%d", fn, pi)
		if r, ok := memo[key]; ok {
			return r
		}
		memo[key] = nil
		if fn == nil || fn.Blocks == nil || pi >= len(fn.Params) || depth > 4 {
			return nil
		}
		p := ssa.Value(fn.Params[pi])
		nonNilAt := func(b *ssa.BasicBlock) bool {
			for _, cm := range cmpsAt(b) {
				if cm.Op == token.NEQ && ((cm.X == p && isNilConst(cm.Y)) || (cm.Y == p && isNilConst(cm.X))) {
					return true
				}
			}
			// … or a predicate of the package said yes that only says yes for a non-nil argument (r.hasNeighbors())
			for call, truth := range callFactsAt(b) {
				if !truth {
					continue
				}
				cal := staticCallee(&call.Call)
				if cal == nil || cal.Blocks == nil || cal.Pkg != origin(fn).Pkg {
					continue
				}
				for j, a := range call.Call.Args {
					if a == p && j < len(cal.Params) && trueImpliesNonNil(cal, j) {
						return true
					}
				}
			}
			return false
		}
		// the receiver, or a cursor that can still hold it (cur := r; for … { cur = step(cur) })
		alias := map[ssa.Value]bool{p: true}
		for changed := true; changed; {
			changed = false
			allInstrs(fn, func(in ssa.Instruction) {
				if ph, ok := in.(*ssa.Phi); ok && !alias[ph] {
					for _, e := range ph.Edges {
						if alias[e] {
							alias[ph] = true
							changed = true
						}
					}
				}
			})
		}
		var out []ssa.Instruction
		for _, f := range withClosures(fn) {
			if f != fn {
				continue // closures see the receiver through a capture: not followed
			}
			allInstrs(f, func(in ssa.Instruction) {
				if nonNilAt(in.Block()) {
					return
				}
				switch x := in.(type) {
				case *ssa.FieldAddr:
					if alias[x.X] {
						out = append(out, in)
					}
				case *ssa.UnOp:
					if x.Op == token.MUL && alias[x.X] {
						out = append(out, in)
					}
				case *ssa.Call:
					cal := staticCallee(&x.Call)
					for j, a := range x.Call.Args {
						if !alias[a] {
							continue
						}
						switch {
						case cal != nil && cal.Blocks != nil && cal.Pkg == origin(fn).Pkg:
							if len(derefs(cal, j, depth+1)) > 0 {
								out = append(out, in)
							}
						case cal == nil && !x.Call.IsInvoke():
							// a step handed in as a function value ((*Ring).Next): it is applied to the receiver
							if _, isBuiltin := x.Call.Value.(*ssa.Builtin); !isBuiltin {
								if _, isRing := a.Type().Underlying().(*types.Pointer); isRing && a != p || a == p {
									if sg, ok := x.Call.Value.Type().Underlying().(*types.Signature); ok && sg.Params().Len() == 1 && types.Identical(sg.Params().At(0).Type(), a.Type()) && sg.Results().Len() == 1 && types.Identical(sg.Results().At(0).Type(), a.Type()) {
										out = append(out, in)
									}
								}
							}
						}
					}
				}
			})
		}
		memo[key] = out
		return out
	}
	for _, name := range []string{"String", "Pop", "At", "Peek", "Each", "Len", "IsEmpty"} {
		fn := c.P.Func("ring", "Ring", name)
		if fn == nil {
			continue
		}
		c.sawFn(fnName(fn))
		bad := derefs(fn, 0, 0)
		where := ""
		if len(bad) > 0 {
			where = c.P.pos(instrPos(bad[0]))
		}
		c.judge(len(bad) == 0, "R-NIL-RING", fnName(fn)+":nil receiver", fn.Pos(), "no dereference of the receiver outside r != nil", fmt.Sprintf("%s is documented to accept an empty (nil) ring, but reaches a dereference of its receiver at %s on a path where r != nil is not known: the empty ring panics instead of answering", name, where))
	}
}

// ruleGapReposition (R-GAP-REPOSITION, mdiff.New): where New finds a gap after the current chunk (a running position
// compared with the chunk's LEnd / REnd), every way through the block that handles the gap gives the chunk that is
// current afterwards its left start — whether a new chunk is allocated or the empty one taken over.  A path that
// skips it leaves the taken-over chunk at the position it was created with.
func ruleGapReposition(c *Ctx) {
	c.rule("R-GAP-REPOSITION", 0, "in New every path through the gap block sets the current chunk's start from the running position")
	fn := c.P.Func("mdiff", "", "New")
	chunkT := c.P.Named("mdiff", "Chunk")
	if fn == nil || chunkT == nil {
		return
	}
	isEndLoad := func(v ssa.Value) bool {
		base, f := loadedField(v)
		return f != nil && base != nil && isNamedOrigin(base.Type(), chunkT) && (f.Name() == "LEnd" || f.Name() == "REnd")
	}
	isGapIf := func(b *ssa.BasicBlock) (*ssa.If, bool) {
		iff, ok := b.Instrs[len(b.Instrs)-1].(*ssa.If)
		if !ok {
			return nil, false
		}
		cm, ok := edgeCmp(iff, 0)
		if !ok || cm.Op != token.GTR && cm.Op != token.LSS {
			return nil, false
		}
		return iff, (isEndLoad(cm.Y) && isIntType(cm.X.Type())) || (isEndLoad(cm.X) && isIntType(cm.Y.Type()))
	}
	setsStart := func(in ssa.Instruction) bool {
		st, ok := in.(*ssa.Store)
		if !ok {
			return false
		}
		fa, ok := st.Addr.(*ssa.FieldAddr)
		if !ok || !isNamedOrigin(fa.X.Type(), chunkT) {
			return false
		}
		_, f := fieldVarOf(fa)
		if f == nil || f.Name() != "LStart" {
			return false
		}
		_, isConst := st.Val.(*ssa.Const)
		return !isConst
	}
	done := map[*ssa.BasicBlock]bool{}
	n := 0
	for _, b := range fn.Blocks {
		iff, ok := isGapIf(b)
		if !ok || done[b] {
			continue
		}
		body := b.Succs[0]
		// the join: past the other disjuncts of the same test
		join := b.Succs[1]
		done[b] = true
		for k := 0; k < 3; k++ {
			if i2, ok2 := isGapIf(join); ok2 && join.Succs[0] == body {
				done[join] = true
				_ = i2
				join = join.Succs[1]
			} else {
				break
			}
		}
		if len(body.Instrs) == 0 {
			continue
		}
		n++
		c.sawFn(fnName(fn))
		skip, wit := reachesWithout(c.P, body.Instrs[0], true, func(x ssa.Instruction) bool { return x.Block() == join }, setsStart)
		c.judge(!skip, "R-GAP-REPOSITION", fmt.Sprintf("%s:gap block #%d", fnName(fn), n), iff.Cond.Pos(), "every path sets the chunk's start", "the block that handles a gap after the current chunk can be left ("+wit+") without giving the chunk that is current afterwards its start from the running position: an empty chunk that is taken over keeps the place it was created at, and its ranges no longer frame its edits")
	}
}

// trueImpliesNonNil: the boolean function fn answers true only on paths where its parameter pi is known non-nil
// (return p != nil && …): every return value is the constant false, or is produced where p != nil is a fact.
func trueImpliesNonNil(fn *ssa.Function, pi int) bool {
	if fn.Signature.Results().Len() != 1 || pi >= len(fn.Params) {
		return false
	}
	p := ssa.Value(fn.Params[pi])
	known := func(b *ssa.BasicBlock) bool {
		for _, cm := range cmpsAt(b) {
			if cm.Op == token.NEQ && ((cm.X == p && isNilConst(cm.Y)) || (cm.Y == p && isNilConst(cm.X))) {
				return true
			}
		}
		return false
	}
	isFalse := func(v ssa.Value) bool {
		k, ok := v.(*ssa.Const)
		return ok && k.Value != nil && k.Value.Kind() == constant.Bool && !constant.BoolVal(k.Value)
	}
	var okVal func(v ssa.Value, at *ssa.BasicBlock, d int) bool
	okVal = func(v ssa.Value, at *ssa.BasicBlock, d int) bool {
		if isFalse(v) || known(at) {
			return true
		}
		if bo, ok := v.(*ssa.BinOp); ok && bo.Op == token.NEQ && ((bo.X == p && isNilConst(bo.Y)) || (bo.Y == p && isNilConst(bo.X))) {
			return true
		}
		if ph, ok := v.(*ssa.Phi); ok && d < 3 {
			for i, e := range ph.Edges {
				if !okVal(e, ph.Block().Preds[i], d+1) {
					return false
				}
			}
			return true
		}
		return false
	}
	n, all := 0, true
	allInstrs(fn, func(in ssa.Instruction) {
		if r, ok := in.(*ssa.Return); ok && len(r.Results) == 1 {
			n++
			if !okVal(r.Results[0], r.Block(), 0) {
				all = false
			}
		}
	})
	return n > 0 && all
}
