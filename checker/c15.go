package main

// C15 — shell.Quote/Join/Split: R-QUOTE-SET, R-QUOTABLE-BITS,
// R-QUOTE-TYPESTATE, R-POOL-RESET, R-SPLIT-VIA-SCANNER.

import (
	"fmt"
	"go/token"
	"go/types"
	"sort"
	"strings"

	"golang.org/x/tools/go/ssa"
)

func init() {
	register(&propDef{ID: "C15", Level: "model_checking", Run: runC15})
}

// POSIX XCU 2.2: characters that must be quoted, and the conditionally special ones.
const posixMust = "|&;<>()$`\\\"' \t\n"
const posixMay = "*?[#~=%"

func runC15(c *Ctx) {
	P := c.P
	c.Level = "model_checking"
	c.Explanation = "Decides, by exhaustive abstract execution (nothing is run): shell.Quote and shell.Join, with every package-local function they call inlined, are explored as finite-state programs over input strings abstracted to sequences of byte classes (the partition of the 256 byte values induced by every byte test in the code, the tokenizer's class table, the POSIX classes and the POSIX set of special characters); the bytes they write are pushed, as they are written, through (a) the package's own tokenizer as extracted from its tables for C16 and (b) an independently written POSIX word-splitting transducer. Checked on every path: (R-QUOTE-TYPESTATE) every input byte is visited once, in order, and written exactly once; both tokenizers read each input byte back as itself and each byte of quoting syntax as nothing; a byte special to a POSIX shell is only written inside single quotes or right after a backslash; word boundaries occur exactly between two strings of Join; at the end the result is a complete word list whose last (possibly empty) string is pending — i.e. Split(Join(ss)) == ss with ok == true and a POSIX shell reads Quote(s) as the single word s, for all strings at the level of byte classes. (R-QUOTABLE-BITS) each boolean helper consulted about the whole string (quotable) is shown to compute 'some byte of s lies in a fixed set', scanning to the end unless all its results are already true; its sets are read off by exploration. (R-QUOTE-SET) the union of those sets contains every byte POSIX XCU 2.2 lists as special and every byte the package's tokenizer does not treat as ordinary. (R-POOL-RESET) pooled buffers are reset before use, put back on every exit, and never escape. (R-SPLIT-VIA-SCANNER) Split's results come from the scanner only. Does NOT decide what a real /bin/sh does beyond the written POSIX reference, that Join visits every element of its argument (an element skipped entirely is not noticed), nor behaviour for strings containing NUL."
	c.rule("R-QUOTE-SET", 3, "POSIX special bytes and tokenizer-special bytes all force quoting")
	c.rule("R-QUOTABLE-BITS", 1, "each whole-string predicate used by the quoting code is 'some byte lies in a fixed set'; full scan unless all results are already true")
	c.rule("R-QUOTE-TYPESTATE", 2, "Quote and Join × byte-class strings × (package tokenizer, POSIX reference): bytes preserved, syntax invisible, specials protected, boundaries exactly between strings, complete at the end")
	c.rule("R-POOL-RESET", 2, "pooled buffers: Reset first, Put on exit, never escape")
	c.rule("R-SPLIT-VIA-SCANNER", 1, "every result of shell.Split is produced by the pooled Scanner (Split/Complete)")
	c.assume("POSIX XCU 2.2 list of special characters: | & ; < > ( ) $ ` \\ \" ' space tab newline, and conditionally * ? [ # ~ = %")
	c.assume("the reference transducer of C16 is the intended POSIX word-splitting semantics for blanks, newlines, backslash, single and double quotes")
	c.assume("the tokenizer model (table, class table, per-action effects, end-of-input verdicts) is the one extracted and checked under C16")

	quoteFn, joinFn, splitFn := P.Func("shell", "", "Quote"), P.Func("shell", "", "Join"), P.Func("shell", "", "Split")
	if quoteFn == nil || joinFn == nil || splitFn == nil {
		c.undecided("ANCHOR", "shell.Quote/Join/Split", 0, "anchor not found")
		return
	}
	// the tokenizer model, extracted as for C16 (its own obligations are reported there)
	var sm *shellModel
	tmp := newCtx(c.P, "C16", c.Tier)
	runC16(tmp)
	if m, ok := tmp.Extra["_model"].(*shellModel); ok && m != nil && m.interpOK {
		sm = m
	} else {
		short := false
		for _, o := range tmp.Obligs {
			if o.Rule == "R-CLASSOF" && o.Construct == "shell.classOf:covers every byte" && o.Verdict == "violated" {
				short = true
				c.Obligs = append(c.Obligs, Oblig{Rule: "R-QUOTE-TYPESTATE", Construct: c.uniq("R-QUOTE-TYPESTATE", "shell tokenizer model:class table covers every byte"), Pos: o.Pos, Verdict: "violated", Config: c.P.Config,
					Msg: "Quote copies bytes ≥ 0x80 through unchanged, and Split cannot read them back: " + o.Msg})
			}
			// the interpreter does not do what the table says (an arm writes something other than the byte):
			// Split cannot give back what Join wrote
			if o.Rule == "R-FST-INTERP" && o.Verdict == "violated" && !o.Canary {
				short = true
				c.Obligs = append(c.Obligs, Oblig{Rule: "R-QUOTE-TYPESTATE", Construct: c.uniq("R-QUOTE-TYPESTATE", "shell tokenizer model:"+o.Construct), Pos: o.Pos, Verdict: "violated", Config: c.P.Config,
					Msg: "Split's interpreter is not the transducer its tables describe, so it cannot read back what Quote and Join write: " + o.Msg})
			}
		}
		if !short {
			c.undecided("R-QUOTE-TYPESTATE", "shell tokenizer model", 0, "the package tokenizer could not be extracted (see C16): composition with Split not possible")
		}
	}
	q := &qx{c: c, P: P, sm: sm, pkg: quoteFn.Pkg, summaries: map[*ssa.Function]*qsummary{}, problems: map[string]token.Pos{}}
	q.buildAlphabet([]*ssa.Function{quoteFn, joinFn})
	var alpha []string
	for i := range q.alpha {
		alpha = append(alpha, q.classDesc(i))
	}
	c.Extra["byte_classes"] = alpha
	// whole-string predicates: package functions of one string parameter returning only booleans
	var setsAll []uint64
	nSum := 0
	for _, fn := range q.closureFns {
		if len(fn.Params) != 1 || !isStringType(fn.Params[0].Type()) || fn.Signature.Results().Len() == 0 {
			continue
		}
		allBool := true
		for i := 0; i < fn.Signature.Results().Len(); i++ {
			if b, ok := fn.Signature.Results().At(i).Type().Underlying().(*types.Basic); !ok || b.Kind() != types.Bool {
				allBool = false
			}
		}
		if !allBool {
			continue
		}
		// a wrapper that only hands the string on to other functions of the package and combines their answers
		// (analyze(s) = quotable(s) plus a derived flag) is followed inline; the functions that look at the bytes
		// themselves are the whole-string predicates
		scans, relays := false, false
		for _, r := range referrersOf(fn.Params[0]) {
			switch y := r.(type) {
			case *ssa.DebugRef, *ssa.BinOp:
			case *ssa.Call:
				if b, isB := y.Call.Value.(*ssa.Builtin); isB && b.Name() == "len" {
					continue
				}
				if cal := y.Call.StaticCallee(); cal != nil && cal.Pkg == fn.Pkg && cal.Blocks != nil {
					relays = true
					continue
				}
				scans = true
			default:
				scans = true
			}
		}
		if relays && !scans {
			continue
		}
		c.sawFn(fnName(fn))
		nSum++
		sum, probs := q.summarise(fn)
		q.summaries[fn] = sum
		if sum.ok {
			var ds []string
			for k, set := range sum.sets {
				ds = append(ds, fmt.Sprintf("result %d ⇔ some byte ∈ %s", k, q.classSetDesc(set)))
			}
			c.ok("R-QUOTABLE-BITS", fnName(fn), fn.Pos(), strings.Join(ds, "; "))
			setsAll = append(setsAll, sum.sets...)
		} else {
			c.bad("R-QUOTABLE-BITS", fnName(fn), fn.Pos(), strings.Join(probs, "; "))
		}
	}
	if nSum == 0 {
		c.undecided("R-QUOTABLE-BITS", "shell:whole-string predicate", quoteFn.Pos(), "no whole-string predicate (a function of the string returning booleans) is consulted by Quote/Join")
	}
	// R-QUOTE-SET
	S := q.bytesOfSets(setsAll)
	var missing []string
	for i := 0; i < len(posixMust); i++ {
		if !S[posixMust[i]] {
			missing = append(missing, fmt.Sprintf("%q", posixMust[i]))
		}
	}
	c.judge(len(missing) == 0, "R-QUOTE-SET", "shell:POSIX must-quote", quoteFn.Pos(), "all 16 always-special bytes force quoting", "bytes special to a POSIX shell do not force quoting: "+strings.Join(missing, " "))
	missing = nil
	for i := 0; i < len(posixMay); i++ {
		if !S[posixMay[i]] {
			missing = append(missing, fmt.Sprintf("%q", posixMay[i]))
		}
	}
	c.judge(len(missing) == 0, "R-QUOTE-SET", "shell:POSIX conditionally-special", quoteFn.Pos(), "* ? [ # ~ = % force quoting", "conditionally special bytes do not force quoting: "+strings.Join(missing, " "))
	if sm != nil {
		// the tokenizer's "ordinary" class: the class of the majority of bytes
		cnt := map[int64]int{}
		for b := 0; b < 256; b++ {
			cnt[sm.classOf[b]]++
		}
		var other int64
		for v, n := range cnt {
			if n > cnt[other] {
				other = v
			}
		}
		missing = nil
		for b := 0; b < 256; b++ {
			if sm.classOf[b] != other && !S[byte(b)] {
				missing = append(missing, fmt.Sprintf("%q", rune(b)))
			}
		}
		c.judge(len(missing) == 0, "R-QUOTE-SET", "shell:tokenizer-special", quoteFn.Pos(), "every byte the tokenizer treats specially forces quoting", "bytes the package's own tokenizer treats specially are emitted unquoted by Quote: "+strings.Join(missing, " "))
	}
	// R-QUOTE-TYPESTATE: the two roots
	totalStates, totalSteps := 0, 0
	for _, r := range []struct {
		fn   *ssa.Function
		mode int
	}{{quoteFn, qmQuote}, {joinFn, qmJoin}} {
		c.sawFn(fnName(r.fn))
		q.mode, q.root = r.mode, r.fn
		q.seen, q.problems, q.steps, q.overflow = map[string]bool{}, map[string]token.Pos{}, 0, false
		q.explore(q.rootState(r.fn))
		key := fnName(r.fn)
		c.Extra["states_explored_"+r.fn.Name()] = len(q.seen)
		totalStates += len(q.seen)
		totalSteps += q.steps
		switch {
		case q.overflow && len(q.problems) == 0:
			c.undecided("R-QUOTE-TYPESTATE", key, r.fn.Pos(), "state space too large")
		case len(q.problems) == 0:
			c.ok("R-QUOTE-TYPESTATE", key, r.fn.Pos(), fmt.Sprintf("%d abstract states explored, no violation", len(q.seen)))
		default:
			var msgs []string
			var pos token.Pos
			for msg, p := range q.problems {
				msgs = append(msgs, msg+" at "+P.pos(p))
			}
			sort.Strings(msgs)
			for _, p := range q.problems {
				if pos == token.NoPos || (p != token.NoPos && p < pos) {
					pos = p
				}
			}
			if len(msgs) > 6 {
				msgs = append(msgs[:6], fmt.Sprintf("… and %d more", len(msgs)-6))
			}
			if q.overflow {
				msgs = append(msgs, "(the exploration stopped at its step limit: the violations above come from the part explored)")
			}
			c.bad("R-QUOTE-TYPESTATE", key, pos, strings.Join(msgs, "; "))
		}
	}
	c.Extra["states"] = totalStates
	c.Extra["transitions"] = totalSteps
	c.Extra["traces_validated_against_impl"] = 0
	c.Extra["exhaustive"] = true
	rulePoolReset(c, []*ssa.Function{quoteFn, joinFn, P.Func("shell", "", "Split")})
	ruleSplitViaScanner(c, splitFn)
}

// ruleSplitViaScanner: every return of shell.Split yields (Scanner.Split(), Scanner.Complete()).
func ruleSplitViaScanner(c *Ctx, splitFn *ssa.Function) {
	P := c.P
	scSplit, scComplete := P.Func("shell", "Scanner", "Split"), P.Func("shell", "Scanner", "Complete")
	if splitFn == nil || scSplit == nil || scComplete == nil {
		c.undecided("ANCHOR", "shell.Split / Scanner.Split / Scanner.Complete", 0, "not found")
		return
	}
	c.sawFn(fnName(splitFn))
	resolve := func(v ssa.Value) ssa.Value {
		// look through named-result spills
		if a, ok := loadAddr(v); ok {
			if al, ok := a.(*ssa.Alloc); ok {
				var vals []ssa.Value
				for _, r := range referrersOf(al) {
					if st, ok := r.(*ssa.Store); ok && st.Addr == ssa.Value(al) {
						vals = append(vals, st.Val)
					}
				}
				if len(vals) == 1 {
					return vals[0]
				}
			}
		}
		return v
	}
	var probs []string
	n := 0
	for _, b := range splitFn.Blocks {
		if splitFn.Recover == b {
			continue
		}
		ret, ok := b.Instrs[len(b.Instrs)-1].(*ssa.Return)
		if !ok || len(ret.Results) != 2 {
			continue
		}
		n++
		r0, r1 := resolve(ret.Results[0]), resolve(ret.Results[1])
		c0, ok0 := r0.(*ssa.Call)
		c1, ok1 := r1.(*ssa.Call)
		if !ok0 || staticCallee(&c0.Call) != scSplit {
			probs = append(probs, "a return yields fields not produced by Scanner.Split ("+sym(r0)+")")
		}
		if !ok1 || staticCallee(&c1.Call) != scComplete {
			probs = append(probs, "a return yields a completeness flag not produced by Scanner.Complete ("+sym(r1)+")")
		}
		if ok0 && ok1 && c0.Call.Args[0] != c1.Call.Args[0] {
			probs = append(probs, "fields and flag come from different scanners")
		}
	}
	if n == 0 {
		probs = append(probs, "no return found")
	}
	c.judge(len(probs) == 0, "R-SPLIT-VIA-SCANNER", "shell.Split:results", splitFn.Pos(), "fields = Scanner.Split(), ok = Scanner.Complete() of the same scanner on every return", fmt.Sprint(probs)+": part of the input bypasses the table-driven tokenizer")
}
