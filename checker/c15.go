package main

// C15 — shell.Quote/Join/Split: R-QUOTE-SET, R-QUOTABLE-BITS,
// R-QUOTE-TYPESTATE, R-POOL-RESET, R-SPLIT-VIA-SCANNER.

import (
	"fmt"
	"go/constant"
	"go/token"
	"sort"
	"strings"

	"golang.org/x/tools/go/ssa"
)

func init() {
	register(&propDef{ID: "C15", Level: "other", Run: runC15})
}

// POSIX XCU 2.2: characters that must be quoted, and the conditionally special ones.
const posixMust = "|&;<>()$`\\\"' \t\n"
const posixMay = "*?[#~=%"

type quoteModel struct {
	specials map[byte]bool // S∖{'}: bytes that set the "other" bit
	quoteBit int64
	otherBit int64
}

// analyseQuotable checks the structure of quotable(s) and extracts S.
func analyseQuotable(c *Ctx, fn *ssa.Function) *quoteModel {
	m := &quoteModel{specials: map[byte]bool{}}
	name := fnName(fn)
	var probs []string
	sParam := fn.Params[0]
	isByteOfS := func(v ssa.Value) bool {
		ix, ok := v.(*ssa.Index)
		return ok && ix.X == ssa.Value(sParam)
	}
	// find OR instructions and their guards
	type orInfo struct {
		bit   int64
		guard string // "quote" | "special"
	}
	var ors []orInfo
	var setConst string
	allInstrs(fn, func(in ssa.Instruction) {
		bo, ok := in.(*ssa.BinOp)
		if !ok || bo.Op != token.OR {
			return
		}
		bit, ok := constInt(bo.Y)
		if !ok {
			probs = append(probs, "non-constant bit in an OR")
			return
		}
		g := ""
		for _, cm := range cmpsAt(bo.Block()) {
			if isByteOfS(cm.X) && isConstInt(cm.Y, '\'') && cm.Op == token.EQL {
				g = "quote"
			}
			if call, ok := cm.X.(*ssa.Call); ok {
				if cal := call.Call.StaticCallee(); cal != nil && cal.Name() == "IndexByte" && len(call.Call.Args) == 2 && isByteOfS(call.Call.Args[1]) && isConstInt(cm.Y, 0) && cm.Op == token.GEQ {
					if cs, ok := call.Call.Args[0].(*ssa.Const); ok && cs.Value != nil && cs.Value.Kind() == constant.String {
						if g == "" {
							g = "special"
						}
						setConst = constant.StringVal(cs.Value)
					}
				}
			}
		}
		// the quote branch takes precedence: special test is in the else-branch of the quote test
		ors = append(ors, orInfo{bit, g})
	})
	for _, o := range ors {
		switch o.guard {
		case "quote":
			m.quoteBit = o.bit
		case "special":
			m.otherBit = o.bit
		default:
			probs = append(probs, fmt.Sprintf("bit %d is set without a recognised guard", o.bit))
		}
	}
	if m.quoteBit == 0 || m.otherBit == 0 || m.quoteBit == m.otherBit || len(ors) != 2 {
		probs = append(probs, "expected exactly one guarded OR for the quote bit and one for the other bit")
	}
	for i := 0; i < len(setConst); i++ {
		m.specials[setConst[i]] = true
	}
	// results: (v & quoteBit) != 0, (v & otherBit) != 0
	allInstrs(fn, func(in ssa.Instruction) {
		ret, ok := in.(*ssa.Return)
		if !ok || len(ret.Results) != 2 {
			return
		}
		for i, want := range []int64{m.quoteBit, m.otherBit} {
			okR := false
			if ne, ok := ret.Results[i].(*ssa.BinOp); ok && ne.Op == token.NEQ && isConstInt(ne.Y, 0) {
				if and, ok := ne.X.(*ssa.BinOp); ok && and.Op == token.AND && isConstInt(and.Y, want) {
					okR = true
				}
			}
			if !okR {
				probs = append(probs, fmt.Sprintf("result %d is not (v & %d) != 0", i, want))
			}
		}
	})
	// loop: i from 0 step 1 while i < len(s) [&& v < all]
	loopOK := false
	allInstrs(fn, func(in ssa.Instruction) {
		ph, ok := in.(*ssa.Phi)
		if !ok || !isIntType(ph.Type()) {
			return
		}
		init0, step1 := false, false
		for i, e := range ph.Edges {
			if ph.Block().Dominates(ph.Block().Preds[i]) {
				if f, ok := affOf(e, ph, nil, 0); ok && f == (aff{1, 1, 1}) {
					step1 = true
				}
			} else if isConstInt(e, 0) {
				init0 = true
			}
		}
		if !init0 || !step1 {
			return
		}
		for _, r := range referrersOf(ph) {
			if bo, ok := r.(*ssa.BinOp); ok && bo.Op == token.LSS && bo.X == ssa.Value(ph) {
				if ln, ok := isBuiltinCall(bo.Y, "len"); ok && ln.Call.Args[0] == ssa.Value(sParam) {
					loopOK = true
				}
			}
		}
	})
	if !loopOK {
		probs = append(probs, "the scan does not run i = 0,1,… while i < len(s)")
	}
	// early exit only when both bits are set: any `v < K` guard must have K == quoteBit|otherBit
	allInstrs(fn, func(in ssa.Instruction) {
		bo, ok := in.(*ssa.BinOp)
		if !ok || bo.Op != token.LSS {
			return
		}
		if k, ok := constInt(bo.Y); ok {
			if _, isPhi := bo.X.(*ssa.Phi); isPhi && !isIntType(bo.X.Type()) {
				return
			}
			if ph, isPhi := bo.X.(*ssa.Phi); isPhi && ph.Type().String() == "uint" && k != m.quoteBit|m.otherBit {
				probs = append(probs, fmt.Sprintf("the scan stops early at v >= %d, before both bits are known", k))
			}
		}
	})
	c.judge(len(probs) == 0, "R-QUOTABLE-BITS", name, fn.Pos(), fmt.Sprintf("hasQ ⇔ some byte is ', hasOther ⇔ some byte ∈ S (|S| = %d); full scan unless both already set", len(m.specials)), fmt.Sprint(probs))
	if len(probs) > 0 {
		return nil
	}
	return m
}

// ---------------------------------------------------------------- typestate

type qtState struct {
	b, pred *ssa.BasicBlock
	env     string // canonical rendering of tracked booleans
	out     int    // 0 Out, 1 In, 2 Esc
	pending bool   // a fetched input byte has not been written yet
}

type quoteExplorer struct {
	c        *Ctx
	fn       *ssa.Function
	m        *quoteModel
	buf, s   ssa.Value
	hasQ     ssa.Value
	hasOther ssa.Value
	seen     map[string]bool
	problems map[string]token.Pos
	steps    int
}

func envKey(env map[ssa.Value]bool) string {
	var ks []string
	for v, b := range env {
		ks = append(ks, fmt.Sprintf("%s=%v", v.Name(), b))
	}
	sort.Strings(ks)
	return strings.Join(ks, ",")
}

func (q *quoteExplorer) problem(msg string, pos token.Pos) {
	if _, ok := q.problems[msg]; !ok {
		q.problems[msg] = pos
	}
}

// boolVal evaluates a boolean SSA value under env; ok=false if unknown.
func (q *quoteExplorer) boolVal(v ssa.Value, env map[ssa.Value]bool) (bool, bool) {
	if b, ok := env[v]; ok {
		return b, true
	}
	switch x := v.(type) {
	case *ssa.Const:
		if x.Value != nil && x.Value.Kind() == constant.Bool {
			return constant.BoolVal(x.Value), true
		}
	case *ssa.UnOp:
		if x.Op == token.NOT {
			b, ok := q.boolVal(x.X, env)
			return !b, ok
		}
	}
	return false, false
}

func (q *quoteExplorer) explore(b, pred *ssa.BasicBlock, env map[ssa.Value]bool, out int, pending bool) {
	q.steps++
	if q.steps > 20000 {
		q.problem("state space too large", b.Instrs[0].Pos())
		return
	}
	// values defined in b are recomputed on entry
	env2 := map[ssa.Value]bool{}
	for v, x := range env {
		if in, ok := v.(ssa.Instruction); ok && in.Block() == b {
			continue
		}
		env2[v] = x
	}
	env = env2
	// phis
	var phis []*ssa.Phi
	for _, in := range b.Instrs {
		ph, ok := in.(*ssa.Phi)
		if !ok {
			break
		}
		phis = append(phis, ph)
	}
	newVals := map[ssa.Value]bool{}
	for _, ph := range phis {
		if ph.Type().String() != "bool" {
			continue
		}
		for i, p := range b.Preds {
			if p == pred {
				if v, ok := q.boolVal(ph.Edges[i], env); ok {
					newVals[ph] = v
				}
			}
		}
	}
	for v, x := range newVals {
		env[v] = x
	}
	key := fmt.Sprintf("%d|%d|%s|%d|%v", b.Index, predIndex(pred), envKey(env), out, pending)
	if q.seen[key] {
		return
	}
	q.seen[key] = true

	classify := func(x ssa.Value) string {
		if k, ok := constInt(x); ok {
			switch {
			case k == '\'':
				return "QUOTE"
			case k == '\\':
				return "BACKSLASH"
			case q.m.specials[byte(k)]:
				return "CONST-SPECIAL"
			default:
				return "CONST-PLAIN"
			}
		}
		if ix, ok := x.(*ssa.Index); ok && ix.X == q.s {
			// is ch known to be the quote?
			for v, bv := range env {
				if bo, ok := v.(*ssa.BinOp); ok && bo.Op == token.EQL && bo.X == x && isConstInt(bo.Y, '\'') {
					if bv {
						return "CH-QUOTE"
					}
					if ho, ok := q.boolVal(q.hasOther, env); ok && !ho {
						return "CH-PLAIN"
					}
					return "CH-MAYBE-SPECIAL"
				}
			}
			return "CH-UNKNOWN"
		}
		return "OTHER"
	}
	write := func(kind string, pos token.Pos) {
		switch kind {
		case "QUOTE":
			switch out {
			case 0:
				out = 1
			case 1:
				out = 0
			case 2:
				q.problem("a constant quote is written right after the escaping backslash (instead of the input byte)", pos)
			}
		case "BACKSLASH":
			if out != 0 {
				q.problem("the escaping backslash is written while inside single quotes (it would be taken literally)", pos)
			} else {
				out = 2
			}
		case "CH-QUOTE":
			if out != 2 {
				q.problem("a single quote from the input is written without a preceding backslash outside quotes", pos)
			}
			out = 0
		case "CH-MAYBE-SPECIAL":
			if out == 2 {
				q.problem("a non-quote byte follows the escaping backslash", pos)
				out = 0
			} else if out == 0 {
				q.problem("a byte that may be special to the shell is written outside single quotes", pos)
			}
		case "CH-PLAIN", "CONST-PLAIN":
			if out == 2 {
				q.problem("a non-quote byte follows the escaping backslash", pos)
				out = 0
			}
		case "CONST-SPECIAL":
			if out != 1 {
				q.problem("a constant special byte is written outside single quotes", pos)
			}
		default:
			q.problem("a byte of unknown class is written ("+kind+"): the quoting state cannot be tracked", pos)
		}
		if strings.HasPrefix(kind, "CH-") {
			if !pending {
				q.problem("an input byte is written twice", pos)
			}
			pending = false
		}
	}
	for _, in := range b.Instrs {
		switch x := in.(type) {
		case *ssa.Index:
			if x.X == q.s {
				if pending {
					q.problem("an input byte is fetched while the previous one was never written (byte dropped)", x.Pos())
				}
				pending = true
			}
		case *ssa.Call:
			cal := x.Call.StaticCallee()
			if cal == nil || len(x.Call.Args) == 0 || x.Call.Args[0] != q.buf {
				continue
			}
			switch cal.Name() {
			case "WriteByte":
				write(classify(x.Call.Args[1]), x.Pos())
			case "WriteString":
				if cs, ok := x.Call.Args[1].(*ssa.Const); ok && cs.Value != nil {
					for _, ch := range []byte(constant.StringVal(cs.Value)) {
						if ch == '\'' {
							write("QUOTE", x.Pos())
						} else if ch == '\\' {
							write("BACKSLASH", x.Pos())
						} else if q.m.specials[ch] {
							write("CONST-SPECIAL", x.Pos())
						} else {
							write("CONST-PLAIN", x.Pos())
						}
					}
				} else if x.Call.Args[1] == q.s {
					hq, ok1 := q.boolVal(q.hasQ, env)
					ho, ok2 := q.boolVal(q.hasOther, env)
					if !(ok1 && ok2 && !hq && !ho) {
						q.problem("the whole input is written verbatim on a path where it may contain special bytes", x.Pos())
					}
					if out != 0 {
						q.problem("the whole input is written verbatim inside an open quote", x.Pos())
					}
				} else {
					q.problem("a string of unknown content is written", x.Pos())
				}
			case "Grow", "Len", "Cap":
			default:
				q.problem("the buffer is written through "+cal.Name()+", which the quoting typestate does not model (bytes may be re-encoded)", x.Pos())
			}
		case *ssa.Return:
			if out != 0 {
				q.problem("quote returns with an open single quote or a dangling backslash", x.Pos())
			}
			if pending {
				q.problem("quote returns with an input byte fetched but not written", x.Pos())
			}
			return
		case *ssa.If:
			if v, ok := q.boolVal(x.Cond, env); ok {
				idx := 1
				if v {
					idx = 0
				}
				q.explore(b.Succs[idx], b, env, out, pending)
				return
			}
			// unknown: fork, recording the choice for the underlying non-negated value
			base := x.Cond
			neg := false
			for {
				u, ok := base.(*ssa.UnOp)
				if !ok || u.Op != token.NOT {
					break
				}
				base, neg = u.X, !neg
			}
			for _, choice := range []bool{true, false} {
				e2 := map[ssa.Value]bool{}
				for k, v := range env {
					e2[k] = v
				}
				e2[base] = choice != neg
				idx := 1
				if choice {
					idx = 0
				}
				q.explore(b.Succs[idx], b, e2, out, pending)
			}
			return
		case *ssa.Jump:
			q.explore(b.Succs[0], b, env, out, pending)
			return
		case *ssa.Panic:
			return
		}
	}
}

func predIndex(b *ssa.BasicBlock) int {
	if b == nil {
		return -1
	}
	return b.Index
}

func runC15(c *Ctx) {
	P := c.P
	c.Explanation = "Decides: (R-QUOTE-SET) the set S of bytes that force quoting — read by value from the string constant quotable searches, plus the quote byte it tests — contains every byte POSIX XCU 2.2 lists as special (and the conditionally special * ? [ # ~ = %) and every byte the package's own tokenizer classifies as non-ordinary (read from classOf). (R-QUOTABLE-BITS) quotable reports hasQ/hasOther exactly on membership, scanning the whole string unless both are already known. (R-QUOTE-TYPESTATE) an exhaustive exploration of quote's control-flow graph as a boolean program over {inq, hasQ, hasOther, 'ch is a quote'} × output typestate {outside, inside quotes, after backslash} shows: every input byte is written exactly once and in order; a quote byte from the input is always written right after a backslash outside quotes; a byte that may be special is only written inside quotes; the function returns outside quotes. Under the axiom 'ch special ⇒ hasOther' established by R-QUOTABLE-BITS. (R-POOL-RESET) pooled buffers are reset before use, put back on every exit, and never escape. (R-SPLIT-VIA-SCANNER) Split's results come from the scanner only. Does NOT decide Split(Join(ss)) == ss as an input/output fact (that needs C16's tokenizer semantics composed with this), nor what a real shell does."
	c.rule("R-QUOTE-SET", 3, "POSIX special bytes ⊆ S∪{'}; tokenizer-special bytes ⊆ S∪{'}")
	c.rule("R-QUOTABLE-BITS", 1, "quotable's bits are set exactly on membership; full scan")
	c.rule("R-QUOTE-TYPESTATE", 1, "quote's CFG × predicate valuations × output typestate: bytes preserved, quotes escaped outside, specials inside, exit outside")
	c.rule("R-POOL-RESET", 2, "pooled buffers: Reset first, Put on exit, never escape")
	c.rule("R-SPLIT-VIA-SCANNER", 1, "every result of shell.Split is produced by the pooled Scanner (Split/Complete)")
	c.assume("POSIX XCU 2.2 list of special characters: | & ; < > ( ) $ ` \\ \" ' space tab newline, and conditionally * ? [ # ~ = %")

	quotable := P.Func("shell", "", "quotable")
	quote := P.Func("shell", "", "quote")
	quoteFn, joinFn, splitFn := P.Func("shell", "", "Quote"), P.Func("shell", "", "Join"), P.Func("shell", "", "Split")
	if quotable == nil || quote == nil || quoteFn == nil || joinFn == nil || splitFn == nil {
		c.undecided("ANCHOR", "shell.quotable/quote/Quote/Join/Split", 0, "anchor not found")
		return
	}
	c.sawFn(fnName(quotable))
	c.sawFn(fnName(quote))
	m := analyseQuotable(c, quotable)
	if m == nil {
		c.undecided("R-QUOTE-SET", "shell.quotable:set", quotable.Pos(), "the quoting set could not be read")
		c.undecided("R-QUOTE-TYPESTATE", "shell.quote", quote.Pos(), "depends on R-QUOTABLE-BITS")
	} else {
		S := map[byte]bool{'\'': true}
		for b := range m.specials {
			S[b] = true
		}
		var missing []string
		for i := 0; i < len(posixMust); i++ {
			if !S[posixMust[i]] {
				missing = append(missing, fmt.Sprintf("%q", posixMust[i]))
			}
		}
		c.judge(len(missing) == 0, "R-QUOTE-SET", "shell.quotable:POSIX must-quote", quotable.Pos(), "all 16 always-special bytes force quoting", "bytes special to a POSIX shell do not force quoting: "+strings.Join(missing, " "))
		missing = nil
		for i := 0; i < len(posixMay); i++ {
			if !S[posixMay[i]] {
				missing = append(missing, fmt.Sprintf("%q", posixMay[i]))
			}
		}
		c.judge(len(missing) == 0, "R-QUOTE-SET", "shell.quotable:POSIX conditionally-special", quotable.Pos(), "* ? [ # ~ = % force quoting", "conditionally special bytes do not force quoting: "+strings.Join(missing, " "))
		// tokenizer-special bytes
		if sm := extractShellTablesQuiet(c); sm != nil {
			other := sm.classVal["clOther"]
			missing = nil
			for b := 0; b < 256; b++ {
				if sm.classOf[b] != other && !S[byte(b)] {
					missing = append(missing, fmt.Sprintf("%q", rune(b)))
				}
			}
			c.judge(len(missing) == 0, "R-QUOTE-SET", "shell.quotable:tokenizer-special", quotable.Pos(), "every byte the tokenizer treats specially forces quoting", "bytes the package's own tokenizer treats specially are emitted unquoted by Quote: "+strings.Join(missing, " "))
		}
		// typestate
		var hq, ho ssa.Value
		allInstrs(quote, func(in ssa.Instruction) {
			if call, ok := in.(*ssa.Call); ok && staticCallee(&call.Call) == quotable && call.Call.Args[0] == ssa.Value(quote.Params[0]) {
				for _, r := range referrersOf(call) {
					if ex, ok := r.(*ssa.Extract); ok {
						if ex.Index == 0 {
							hq = ex
						} else {
							ho = ex
						}
					}
				}
			}
		})
		if hq == nil || ho == nil || len(quote.Params) != 2 {
			c.undecided("R-QUOTE-TYPESTATE", "shell.quote", quote.Pos(), "quote does not consult quotable(s) for both flags")
		} else {
			q := &quoteExplorer{c: c, fn: quote, m: m, s: quote.Params[0], buf: quote.Params[1], hasQ: hq, hasOther: ho, seen: map[string]bool{}, problems: map[string]token.Pos{}}
			q.explore(quote.Blocks[0], nil, map[ssa.Value]bool{}, 0, false)
			c.Extra["typestate_states_explored"] = len(q.seen)
			if len(q.problems) == 0 {
				c.ok("R-QUOTE-TYPESTATE", "shell.quote", quote.Pos(), fmt.Sprintf("%d (block, valuation, typestate) states explored, no violation", len(q.seen)))
			} else {
				var msgs []string
				var pos token.Pos
				for msg, p := range q.problems {
					msgs = append(msgs, msg+" at "+P.pos(p))
					pos = p
				}
				sort.Strings(msgs)
				c.bad("R-QUOTE-TYPESTATE", "shell.quote", pos, strings.Join(msgs, "; "))
			}
		}
	}
	rulePoolReset(c, []*ssa.Function{quoteFn, joinFn})
	// Quote and Join must produce their result by quote(s, buf) + buf.String()
	for _, fn := range []*ssa.Function{quoteFn, joinFn} {
		usesQuote := false
		allInstrs(fn, func(in ssa.Instruction) {
			if call, ok := in.(*ssa.Call); ok && staticCallee(&call.Call) == quote {
				usesQuote = true
			}
		})
		if !usesQuote {
			c.bad("R-QUOTE-TYPESTATE", fnName(fn)+":uses quote", fn.Pos(), "does not go through quote(s, buf): its output is not covered by the typestate argument")
		}
	}
	ruleSplitViaScanner(c, splitFn)
}

// ruleSplitViaScanner: every return of shell.Split yields (Scanner.Split(), Scanner.Complete()).
func ruleSplitViaScanner(c *Ctx, splitFn *ssa.Function) {
	P := c.P
	scSplit, scComplete := P.Func("shell", "Scanner", "Split"), P.Func("shell", "Scanner", "Complete")
	if splitFn == nil || scSplit == nil || scComplete == nil {
		c.undecided("ANCHOR", "shell.Split / Scanner.Split / Scanner.Complete", 0, "not found")
		return
	}
	c.sawFn(fnName(splitFn))
	resolve := func(v ssa.Value) ssa.Value {
		// look through named-result spills
		if a, ok := loadAddr(v); ok {
			if al, ok := a.(*ssa.Alloc); ok {
				var vals []ssa.Value
				for _, r := range referrersOf(al) {
					if st, ok := r.(*ssa.Store); ok && st.Addr == ssa.Value(al) {
						vals = append(vals, st.Val)
					}
				}
				if len(vals) == 1 {
					return vals[0]
				}
			}
		}
		return v
	}
	var probs []string
	n := 0
	for _, b := range splitFn.Blocks {
		if splitFn.Recover == b {
			continue
		}
		ret, ok := b.Instrs[len(b.Instrs)-1].(*ssa.Return)
		if !ok || len(ret.Results) != 2 {
			continue
		}
		n++
		r0, r1 := resolve(ret.Results[0]), resolve(ret.Results[1])
		c0, ok0 := r0.(*ssa.Call)
		c1, ok1 := r1.(*ssa.Call)
		if !ok0 || staticCallee(&c0.Call) != scSplit {
			probs = append(probs, "a return yields fields not produced by Scanner.Split ("+sym(r0)+")")
		}
		if !ok1 || staticCallee(&c1.Call) != scComplete {
			probs = append(probs, "a return yields a completeness flag not produced by Scanner.Complete ("+sym(r1)+")")
		}
		if ok0 && ok1 && c0.Call.Args[0] != c1.Call.Args[0] {
			probs = append(probs, "fields and flag come from different scanners")
		}
	}
	if n == 0 {
		probs = append(probs, "no return found")
	}
	c.judge(len(probs) == 0, "R-SPLIT-VIA-SCANNER", "shell.Split:results", splitFn.Pos(), "fields = Scanner.Split(), ok = Scanner.Complete() of the same scanner on every return", fmt.Sprint(probs)+": part of the input bypasses the table-driven tokenizer")
}

// extractShellTablesQuiet reads the tables without emitting obligations into c.
func extractShellTablesQuiet(c *Ctx) *shellModel {
	tmp := newCtx(c.P, c.Prop, c.Tier)
	m := extractShellTables(tmp)
	if m == nil {
		c.undecided("R-QUOTE-SET", "shell.classOf", 0, "the tokenizer's class table could not be read")
	}
	return m
}
