package main

// Small rules written against the sixth round of seeded changes (one-site mutations).  Each states its necessary
// condition; floors are 0 and the seeded change is the positive example in the thorough tier.

import (
	"fmt"
	"go/ast"
	"go/token"
	"go/types"
	"regexp"
	"sort"
	"strings"

	"golang.org/x/tools/go/ssa"
)

// ruleExtremeLeaf (R-EXTREME-LEAF): Tree.Min / Tree.Max hand back the key of a node whose small-side (large-side)
// child is known to be nil at the return — the end of the spine, not a node somewhere along it.
func (m *streeModel) ruleExtremeLeaf(c *Ctx) {
	c.rule("R-EXTREME-LEAF", 0, "Tree.Min returns the key of a node whose small-side child is nil at that point, Tree.Max one whose large-side child is nil")
	for _, r := range []struct {
		name string
		fld  *types.Var
	}{{"Min", m.small}, {"Max", m.large}} {
		fn := c.P.Func("stree", "Tree", r.name)
		if fn == nil || r.fld == nil {
			continue
		}
		allInstrs(fn, func(in ssa.Instruction) {
			ret, ok := in.(*ssa.Return)
			if !ok || len(ret.Results) != 1 {
				return
			}
			// the key is loaded from a field of a node value
			ld, ok := ret.Results[0].(*ssa.UnOp)
			if !ok || ld.Op != token.MUL {
				return
			}
			fa, ok := ld.X.(*ssa.FieldAddr)
			if !ok || !isNamedOrigin(fa.X.Type(), m.nodeT) {
				return
			}
			node := fa.X
			endOfSpine := func(node ssa.Value, at *ssa.BasicBlock) bool {
				want := sym(node) + "." + r.fld.Name()
				for _, cm := range cmpsAt(at) {
					if cm.Op == token.EQL && ((isNilConst(cm.Y) && sym(cm.X) == want) || (isNilConst(cm.X) && sym(cm.Y) == want)) {
						return true
					}
				}
				return false
			}
			known := endOfSpine(node, ret.Block())
			if h := m.nodeDelegate(node); h != nil && !known {
				// the descent lives in a helper (root.leftmost()): every node it returns is at the end of the spine
				known = true
				nret := 0
				allInstrs(h, func(in2 ssa.Instruction) {
					if r2, ok := in2.(*ssa.Return); ok && len(r2.Results) == 1 {
						nret++
						if !endOfSpine(r2.Results[0], r2.Block()) {
							known = false
						}
					}
				})
				if nret == 0 {
					known = false
				}
				c.sawFn(fnName(h))
			}
			c.sawFn(fnName(fn))
			c.judge(known, "R-EXTREME-LEAF", fnName(fn)+":end of the spine", ret.Pos(), "."+r.fld.Name()+" == nil at the return", fmt.Sprintf("%s returns the key of a node without knowing that its .%s child is nil: a node part-way down the spine is taken for the extreme one (a descent that is not a loop)", r.name, r.fld.Name()))
		})
	}
}

// ruleSuccessorLeaf (part of R-EXTREME-LEAF): the helper that unlinks the in-order successor during a removal hands
// back the MINIMUM of the subtree it was given: the node it returns has no small-side child, by a branch fact that
// dominates the return (the exit edge of the walk down the small side).  A walk that is an `if` instead of a loop
// stops one level down and loses the rest of the spine.
func (m *streeModel) ruleSuccessorLeaf(c *Ctx) {
	fn := m.successorPop()
	if fn == nil || m.small == nil {
		return
	}
	n := 0
	allInstrs(fn, func(in ssa.Instruction) {
		ret, ok := in.(*ssa.Return)
		if !ok || len(ret.Results) != 1 || !isNamedOrigin(ret.Results[0].Type(), m.nodeT) {
			return
		}
		node := ret.Results[0]
		want := sym(node) + "." + m.small.Name()
		known := false
		for _, cm := range cmpsAt(ret.Block()) {
			if cm.Op == token.EQL && ((isNilConst(cm.Y) && sym(cm.X) == want) || (isNilConst(cm.X) && sym(cm.Y) == want)) {
				known = true
			}
		}
		n++
		c.sawFn(fnName(fn))
		c.judge(known, "R-EXTREME-LEAF", fmt.Sprintf("%s:detaches the minimum #%d", fnName(fn), n), ret.Pos(), "."+m.small.Name()+" == nil for the node handed back", fmt.Sprintf("%s hands back a node without knowing that its .%s child is nil: it is not the minimum of the subtree (a walk that stops part-way down the spine), and the smaller keys hanging under it are detached with it", fn.Name(), m.small.Name()))
	})
}

// ruleMoveNonNil (R-MOVE-NONNIL): the position callback is called unconditionally by every heap operation; every
// value stored into its field is a function (named or closure), or a parameter on a path where it is known non-nil.
func ruleMoveNonNil(c *Ctx, m *heapModel) {
	c.rule("R-MOVE-NONNIL", 0, "every value stored into the queue's position-callback field is a function, or a parameter known to be non-nil")
	for _, fn := range c.P.PkgFuncs("heapq") {
		fn := fn
		allInstrs(fn, func(in ssa.Instruction) {
			st, ok := in.(*ssa.Store)
			if !ok {
				return
			}
			fa, ok := st.Addr.(*ssa.FieldAddr)
			if !ok {
				return
			}
			if _, f := fieldVarOf(fa); !sameField(f, m.moveF) {
				return
			}
			v := st.Val
			for {
				if ct, ok := v.(*ssa.ChangeType); ok {
					v = ct.X
					continue
				}
				break
			}
			good, why := false, ""
			switch x := v.(type) {
			case *ssa.Function, *ssa.MakeClosure:
				good = true
			case *ssa.Parameter:
				for _, cm := range cmpsAt(st.Block()) {
					if cm.X == ssa.Value(x) && isNilConst(cm.Y) && cm.Op == token.NEQ {
						good = true
					}
					if cm.X == ssa.Value(x) && isNilConst(cm.Y) && cm.Op == token.EQL {
						why = "it is stored on the very path where it is nil"
					}
				}
				if !good && why == "" {
					// stored first and corrected afterwards: on every way from here to a return on which the
					// parameter is nil, the field is given a function before the return
					corrected := func(y ssa.Instruction) bool {
						st2, ok := y.(*ssa.Store)
						if !ok || st2 == st || sym(st2.Addr) != sym(st.Addr) {
							return false
						}
						switch st2.Val.(type) {
						case *ssa.Function, *ssa.MakeClosure:
							return true
						}
						return false
					}
					w := walkFromE(st, false, corrected, func(iff *ssa.If, succ int) bool {
						cm, ok := edgeCmp(iff, succ)
						return ok && cm.X == ssa.Value(x) && isNilConst(cm.Y) && cm.Op == token.NEQ // non-nil there: nothing to correct
					})
					leaks := false
					for _, y := range w.order {
						if _, isRet := y.(*ssa.Return); isRet {
							leaks = true
						}
						if _, isCall := y.(ssa.CallInstruction); isCall {
							leaks = true // anything may call it before the correction
						}
					}
					if !leaks {
						good = true
					} else {
						why = "nothing on the path says it is non-nil"
					}
				}
			case *ssa.UnOp:
				// a copy from another queue's field (Clone-like): as good as its source
				if _, f := loadedField(x); f != nil && sameField(f, m.moveF) {
					good = true
				}
			default:
				if isNilConst(v) {
					why = "a nil function"
				} else {
					return // not judged
				}
			}
			c.sawFn(fnName(fn))
			c.judge(good, "R-MOVE-NONNIL", fmt.Sprintf("%s:%s=%s", fnName(fn), m.moveF.Name(), ksym(v)), st.Pos(), "a function", fmt.Sprintf("the position callback is set to %s (%s): every later Add, Pop, Remove, Set or Reorder calls it and panics", ksym(v), why))
		})
	}
}

// ruleEmptyAgreesLen (R-EMPTY-LEN): IsEmpty and Len of one container speak about the same quantity: IsEmpty tests
// against zero exactly the expression Len returns (or calls Len).
// ruleEmptyPolarity: the polarity half of R-EMPTY-LEN only, for types whose emptiness is not a count (a nil ring,
// a list whose first link is nil).
func ruleEmptyPolarity(c *Ctx, pkg, typ string) { ruleEmptyAgreesLenOpt(c, pkg, typ, true) }

func ruleEmptyAgreesLen(c *Ctx, pkg, typ string) { ruleEmptyAgreesLenOpt(c, pkg, typ, false) }

func ruleEmptyAgreesLenOpt(c *Ctx, pkg, typ string, polarityOnly bool) {
	c.rule("R-EMPTY-LEN", 0, "IsEmpty compares with zero the very quantity Len returns")
	ln, ie := c.P.Func(pkg, typ, "Len"), c.P.Func(pkg, typ, "IsEmpty")
	// polarity: whatever is tested, the answer is true for "nothing" and false for "something": count == 0 (not
	// != 0), receiver == nil (not != nil)
	if ie != nil && len(ie.Params) > 0 {
		k := 0
		allInstrs(ie, func(in ssa.Instruction) {
			r2, ok := in.(*ssa.Return)
			if !ok || len(r2.Results) != 1 {
				return
			}
			bo, ok := r2.Results[0].(*ssa.BinOp)
			if !ok {
				return
			}
			x, y, op := bo.X, bo.Y, bo.Op
			if _, isC := x.(*ssa.Const); isC {
				x, y, op = y, x, flipOp(op)
			}
			verdict, known := false, false
			if isNilConst(y) {
				verdict, known = op == token.EQL, op == token.EQL || op == token.NEQ
			} else if kk, isK := constInt(y); isK {
				at := func(v int64) bool {
					switch op {
					case token.EQL:
						return v == kk
					case token.NEQ:
						return v != kk
					case token.LSS:
						return v < kk
					case token.LEQ:
						return v <= kk
					case token.GTR:
						return v > kk
					case token.GEQ:
						return v >= kk
					}
					return false
				}
				verdict, known = at(0) && !at(1) && !at(2), true
			}
			if !known {
				return
			}
			k++
			c.sawFn(fnName(ie))
			c.judge(verdict, "R-EMPTY-LEN", fmt.Sprintf("%s:polarity #%d", fnName(ie), k), bo.Pos(), "true for nothing, false for something", fmt.Sprintf("IsEmpty returns %s %s %s: it answers true for a container that holds something (or false for one that holds nothing)", ksym(x), op, ksym(y)))
		})
	}
	if polarityOnly || ln == nil || ie == nil || len(ln.Blocks) != 1 || len(ln.Params) == 0 || len(ie.Params) == 0 {
		return
	}
	ret, ok := ln.Blocks[0].Instrs[len(ln.Blocks[0].Instrs)-1].(*ssa.Return)
	if !ok || len(ret.Results) != 1 {
		return
	}
	// canonical text of a value with the receiver's name replaced
	canon := func(v ssa.Value, fn *ssa.Function) string {
		re := regexp.MustCompile(`\b` + regexp.QuoteMeta(fn.Params[0].Name()) + `\b`)
		return re.ReplaceAllString(ksym(v), "§")
	}
	want := canon(ret.Results[0], ln)
	var got []string
	agrees := false
	allInstrs(ie, func(in ssa.Instruction) {
		r2, ok := in.(*ssa.Return)
		if !ok || len(r2.Results) != 1 {
			return
		}
		bo, ok := r2.Results[0].(*ssa.BinOp)
		if !ok {
			return // delegated (list.IsEmpty()) or computed otherwise: not judged
		}
		x := bo.X
		if _, isC := x.(*ssa.Const); isC {
			x = bo.Y
		}
		got = append(got, ksym(x))
		if call, ok := x.(*ssa.Call); ok {
			if cal := staticCallee(&call.Call); cal != nil && origin(cal) == origin(ln) {
				agrees = true
			}
		}
		if canon(x, ie) == want {
			agrees = true
		}
	})
	if len(got) == 0 {
		return
	}
	c.sawFn(fnName(ie))
	c.judge(agrees, "R-EMPTY-LEN", fnName(ie)+":tests what Len returns", ie.Pos(), strings.TrimSpace(strings.ReplaceAll(want, "§", "recv")), fmt.Sprintf("IsEmpty tests %s while Len returns %s: a container can report length 0 and not be empty (or the reverse)", strings.Join(got, ", "), ksym(ret.Results[0])))
}

// rulePointerReceivers (R-RECV-POINTER): a method that assigns a field of its receiver has a pointer receiver —
// with a value receiver the assignment goes to a copy and is lost.
func rulePointerReceivers(c *Ctx, pkg, typ string) {
	c.rule("R-RECV-POINTER", 0, "a method that assigns a field of its receiver has a pointer receiver")
	for _, fn := range c.P.Methods(pkg, typ) {
		recv := fn.Signature.Recv()
		if recv == nil || len(fn.Params) == 0 {
			continue
		}
		if _, isPtr := recv.Type().Underlying().(*types.Pointer); isPtr {
			continue
		}
		// value receiver: spilled to a cell; stores into fields of that cell are lost
		var lost []string
		allInstrs(fn, func(in ssa.Instruction) {
			st, ok := in.(*ssa.Store)
			if !ok {
				return
			}
			fa, ok := st.Addr.(*ssa.FieldAddr)
			if !ok {
				return
			}
			al, ok := fa.X.(*ssa.Alloc)
			if !ok {
				return
			}
			for _, r := range referrersOf(al) {
				if s2, ok := r.(*ssa.Store); ok && s2.Addr == ssa.Value(al) && s2.Val == ssa.Value(fn.Params[0]) {
					_, f := fieldVarOf(fa)
					lost = append(lost, "."+f.Name()+" at "+c.P.pos(st.Pos()))
				}
			}
		})
		if len(lost) == 0 {
			continue
		}
		sort.Strings(lost)
		c.sawFn(fnName(fn))
		c.bad("R-RECV-POINTER", fnName(fn)+":assigns receiver fields", fn.Pos(), fmt.Sprintf("the method has a value receiver and assigns %s: the assignment changes a copy, the caller's value keeps its old state", strings.Join(lost, ", ")))
	}
}

// loopBlocks: the natural loop of header h (blocks dominated by h from which h is reachable without leaving h's
// dominance region).
func loopBlocks(h *ssa.BasicBlock) map[*ssa.BasicBlock]bool {
	in := map[*ssa.BasicBlock]bool{h: true}
	var work []*ssa.BasicBlock
	for _, p := range h.Preds {
		if h.Dominates(p) && !in[p] {
			in[p] = true
			work = append(work, p)
		}
	}
	for len(work) > 0 {
		b := work[len(work)-1]
		work = work[:len(work)-1]
		for _, p := range b.Preds {
			if !in[p] && h.Dominates(p) {
				in[p] = true
				work = append(work, p)
			}
		}
	}
	return in
}

// ruleInvalidatorExits (part of R-DETACH-INVALIDATE): the loop of the invalidator has no way out other than "the
// entry variable is nil": an exit on any other condition leaves the rest of the detached chain unmarked.
func ruleInvalidatorExits(c *Ctx, inval *ssa.Function, linkF *types.Var) {
	for _, h := range inval.Blocks {
		isHeader := false
		for _, p := range h.Preds {
			if h.Dominates(p) {
				isHeader = true
			}
		}
		if !isHeader {
			continue
		}
		lp := loopBlocks(h)
		var bad []string
		n := 0
		for b := range lp {
			iff, ok := b.Instrs[len(b.Instrs)-1].(*ssa.If)
			if !ok {
				continue
			}
			for i, s := range b.Succs {
				if lp[s] {
					continue
				}
				n++
				cm, ok := edgeCmp(iff, i)
				good := false
				if ok && cm.Op == token.EQL {
					for _, pr := range [][2]ssa.Value{{cm.X, cm.Y}, {cm.Y, cm.X}} {
						if ph, isPhi := pr[0].(*ssa.Phi); isPhi && ph.Block() == h && isNilConst(pr[1]) {
							good = true
						}
					}
				}
				if !good {
					d := "a condition that is not a comparison"
					if ok {
						d = fmt.Sprintf("%s %s %s", ksym(cm.X), cm.Op, ksym(cm.Y))
					}
					bad = append(bad, d+" at "+c.P.pos(iff.Pos()))
				}
			}
		}
		if n == 0 {
			continue
		}
		sort.Strings(bad)
		c.sawFn(fnName(inval))
		c.judge(len(bad) == 0, "R-DETACH-INVALIDATE", fnName(inval)+":stops only at the end of the chain", inval.Pos(), "the loop ends only when the entry variable is nil", fmt.Sprintf("the invalidator's loop can also end on %s: the entries from there on stay unmarked, and cursors left on them keep working on a detached chain instead of panicking", strings.Join(bad, "; ")))
	}
}

// ruleMergedTail (R-MERGE-TAIL): a loop that appends to an output slice and consults an element of that same slice
// to decide about the next input consults the last element (index len−1, or −1 through the slice.At / PtrAt
// helpers), not a fixed one.
func ruleMergedTail(c *Ctx) {
	c.rule("R-MERGE-TAIL", 0, "where UnifyChunks consults the output built so far, it reads its last element")
	fn := c.P.Func("mdiff", "", "UnifyChunks")
	if fn == nil {
		return
	}
	// output slices: φs (or cells) that receive append(self, …) in a loop
	isOut := func(v ssa.Value) bool {
		ph, ok := v.(*ssa.Phi)
		if !ok {
			return false
		}
		for _, e := range ph.Edges {
			if ap, ok := isBuiltinCall(e, "append"); ok && ap.Call.Args[0] == ssa.Value(ph) {
				return true
			}
			if p2, ok := e.(*ssa.Phi); ok {
				for _, e2 := range p2.Edges {
					if ap, ok := isBuiltinCall(e2, "append"); ok && ap.Call.Args[0] == ssa.Value(ph) {
						return true
					}
				}
			}
		}
		return false
	}
	n := 0
	allInstrs(fn, func(in ssa.Instruction) {
		switch x := in.(type) {
		case *ssa.Call:
			cal := staticCallee(&x.Call)
			if cal == nil || origin(cal).Pkg == nil || origin(cal).Pkg.Pkg.Name() != "slice" || (origin(cal).Name() != "At" && origin(cal).Name() != "PtrAt") || len(x.Call.Args) != 2 {
				return
			}
			a := x.Call.Args[0]
			if ct, ok := a.(*ssa.ChangeType); ok {
				a = ct.X
			}
			if !isOut(a) {
				return
			}
			n++
			k, isK := constInt(x.Call.Args[1])
			c.sawFn(fnName(fn))
			c.judge(isK && k == -1, "R-MERGE-TAIL", fmt.Sprintf("%s:consults the output #%d", fnName(fn), n), x.Pos(), "its last element", fmt.Sprintf("the chunk the incoming one is compared with is element %s of the output built so far, not its last: once the output has two chunks, later ones are merged into (or kept apart from) the wrong neighbour", ksym(x.Call.Args[1])))
		case *ssa.IndexAddr:
			if !isOut(x.X) {
				return
			}
			n++
			last := false
			if bo, ok := x.Index.(*ssa.BinOp); ok && bo.Op == token.SUB && isConstInt(bo.Y, 1) {
				if ln, ok := isBuiltinCall(bo.X, "len"); ok && ln.Call.Args[0] == x.X {
					last = true
				}
			}
			c.sawFn(fnName(fn))
			c.judge(last, "R-MERGE-TAIL", fmt.Sprintf("%s:consults the output #%d", fnName(fn), n), x.Pos(), "its last element", fmt.Sprintf("the chunk the incoming one is compared with is element %s of the output built so far, not its last", ksym(x.Index)))
		}
	})
}

// ruleTrimAmount (R-TRIM-AMOUNT): in UnifyChunks a context span is cut by k lines and the chunk's range is moved by
// the same k.  The amount cut off a span (x[:len(x)−k] or x[k:]) must be one of the amounts the ranges are adjusted
// by in that function.
func ruleTrimAmount(c *Ctx) {
	c.rule("R-TRIM-AMOUNT", 0, "a context span in UnifyChunks is cut by an amount by which a range bound is also adjusted")
	fn := c.P.Func("mdiff", "", "UnifyChunks")
	if fn == nil {
		return
	}
	chunkT := c.P.Named("mdiff", "Chunk")
	if chunkT == nil {
		return
	}
	adj := map[string]bool{}
	for _, f := range buildCallScope(fn).fns {
		allInstrs(f, func(in ssa.Instruction) {
			st, ok := in.(*ssa.Store)
			if !ok {
				return
			}
			fa, ok := st.Addr.(*ssa.FieldAddr)
			if !ok || !isNamedOrigin(fa.X.Type(), chunkT) {
				return
			}
			_, fld := fieldVarOf(fa)
			if !isIntType(fld.Type()) {
				return
			}
			if bo, ok := st.Val.(*ssa.BinOp); ok && (bo.Op == token.ADD || bo.Op == token.SUB) {
				if _, f2 := loadedField(bo.X); f2 != nil && sameField(f2, fld) {
					adj[ksym(bo.Y)] = true
				}
			}
		})
	}
	if len(adj) == 0 {
		return
	}
	n := 0
	for _, f := range buildCallScope(fn).fns {
		f := f
		allInstrs(f, func(in ssa.Instruction) {
			st, ok := in.(*ssa.Store)
			if !ok {
				return
			}
			sl, ok := st.Val.(*ssa.Slice)
			if !ok {
				return
			}
			// a span re-sliced onto itself
			fa, ok := st.Addr.(*ssa.FieldAddr)
			if !ok {
				return
			}
			if _, isStr := fa.Type().Underlying().(*types.Pointer).Elem().Underlying().(*types.Slice); !isStr {
				return
			}
			if _, fld := fieldVarOf(fa); fld.Name() != "X" && fld.Name() != "Y" {
				return
			}
			if ld, ok := sl.X.(*ssa.UnOp); !ok || ld.Op != token.MUL || sym(ld.X) != sym(fa) {
				// a cut of ANOTHER span stored into this one: an edit's span is only ever cut onto itself
				if ld, ok := sl.X.(*ssa.UnOp); ok && ld.Op == token.MUL {
					if fa2, ok := ld.X.(*ssa.FieldAddr); ok {
						if _, f2 := fieldVarOf(fa2); f2 != nil && (f2.Name() == "X" || f2.Name() == "Y") && types.Identical(fa2.Type(), fa.Type()) {
							n++
							c.sawFn(fnName(f))
							c.bad("R-TRIM-AMOUNT", fmt.Sprintf("%s:span cut #%d onto itself", fnName(f), n), st.Pos(), fmt.Sprintf("the span %s is overwritten with a cut of %s: the lines of one span replace those of another (an edit's other side, or the neighbouring edit)", ksym(fa), ksym(fa2)))
						}
					}
				}
				return
			}
			var amount ssa.Value
			switch {
			case sl.Low != nil && sl.High == nil:
				amount = sl.Low
			case sl.Low == nil && sl.High != nil:
				if bo, ok := sl.High.(*ssa.BinOp); ok && bo.Op == token.SUB {
					if ln, ok := isBuiltinCall(bo.X, "len"); ok && sym(ln.Call.Args[0]) == sym(sl.X) {
						amount = bo.Y
					} else if ok {
						if _, f2 := loadedField(ln.Call.Args[0]); f2 != nil && (f2.Name() == "X" || f2.Name() == "Y") {
							n++
							c.sawFn(fnName(f))
							c.bad("R-TRIM-AMOUNT", fmt.Sprintf("%s:span cut #%d measured on itself", fnName(f), n), st.Pos(), fmt.Sprintf("the span %s is cut back to the length of another span (%s) less the overlap: what remains has nothing to do with its own length (and the slice expression panics when the other span is longer)", ksym(fa), ksym(ln.Call.Args[0])))
							return
						}
					}
				}
			}
			if amount == nil {
				return
			}
			n++
			// only context is trimmed: the edit whose span is cut is known to be an Emit edit here ('=' is the
			// opcode of slice.OpEmit, read from the constant's value)
			{
				isEmit := false
				for _, cm := range cmpsAt(st.Block()) {
					if cm.Op != token.EQL {
						continue
					}
					for _, pr := range [][2]ssa.Value{{cm.X, cm.Y}, {cm.Y, cm.X}} {
						k, isK := constInt(pr[1])
						if !isK || k != '=' {
							continue
						}
						if base, opf := loadedField(pr[0]); opf != nil && opf.Name() == "Op" && sym(base) == sym(fa.X) {
							isEmit = true
						}
					}
				}
				// the cut lives in a helper that is handed the edit: the fact is then owed by every call site
				if prm, isP := fa.X.(*ssa.Parameter); isP && !isEmit && f.Object() != nil && !f.Object().Exported() {
					pi := -1
					for i, q := range f.Params {
						if q == prm {
							pi = i
						}
					}
					sites, good := 0, 0
					for _, g := range c.P.PkgFuncs("mdiff") {
						allInstrs(g, func(in2 ssa.Instruction) {
							call, ok := in2.(*ssa.Call)
							if !ok || origin(staticCallee(&call.Call)) != origin(f) || pi < 0 || pi >= len(call.Call.Args) {
								return
							}
							sites++
							arg := call.Call.Args[pi]
							for _, cm := range cmpsAt(call.Block()) {
								if cm.Op != token.EQL {
									continue
								}
								for _, pr := range [][2]ssa.Value{{cm.X, cm.Y}, {cm.Y, cm.X}} {
									k, isK := constInt(pr[1])
									if !isK || k != '=' {
										continue
									}
									if base, opf := loadedField(pr[0]); opf != nil && opf.Name() == "Op" && sym(base) == sym(arg) {
										good++
										return
									}
								}
							}
						})
					}
					if sites > 0 && good == sites {
						isEmit = true
					}
				}
				c.sawFn(fnName(f))
				c.judge(isEmit, "R-TRIM-AMOUNT", fmt.Sprintf("%s:span cut #%d is context", fnName(f), n), st.Pos(), "the trimmed edit is known to be OpEmit", "a span is trimmed on a path where its edit is not known to be an Emit (context) edit: lines that the diff deletes, inserts or replaces are cut away, and the chunk no longer describes the change")
			}
			var as []string
			for a := range adj {
				as = append(as, a)
			}
			sort.Strings(as)
			c.sawFn(fnName(f))
			c.judge(adj[ksym(amount)], "R-TRIM-AMOUNT", fmt.Sprintf("%s:span cut #%d", fnName(f), n), st.Pos(), "cut by "+ksym(amount), fmt.Sprintf("the span is cut by %s lines, but the chunk ranges are only ever moved by %s: after the cut the edits consume and produce a different number of lines than the ranges say", ksym(amount), strings.Join(as, ", ")))
		})
	}
}

// ruleSuccessAtEOF (R-SUCCESS-AT-EOF): a reader that collects a list of patches reports success only where its
// scan for the next patch met the end of the input.
func ruleSuccessAtEOF(c *Ctx) {
	c.rule("R-SUCCESS-AT-EOF", 0, "a multi-patch reader returns its list with a nil error only behind an edge on which the scan for the next patch reported io.EOF")
	for _, fn := range c.P.PkgFuncs("mdiff") {
		res := fn.Signature.Results()
		if fn.Parent() != nil || res.Len() != 2 {
			continue
		}
		if sl, ok := res.At(0).Type().Underlying().(*types.Slice); !ok || !strings.HasSuffix(sl.Elem().String(), "Patch") {
			continue
		}
		fn := fn
		n := 0
		allInstrs(fn, func(in ssa.Instruction) {
			ret, ok := in.(*ssa.Return)
			if !ok || len(ret.Results) != 2 || !isNilConst(ret.Results[1]) || isNilConst(ret.Results[0]) {
				return
			}
			n++
			atEOF := false
			for _, cm := range cmpsAt(ret.Block()) {
				if cm.Op != token.EQL {
					continue
				}
				for _, v := range []ssa.Value{cm.X, cm.Y} {
					if ld, ok := v.(*ssa.UnOp); ok {
						if g, ok := ld.X.(*ssa.Global); ok && g.Name() == "EOF" {
							atEOF = true
						}
					}
				}
			}
			c.sawFn(fnName(fn))
			c.judge(atEOF, "R-SUCCESS-AT-EOF", fmt.Sprintf("%s:success return #%d", fnName(fn), n), ret.Pos(), "behind err == io.EOF", "the list of patches is returned as complete on a path where the end of the input has not been seen: the patches for the remaining files are silently dropped")
		})
	}
}

// ruleGuardSide (R-GUARD-SIDE): `if hasRelevantEdits(es, OP) { for … switch e.Op { case A: … case B: … } }` — the
// section is written when edits of kind OP exist; OP must be the side-specific opcode among the cases of the guarded
// switch (the one that is neither context nor replacement, which the predicate itself adds).
func ruleGuardSide(c *Ctx) {
	c.rule("R-GUARD-SIDE", 0, "a section of the context format guarded by 'has edits of kind OP' is guarded by the side-specific opcode its own switch writes")
	p := c.P.Pkgs["mdiff"]
	if p == nil {
		return
	}
	info := p.TypesInfo
	for _, file := range p.Syntax {
		if strings.HasSuffix(c.P.Fset.Position(file.Pos()).Filename, canaryFile) {
			continue
		}
		var fname string
		ast.Inspect(file, func(n ast.Node) bool {
			if fd, ok := n.(*ast.FuncDecl); ok {
				fname = fd.Name.Name
			}
			ifs, ok := n.(*ast.IfStmt)
			if !ok {
				return true
			}
			call, ok := ifs.Cond.(*ast.CallExpr)
			if !ok {
				return true
			}
			var g int64
			haveG := false
			for _, a := range call.Args {
				if tv, ok := info.Types[a]; ok {
					if nt, ok := tv.Type.(*types.Named); ok && nt.Obj().Name() == "EditOp" {
						if k, ok := constIntOf(info, a); ok {
							g, haveG = k, true
						}
					}
				}
			}
			if !haveG {
				return true
			}
			arms, sw := opSwitchArms(info, ifs.Body)
			if sw == nil || len(arms) == 0 {
				return true
			}
			var side []string
			okG := false
			for op := range arms {
				if op != '=' && op != '!' {
					side = append(side, opNames[op])
					if op == g {
						okG = true
					}
				}
			}
			if len(side) == 0 {
				return true
			}
			sort.Strings(side)
			c.sawFn("mdiff." + fname)
			c.judge(okG, "R-GUARD-SIDE", fmt.Sprintf("mdiff.%s:section guarded by %s", fname, opNames[g]), ifs.Pos(), "the guard names the side's own opcode "+strings.Join(side, ","), fmt.Sprintf("the section whose switch writes %s lines is emitted only when edits of kind %s exist: a hunk that has %s edits but no %s loses those lines", strings.Join(side, ","), opNames[g], strings.Join(side, ","), opNames[g]))
			return true
		})
	}
}

// ruleAddAllAdopts / ruleAppendKeeps (C18): on a nil receiver AddAll stores a clone OF ITS ARGUMENT; every slice
// Append returns contains the caller's slice (it is the argument, or an append onto it).
func ruleSetArgFlow(c *Ctx) {
	c.rule("R-ARG-FLOW", 0, "AddAll's nil-receiver branch clones its argument; every result of Append is built on the slice it was given")
	P := c.P
	if fn := P.Func("mapset", "Set", "AddAll"); fn != nil && len(fn.Params) == 2 {
		allInstrs(fn, func(in ssa.Instruction) {
			st, ok := in.(*ssa.Store)
			if !ok || st.Addr != ssa.Value(fn.Params[0]) {
				return
			}
			call, ok := st.Val.(*ssa.Call)
			if !ok {
				return
			}
			cal := staticCallee(&call.Call)
			if cal == nil || len(call.Call.Args) == 0 {
				return
			}
			// the map that is copied
			src := call.Call.Args[0]
			if ct, ok := src.(*ssa.ChangeType); ok {
				src = ct.X
			}
			c.sawFn(fnName(fn))
			c.judge(src == ssa.Value(fn.Params[1]), "R-ARG-FLOW", fnName(fn)+":nil receiver takes a copy of the argument", st.Pos(), cal.Name()+"("+ksym(src)+")", fmt.Sprintf("the receiver is set to %s(%s), not to a copy of the argument set: the elements to be added are ignored when the receiver was nil", cal.Name(), ksym(src)))
		})
	}
	if fn := P.Func("mapset", "Set", "Append"); fn != nil && len(fn.Params) == 2 {
		vs := fn.Params[1]
		var onto func(v ssa.Value, d int) bool
		onPath := map[ssa.Value]bool{}
		onto = func(v ssa.Value, d int) bool {
			if d > 12 {
				return false
			}
			switch x := v.(type) {
			case *ssa.Parameter:
				return x == vs
			case *ssa.Phi:
				if onPath[x] {
					return true // a loop-carried slice: judged by its other edges
				}
				onPath[x] = true
				defer func() { onPath[x] = false }()
				for _, e := range x.Edges {
					if e != ssa.Value(x) && !onto(e, d+1) {
						return false
					}
				}
				return true
			case *ssa.Call:
				if ap, ok := isBuiltinCall(x, "append"); ok {
					return onto(ap.Call.Args[0], d+1)
				}
				if cal := staticCallee(&x.Call); cal != nil && len(x.Call.Args) > 0 && cal.Pkg != nil && cal.Pkg.Pkg.Path() == "slices" && (cal.Name() == "Grow" || cal.Name() == "Clip" || cal.Name() == "AppendSeq") {
					return onto(x.Call.Args[0], d+1)
				}
			case *ssa.ChangeType:
				return onto(x.X, d+1)
			case *ssa.Slice:
				// vs[:n] keeps the front of vs (whether n is in range is not this rule's business)
				if x.Low == nil {
					return onto(x.X, d+1)
				}
			case *ssa.UnOp:
				// a captured / spilled variable: every value stored into the cell
				if al, ok := x.X.(*ssa.Alloc); ok && x.Op == token.MUL {
					n := 0
					for _, f := range withClosures(fn) {
						_ = f
					}
					for _, r := range referrersOf(al) {
						if st, ok := r.(*ssa.Store); ok && st.Addr == ssa.Value(al) {
							n++
							if !onto(st.Val, d+1) {
								return false
							}
						}
					}
					return n > 0
				}
			}
			return false
		}
		n := 0
		allInstrs(fn, func(in ssa.Instruction) {
			ret, ok := in.(*ssa.Return)
			if !ok || len(ret.Results) != 1 {
				return
			}
			n++
			c.sawFn(fnName(fn))
			c.judge(onto(ret.Results[0], 0), "R-ARG-FLOW", fmt.Sprintf("%s:result #%d is built on the given slice", fnName(fn), n), ret.Pos(), "vs or append(vs, …)", fmt.Sprintf("Append returns %s, which does not contain the slice it was given: the caller's elements are dropped", ksym(ret.Results[0])))
		})
	}
}

// ruleCounterPass (C19): inside the removal pass of Counter.Add
//   - whether an element is removed depends on the random bits only, never on which element it is or on the value
//     just added (R-PASS-UNIFORM);
//   - the test that triggers a refill of the random word examines the countdown of unused bits — the variable the
//     refill re-arms with a positive constant and every iteration decrements — not the word itself (R-REFILL-COUNTER).
func ruleCounterPass(c *Ctx, m *counterModel) {
	c.rule("R-PASS-UNIFORM", 0, "in the removal pass the decision to remove an element depends on random bits only")
	c.rule("R-REFILL-COUNTER", 0, "the refill of the random word is triggered by the countdown of unused bits")
	for fn := range m.methods {
		if fn.Name() != "Add" {
			continue
		}
		for _, f := range m.closure(fn) {
			f := f
			for _, wf := range withClosures(f) {
				wf := wf
				allInstrs(wf, func(in ssa.Instruction) {
					// removals inside a range over the buffer
					e, _, _, elems, ok := m.bufEvent(in)
					if ok && e.shrinks && !e.grows {
						// conditions between the loop header and this block
						var hdr *ssa.BasicBlock
						for h := range wf.Blocks {
							b := wf.Blocks[h]
							isH := false
							for _, p := range b.Preds {
								if b.Dominates(p) {
									isH = true
								}
							}
							if isH && b.Dominates(in.Block()) && loopBlocks(b)[in.Block()] {
								if hdr == nil || hdr.Dominates(b) {
									hdr = b
								}
							}
						}
						if hdr == nil || len(elems) == 0 {
							return
						}
						// is it a pass (the removed element is the loop's own element)?
						var uses func(v ssa.Value, target ssa.Value, d int) bool
						uses = func(v, target ssa.Value, d int) bool {
							if v == target {
								return true
							}
							if d > 5 {
								return false
							}
							switch x := v.(type) {
							case *ssa.BinOp:
								return uses(x.X, target, d+1) || uses(x.Y, target, d+1)
							case *ssa.UnOp:
								return uses(x.X, target, d+1)
							case *ssa.Convert:
								return uses(x.X, target, d+1)
							case *ssa.ChangeType:
								return uses(x.X, target, d+1)
							case *ssa.MakeInterface:
								return uses(x.X, target, d+1)
							case *ssa.Call:
								for _, a := range x.Call.Args {
									if uses(a, target, d+1) {
										return true
									}
								}
							}
							return false
						}
						elt := elems[0]
						if _, isEx := elt.(*ssa.Extract); !isEx {
							return // not the element of a range loop
						}
						var bad []string
						for _, fct := range factsAt(in.Block()) {
							ci, ok := fct.Cond.(ssa.Instruction)
							if !ok || !loopBlocks(hdr)[ci.Block()] || ci.Block() == hdr {
								continue
							}
							dep := uses(fct.Cond, elt, 0)
							for _, p := range fn.Params[1:] {
								if uses(fct.Cond, p, 0) {
									dep = true
								}
							}
							if dep {
								bad = append(bad, ksym(fct.Cond))
							}
						}
						// every coin is a fresh bit: the register whose bit decides is shifted (or refilled) on every way
						// round the pass — no back edge carries it on unchanged
						for _, fct := range factsAt(in.Block()) {
							ci, ok := fct.Cond.(ssa.Instruction)
							if !ok || !loopBlocks(hdr)[ci.Block()] {
								continue
							}
							cmpb, ok := fct.Cond.(*ssa.BinOp)
							if !ok {
								continue
							}
							and, ok := cmpb.X.(*ssa.BinOp)
							if !ok || and.Op != token.AND {
								continue
							}
							// the header φ of the register
							var R *ssa.Phi
							seenV := map[ssa.Value]bool{}
							var find func(v ssa.Value, d int)
							find = func(v ssa.Value, d int) {
								if seenV[v] || d > 5 || R != nil {
									return
								}
								seenV[v] = true
								if ph, ok := v.(*ssa.Phi); ok {
									if ph.Block() == hdr {
										R = ph
										return
									}
									for _, e := range ph.Edges {
										find(e, d+1)
									}
								}
							}
							find(and.X, 0)
							if R == nil {
								continue
							}
							stale := false
							for i, e := range R.Edges {
								if !hdr.Dominates(hdr.Preds[i]) {
									continue
								}
								var lv []ssa.Value
								phiLeaves(e, map[ssa.Value]bool{R: true}, map[ssa.Value]bool{}, &lv)
								for _, l := range lv {
									if l == ssa.Value(R) {
										stale = true
									}
								}
							}
							c.sawFn(fnName(fn))
							c.judge(!stale, "R-PASS-UNIFORM", fnName(fn)+":a fresh bit per element", and.Pos(), "the tested register is shifted or refilled on every way round the pass", fmt.Sprintf("the register whose bit decides (%s) can go round the pass unchanged: consecutive elements are judged by the same bit, so they are kept or dropped together instead of independently", ksym(and.X)))
						}
						sort.Strings(bad)
						c.sawFn(fnName(fn))
						c.judge(len(bad) == 0, "R-PASS-UNIFORM", fnName(fn)+":removal in the pass", in.Pos(), "conditioned on random bits only", fmt.Sprintf("whether an element is removed in the halving pass also depends on %s: elements are no longer kept with equal probability, which biases the estimate", strings.Join(bad, ", ")))
					}
					// the refill
					call, ok := in.(*ssa.Call)
					if !ok || call.Call.IsInvoke() == false {
						return
					}
					if call.Call.Method == nil || call.Call.Method.Name() != "Uint64" {
						return
					}
					// the condition that leads here
					for _, cm := range cmpsAt(call.Block()) {
						var tested ssa.Value
						if isConstInt(cm.Y, 0) && cm.Op == token.EQL {
							tested = cm.X
						} else if isConstInt(cm.X, 0) && cm.Op == token.EQL {
							tested = cm.Y
						}
						ph, ok := tested.(*ssa.Phi)
						if !ok {
							continue
						}
						// a countdown: some edge (through another φ) is  self' − 1
						countdown := false
						seen := map[ssa.Value]bool{}
						var walk func(v ssa.Value, d int)
						walk = func(v ssa.Value, d int) {
							if seen[v] || d > 4 {
								return
							}
							seen[v] = true
							switch x := v.(type) {
							case *ssa.Phi:
								for _, e := range x.Edges {
									walk(e, d+1)
								}
							case *ssa.BinOp:
								if x.Op == token.SUB && isConstInt(x.Y, 1) {
									countdown = true
								}
							}
						}
						walk(ph, 0)
						c.sawFn(fnName(fn))
						c.judge(countdown, "R-REFILL-COUNTER", fnName(fn)+":refill trigger", call.Pos(), "tests the countdown of unused bits", fmt.Sprintf("the random word is refilled when %s is 0, and %s is not the countdown of unused bits (nothing decrements it): a word is thrown away as soon as its remaining bits are all 0 and never otherwise, so the coin flips are not independent fair bits", ksym(tested), ksym(tested)))
					}
				})
			}
		}
	}
}

// ruleTokenParser (C20): the numeric token parser of CompareNatural
//   - folds every digit into the value as v·K + digit (an update without the multiplication is radix 1);
//   - reports "this was a digit run" from the number of characters consumed — the very value the rest of the string
//     is cut at — not from the value of the run (a run of zeros has value 0).
func ruleTokenParser(c *Ctx) {
	c.rule("R-TOKEN-OK", 0, "the numeric parser's ok flag is 'characters were consumed' (the cut position compared with 0)")
	cn := c.P.Func("mstr", "", "CompareNatural")
	if cn == nil {
		return
	}
	seen := map[*ssa.Function]bool{}
	allInstrs(cn, func(in ssa.Instruction) {
		call, ok := in.(*ssa.Call)
		if !ok {
			return
		}
		p := staticCallee(&call.Call)
		if p == nil || origin(p).Pkg != cn.Pkg || origin(p).Blocks == nil || seen[origin(p)] {
			return
		}
		p = origin(p)
		seen[p] = true
		res := p.Signature.Results()
		if res.Len() != 3 {
			return
		}
		if bt, ok := res.At(2).Type().Underlying().(*types.Basic); !ok || bt.Kind() != types.Bool {
			return
		}
		// digit accumulation without a radix
		allInstrs(p, func(in2 ssa.Instruction) {
			bo, ok := in2.(*ssa.BinOp)
			if !ok || bo.Op != token.ADD {
				return
			}
			for _, pr := range [][2]ssa.Value{{bo.X, bo.Y}, {bo.Y, bo.X}} {
				d := pr[1]
				if cv, ok := d.(*ssa.Convert); ok {
					d = cv.X
				}
				sub, ok := d.(*ssa.BinOp)
				if !ok || sub.Op != token.SUB {
					continue
				}
				if _, isIdx := sub.X.(*ssa.Index); !isIdx {
					continue
				}
				if ph, ok := pr[0].(*ssa.Phi); ok {
					// v + digit with v the loop-carried value itself
					carried := false
					for _, e := range ph.Edges {
						if e == ssa.Value(bo) {
							carried = true
						}
					}
					if carried {
						c.sawFn(fnName(p))
						c.bad("R-DIGIT-BASE", fnName(p)+":radix", bo.Pos(), "the numeric parser adds each digit to the value without multiplying the value by the radix first: digit runs are compared by their digit sums, not numerically")
					}
				}
			}
		})
		// the ok flag
		allInstrs(p, func(in2 ssa.Instruction) {
			ret, ok := in2.(*ssa.Return)
			if !ok || len(ret.Results) != 3 {
				return
			}
			sl, ok := ret.Results[1].(*ssa.Slice)
			if !ok || sl.Low == nil {
				return
			}
			flag, ok := ret.Results[2].(*ssa.BinOp)
			if !ok {
				return
			}
			x := flag.X
			if _, isC := x.(*ssa.Const); isC {
				x = flag.Y
			}
			c.sawFn(fnName(p))
			c.judge(x == sl.Low, "R-TOKEN-OK", fnName(p)+":ok flag", ret.Pos(), "tests the cut position "+ksym(sl.Low), fmt.Sprintf("the parser reports a digit run when %s, but what it consumed is %s characters: a run whose tested quantity is 0 (all zeros) is reported as 'no digits' although characters were consumed — the caller then treats the same text as a non-digit run and may never advance", ksym(flag), ksym(sl.Low)))
		})
	})
}

// ruleNoIfaceEq (R-NO-IFACE-EQ): values of a type parameter that is not constrained to be comparable are never
// compared through interfaces (any(x) == any(y)): for element types without == that comparison panics at run time.
func ruleNoIfaceEq(c *Ctx, fns []*ssa.Function) {
	c.rule("R-NO-IFACE-EQ", 0, "no == or != between interface values made from values of a type parameter that is not comparable")
	seen := map[*ssa.Function]bool{}
	for _, f0 := range fns {
		for _, fn := range withClosures(f0) {
			if seen[fn] {
				continue
			}
			seen[fn] = true
			n := 0
			allInstrs(fn, func(in ssa.Instruction) {
				bo, ok := in.(*ssa.BinOp)
				if !ok || (bo.Op != token.EQL && bo.Op != token.NEQ) {
					return
				}
				for _, v := range []ssa.Value{bo.X, bo.Y} {
					var src ssa.Value
					switch mi := v.(type) {
					case *ssa.MakeInterface:
						src = mi.X
					case *ssa.ChangeType: // in a generic body: changetype any <- T
						if _, isI := mi.Type().Underlying().(*types.Interface); isI {
							src = mi.X
						}
					}
					if src == nil {
						continue
					}
					mi := struct{ X ssa.Value }{src}
					if tp, ok := types.Unalias(mi.X.Type()).(*types.TypeParam); ok && !types.Comparable(tp) {
						n++
						c.sawFn(fnName(fn))
						c.bad("R-NO-IFACE-EQ", fmt.Sprintf("%s:interface comparison #%d", fnName(fn), n), bo.Pos(), fmt.Sprintf("%s of type parameter %s (not constrained to be comparable) is compared through an interface: for element types without == (slices, maps, structs containing them) the comparison panics", ksym(mi.X), tp.Obj().Name()))
						return
					}
				}
			})
		}
	}
}

// ruleOkForward (R-OK-FORWARD): a comma-ok accessor does not contradict the lookup it is built on: on a path where
// the underlying lookup's ok is known true it does not answer with a constant false (and the reverse).
func ruleOkForward(c *Ctx, pkgs ...string) {
	c.rule("R-OK-FORWARD", 0, "a (value, ok) accessor never answers a constant ok that contradicts the ok of the lookup known on that path")
	for _, pkg := range pkgs {
		for _, fn := range c.P.PkgFuncs(pkg) {
			res := fn.Signature.Results()
			if res.Len() != 2 {
				continue
			}
			if bt, ok := res.At(1).Type().Underlying().(*types.Basic); !ok || bt.Kind() != types.Bool {
				continue
			}
			fn := fn
			n := 0
			allInstrs(fn, func(in ssa.Instruction) {
				ret, ok := in.(*ssa.Return)
				if !ok || len(ret.Results) != 2 {
					return
				}
				// the answer is the negation of a lookup's own ok, and the value comes from that very lookup
				if u, isNot := ret.Results[1].(*ssa.UnOp); isNot && u.Op == token.NOT {
					if ex, isEx := u.X.(*ssa.Extract); isEx {
						if tup, isT := ex.Tuple.Type().(*types.Tuple); isT && ex.Index == tup.Len()-1 {
							uses := false
							var walk func(v ssa.Value, d int)
							walk = func(v ssa.Value, d int) {
								if d > 5 || uses {
									return
								}
								switch y := v.(type) {
								case *ssa.Extract:
									if y.Tuple == ex.Tuple {
										uses = true
									}
								case *ssa.Field:
									walk(y.X, d+1)
								case *ssa.UnOp:
									if fa, ok := y.X.(*ssa.FieldAddr); ok {
										if al, ok := fa.X.(*ssa.Alloc); ok {
											for _, r := range referrersOf(al) {
												if st, ok := r.(*ssa.Store); ok && st.Addr == ssa.Value(al) {
													walk(st.Val, d+1)
												}
											}
										}
									}
								}
							}
							walk(ret.Results[0], 0)
							if uses {
								n++
								c.sawFn(fnName(fn))
								c.bad("R-OK-FORWARD", fmt.Sprintf("%s:ok answer #%d", fnName(fn), n), ret.Pos(), "the accessor returns the value of a lookup together with the NEGATION of that lookup's ok: present keys are reported absent and absent ones present")
							}
						}
					}
					return
				}
				k, ok := ret.Results[1].(*ssa.Const)
				if !ok || k.Value == nil {
					return
				}
				ans := k.Value.String() == "true"
				for ex, truth := range extractFactsAt(ret.Block()) {
					tup, ok := ex.Tuple.Type().(*types.Tuple)
					if !ok || ex.Index != tup.Len()-1 {
						continue
					}
					// the value returned comes from the same lookup
					same := false
					var from func(v ssa.Value, d int) bool
					from = func(v ssa.Value, d int) bool {
						if d > 4 {
							return false
						}
						switch y := v.(type) {
						case *ssa.Extract:
							return y.Tuple == ex.Tuple
						case *ssa.Field:
							return from(y.X, d+1)
						case *ssa.UnOp:
							if fa, ok := y.X.(*ssa.FieldAddr); ok {
								if al, ok := fa.X.(*ssa.Alloc); ok {
									for _, r := range referrersOf(al) {
										if st, ok := r.(*ssa.Store); ok && st.Addr == ssa.Value(al) && from(st.Val, d+1) {
											return true
										}
									}
								}
							}
						}
						return false
					}
					same = from(ret.Results[0], 0)
					if !same {
						continue
					}
					n++
					c.sawFn(fnName(fn))
					c.judge(ans == truth, "R-OK-FORWARD", fmt.Sprintf("%s:ok answer #%d", fnName(fn), n), ret.Pos(), fmt.Sprintf("ok=%v where the lookup's ok is %v", ans, truth), fmt.Sprintf("the value of a lookup that succeeded (ok=%v on this path) is returned with ok=%v: callers that test ok discard a value that is there", truth, ans))
				}
			})
		}
	}
}

// ruleIterSiblings (R-ITER-SIBLING): the constructors that hand out an iterator at either end of the map initialise
// the same fields of it (an iterator without its map cannot seek).
func ruleIterSiblings(c *Ctx) {
	c.rule("R-ITER-SIBLING", 0, "omap's First and Last initialise the same fields of the iterator they return")
	fields := func(fn *ssa.Function) (map[string]bool, bool) {
		out := map[string]bool{}
		found := false
		if fn == nil {
			return nil, false
		}
		for _, in := range fn.Blocks[0].Instrs {
			st, ok := in.(*ssa.Store)
			if !ok {
				continue
			}
			fa, ok := st.Addr.(*ssa.FieldAddr)
			if !ok {
				continue
			}
			if al, ok := fa.X.(*ssa.Alloc); ok && al.Heap {
				_, f := fieldVarOf(fa)
				out[f.Name()] = true
				found = true
			}
		}
		return out, found
	}
	a, b := c.P.Func("omap", "Map", "First"), c.P.Func("omap", "Map", "Last")
	fa, ok1 := fields(a)
	fb, ok2 := fields(b)
	if !ok1 && !ok2 {
		return
	}
	var da, db []string
	for f := range fa {
		if !fb[f] {
			da = append(da, f)
		}
	}
	for f := range fb {
		if !fa[f] {
			db = append(db, f)
		}
	}
	sort.Strings(da)
	sort.Strings(db)
	c.sawFn(fnName(a))
	c.judge(len(da) == 0 && len(db) == 0, "R-ITER-SIBLING", "omap.Map.First~Last:iterator fields", b.Pos(), "same fields initialised", fmt.Sprintf("First initialises %v that Last does not, Last %v that First does not: an iterator from one end lacks state the other has (without its map it cannot Seek)", da, db))
}

// ruleNilWriteback (part of R-NIL-LAZY): in a pointer-receiver method of Set, a map allocated because the receiver's
// map was nil is stored back through the receiver — otherwise the elements land in a map only the result refers to.
func ruleNilWriteback(c *Ctx) {
	for _, fn := range c.P.Methods("mapset", "Set") {
		if len(fn.Params) == 0 {
			continue
		}
		if _, isPtr := fn.Params[0].Type().(*types.Pointer); !isPtr {
			continue
		}
		recv := fn.Params[0]
		fn := fn
		allInstrs(fn, func(in ssa.Instruction) {
			var fresh ssa.Value
			switch x := in.(type) {
			case *ssa.MakeMap:
				fresh = x
			case *ssa.Call:
				if cal := staticCallee(&x.Call); cal != nil && (cal.Name() == "Clone" || cal.Name() == "New" || cal.Name() == "NewSize") {
					if _, isMap := x.Type().Underlying().(*types.Map); isMap {
						fresh = x
					}
				}
			}
			if fresh == nil {
				return
			}
			// allocated on a path where the receiver's map is known to be nil
			underNil := false
			for _, cm := range cmpsAt(in.Block()) {
				if cm.Op != token.EQL {
					continue
				}
				for _, pr := range [][2]ssa.Value{{cm.X, cm.Y}, {cm.Y, cm.X}} {
					if a, ok := loadAddr(pr[0]); ok && a == ssa.Value(recv) && isNilConst(pr[1]) {
						underNil = true
					}
				}
			}
			if !underNil {
				return
			}
			stored := false
			for _, r := range referrersOf(fresh) {
				if st, ok := r.(*ssa.Store); ok && st.Addr == ssa.Value(recv) && st.Val == fresh {
					stored = true
				}
				if ct, ok := r.(*ssa.ChangeType); ok {
					for _, r2 := range referrersOf(ct) {
						if st, ok := r2.(*ssa.Store); ok && st.Addr == ssa.Value(recv) {
							stored = true
						}
					}
				}
			}
			c.sawFn(fnName(fn))
			c.judge(stored, "R-NIL-LAZY", fnName(fn)+":fresh map stored back", in.Pos(), "*s = the map allocated for a nil receiver", "a map is allocated because the receiver's map was nil, but it is never stored back through the receiver: the elements end up in a map only the return value refers to, and the caller's set stays nil")
		})
	}
}

// ruleNilBranchStores (part of R-NIL-LAZY): a pointer-receiver method of Set that asks whether the receiver's map is
// nil does so in order to give it one: on the nil edge every path to a return stores through the receiver.  (A nil
// branch that stores nothing hands back the nil map and the elements are lost.)
func ruleNilBranchStores(c *Ctx) {
	for _, fn := range c.P.Methods("mapset", "Set") {
		if len(fn.Params) == 0 {
			continue
		}
		if _, isPtr := fn.Params[0].Type().(*types.Pointer); !isPtr {
			continue
		}
		recv := ssa.Value(fn.Params[0])
		fn := fn
		n := 0
		allInstrs(fn, func(in ssa.Instruction) {
			iff, ok := in.(*ssa.If)
			if !ok {
				return
			}
			for i := 0; i < 2; i++ {
				cm, ok := edgeCmp(iff, i)
				if !ok || cm.Op != token.EQL {
					continue
				}
				isNilTest := false
				for _, pr := range [][2]ssa.Value{{cm.X, cm.Y}, {cm.Y, cm.X}} {
					if a, ok := loadAddr(pr[0]); ok && a == recv && isNilConst(pr[1]) {
						isNilTest = true
					}
				}
				if !isNilTest || len(iff.Block().Succs[i].Instrs) == 0 {
					continue
				}
				n++
				start := iff.Block().Succs[i].Instrs[0]
				reach, wit := reachesWithout(c.P, start, true, func(j ssa.Instruction) bool { _, r := j.(*ssa.Return); return r }, func(j ssa.Instruction) bool {
					st, ok := j.(*ssa.Store)
					return ok && st.Addr == recv
				})
				c.sawFn(fnName(fn))
				c.judge(!reach, "R-NIL-LAZY", fmt.Sprintf("%s:nil receiver gets a map #%d", fnName(fn), n), iff.Cond.Pos(), "every path from the nil test to a return stores through the receiver", "the receiver's map is found nil and the method can return without storing a map through the receiver ("+wit+"): what was to be added is lost and the caller's set stays nil")
			}
		})
	}
}

// nodeDelegate: v is the result of calling a package-local function or method that returns a node (the helper a
// lookup delegates its descent to); nil otherwise.
func (m *streeModel) nodeDelegate(v ssa.Value) *ssa.Function {
	call, ok := v.(*ssa.Call)
	if !ok {
		return nil
	}
	h := origin(staticCallee(&call.Call))
	if h == nil || h.Blocks == nil || h.Pkg == nil || h.Pkg.Pkg.Name() != "stree" || h.Signature.Results().Len() != 1 || !isNamedOrigin(h.Signature.Results().At(0).Type(), m.nodeT) {
		return nil
	}
	return h
}

// ruleChunkLoopComplete (R-CHUNKS-ALL): the functions of package mdiff that transform a list of chunks by ranging
// over it handle every chunk: such a loop is left only when the range is exhausted (or by a panic).  A break — or
// a return — in its body drops the chunks that follow.
func ruleChunkLoopComplete(c *Ctx) {
	c.rule("R-CHUNKS-ALL", 0, "a range loop over a slice of chunks in package mdiff is left only by exhaustion (or a panic)")
	chunkT := c.P.Named("mdiff", "Chunk")
	if chunkT == nil {
		return
	}
	isChunkSlice := func(t types.Type) bool {
		sl, ok := t.Underlying().(*types.Slice)
		return ok && isNamedOrigin(sl.Elem(), chunkT)
	}
	for _, fn := range c.P.PkgFuncs("mdiff") {
		fn := fn
		k := 0
		for _, h := range fn.Blocks {
			// a range-over-slice header: φ rangeindex, next = φ+1, next < len(x)
			var ph *ssa.Phi
			for _, in := range h.Instrs {
				if p, ok := in.(*ssa.Phi); ok && p.Comment == "rangeindex" {
					ph = p
				}
			}
			if ph == nil {
				continue
			}
			iff, ok := h.Instrs[len(h.Instrs)-1].(*ssa.If)
			if !ok {
				continue
			}
			bo, ok := iff.Cond.(*ssa.BinOp)
			if !ok {
				continue
			}
			ln, ok := isBuiltinCall(bo.Y, "len")
			if !ok || !isChunkSlice(ln.Call.Args[0].Type()) {
				continue
			}
			lb := loopBlocks(h)
			var early ssa.Instruction
			for b := range lb {
				if b == h {
					continue
				}
				for _, sc := range b.Succs {
					if lb[sc] {
						continue
					}
					if _, isPanic := sc.Instrs[len(sc.Instrs)-1].(*ssa.Panic); isPanic {
						continue
					}
					early = b.Instrs[len(b.Instrs)-1]
				}
				if _, isRet := b.Instrs[len(b.Instrs)-1].(*ssa.Return); isRet {
					early = b.Instrs[len(b.Instrs)-1]
				}
			}
			k++
			c.sawFn(fnName(fn))
			pos := fn.Pos()
			why := ""
			if early != nil {
				why = "the loop over the chunks can be left at " + c.P.pos(instrPos(early)) + " before the list is exhausted: the chunks that follow are neither kept nor merged"
			}
			c.judge(early == nil, "R-CHUNKS-ALL", fmt.Sprintf("%s:chunk loop #%d", fnName(fn), k), pos, "left only when the range is exhausted", why)
		}
	}
}

// ruleSidePairing (R-LR-PAIRING): in mdiff.New each running position (lcur, rcur) is what the fields of one side of
// a chunk are set from (cur.LStart, cur.LEnd = lcur, lcur): that pairs every position with the range fields of its
// side.  A comparison between a running position and a range field compares a position with a field of ITS side;
// `rcur > cur.LEnd` compares the right position with the left range.
func ruleSidePairing(c *Ctx) {
	c.rule("R-LR-PAIRING", 0, "in mdiff.New a running position is compared only with the range fields that are set from it")
	fn := c.P.Func("mdiff", "", "New")
	chunkT := c.P.Named("mdiff", "Chunk")
	if fn == nil || chunkT == nil {
		return
	}
	// a running position: a local of New (a cell when closures capture it) — identified by its cell
	cellOf := func(v ssa.Value) ssa.Value {
		if a, ok := loadAddr(v); ok {
			switch a.(type) {
			case *ssa.Alloc, *ssa.FreeVar:
				return a
			}
		}
		return nil
	}
	// a free variable of a closure stands for the cell bound to it
	bind := map[ssa.Value]ssa.Value{}
	for _, f := range withClosures(fn) {
		allInstrs(f, func(in ssa.Instruction) {
			if mc, ok := in.(*ssa.MakeClosure); ok {
				cf := mc.Fn.(*ssa.Function)
				for i, b := range mc.Bindings {
					if i < len(cf.FreeVars) {
						bind[cf.FreeVars[i]] = b
					}
				}
			}
		})
	}
	canon := func(cell ssa.Value) ssa.Value {
		for i := 0; i < 4; i++ {
			if b, ok := bind[cell]; ok {
				cell = b
			}
		}
		return cell
	}
	pairs := map[ssa.Value]map[*types.Var]bool{}
	chunkField := func(v ssa.Value) *types.Var {
		fa, ok := v.(*ssa.FieldAddr)
		if !ok || !isNamedOrigin(fa.X.Type(), chunkT) {
			return nil
		}
		_, f := fieldVarOf(fa)
		if f == nil || !isIntType(f.Type()) {
			return nil
		}
		return f
	}
	for _, f := range withClosures(fn) {
		allInstrs(f, func(in ssa.Instruction) {
			st, ok := in.(*ssa.Store)
			if !ok {
				return
			}
			fld := chunkField(st.Addr)
			if fld == nil {
				return
			}
			if cell := cellOf(st.Val); cell != nil {
				cc := canon(cell)
				if pairs[cc] == nil {
					pairs[cc] = map[*types.Var]bool{}
				}
				pairs[cc][fld] = true
			}
		})
	}
	if len(pairs) < 2 {
		return
	}
	n := 0
	for _, f := range withClosures(fn) {
		f := f
		allInstrs(f, func(in ssa.Instruction) {
			bo, ok := in.(*ssa.BinOp)
			if !ok || negOp(bo.Op) == token.ILLEGAL {
				return
			}
			for _, pr := range [][2]ssa.Value{{bo.X, bo.Y}, {bo.Y, bo.X}} {
				cell := cellOf(pr[0])
				if cell == nil {
					continue
				}
				cc := canon(cell)
				if pairs[cc] == nil {
					continue
				}
				a, ok := loadAddr(pr[1])
				if !ok {
					continue
				}
				fld := chunkField(a)
				if fld == nil {
					continue
				}
				// is the field paired with some position at all?
				var owner ssa.Value
				for oc, fs := range pairs {
					if fs[fld] {
						owner = oc
					}
				}
				if owner == nil {
					continue
				}
				n++
				c.sawFn(fnName(fn))
				c.judge(pairs[cc][fld], "R-LR-PAIRING", fmt.Sprintf("%s:%s vs .%s #%d", fnName(fn), ksym(pr[0]), fld.Name(), n), bo.Pos(), "a position compared with a range field of its own side", fmt.Sprintf("%s is compared with .%s, a field that is set from %s, the position of the other side: whether a new chunk is started is decided by comparing the two files' line numbers with each other", ksym(pr[0]), fld.Name(), ksym(owner)))
			}
		})
	}
}

// ruleGuardSubject (R-GUARD-SUBJECT): in mdiff.AddContext a block entered because a slice of context lines is not
// empty works with THAT slice.  `if len(pre) != 0 { … post … }` attaches the trailing context when there is
// leading context.
func ruleGuardSubject(c *Ctx) {
	c.rule("R-GUARD-SUBJECT", 0, "in AddContext a block guarded by len(v) != 0 uses v")
	fn := c.P.Func("mdiff", "Diff", "AddContext")
	if fn == nil {
		return
	}
	n := 0
	allInstrs(fn, func(in ssa.Instruction) {
		iff, ok := in.(*ssa.If)
		if !ok {
			return
		}
		for i := 0; i < 2; i++ {
			cm, ok := edgeCmp(iff, i)
			if !ok {
				continue
			}
			ln, isLen := isBuiltinCall(cm.X, "len")
			k, isK := constInt(cm.Y)
			if !isLen || !isK {
				continue
			}
			notEmpty := (cm.Op == token.NEQ && k == 0) || (cm.Op == token.GTR && k == 0) || (cm.Op == token.GEQ && k == 1)
			// "more than one" / "not exactly one" in the place of "not empty"
			offByOne := (cm.Op == token.NEQ && k > 0) || (cm.Op == token.GTR && k > 0) || (cm.Op == token.GEQ && k > 1)
			if !notEmpty && !offByOne {
				continue
			}
			v := ln.Call.Args[0]
			if offByOne {
				_, isParam := v.(*ssa.Parameter)
				_, f := loadedField(v)
				_, isSlice := v.Type().Underlying().(*types.Slice)
				blk := iff.Block().Succs[i]
				if isParam || f != nil || !isSlice || len(blk.Preds) != 1 {
					continue
				}
				attaches := false
				for _, in2 := range blk.Instrs {
					for _, op := range in2.Operands(nil) {
						if op != nil && *op == v {
							attaches = true
						}
					}
				}
				if attaches {
					n++
					c.sawFn(fnName(fn))
					c.bad("R-GUARD-SUBJECT", fmt.Sprintf("%s:block guarded by len(%s) #%d", fnName(fn), ksym(v), n), iff.Cond.Pos(), fmt.Sprintf("the block that attaches %s is entered when len %s %d, not whenever it is not empty: a context of exactly %d line(s) is lost (or an empty one attached)", ksym(v), cm.Op, k, k))
				}
				continue
			}
			if _, isSlice := v.Type().Underlying().(*types.Slice); !isSlice {
				continue
			}
			if _, isParam := v.(*ssa.Parameter); isParam {
				continue
			}
			if _, f := loadedField(v); f != nil {
				continue // a field re-read in the block is another SSA value: only locals are compared by identity
			}
			blk := iff.Block().Succs[i]
			if len(blk.Preds) != 1 {
				continue
			}
			uses := false
			var other ssa.Value
			for _, in2 := range blk.Instrs {
				for _, op := range in2.Operands(nil) {
					if op == nil || *op == nil {
						continue
					}
					if *op == v {
						uses = true
					} else if types.Identical((*op).Type(), v.Type()) {
						if _, isC := (*op).(*ssa.Const); !isC {
							other = *op
						}
					}
				}
			}
			if other == nil && !uses {
				continue // the block works with no slice of this kind at all: nothing to compare
			}
			n++
			c.sawFn(fnName(fn))
			c.judge(uses, "R-GUARD-SUBJECT", fmt.Sprintf("%s:block guarded by len(%s) #%d", fnName(fn), ksym(v), n), iff.Cond.Pos(), "uses the slice it was entered for", fmt.Sprintf("the block entered when %s is not empty never uses it and works with %s instead: the one kind of context is attached (or not) depending on whether there is any of the other", ksym(v), ksym(other)))
		}
	})
}

// ruleStaleAfterEdit (R-STALE-READ, package mdiff): two order faults of straight-line code.
//  (a) a field is set to nil and then read, in the same block, into something that is kept (`rd.chunks = nil; out =
//      append(out, &Patch{Chunks: rd.chunks})`): the value kept is nil — the read belongs before the reset;
//  (b) a pointer to the first / last element of a chunk's edit list is taken and, later in the same block, that
//      element is dropped from the list while the pointer lives on: it points at the edit that is gone.
func ruleStaleAfterEdit(c *Ctx) {
	c.rule("R-STALE-READ", 0, "in package mdiff no field is read into a kept value right after it was reset in the same block, and no pointer to an end of an edit list outlives the drop of that end")
	for _, fn := range c.P.PkgFuncs("mdiff") {
		fn := fn
		n := 0
		staleAcrossBlocks(c, fn, &n)
		for _, b := range fn.Blocks {
			cleared := map[string]ssa.Instruction{}
			type ptr struct {
				call *ssa.Call
				list string
				k    int64
			}
			var ptrs []ptr
			for _, in := range b.Instrs {
				switch x := in.(type) {
				case *ssa.Store:
					fa, ok := x.Addr.(*ssa.FieldAddr)
					if !ok {
						continue
					}
					key := sym(fa)
					if isNilConst(x.Val) {
						cleared[key] = in
					} else {
						delete(cleared, key)
					}
					// a drop of the first / last element of a list
					if sl, ok := x.Val.(*ssa.Slice); ok {
						if ld, ok := sl.X.(*ssa.UnOp); ok && ld.Op == token.MUL && sym(ld.X) == key {
							first := sl.High == nil && isConstInt(sl.Low, 1)
							last := sl.Low == nil && sl.High != nil
							for _, p := range ptrs {
								if p.list != key || !((first && p.k == 0) || (last && p.k == -1)) {
									continue
								}
								live := false
								for _, r := range referrersOf(p.call) {
									if ri, ok := r.(ssa.Instruction); ok && (ri.Block() != b || nodeOf(ri).i > nodeOf(in).i) {
										live = true
									}
								}
								if live {
									n++
									c.sawFn(fnName(fn))
									c.bad("R-STALE-READ", fmt.Sprintf("%s:pointer outlives the drop #%d", fnName(fn), n), p.call.Pos(), "a pointer to an end of the edit list is taken and THEN that end is dropped from the list; the pointer is used afterwards: it refers to the edit that is no longer part of the chunk (the new end was meant)")
								}
							}
						}
					}
				case *ssa.UnOp:
					if x.Op != token.MUL {
						continue
					}
					fa, ok := x.X.(*ssa.FieldAddr)
					if !ok {
						continue
					}
					if st, ok := cleared[sym(fa)]; ok {
						kept := false
						for _, r := range referrersOf(x) {
							switch r.(type) {
							case *ssa.Store, *ssa.MakeInterface, *ssa.Return:
								kept = true
							case *ssa.Call:
								kept = true
							}
						}
						if kept {
							n++
							c.sawFn(fnName(fn))
							c.bad("R-STALE-READ", fmt.Sprintf("%s:read after reset #%d", fnName(fn), n), x.Pos(), fmt.Sprintf("%s is set to nil at %s and read right after it into a value that is kept: what is kept is nil — the read belongs before the reset", ksym(fa), c.P.pos(instrPos(st))))
						}
					}
				case *ssa.Call:
					if cal := x.Call.StaticCallee(); cal != nil && origin(cal).Name() == "PtrAt" && len(x.Call.Args) == 2 {
						if k, ok := constInt(x.Call.Args[1]); ok {
							if a, ok := loadAddr(x.Call.Args[0]); ok {
								ptrs = append(ptrs, ptr{x, sym(a), k})
							}
						}
					}
				}
			}
		}
	}
}
