package main

// C08 — cache accounting: R-EVICT-PAIR, R-LIMIT-LOOP, R-CHECK-PURE, R-CLOCK.

import (
	"fmt"
	"go/constant"
	"go/token"
	"go/types"

	"golang.org/x/tools/go/ssa"
)

func init() {
	register(&propDef{ID: "C08", Level: "other", Run: runC08})
}

func runC08(c *Ctx) {
	P := c.P
	c.Explanation = "Decides the accounting clauses structurally: (R-EVICT-PAIR) in every Cache method each departure from the store (Store.Remove of a key found by Check, or Store.Evict) is paired in its block with exactly one eviction callback on that very (key, value), exactly one subtraction of sizeOf(that value) from the size accumulator and exactly one count−1, and none of the three occurs without a departure; an arrival (Store.Store) is paired with count+1 and a size that includes sizeOf(val). (R-LIMIT-LOOP) the only non-decreasing assignment of size stores a value proved ≤ limit by the exit edge of the eviction loop, whose initial value is size + sizeOf(val); a Put larger than the limit returns false before any effect. (R-CHECK-PURE) Has reaches only Store.Check, and lruStore.Check with its callees has an empty effect set — Has does not count as a use. (R-CLOCK) every lastAccess written is the clock value just ticked in the same block; the clock has no other writer. (R-USE-TICK) every successful Access and every Store ticks, stamps and re-inserts on all paths, so Put and successful Get always count as uses. (R-POS-WRITERS, shared with C06) the key→offset index is deleted only after the heap removal, so it stays in step with the heap. (R-CLEAR-ALL) every return of Clear lies behind a branch edge on which count <= 0 holds. (R-SIZEFN-FAITHFUL) the size function installed in the cache is the configured one, a closure returning exactly its result, or a constant default; an eviction helper that leaves the accounting to its callers is summarised and each call site held to it. Does NOT decide which entry is evicted (victim order needs a correct heap — C05, where F1 is listed — and a history argument) nor agreement with a reference LRU cache."
	c.rule("R-EVICT-PAIR", 3, "each departure ↔ exactly one callback(k,v), one size −= sizeOf(v), one count−1 in its block; none of these without a departure; arrival ↔ count+1 and size including sizeOf(val)")
	c.rule("R-LIMIT-LOOP", 2, "size only receives values ≤ limit (loop exit fact) or decreases by a sizeOf result; the too-big refusal precedes every effect of Put")
	c.rule("R-CHECK-PURE", 2, "Cache.Has uses only Store.Check; lruStore.Check and its callees have no effects")
	c.rule("R-CLOCK", 2, "every lastAccess written is load(clock) preceded in-block by clock = clock+1; clock has no other writer")
	c.assume("the size function returns non-negative values (sizeOf >= 0)")
	ruleBuilderCarries(c)

	cacheT := P.Named("cache", "Cache")
	storeIfc := P.Named("cache", "Store")
	sizeF, limitF, countF, sizeOfF, onEvictF := resolveCacheFields(P)
	if cacheT == nil || storeIfc == nil || sizeF == nil || limitF == nil || countF == nil || sizeOfF == nil || onEvictF == nil {
		c.undecided("ANCHOR", "cache.Cache fields", 0, "anchor not found")
		return
	}
	isLoad := func(v ssa.Value, f *types.Var) bool {
		_, g := loadedField(v)
		return g != nil && sameField(f, g)
	}
	invokeName := func(in ssa.Instruction) (string, *ssa.Call) {
		call, ok := in.(*ssa.Call)
		if !ok || !call.Call.IsInvoke() || !isNamedOrigin(call.Call.Value.Type(), storeIfc) {
			return "", nil
		}
		return call.Call.Method.Name(), call
	}
	extractOf := func(t ssa.Value, idx int) ssa.Value {
		for _, r := range referrersOf(t) {
			if ex, ok := r.(*ssa.Extract); ok && ex.Index == idx {
				return ex
			}
		}
		return nil
	}
	// release helpers: an unexported one-block method release(k, v) that makes exactly one eviction callback on its
	// (key, value) parameters, touches nothing else, and RETURNS sizeOf(v) for its caller to subtract
	// (c.size -= c.release(k, v)).  Its call is the callback for (k, v), and its value is sizeOf(v).
	type relAcct struct{ ki, vi int }
	relHelper := map[*ssa.Function]relAcct{}
	for _, fn := range P.Methods("cache", "Cache") {
		if fn.Parent() != nil || fn.Object() == nil || fn.Object().Exported() || len(fn.Blocks) != 1 || fn.Signature.Results().Len() != 1 {
			continue
		}
		pidx := func(v ssa.Value) int {
			for i, p := range fn.Params {
				if v == ssa.Value(p) {
					return i
				}
			}
			return -1
		}
		ki, vi, nCb, okShape := -1, -1, 0, true
		var retArg ssa.Value
		for _, in := range fn.Blocks[0].Instrs {
			switch x := in.(type) {
			case *ssa.Call:
				switch {
				case isLoad(x.Call.Value, onEvictF) && len(x.Call.Args) == 2:
					nCb++
					ki, vi = pidx(x.Call.Args[0]), pidx(x.Call.Args[1])
				case isLoad(x.Call.Value, sizeOfF) && len(x.Call.Args) == 1:
				default:
					okShape = false
				}
			case *ssa.Return:
				if call, ok := x.Results[0].(*ssa.Call); ok && isLoad(call.Call.Value, sizeOfF) && len(call.Call.Args) == 1 {
					retArg = call.Call.Args[0]
				} else {
					okShape = false
				}
			case *ssa.Store, *ssa.MapUpdate, *ssa.Defer, *ssa.Go:
				okShape = false
			}
		}
		if okShape && nCb == 1 && ki > 0 && vi > 0 && retArg != nil && pidx(retArg) == vi {
			relHelper[origin(fn)] = relAcct{ki, vi}
		}
	}
	// roomHelper: v is the result of an unexported method (makeRoom(size)) whose every return hands back a value that
	// began as one of its integer parameters (the loop variable's initial edge) and that is known ≤ limit where it is
	// returned; answers the argument that becomes that value
	roomHelper := func(v ssa.Value) (ssa.Value, bool) {
		call, ok := v.(*ssa.Call)
		if !ok {
			return nil, false
		}
		h := origin(staticCallee(&call.Call))
		if h == nil || h.Blocks == nil || h.Object() == nil || h.Object().Exported() || h.Signature.Recv() == nil || !isNamedOrigin(h.Signature.Recv().Type(), cacheT) {
			return nil, false
		}
		pi, nRet, okAll := -1, 0, true
		allInstrs(h, func(in ssa.Instruction) {
			ret, ok := in.(*ssa.Return)
			if !ok || len(ret.Results) != 1 {
				return
			}
			nRet++
			r := ret.Results[0]
			bounded := false
			for _, cm := range cmpsAt(ret.Block()) {
				if (cm.X == r && isLoad(cm.Y, limitF) && (cm.Op == token.LEQ || cm.Op == token.LSS)) || (cm.Y == r && isLoad(cm.X, limitF) && (cm.Op == token.GEQ || cm.Op == token.GTR)) {
					bounded = true
				}
			}
			from := -1
			if ph, ok := r.(*ssa.Phi); ok {
				for i, e := range ph.Edges {
					if !ph.Block().Dominates(ph.Block().Preds[i]) {
						for j, p := range h.Params {
							if e == ssa.Value(p) {
								from = j
							}
						}
					}
				}
			}
			if !bounded || from < 0 || (pi >= 0 && pi != from) {
				okAll = false
			}
			pi = from
		})
		if !okAll || nRet == 0 || pi < 0 || pi >= len(call.Call.Args) {
			return nil, false
		}
		return call.Call.Args[pi], true
	}
	isSizeOfCall := func(v ssa.Value) (ssa.Value, bool) {
		call, ok := v.(*ssa.Call)
		if !ok {
			return nil, false
		}
		if cal := staticCallee(&call.Call); cal != nil {
			if ra, isRel := relHelper[origin(cal)]; isRel && ra.vi < len(call.Call.Args) {
				return call.Call.Args[ra.vi], true
			}
		}
		if !isLoad(call.Call.Value, sizeOfF) || len(call.Call.Args) != 1 {
			return nil, false
		}
		return call.Call.Args[0], true
	}
	// the bodies of the methods: the methods themselves and the closures they run (a body handed to a lock wrapper)
	var methods []*ssa.Function
	for _, top := range P.Methods("cache", "Cache") {
		methods = append(methods, withClosures(top)...)
	}
	// departure wrappers: an unexported method that takes exactly one entry out of the store, notifies the
	// callback with that very (key, value), returns the departed value and leaves the size/count accounting
	// to its callers.  A call of such a helper is a departure in the caller's block (value = the call's result).
	wrapperRes := map[*ssa.Function]int{}
	for _, fn := range methods {
		if fn.Parent() != nil || P.isCanaryFn(fn) || fn.Object() == nil || fn.Object().Exported() {
			continue
		}
		var dep *ssa.Call
		ndep, accounting := 0, false
		allInstrs(fn, func(in ssa.Instruction) {
			if n, call := invokeName(in); n == "Evict" {
				dep = call
				ndep++
			} else if n == "Remove" {
				ndep += 2 // only the Evict form is summarised
			}
			if st, ok := in.(*ssa.Store); ok {
				if fa, ok := st.Addr.(*ssa.FieldAddr); ok {
					if _, f := fieldVarOf(fa); sameField(f, countF) || sameField(f, sizeF) {
						accounting = true
					}
				}
			}
		})
		if ndep != 1 || accounting {
			continue
		}
		v := extractOf(dep, 1)
		if v == nil {
			continue
		}
		ri := -1
		okRet := true
		allInstrs(fn, func(in ssa.Instruction) {
			ret, ok := in.(*ssa.Return)
			if !ok {
				return
			}
			found := false
			for i, r := range ret.Results {
				if r == v {
					if ri == -1 || ri == i {
						ri = i
						found = true
					}
				}
			}
			if !found {
				okRet = false
			}
		})
		if ri >= 0 && okRet {
			wrapperRes[fn] = ri
		}
	}
	// accounting helpers: an unexported method with a (key, value) pair among its parameters that makes exactly one
	// eviction callback on that pair, subtracts sizeOf(value) once and decrements count once, and takes nothing out
	// of the store itself (discard(k, v)).  A call of it next to a departure of that very pair is the departure's
	// whole accounting; it must not be called anywhere else.
	type acct struct{ ki, vi int }
	acctHelper := map[*ssa.Function]acct{}
	for _, fn := range methods {
		if fn.Parent() != nil || P.isCanaryFn(fn) || fn.Object() == nil || fn.Object().Exported() || len(fn.Blocks) != 1 {
			continue
		}
		nCb, nSub, nDec, dep := 0, 0, 0, false
		ki, vi := -1, -1
		pidx := func(v ssa.Value) int {
			for i, p := range fn.Params {
				if v == ssa.Value(p) {
					return i
				}
			}
			return -1
		}
		allInstrs(fn, func(in ssa.Instruction) {
			if n, _ := invokeName(in); n == "Evict" || n == "Remove" {
				dep = true
			}
			switch x := in.(type) {
			case *ssa.Call:
				if isLoad(x.Call.Value, onEvictF) && len(x.Call.Args) == 2 {
					nCb++
					ki, vi = pidx(x.Call.Args[0]), pidx(x.Call.Args[1])
				}
			case *ssa.BinOp:
				if x.Op == token.SUB && isLoad(x.X, sizeF) {
					if arg, ok := isSizeOfCall(x.Y); ok && vi >= 0 && arg == ssa.Value(fn.Params[vi]) {
						nSub++
					} else if ok {
						nSub += 2
					}
				}
			case *ssa.Store:
				if fa, ok := x.Addr.(*ssa.FieldAddr); ok {
					if _, f := fieldVarOf(fa); sameField(f, countF) {
						if bo, ok := x.Val.(*ssa.BinOp); ok && bo.Op == token.SUB && isLoad(bo.X, countF) && isConstInt(bo.Y, 1) {
							nDec++
						} else {
							nDec += 2
						}
					}
				}
			}
		})
		if !dep && nCb == 1 && nSub == 1 && nDec == 1 && ki > 0 && vi > 0 {
			acctHelper[fn] = acct{ki, vi}
		}
	}
	// linBound: the value stored into size is bounded by limit by linear reasoning over the fields as they stand
	// in memory: a dominating comparison (or the exit condition a helper returns under, with its parameters replaced
	// by the arguments) states  e ≤ 0  for the very linear form  value − limit, and size is not written between the
	// comparison (the helper's return) and the store.
	sizeFx := newLenFx(P, sizeF)
	writesSize := func(in ssa.Instruction) bool {
		switch y := in.(type) {
		case *ssa.Store:
			return sizeFx.isFieldAddr(y.Addr)
		case *ssa.Call:
			if cal := staticCallee(&y.Call); cal != nil {
				return sizeFx.storesField(cal, map[*ssa.Function]bool{})
			}
		}
		return false
	}
	// lin: the linear form of an integer value; loads of size used are returned
	var lin func(fn *ssa.Function, v ssa.Value, loads *[]ssa.Instruction) lform
	lin = func(fn *ssa.Function, v ssa.Value, loads *[]ssa.Instruction) lform {
		switch y := v.(type) {
		case *ssa.Const:
			if k, ok := constInt(y); ok {
				return lconst(k)
			}
		case *ssa.BinOp:
			switch y.Op {
			case token.ADD:
				return lin(fn, y.X, loads).add(lin(fn, y.Y, loads), 1)
			case token.SUB:
				return lin(fn, y.X, loads).add(lin(fn, y.Y, loads), -1)
			}
		case *ssa.UnOp:
			if isLoad(y, sizeF) {
				*loads = append(*loads, y)
				return latom("size")
			}
			if isLoad(y, limitF) {
				return latom("limit")
			}
		case *ssa.Parameter:
			for i, p := range fn.Params {
				if p == y {
					return latom(fmt.Sprintf("param:%d", i))
				}
			}
		}
		return latom(fmt.Sprintf("v:%p", v))
	}
	// fresh: size is not written on any path from `from` to `to` that does not pass `from` again
	fresh := func(from, to ssa.Instruction) bool {
		w := walkFrom(from, false, func(in ssa.Instruction) bool { return in == to || in == from })
		for _, in := range w.order {
			if in == to || in == from || !writesSize(in) {
				continue
			}
			if r, _ := reachesWithout(P, in, false, func(j ssa.Instruction) bool { return j == to }, func(j ssa.Instruction) bool { return j == from }); r {
				return false
			}
		}
		return true
	}
	// factsLE: linear forms e with e ≤ 0 known at block b and fresh at instruction `at`
	factsLE := func(fn *ssa.Function, b *ssa.BasicBlock, at ssa.Instruction) []lform {
		var out []lform
		for _, cm := range cmpsAt(b) {
			var lds []ssa.Instruction
			l, r := lin(fn, cm.X, &lds), lin(fn, cm.Y, &lds)
			var e lform
			switch cm.Op {
			case token.LEQ:
				e = l.add(r, -1)
			case token.GEQ:
				e = r.add(l, -1)
			default:
				continue
			}
			ok := true
			for _, ld := range lds {
				if !fresh(ld, at) {
					ok = false
				}
			}
			if ok {
				out = append(out, e)
			}
		}
		return out
	}
	// post: what an unexported helper of the cache guarantees on every return, over size, limit and its parameters
	postMemo := map[*ssa.Function][]lform{}
	post := func(h *ssa.Function) []lform {
		if r, ok := postMemo[h]; ok {
			return r
		}
		postMemo[h] = nil
		var common []lform
		first := true
		allInstrs(h, func(in ssa.Instruction) {
			ret, ok := in.(*ssa.Return)
			if !ok {
				return
			}
			fs := factsLE(h, ret.Block(), ret)
			if first {
				common, first = fs, false
				return
			}
			var keep []lform
			for _, a := range common {
				for _, b := range fs {
					if a.eq(b) {
						keep = append(keep, a)
						break
					}
				}
			}
			common = keep
		})
		postMemo[h] = common
		return common
	}
	linBound := func(fn *ssa.Function, st *ssa.Store) bool {
		var lds []ssa.Instruction
		goal := lin(fn, st.Val, &lds).add(latom("limit"), -1)
		for _, ld := range lds {
			if !fresh(ld, st) {
				return false
			}
		}
		for _, e := range factsLE(fn, st.Block(), st) {
			if e.eq(goal) {
				return true
			}
		}
		// helpers called before the store
		found := false
		allInstrs(fn, func(in ssa.Instruction) {
			call, ok := in.(*ssa.Call)
			if !ok || found || !dominatesInstr(call, st) {
				return
			}
			cal := staticCallee(&call.Call)
			if cal == nil || origin(cal).Object() == nil || origin(cal).Object().Exported() || !fresh(call, st) {
				return
			}
			h := origin(cal)
			for _, e := range post(h) {
				ok := true
				for i := range h.Params {
					if i >= len(call.Call.Args) {
						break
					}
					var alds []ssa.Instruction
					a := lin(fn, call.Call.Args[i], &alds)
					if len(alds) > 0 {
						if _, uses := e.at[fmt.Sprintf("param:%d", i)]; uses {
							ok = false
						}
						continue
					}
					e = e.subst(fmt.Sprintf("param:%d", i), a)
				}
				if ok && e.eq(goal) {
					found = true
				}
			}
		})
		return found
	}
	// departure helpers with the pair as parameters (drop(key, val): Remove(key), callback, size, count): the value
	// is the parameter the callback receives; every call site must pass the value a successful Check of that key gave
	depParams := map[*ssa.Function]acct{}
	wrapperUsed := map[*ssa.Function]int{}
	for _, fn := range methods {
		if P.isCanaryFn(fn) {
			continue
		}
		if _, isAcct := acctHelper[fn]; isAcct {
			c.sawFn(fnName(fn))
			c.ok("R-EVICT-PAIR", fnName(fn)+":accounting helper", fn.Pos(), "one callback(k,v), one size −= sizeOf(v), one count−1 on its own parameters; judged at its call sites")
			continue
		}
		name := fnName(fn)
		_, isWrapper := wrapperRes[fn]
		// departures per block
		depBlocks := map[*ssa.BasicBlock]bool{}
		for _, b := range fn.Blocks {
			var deps []struct {
				what string
				k, v ssa.Value
				call *ssa.Call
			}
			viaHelper := map[*ssa.Call]bool{}
			for _, in := range b.Instrs {
				if hc, ok := in.(*ssa.Call); ok {
					if cal := staticCallee(&hc.Call); cal != nil {
						if ri, isW := wrapperRes[origin(cal)]; isW {
							var v ssa.Value = hc
							if origin(cal).Signature.Results().Len() > 1 {
								v = extractOf(hc, ri)
							}
							wrapperUsed[origin(cal)]++
							viaHelper[hc] = true
							deps = append(deps, struct {
								what string
								k, v ssa.Value
								call *ssa.Call
							}{"Evict (through " + origin(cal).Name() + ")", nil, v, hc})
						}
					}
				}
				mname, call := invokeName(in)
				switch mname {
				case "Remove":
					// dominated by Check(k) ok
					var k, v ssa.Value
					k = call.Call.Args[0]
					for ex, truth := range extractFactsAt(b) {
						if !truth || ex.Index != 1 {
							continue
						}
						if chk, ok := ex.Tuple.(*ssa.Call); ok && chk.Call.IsInvoke() && chk.Call.Method.Name() == "Check" && sameV(chk.Call.Args[0], k) {
							v = extractOf(chk, 0)
						}
					}
					if v == nil && fn.Parent() == nil && fn.Object() != nil && !fn.Object().Exported() {
						// drop(key, val): the value is the parameter the callback in this block receives
						for _, in2 := range b.Instrs {
							if cb, ok := in2.(*ssa.Call); ok && isLoad(cb.Call.Value, onEvictF) && len(cb.Call.Args) == 2 && sameV(cb.Call.Args[0], k) {
								if vp, ok := cb.Call.Args[1].(*ssa.Parameter); ok {
									if kp, ok := k.(*ssa.Parameter); ok {
										ki, vi := -1, -1
										for i, p := range fn.Params {
											if p == kp {
												ki = i
											}
											if p == vp {
												vi = i
											}
										}
										if ki > 0 && vi > 0 {
											v = vp
											depParams[fn] = acct{ki, vi}
										}
									}
								}
							}
						}
					}
					deps = append(deps, struct {
						what string
						k, v ssa.Value
						call *ssa.Call
					}{"Remove", k, v, call})
				case "Evict":
					deps = append(deps, struct {
						what string
						k, v ssa.Value
						call *ssa.Call
					}{"Evict", extractOf(call, 0), extractOf(call, 1), call})
				}
			}
			if len(deps) == 0 {
				continue
			}
			depBlocks[b] = true
			c.sawFn(name)
			for _, d := range deps {
				key := fmt.Sprintf("%s:departure %s", name, d.what)
				var probs []string
				if d.v == nil {
					probs = append(probs, "the departing value is not known (Remove not guarded by a successful Check of the same key, or Evict's value unused)")
				}
				nCb, nSub, nDec := 0, 0, 0
				for _, in := range b.Instrs {
					switch x := in.(type) {
					case *ssa.Call:
						if cal := staticCallee(&x.Call); cal != nil {
							if ah, ok := acctHelper[origin(cal)]; ok && ah.ki < len(x.Call.Args) && ah.vi < len(x.Call.Args) {
								if sameV(x.Call.Args[ah.ki], d.k) && sameV(x.Call.Args[ah.vi], d.v) {
									nCb++
									nSub++
									nDec++
								} else {
									probs = append(probs, "the accounting helper "+origin(cal).Name()+" is called with other arguments than the departing (key, value)")
								}
							}
						}
						if cal := staticCallee(&x.Call); cal != nil {
							if ra, ok := relHelper[origin(cal)]; ok && ra.ki < len(x.Call.Args) && ra.vi < len(x.Call.Args) {
								if sameV(x.Call.Args[ra.ki], d.k) && sameV(x.Call.Args[ra.vi], d.v) {
									nCb++
								} else {
									probs = append(probs, "the release helper "+origin(cal).Name()+" is called with other arguments than the departing (key, value)")
								}
							}
						}
						if isLoad(x.Call.Value, onEvictF) {
							if viaHelper[d.call] {
								probs = append(probs, "a second eviction callback beside the one the helper makes")
							} else if len(x.Call.Args) == 2 && sameV(x.Call.Args[0], d.k) && sameV(x.Call.Args[1], d.v) {
								nCb++
							} else {
								probs = append(probs, "an eviction callback with other arguments than the departing (key, value)")
							}
						}
					case *ssa.BinOp:
						if x.Op == token.SUB {
							if arg, ok := isSizeOfCall(x.Y); ok {
								// must feed the size: stored to c.size in this block or flows into a phi
								feeds := false
								for _, r := range referrersOf(x) {
									switch y := r.(type) {
									case *ssa.Store:
										if fa, ok := y.Addr.(*ssa.FieldAddr); ok {
											if _, f := fieldVarOf(fa); sameField(f, sizeF) {
												feeds = true
											}
										}
									case *ssa.Phi:
										feeds = true
									}
								}
								if !feeds {
									continue
								}
								if sameV(arg, d.v) {
									nSub++
								} else {
									probs = append(probs, "size is reduced by sizeOf of something other than the departing value ("+ksym(arg)+")")
								}
							}
						}
					case *ssa.Store:
						if fa, ok := x.Addr.(*ssa.FieldAddr); ok {
							if _, f := fieldVarOf(fa); sameField(f, countF) {
								if bo, ok := x.Val.(*ssa.BinOp); ok && bo.Op == token.SUB && isLoad(bo.X, countF) && isConstInt(bo.Y, 1) {
									nDec++
								}
							}
						}
					}
				}
				nd := len(deps)
				if viaHelper[d.call] {
					nCb = 1 // the helper notifies (judged in the helper)
				}
				if isWrapper && !viaHelper[d.call] {
					// the accounting of this departure is the callers' (each call site is judged as a departure)
					if nCb != 1 {
						probs = append(probs, fmt.Sprintf("%d callbacks for this departure (want exactly 1)", nCb))
					}
					c.judge(len(probs) == 0, "R-EVICT-PAIR", key, d.call.Pos(), "one callback(k,v); the departed value is returned and accounted for at every call site", fmt.Sprint(probs))
					continue
				}
				if nCb != nd && nCb != 1 {
					probs = append(probs, fmt.Sprintf("%d callbacks for this departure (want exactly 1)", nCb))
				} else if nCb == 0 {
					probs = append(probs, "no eviction callback for this departure")
				}
				if nSub != 1 {
					probs = append(probs, fmt.Sprintf("%d size subtractions of sizeOf(departing value) (want exactly 1)", nSub))
				}
				if nDec != nd {
					probs = append(probs, fmt.Sprintf("%d count decrements for %d departure(s) in the block", nDec, nd))
				}
				c.judge(len(probs) == 0, "R-EVICT-PAIR", key, d.call.Pos(), "one callback(k,v), one size −= sizeOf(v), one count−1", fmt.Sprint(probs))
			}
		}
		// converse: callbacks / count-- / size subtraction outside departure blocks; arrivals
		allInstrs(fn, func(in ssa.Instruction) {
			b := in.Block()
			switch x := in.(type) {
			case *ssa.Call:
				if _, isRel := relHelper[origin(fn)]; isLoad(x.Call.Value, onEvictF) && !depBlocks[b] && !isRel {
					c.bad("R-EVICT-PAIR", name+":callback without departure", x.Pos(), "the eviction callback is invoked in a block where nothing leaves the store")
				}
				if cal := staticCallee(&x.Call); cal != nil {
					if _, ok := relHelper[origin(cal)]; ok && !depBlocks[b] {
						c.bad("R-EVICT-PAIR", name+":release without departure", x.Pos(), "the release helper "+origin(cal).Name()+" (eviction callback + size of the entry) is called in a block where nothing leaves the store")
					}
				}
				if cal := staticCallee(&x.Call); cal != nil {
					if _, ok := acctHelper[origin(cal)]; ok && !depBlocks[b] {
						c.bad("R-EVICT-PAIR", name+":accounting without departure", x.Pos(), "the accounting helper "+origin(cal).Name()+" is called in a block where nothing leaves the store")
					}
				}
				if mname, call := invokeName(in); mname == "Store" {
					c.sawFn(name)
					key := name + ":arrival"
					var probs []string
					nInc := 0
					var sizeStore *ssa.Store
					for _, in2 := range b.Instrs {
						if st, ok := in2.(*ssa.Store); ok {
							if fa, ok := st.Addr.(*ssa.FieldAddr); ok {
								_, f := fieldVarOf(fa)
								if sameField(f, countF) {
									if bo, ok := st.Val.(*ssa.BinOp); ok && bo.Op == token.ADD && isLoad(bo.X, countF) && isConstInt(bo.Y, 1) {
										nInc++
									}
								}
								if sameField(f, sizeF) {
									sizeStore = st
								}
							}
						}
					}
					if nInc != 1 {
						probs = append(probs, fmt.Sprintf("%d count increments (want exactly 1)", nInc))
					}
					if sizeStore == nil {
						probs = append(probs, "size is not updated where the value is stored")
					} else {
						// the stored size must include sizeOf(val): follow phi/sub chain to an ADD with sizeOf(val)
						val := call.Call.Args[1]
						found := false
						seen := map[ssa.Value]bool{}
						var walk func(v ssa.Value)
						walk = func(v ssa.Value) {
							if seen[v] || found {
								return
							}
							seen[v] = true
							switch y := v.(type) {
							case *ssa.Call:
								if a, ok := roomHelper(y); ok {
									walk(a)
								}
							case *ssa.Phi:
								for _, e := range y.Edges {
									walk(e)
								}
							case *ssa.BinOp:
								if y.Op == token.ADD {
									for _, o := range []ssa.Value{y.X, y.Y} {
										if arg, ok := isSizeOfCall(o); ok && sameV(arg, val) {
											found = true
										}
									}
								}
								walk(y.X)
							}
						}
						walk(sizeStore.Val)
						if !found {
							probs = append(probs, "the size stored with the new value does not include sizeOf(val)")
						}
					}
					c.judge(len(probs) == 0, "R-EVICT-PAIR", key, call.Pos(), "count+1 and size including sizeOf(val)", fmt.Sprint(probs))
				}
			case *ssa.Store:
				if fa, ok := x.Addr.(*ssa.FieldAddr); ok && isNamedOrigin(fa.X.Type(), cacheT) {
					_, f := fieldVarOf(fa)
					if sameField(f, countF) {
						if bo, ok := x.Val.(*ssa.BinOp); ok && bo.Op == token.SUB && !depBlocks[b] {
							c.bad("R-EVICT-PAIR", name+":count-- without departure", x.Pos(), "count is decremented in a block where nothing leaves the store")
						}
					}
					if sameField(f, sizeF) {
						// R-LIMIT-LOOP: decreasing by sizeOf, or proved <= limit
						c.sawFn(name)
						key := name + ":size=" + ksym(x.Val)
						if bo, ok := x.Val.(*ssa.BinOp); ok && bo.Op == token.SUB && isLoad(bo.X, sizeF) {
							if _, ok := isSizeOfCall(bo.Y); ok {
								if !depBlocks[b] {
									c.bad("R-EVICT-PAIR", name+":size-- without departure", x.Pos(), "size is reduced in a block where nothing leaves the store")
								}
								c.ok("R-LIMIT-LOOP", key, x.Pos(), "decrease by a sizeOf result")
								return
							}
						}
						// need fact val <= load limit at this block, with the limit load fresh (limit is set-once: C09)
						okF, strict := false, false
						for _, cm := range cmpsAt(b) {
							if cm.X == x.Val && isLoad(cm.Y, limitF) && cm.Op == token.LEQ {
								okF = true
							}
							if cm.Y == x.Val && isLoad(cm.X, limitF) && cm.Op == token.GEQ {
								okF = true
							}
							if (cm.X == x.Val && isLoad(cm.Y, limitF) && cm.Op == token.LSS) || (cm.Y == x.Val && isLoad(cm.X, limitF) && cm.Op == token.GTR) {
								strict = true
							}
						}
						if !okF && !strict && linBound(fn, x) {
							okF = true
						}
						if _, ok := roomHelper(x.Val); ok && !okF {
							okF = true // the helper returns only values it has seen ≤ limit
						}
						var why string
						if !okF {
							why = "size is assigned a value not bounded by limit on this path"
							if strict {
								why = "the eviction loop only stops below the limit (size < limit): it evicts an entry more than needed when the new value fits exactly"
							}
						}
						// initial value of the accumulator: size + sizeOf(val)
						if ph, ok := x.Val.(*ssa.Phi); ok && okF {
							initOK := false
							for i, e := range ph.Edges {
								if ph.Block().Dominates(ph.Block().Preds[i]) {
									continue
								}
								if bo, ok := e.(*ssa.BinOp); ok && bo.Op == token.ADD {
									l, r := bo.X, bo.Y
									if _, ok := isSizeOfCall(l); ok {
										l, r = r, l
									}
									if _, ok := isSizeOfCall(r); ok && isLoad(l, sizeF) {
										initOK = true
									}
								}
							}
							if !initOK {
								okF, why = false, "the accumulator does not start from size + sizeOf(val)"
							}
						}
						c.judge(okF, "R-LIMIT-LOOP", key, x.Pos(), "value ≤ limit by the loop's exit edge; starts from size + sizeOf(val)", why)
					}
				}
			}
		})
	}
	// call sites of departure helpers that take the pair as parameters
	for _, fn := range methods {
		if P.isCanaryFn(fn) {
			continue
		}
		allInstrs(fn, func(in ssa.Instruction) {
			call, ok := in.(*ssa.Call)
			if !ok {
				return
			}
			cal := staticCallee(&call.Call)
			if cal == nil {
				return
			}
			dp, ok := depParams[origin(cal)]
			if !ok || dp.ki >= len(call.Call.Args) || dp.vi >= len(call.Call.Args) {
				return
			}
			k, v := call.Call.Args[dp.ki], call.Call.Args[dp.vi]
			good := false
			for ex, truth := range extractFactsAt(call.Block()) {
				if !truth || ex.Index != 1 {
					continue
				}
				if chk, ok := ex.Tuple.(*ssa.Call); ok && chk.Call.IsInvoke() && chk.Call.Method.Name() == "Check" && sameV(chk.Call.Args[0], k) {
					if e0 := extractOf(chk, 0); e0 != nil && sameV(e0, v) {
						good = true
					}
				}
			}
			c.judge(good, "R-EVICT-PAIR", fnName(fn)+":call of "+origin(cal).Name(), call.Pos(), "the (key, value) handed to the departure helper is what a successful Check of that key returned", "the value handed to "+origin(cal).Name()+" is not the result of a successful Check of the same key: the callback and the size would account for another value")
		})
	}
	for w := range wrapperRes {
		if wrapperUsed[w] == 0 {
			c.bad("R-EVICT-PAIR", fnName(w)+":accounting", w.Pos(), "this helper takes an entry out of the store without adjusting size and count, and no caller in the Cache's methods does it for it")
		}
	}
	// refusal precedes every effect of Put
	putTop := P.Func("cache", "Cache", "Put")
	var put *ssa.Function
	var val ssa.Value
	if putTop != nil {
		// the body that stores the new entry (Put itself, or the closure it hands to a lock wrapper); the
		// value is what that body passes to Store.Store
		for _, f := range buildCallScope(putTop).fns {
			allInstrs(f, func(in ssa.Instruction) {
				if n, call := invokeName(in); n == "Store" && len(call.Call.Args) == 2 && put == nil {
					put, val = f, call.Call.Args[1]
				}
			})
		}
	}
	if put != nil && val != nil {
		c.sawFn(fnName(put))
		var refusal *ssa.If
		refEdge := 0
		allInstrs(put, func(in ssa.Instruction) {
			iff, ok := in.(*ssa.If)
			if !ok {
				return
			}
			// the edge on which sizeOf(val) > limit, whichever way round the test is written
			for e := 0; e < 2; e++ {
				cm, ok := edgeCmp(iff, e)
				if !ok {
					continue
				}
				if _, isSz := isSizeOfCall(cm.Y); isSz {
					cm = Cmp{cm.Y, cm.X, flipOp(cm.Op)}
				}
				arg, isSz := isSizeOfCall(cm.X)
				if isSz && sameV(arg, val) && isLoad(cm.Y, limitF) && cm.Op == token.GTR {
					refusal, refEdge = iff, e
				}
			}
		})
		if refusal == nil {
			c.bad("R-LIMIT-LOOP", "cache.(*Cache).Put:refusal", put.Pos(), "no `sizeOf(val) > limit ⇒ return false` test found")
		} else {
			var probs []string
			tb := refusal.Block().Succs[refEdge]
			// true edge returns false with no effects
			w := walkFrom(tb.Instrs[0], true, nil)
			for _, in := range w.order {
				switch y := in.(type) {
				case *ssa.Return:
					// named-result spill: accept const false or load of alloc
					_ = y
				case *ssa.Call:
					if n, _ := invokeName(in); n != "" {
						probs = append(probs, "store touched on the refusal path")
					}
					if isLoad(y.Call.Value, onEvictF) {
						probs = append(probs, "callback on the refusal path")
					}
				case *ssa.Store:
					if fa, ok := y.Addr.(*ssa.FieldAddr); ok && isNamedOrigin(fa.X.Type(), cacheT) {
						probs = append(probs, "cache field written on the refusal path")
					}
				}
			}
			// every effect in Put is dominated by the false edge
			fb := refusal.Block().Succs[1-refEdge]
			allInstrs(put, func(in ssa.Instruction) {
				eff := false
				if n, _ := invokeName(in); n == "Remove" || n == "Evict" || n == "Store" {
					eff = true
				}
				if call, ok := in.(*ssa.Call); ok && isLoad(call.Call.Value, onEvictF) {
					eff = true
				}
				if st, ok := in.(*ssa.Store); ok {
					if fa, ok := st.Addr.(*ssa.FieldAddr); ok && isNamedOrigin(fa.X.Type(), cacheT) {
						eff = true
					}
				}
				if eff && !fb.Dominates(in.Block()) {
					probs = append(probs, "an effect at "+P.pos(instrPos(in))+" is not preceded by the too-big test")
				}
			})
			c.judge(len(probs) == 0, "R-LIMIT-LOOP", "cache.(*Cache).Put:refusal", refusal.Pos(), "a value larger than the limit is refused before any effect", fmt.Sprint(probs))
		}
	} else {
		c.undecided("ANCHOR", "cache.(*Cache).Put", 0, "not found")
	}

	// ---- R-CHECK-PURE
	if has := P.Func("cache", "Cache", "Has"); has != nil {
		c.sawFn(fnName(has))
		var used []string
		// store calls Has reaches: its own, and those of helpers of the package it calls — in a helper, a branch on a
		// boolean parameter is followed only on the side the constant argument selects (find(key, false))
		var reach func(fn *ssa.Function, known map[ssa.Value]bool, depth int)
		reach = func(fn *ssa.Function, known map[ssa.Value]bool, depth int) {
			seen := map[*ssa.BasicBlock]bool{}
			var walk func(b *ssa.BasicBlock)
			walk = func(b *ssa.BasicBlock) {
				if seen[b] {
					return
				}
				seen[b] = true
				for _, in := range b.Instrs {
					if n, _ := invokeName(in); n != "" {
						used = append(used, n)
					}
					if call, ok := in.(ssa.CallInstruction); ok && depth < 2 {
						if cal := staticCallee(call.Common()); cal != nil && cal.Blocks != nil && cal.Pkg == origin(has).Pkg {
							k2 := map[ssa.Value]bool{}
							for i, a := range call.Common().Args {
								if kc, ok := a.(*ssa.Const); ok && kc.Value != nil && kc.Value.Kind() == constant.Bool && i < len(cal.Params) {
									k2[cal.Params[i]] = constant.BoolVal(kc.Value)
								}
							}
							reach(cal, k2, depth+1)
						}
					}
					if mc, ok := in.(*ssa.MakeClosure); ok {
						if cl, ok := mc.Fn.(*ssa.Function); ok {
							reach(cl, nil, depth)
						}
					}
				}
				if iff, ok := b.Instrs[len(b.Instrs)-1].(*ssa.If); ok {
					cond, neg := iff.Cond, false
					if u, ok := cond.(*ssa.UnOp); ok && u.Op == token.NOT {
						cond, neg = u.X, true
					}
					if v, ok := known[cond]; ok {
						if v != neg {
							walk(b.Succs[0])
						} else {
							walk(b.Succs[1])
						}
						return
					}
				}
				for _, sc := range b.Succs {
					walk(sc)
				}
			}
			if len(fn.Blocks) > 0 {
				walk(fn.Blocks[0])
			}
		}
		reach(has, nil, 0)
		c.judge(len(used) == 1 && used[0] == "Check", "R-CHECK-PURE", "cache.(*Cache).Has:store calls", has.Pos(), "only Store.Check", fmt.Sprintf("Has calls %v on the store (only Check does not count as a use)", used))
	}
	roles := resolveLRU(P)
	if roles == nil {
		c.undecided("ANCHOR", "cache LRU store (type allocated by LRU, its map index, heap, clock and stamp)", 0, "anchor not found")
		return
	}
	if chk := roles.check; chk != nil {
		c.sawFn(fnName(chk))
		e := newEff(P).of(chk)
		var effs []string
		for f := range e.Fields {
			effs = append(effs, "field "+f.Name())
		}
		if e.MapUpdate {
			effs = append(effs, "map update/delete")
		}
		if e.ElemStore {
			effs = append(effs, "element store/append/copy")
		}
		if e.Unknown {
			effs = append(effs, "unknown callee")
		}
		c.judge(len(effs) == 0, "R-CHECK-PURE", "cache.(*lruStore).Check:effects", chk.Pos(), "no effects (transitively)", fmt.Sprintf("Check has effects %v: a presence test would change the recency order", effs))
	} else {
		c.undecided("ANCHOR", "cache.(*lruStore).Check", 0, "not found")
	}

	// ---- R-POS-WRITERS (shared with C06): the key→offset index stays in step with the heap
	c.rule("R-POS-WRITERS", 4, "lruStore.present has exactly the writers {update callback, Store} and deleters {Remove, Evict}, each deletion after the heap removal; the callback is installed")
	rulePosWriters(c)

	// ---- the LRU order lives in a heapq.Queue whose positions the store tracks through the move callback:
	// the heap's own structural rules (C05, C06) are part of what this property stands on
	c.rule("R-HEAP-SHARED", 4, "heapq's R-HEAP-BIDIR, R-POP-CONSERVES, R-MOVE-NOTIFY and R-ADD-RETURNS hold (shared with C05/C06)")
	for _, sh := range []struct {
		id  string
		run func(*Ctx)
	}{{"C05", runC05}, {"C06", runC06}} {
		sub := newCtx(P, sh.id, c.Tier)
		sh.run(sub)
		for _, o := range sub.Obligs {
			switch o.Rule {
			case "R-HEAP-BIDIR", "R-POP-CONSERVES", "R-MOVE-NOTIFY", "R-ADD-RETURNS", "R-OFFSET-VALID":
			default:
				continue
			}
			key := sh.id + ":" + o.Rule + "/" + o.Construct
			if o.Verdict == "ok" {
				c.ok("R-HEAP-SHARED", key, 0, "holds")
			} else {
				c.bad("R-HEAP-SHARED", key, 0, "the LRU store's heap breaks "+o.Rule+" at "+o.Pos+": "+o.Msg+" — recency order or the key→offset index goes wrong")
			}
		}
	}
	// ---- Remove's answer: true exactly where an entry left the store
	if rm := P.Func("cache", "Cache", "Remove"); rm != nil {
		for _, f := range buildCallScope(rm).fns {
			if f != rm && !(f.Parent() != nil) && origin(f).Signature.Results().Len() != 1 {
				continue
			}
			f := f
			departs := map[*ssa.BasicBlock]bool{}
			allInstrs(f, func(in ssa.Instruction) {
				if n, _ := invokeName(in); n == "Remove" || n == "Evict" {
					departs[in.Block()] = true
				}
			})
			allInstrs(f, func(in ssa.Instruction) {
				ret, ok := in.(*ssa.Return)
				if !ok || len(ret.Results) != 1 {
					return
				}
				var chk func(v ssa.Value, at *ssa.BasicBlock, seen map[ssa.Value]bool)
				chk = func(v ssa.Value, at *ssa.BasicBlock, seen map[ssa.Value]bool) {
					if seen[v] {
						return
					}
					seen[v] = true
					switch x := v.(type) {
					case *ssa.Phi:
						for i, e := range x.Edges {
							chk(e, x.Block().Preds[i], seen)
						}
					case *ssa.UnOp:
						// a result spilled to a cell because of the deferred Unlock: judge what is stored there
						if al, ok := x.X.(*ssa.Alloc); ok && x.Op == token.MUL {
							for _, r := range referrersOf(al) {
								if st, ok := r.(*ssa.Store); ok && st.Addr == ssa.Value(al) && (st.Block() == x.Block() || st.Block().Dominates(x.Block())) {
									// the store nearest to this read on the dominator chain
									nearest := true
									for _, r2 := range referrersOf(al) {
										if st2, ok := r2.(*ssa.Store); ok && st2 != st && st2.Addr == ssa.Value(al) && (st2.Block() == x.Block() || st2.Block().Dominates(x.Block())) && dominatesInstr(st, st2) {
											nearest = false
										}
									}
									if nearest {
										chk(st.Val, st.Block(), seen)
									}
								}
							}
						}
					case *ssa.Const:
						if x.Value == nil {
							return
						}
						after := false
						for b := range departs {
							if b == at || b.Dominates(at) {
								after = true
							}
						}
						isTrue := x.Value.String() == "true"
						key := fmt.Sprintf("%s:answers %v", fnName(f), isTrue)
						switch {
						case isTrue && !after:
							c.bad("R-EVICT-PAIR", key, ret.Pos(), "Remove can answer true on a path where nothing left the store: the caller is told an entry was removed that was never there")
						case !isTrue && after:
							c.bad("R-EVICT-PAIR", key, ret.Pos(), "Remove can answer false after taking an entry out of the store")
						default:
							c.ok("R-EVICT-PAIR", key, ret.Pos(), "the answer matches whether an entry left the store")
						}
					}
				}
				if b, ok := ret.Results[0].Type().Underlying().(*types.Basic); ok && b.Kind() == types.Bool && len(departs) > 0 {
					chk(ret.Results[0], ret.Block(), map[ssa.Value]bool{})
				}
			})
		}
	}
	// ---- R-SIZEFN-FAITHFUL: the size function the cache accounts with is the configured one
	c.rule("R-SIZEFN-FAITHFUL", 1, "the size function installed in the cache is the configured function itself, a closure returning exactly its result, or (nothing configured) a constant")
	{
		n := 0
		var judgeFn func(v ssa.Value, at token.Pos, depth int)
		judgeFn = func(v ssa.Value, at token.Pos, depth int) {
			if depth > 4 {
				return
			}
			switch x := v.(type) {
			case *ssa.Phi:
				for _, e := range x.Edges {
					judgeFn(e, at, depth+1)
				}
			case *ssa.ChangeType:
				judgeFn(x.X, at, depth+1)
			case *ssa.Call:
				if cal := staticCallee(&x.Call); cal != nil && origin(cal).Blocks != nil && origin(cal).Pkg == P.SPkgs["cache"] {
					allInstrs(origin(cal), func(in ssa.Instruction) {
						if ret, ok := in.(*ssa.Return); ok && len(ret.Results) == 1 {
							judgeFn(ret.Results[0], ret.Pos(), depth+1)
						}
					})
				}
			case *ssa.MakeClosure:
				cl := x.Fn.(*ssa.Function)
				// does it capture a function (the configured size function)?
				var inner []*ssa.Call
				allInstrs(cl, func(in ssa.Instruction) {
					if call, ok := in.(*ssa.Call); ok && staticCallee(&call.Call) == nil && !call.Call.IsInvoke() {
						if _, isB := call.Call.Value.(*ssa.Builtin); !isB {
							inner = append(inner, call)
						}
					}
				})
				n++
				key := fmt.Sprintf("cache size function:closure #%d", n)
				if len(inner) == 0 {
					c.ok("R-SIZEFN-FAITHFUL", key, cl.Pos(), "a default that consults no configured function")
					return
				}
				okAll := true
				allInstrs(cl, func(in ssa.Instruction) {
					if ret, ok := in.(*ssa.Return); ok && len(ret.Results) == 1 {
						isInner := false
						for _, ic := range inner {
							if ret.Results[0] == ssa.Value(ic) {
								isInner = true
							}
						}
						if !isInner {
							okAll = false
						}
					}
				})
				c.judge(okAll, "R-SIZEFN-FAITHFUL", key, cl.Pos(), "returns the configured function's result unchanged", "the size function installed in the cache wraps the configured one and alters its result: Size is no longer the sum of the configured sizes (e.g. values of size 0), and entries are evicted that would fit")
			case *ssa.UnOp:
				if _, f := loadedField(x); f != nil {
					n++
					c.ok("R-SIZEFN-FAITHFUL", fmt.Sprintf("cache size function:field .%s #%d", f.Name(), n), at, "the configured function itself")
				}
			case *ssa.Function:
				n++
				c.ok("R-SIZEFN-FAITHFUL", fmt.Sprintf("cache size function:%s #%d", fnName(x), n), at, "a named function")
			}
		}
		for _, fn := range P.PkgFuncs("cache") {
			allInstrs(fn, func(in ssa.Instruction) {
				st, ok := in.(*ssa.Store)
				if !ok {
					return
				}
				fa, ok := st.Addr.(*ssa.FieldAddr)
				if !ok {
					return
				}
				if _, f := fieldVarOf(fa); sameField(f, sizeOfF) {
					judgeFn(st.Val, st.Pos(), 0)
				}
			})
		}
	}
	// ---- R-CLEAR-ALL: Clear returns only once the entry count is known to be ≤ 0
	c.rule("R-CLEAR-ALL", 1, "every path of Cache.Clear to a return crosses a branch edge on which count ≤ 0 holds")
	if clear := P.Func("cache", "Cache", "Clear"); clear == nil {
		c.undecided("ANCHOR", "cache.(*Cache).Clear", 0, "not found")
	} else {
		// the function holding Clear's loop: the one (Clear, a closure it runs, a helper it calls) that takes
		// entries out of the store directly or through a helper
		var body *ssa.Function
		departs := func(fn *ssa.Function) bool {
			hit := false
			for _, g := range buildCallScope(fn).fns {
				allInstrs(g, func(in ssa.Instruction) {
					if n, _ := invokeName(in); n == "Evict" || n == "Remove" {
						hit = true
					}
				})
			}
			return hit
		}
		for _, fn := range buildCallScope(clear).fns {
			direct := false
			allInstrs(fn, func(in ssa.Instruction) {
				if n, _ := invokeName(in); n == "Evict" || n == "Remove" {
					direct = true
				}
				if call, ok := in.(*ssa.Call); ok && !direct {
					if cal := staticCallee(&call.Call); cal != nil && cal.Blocks != nil && origin(cal).Pkg == origin(clear).Pkg && departs(origin(cal)) {
						// a loop around a departing helper
						for _, b := range fn.Blocks {
							if b == call.Block() {
								direct = true
							}
						}
					}
				}
			})
			// prefer the function that also tests the count
			if direct {
				tests := false
				allInstrs(fn, func(in ssa.Instruction) {
					if bo, ok := in.(*ssa.BinOp); ok && negOp(bo.Op) != token.ILLEGAL && (isLoad(bo.X, countF) || isLoad(bo.Y, countF)) {
						tests = true
					}
				})
				if body == nil || tests {
					body = fn
				}
			}
		}
		if body == nil {
			c.undecided("R-CLEAR-ALL", "cache.(*Cache).Clear:empties", clear.Pos(), "Clear takes nothing out of the store")
		} else {
			// edges on which count ≤ 0 is established
			est := map[[2]*ssa.BasicBlock]bool{}
			assertOnly := false
			for _, b := range body.Blocks {
				if len(b.Instrs) == 0 {
					continue
				}
				iff, ok := b.Instrs[len(b.Instrs)-1].(*ssa.If)
				if !ok {
					continue
				}
				bo, ok := iff.Cond.(*ssa.BinOp)
				if !ok {
					continue
				}
				x, y, op := bo.X, bo.Y, bo.Op
				if _, isK := constInt(x); isK {
					x, y = y, x
					switch op {
					case token.LSS:
						op = token.GTR
					case token.LEQ:
						op = token.GEQ
					case token.GTR:
						op = token.LSS
					case token.GEQ:
						op = token.LEQ
					}
				}
				k, isK := constInt(y)
				// the count itself, or a loop counter that starts as a copy of it and goes down by one in step with
				// it (for left := c.count; left > 0; left-- { …; c.count-- })
				lockstep := false
				if ph, isPhi := x.(*ssa.Phi); isPhi && isK {
					init, step := false, false
					for i, e := range ph.Edges {
						if ph.Block().Dominates(ph.Block().Preds[i]) {
							if d, ok := e.(*ssa.BinOp); ok && d.Op == token.SUB && d.X == ssa.Value(ph) && isConstInt(d.Y, 1) {
								step = true
							}
						} else if isLoad(e, countF) {
							init = true
						}
					}
					if init && step {
						nDec := 0
						allInstrs(body, func(in2 ssa.Instruction) {
							if st, ok := in2.(*ssa.Store); ok && ph.Block().Dominates(st.Block()) && blockInLoop(st.Block()) {
								if _, f := fieldVarOf(st.Addr); f != nil && sameField(f, countF) {
									if d, ok := st.Val.(*ssa.BinOp); ok && d.Op == token.SUB && isLoad(d.X, countF) && isConstInt(d.Y, 1) {
										nDec++
									} else {
										nDec += 100
									}
								}
							}
						})
						lockstep = nDec == 1
					}
				}
				if !isK || !(isLoad(x, countF) || lockstep) {
					continue
				}
				// holds(v): the condition for count = v; the true edge establishes count ≤ 0 when the
				// condition fails for every v ≥ 1, the false edge when it holds for every v ≥ 1
				holds := func(v int64) bool {
					switch op {
					case token.LSS:
						return v < k
					case token.LEQ:
						return v <= k
					case token.GTR:
						return v > k
					case token.GEQ:
						return v >= k
					case token.EQL:
						return v == k
					case token.NEQ:
						return v != k
					}
					return true
				}
				allHold, noneHold := true, true
				for _, v := range []int64{1, 2, 3, k - 1, k, k + 1, 1 << 40} {
					if v < 1 {
						continue
					}
					if holds(v) {
						noneHold = false
					} else {
						allHold = false
					}
				}
				// an assertion (the other way out is a panic) is a consistency check, not the control that decides
				// when Clear is done: it establishes nothing
				panics := func(s *ssa.BasicBlock) bool {
					for d := 0; d < 3 && s != nil; d++ {
						for _, in := range s.Instrs {
							if _, ok := in.(*ssa.Panic); ok {
								return true
							}
						}
						if len(s.Succs) != 1 {
							return false
						}
						s = s.Succs[0]
					}
					return false
				}
				if noneHold && !panics(b.Succs[1]) {
					est[[2]*ssa.BasicBlock{b, b.Succs[0]}] = true
				} else if noneHold {
					assertOnly = true
				}
				if allHold && !panics(b.Succs[0]) {
					est[[2]*ssa.BasicBlock{b, b.Succs[1]}] = true
				} else if allHold {
					assertOnly = true
				}
			}
			// a return reachable from the entry without crossing such an edge
			seen := map[*ssa.BasicBlock]bool{body.Blocks[0]: true}
			work := []*ssa.BasicBlock{body.Blocks[0]}
			var badRet *ssa.Return
			for len(work) > 0 {
				b := work[len(work)-1]
				work = work[:len(work)-1]
				if r, ok := b.Instrs[len(b.Instrs)-1].(*ssa.Return); ok && badRet == nil {
					badRet = r
				}
				for _, s := range b.Succs {
					if !est[[2]*ssa.BasicBlock{b, s}] && !seen[s] {
						seen[s] = true
						work = append(work, s)
					}
				}
			}
			key := "cache.(*Cache).Clear:returns only when empty"
			if len(est) == 0 && assertOnly {
				c.bad("R-CLEAR-ALL", key, body.Pos(), "the only test of the entry count in Clear is an assertion that panics; what ends the eviction loop is some other quantity (the total size, say): entries of size 0 are left in the store, their eviction callbacks never run, and the assertion fires")
			} else if len(est) == 0 {
				c.undecided("R-CLEAR-ALL", key, body.Pos(), "Clear never tests the entry count against zero: cannot tell when it considers the cache empty")
			} else if badRet != nil {
				c.bad("R-CLEAR-ALL", key, badRet.Pos(), fmt.Sprintf("Clear can return at line %d without having seen count ≤ 0: entries (and their eviction callbacks) can be left behind, e.g. when every entry has size 0", P.Fset.Position(badRet.Pos()).Line))
			} else {
				c.ok("R-CLEAR-ALL", key, body.Pos(), fmt.Sprintf("%d establishing edge(s); every return lies behind one", len(est)))
			}
		}
	}

	// ---- R-USE-TICK: a successful Access / a Store always counts as a use
	c.rule("R-USE-TICK", 2, "every successful return of lruStore.Access and every return of lruStore.Store is preceded on all paths by a clock tick, a lastAccess stamp and a heap insertion")
	{
		clockF0, laF0, accessF0 := roles.clockF, roles.stampF, roles.accessF
		qAdd := P.Func("heapq", "Queue", "Add")
		for _, mn := range []string{"Access", "Store"} {
			fn := map[string]*ssa.Function{"Access": roles.access, "Store": roles.store}[mn]
			if fn == nil || clockF0 == nil || laF0 == nil || accessF0 == nil || qAdd == nil {
				c.undecided("ANCHOR", "cache.(*lruStore)."+mn, 0, "not found")
				continue
			}
			c.sawFn(fnName(fn))
			isStoreTo := func(in ssa.Instruction, f *types.Var) bool {
				st, ok := in.(*ssa.Store)
				if !ok {
					return false
				}
				fa, ok := st.Addr.(*ssa.FieldAddr)
				if !ok {
					return false
				}
				_, g := fieldVarOf(fa)
				return sameField(f, g)
			}
			events := map[string]func(ssa.Instruction) bool{
				"clock tick":       func(in ssa.Instruction) bool { return isStoreTo(in, clockF0) },
				"lastAccess stamp": func(in ssa.Instruction) bool { return isStoreTo(in, laF0) },
				"heap insertion": func(in ssa.Instruction) bool {
					call, ok := in.(*ssa.Call)
					return ok && staticCallee(&call.Call) == qAdd && isLoad(call.Call.Args[0], accessF0)
				},
			}
			isSuccess := func(in ssa.Instruction) bool {
				ret, ok := in.(*ssa.Return)
				if !ok {
					return false
				}
				if len(ret.Results) == 2 {
					if cst, ok := ret.Results[1].(*ssa.Const); ok && cst.Value != nil && cst.Value.String() == "false" {
						return false // not-found return
					}
				}
				return true
			}
			var probs []string
			for what, ev0 := range events {
				// the event itself, or a call of a package helper (touch) that performs it on all of its paths
				var lift func(ev func(ssa.Instruction) bool, depth int) func(ssa.Instruction) bool
				lift = func(ev func(ssa.Instruction) bool, depth int) func(ssa.Instruction) bool {
					return func(in ssa.Instruction) bool {
						if ev(in) {
							return true
						}
						call, ok := in.(*ssa.Call)
						if !ok || depth <= 0 {
							return false
						}
						cal := origin(staticCallee(&call.Call))
						if cal == nil || cal.Blocks == nil || cal.Pkg == nil || cal.Pkg != origin(fn).Pkg || cal == origin(fn) {
							return false
						}
						missing, _ := reachesWithout(P, firstInstr(cal), true, isReturn, lift(ev, depth-1))
						return !missing
					}
				}
				ev := lift(ev0, 2)
				found, wit := reachesWithout(P, firstInstr(fn), true, isSuccess, ev)
				if found {
					probs = append(probs, "a successful return is reachable without the "+what+" ("+wit+")")
				}
			}
			sortStrings(probs)
			c.judge(len(probs) == 0, "R-USE-TICK", fnName(fn)+":counts as a use", fn.Pos(), "tick, stamp and heap insertion on every successful path", fmt.Sprint(probs)+": a use is not recorded, so the entry looks older than it is")
		}
	}

	// ---- R-CLOCK
	clockF, laF := roles.clockF, roles.stampF
	if clockF == nil || laF == nil {
		c.undecided("ANCHOR", "cache.lruStore.clock / prioKey.lastAccess", 0, "not found")
		return
	}
	for _, fn := range P.PkgFuncs("cache") {
		if P.isCanaryFn(fn) {
			continue
		}
		name := fnName(fn)
		allInstrs(fn, func(in ssa.Instruction) {
			st, ok := in.(*ssa.Store)
			if !ok {
				return
			}
			fa, ok := st.Addr.(*ssa.FieldAddr)
			if !ok {
				return
			}
			_, f := fieldVarOf(fa)
			switch {
			case sameField(f, clockF):
				c.sawFn(name)
				bo, ok := st.Val.(*ssa.BinOp)
				okT := ok && bo.Op == token.ADD && isLoad(bo.X, clockF) && isConstInt(bo.Y, 1)
				c.judge(okT, "R-CLOCK", name+":clock tick", st.Pos(), "clock = clock + 1", "the logical clock is written other than by a +1 tick")
			case sameField(f, laF):
				c.sawFn(name)
				// value = load clock, preceded in block by a tick, no tick between load and... the load must come after the tick
				okL := false
				if ld, ok := st.Val.(*ssa.UnOp); ok && isLoad(ld, clockF) {
					for _, in2 := range st.Block().Instrs {
						if in2 == ssa.Instruction(ld) {
							break
						}
						if st2, ok := in2.(*ssa.Store); ok {
							if fa2, ok := st2.Addr.(*ssa.FieldAddr); ok {
								if _, f2 := fieldVarOf(fa2); sameField(f2, clockF) {
									okL = true
								}
							}
						}
					}
				}
				// … or the very value that a tick in this function stores into the clock (now := c.clock + 1;
				// c.clock = now; … lastAccess = now)
				if !okL {
					allInstrs(fn, func(in2 ssa.Instruction) {
						if st2, ok := in2.(*ssa.Store); ok && st2.Val == st.Val {
							if fa2, ok := st2.Addr.(*ssa.FieldAddr); ok {
								if _, f2 := fieldVarOf(fa2); sameField(f2, clockF) {
									if bo, ok := st2.Val.(*ssa.BinOp); ok && bo.Op == token.ADD && isLoad(bo.X, clockF) && isConstInt(bo.Y, 1) {
										okL = true
									}
								}
							}
						}
					})
				}
				// … or the result of a tick helper: a function that bumps the clock by one and returns the
				// clock as it stands after the bump (now := c.tick())
				if call, ok := st.Val.(*ssa.Call); ok && !okL {
					if cal := origin(staticCallee(&call.Call)); cal != nil && cal.Blocks != nil {
						var tick *ssa.Store
						allInstrs(cal, func(in2 ssa.Instruction) {
							if st2, ok := in2.(*ssa.Store); ok {
								if fa2, ok := st2.Addr.(*ssa.FieldAddr); ok {
									if _, f2 := fieldVarOf(fa2); sameField(f2, clockF) {
										tick = st2
									}
								}
							}
						})
						retOK, nRet := tick != nil, 0
						allInstrs(cal, func(in2 ssa.Instruction) {
							ret, ok := in2.(*ssa.Return)
							if !ok || len(ret.Results) != 1 || tick == nil {
								return
							}
							nRet++
							r := ret.Results[0]
							if r == tick.Val {
								return // the incremented value itself
							}
							if ld, ok := r.(*ssa.UnOp); ok && isLoad(ld, clockF) && dominatesInstr(tick, ld) {
								return
							}
							retOK = false
						})
						if retOK && nRet > 0 {
							okL = true
						}
					}
				}
				c.judge(okL, "R-CLOCK", name+":lastAccess", st.Pos(), "stamped with the clock value just ticked", "lastAccess is stamped with a value other than a freshly ticked clock: two uses can share a timestamp or a use can look older than it is")
			}
		})
	}
}

// sameV: the same SSA value, or two reads of the same never-reassigned variable (a parameter captured by a
// closure is re-loaded from its cell at every use).
func sameV(a, b ssa.Value) bool {
	if a == nil || b == nil {
		return a == b
	}
	return a == b || sym(a) == sym(b)
}
