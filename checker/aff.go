package main

// E-aff: affine-form extraction from SSA integer expressions over one base
// value: v = floor((a*X + b) / d).

import (
	"fmt"
	"go/token"

	"golang.org/x/tools/go/ssa"
)

type aff struct{ a, b, d int64 }

func (f aff) String() string {
	if f.d == 1 {
		return fmt.Sprintf("%d·x%+d", f.a, f.b)
	}
	return fmt.Sprintf("⌊(%d·x%+d)/%d⌋", f.a, f.b, f.d)
}

func (f aff) eval(x int64) int64 {
	n := f.a*x + f.b
	// floor division
	q := n / f.d
	if (n%f.d != 0) && ((n < 0) != (f.d < 0)) {
		q--
	}
	return q
}

// affOf expresses v over base, using known forms for other values (e.g.
// related phis).  ok=false if v is not of a recognised shape.
func affOf(v ssa.Value, base ssa.Value, known map[ssa.Value]aff, depth int) (aff, bool) {
	if depth > 10 {
		return aff{}, false
	}
	if v == base {
		return aff{1, 0, 1}, true
	}
	if f, ok := known[v]; ok {
		return f, true
	}
	if k, ok := constInt(v); ok {
		return aff{0, k, 1}, true
	}
	switch x := v.(type) {
	case *ssa.Convert:
		return affOf(x.X, base, known, depth+1)
	case *ssa.BinOp:
		l, lok := affOf(x.X, base, known, depth+1)
		r, rok := affOf(x.Y, base, known, depth+1)
		if !lok || !rok {
			return aff{}, false
		}
		switch x.Op {
		case token.ADD:
			if r.a == 0 && r.d == 1 {
				return aff{l.a, l.b + r.b*l.d, l.d}, true
			}
			if l.a == 0 && l.d == 1 {
				return aff{r.a, r.b + l.b*r.d, r.d}, true
			}
			if l.d == 1 && r.d == 1 {
				return aff{l.a + r.a, l.b + r.b, 1}, true
			}
		case token.SUB:
			if r.a == 0 && r.d == 1 {
				return aff{l.a, l.b - r.b*l.d, l.d}, true
			}
			if l.d == 1 && r.d == 1 {
				return aff{l.a - r.a, l.b - r.b, 1}, true
			}
		case token.MUL:
			if r.a == 0 && r.d == 1 && l.d == 1 {
				return aff{l.a * r.b, l.b * r.b, 1}, true
			}
			if l.a == 0 && l.d == 1 && r.d == 1 {
				return aff{r.a * l.b, r.b * l.b, 1}, true
			}
		case token.QUO:
			if r.a == 0 && r.d == 1 && r.b > 0 {
				return aff{l.a, l.b, l.d * r.b}, true
			}
		case token.SHL:
			if r.a == 0 && r.d == 1 && r.b >= 0 && r.b < 31 && l.d == 1 {
				return aff{l.a << uint(r.b), l.b << uint(r.b), 1}, true
			}
		case token.SHR:
			if r.a == 0 && r.d == 1 && r.b >= 0 && r.b < 31 {
				return aff{l.a, l.b, l.d << uint(r.b)}, true
			}
		case token.OR:
			if r.a == 0 && r.d == 1 && r.b == 1 && l.d == 1 && l.a%2 == 0 && l.b%2 == 0 {
				return aff{l.a, l.b + 1, 1}, true
			}
		}
	}
	return aff{}, false
}

// relatedPhis finds phis of the same block as iphi whose every edge is the
// same affine function of iphi's corresponding edge.
func relatedPhis(iphi *ssa.Phi) map[ssa.Value]aff {
	out := map[ssa.Value]aff{}
	for _, in := range iphi.Block().Instrs {
		ph, ok := in.(*ssa.Phi)
		if !ok {
			break
		}
		if ph == iphi {
			continue
		}
		var form aff
		good := true
		for e := range ph.Edges {
			f, ok := affOf(ph.Edges[e], iphi.Edges[e], nil, 0)
			if !ok || (e > 0 && f != form) {
				good = false
				break
			}
			form = f
		}
		if good {
			out[ph] = form
		}
	}
	return out
}

// phiLeaves expands phis (other than stop values) into their leaf operands.
func phiLeaves(v ssa.Value, stop map[ssa.Value]bool, seen map[ssa.Value]bool, out *[]ssa.Value) {
	if seen[v] {
		return
	}
	seen[v] = true
	if ph, ok := v.(*ssa.Phi); ok && !stop[v] {
		for _, e := range ph.Edges {
			phiLeaves(e, stop, seen, out)
		}
		return
	}
	*out = append(*out, v)
}
