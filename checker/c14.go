package main

// C14 — mdiff text formats: R-SPAN-SENTINEL, R-PREFIX-TABLES, R-TIMEFMT,
// R-OP-EXHAUSTIVE, R-PATCH-FRESH.

import (
	"fmt"
	"go/ast"
	"go/constant"
	"go/token"
	"go/types"
	"regexp"
	"sort"
	"strings"

	"golang.org/x/tools/go/packages"
	"golang.org/x/tools/go/ssa"
)

func init() {
	register(&propDef{ID: "C14", Level: "other", Run: runC14})
}

func strConst(info *types.Info, e ast.Expr) (string, bool) {
	tv, ok := info.Types[e]
	if !ok || tv.Value == nil || tv.Value.Kind() != constant.String {
		return "", false
	}
	return constant.StringVal(tv.Value), true
}

func findFuncDecl(p *packages.Package, name string) *ast.FuncDecl {
	for _, f := range p.Syntax {
		for _, d := range f.Decls {
			if fd, ok := d.(*ast.FuncDecl); ok && fd.Name.Name == name && fd.Recv == nil {
				return fd
			}
		}
	}
	return nil
}

// opSwitchArms returns, for the first switch over EditOp inside node, op value -> case clause.
func opSwitchArms(info *types.Info, node ast.Node) (map[int64]*ast.CaseClause, *ast.SwitchStmt) {
	var sw *ast.SwitchStmt
	ast.Inspect(node, func(n ast.Node) bool {
		if sw != nil {
			return false
		}
		s, ok := n.(*ast.SwitchStmt)
		if !ok || s.Tag == nil {
			return true
		}
		if tv, ok := info.Types[s.Tag]; ok {
			if nt, ok := tv.Type.(*types.Named); ok && nt.Obj().Name() == "EditOp" {
				sw = s
				return false
			}
		}
		return true
	})
	if sw == nil {
		return nil, nil
	}
	out := map[int64]*ast.CaseClause{}
	for _, s := range sw.Body.List {
		cc := s.(*ast.CaseClause)
		for _, e := range cc.List {
			if v, ok := constIntOf(info, e); ok {
				out[v] = cc
			}
		}
	}
	return out, sw
}

// callsIn lists calls to a function named fname inside node, in source order.
func callsIn(node ast.Node, fname string) []*ast.CallExpr {
	var out []*ast.CallExpr
	ast.Inspect(node, func(n ast.Node) bool {
		call, ok := n.(*ast.CallExpr)
		if !ok {
			return true
		}
		switch f := call.Fun.(type) {
		case *ast.Ident:
			if f.Name == fname {
				out = append(out, call)
			}
		case *ast.SelectorExpr:
			if f.Sel.Name == fname {
				out = append(out, call)
			}
		}
		return true
	})
	return out
}

func selName(e ast.Expr) string {
	if s, ok := e.(*ast.SelectorExpr); ok {
		return s.Sel.Name
	}
	return ""
}

func runC14(c *Ctx) {
	P := c.P
	c.Explanation = "Decides structural clauses: (R-SPAN-SENTINEL, an inconsistent-belief rule) the span parser returns a constant in place of an omitted count; every caller must compare that result with the constant before using it arithmetically. (R-PREFIX-TABLES) the constants the writers emit and the constants the readers classify by agree by value: unified line prefixes per opcode ↔ the reader's switch on the first byte and its payload offset; '@@' header tokens and span tags; file-header prefixes and the name/time separator; the normal format's command letters per opcode ↔ the reader's letters and opcode assignment; '< ', '> ' and '---'. (R-TIMEFMT) the reader accepts the very time format constant the writer defaults to. (R-OP-EXHAUSTIVE) every formatter and the reader handle all opcodes. (R-PATCH-FRESH) the git-patch reader does not reuse the backing array of chunks it has already handed out. (R-HEADER-SIDES) a header-writing call receives a (name, time) field pair the reader fills from one header line; (R-LINE-EXACT) the readers' line source removes nothing but the final newline; (R-BOUND-SIDE, R-SIBLING-GUARD) context lines are indexed under guards on their own side. (R-SENTINEL-COMPLETE) a return carrying the sentinel error the git-patch reader tolerates is preceded by the store that records the chunk; (R-TIME-EXACT) the parsed header time is handed on as time.Parse produced it; (R-CONTEXT-FRESH, shared with C13) leading and trailing context are separate allocations. Does NOT decide byte-for-byte re-formatting nor that a rendering applied by the published rules turns Left into Right; in particular the spelling of EMPTY ranges (GNU writes the line before an empty range) has no structural signature here and is not decided."
	c.rule("R-SPAN-SENTINEL", 1, "every use of a sentinel-carrying result of the span parser is preceded by a comparison with the sentinel")
	c.rule("R-PREFIX-TABLES", 12, "writer and reader constants agree by value")
	c.rule("R-TIMEFMT", 2, "the reader parses timestamps with the constant the writers default to")
	c.rule("R-OP-EXHAUSTIVE", 2, "every EditOp switch in package mdiff is exhaustive or has a strict default")
	c.rule("R-PATCH-FRESH", 1, "chunk slices handed out in a Patch are not re-sliced for reuse by the reader")

	// context lines of the unified/context formats come from findContext: the bound rules of C13 apply
	ruleBoundSide(c, "mdiff")
	ruleSiblingGuard(c, "mdiff")
	ruleHeaderSides(c)
	ruleLineExact(c)
	ruleSentinelComplete(c)
	ruleUnifyOrder(c)
	ruleMergeTarget(c)
	ruleMdiffPairs(c)
	ruleFormatCursors(c)
	ruleStaleAfterEdit(c)
	ruleUnifyConsumes(c)
	ruleHandoverReset(c)
	ruleTimeExact(c)
	ruleSpanSiblings(c)
	ruleSuccessAtEOF(c)
	ruleGuardSide(c)
	c.rule("R-CONTEXT-FRESH", 1, "the leading and trailing context findContext returns are separate allocations (shared with C13): the formats print what Unify merged in place")
	if fc := P.Func("mdiff", "Diff", "findContext"); fc != nil {
		ruleContextDisjoint(c, fc)
	} else {
		c.undecided("ANCHOR", "mdiff.(*Diff).findContext", 0, "not found")
	}

	// ---------------- R-SPAN-SENTINEL
	ps := P.Func("mdiff", "", "parseSpan")
	if ps == nil {
		c.undecided("ANCHOR", "mdiff.parseSpan", 0, "not found")
	} else {
		c.sawFn(fnName(ps))
		// sentinel-carrying results: among nil-error returns, a constant in one and a non-constant in another
		type sent struct {
			idx int
			k   int64
		}
		var sents []sent
		nres := ps.Signature.Results().Len()
		for i := 0; i < nres; i++ {
			if !isIntType(ps.Signature.Results().At(i).Type()) {
				continue
			}
			consts := map[int64]bool{}
			nonConst := false
			allInstrs(ps, func(in ssa.Instruction) {
				ret, ok := in.(*ssa.Return)
				if !ok || len(ret.Results) != nres {
					return
				}
				// only successful returns (error result is the nil constant)
				if !isNilConst(ret.Results[nres-1]) {
					return
				}
				if k, ok := constInt(ret.Results[i]); ok {
					consts[k] = true
				} else {
					nonConst = true
				}
			})
			if nonConst && len(consts) == 1 {
				for k := range consts {
					sents = append(sents, sent{i, k})
				}
			}
		}
		c.Extra["span_parser_sentinels"] = fmt.Sprint(sents)
		if len(sents) == 0 {
			c.ok("R-SPAN-SENTINEL", "mdiff.parseSpan:no sentinel", ps.Pos(), "the span parser no longer encodes an omitted count as a constant: the hazard is absent")
		}
		for _, fn := range P.PkgFuncs("mdiff") {
			allInstrs(fn, func(in ssa.Instruction) {
				call, ok := in.(*ssa.Call)
				if !ok || staticCallee(&call.Call) != ps {
					return
				}
				c.sawFn(fnName(fn))
				tag := "?"
				if cs, ok := call.Call.Args[0].(*ssa.Const); ok && cs.Value != nil {
					tag = constant.StringVal(cs.Value)
				}
				ord := 0
				allInstrs(fn, func(in2 ssa.Instruction) {
					if c2, ok := in2.(*ssa.Call); ok && staticCallee(&c2.Call) == ps && dominatesInstr(c2, call) {
						ord++
					}
				})
				side := []string{"left", "right", "third"}[min(ord, 2)]
				for _, s := range sents {
					var ex *ssa.Extract
					for _, r := range referrersOf(call) {
						if e, ok := r.(*ssa.Extract); ok && e.Index == s.idx {
							ex = e
						}
					}
					// the span tag identifies the unified header's two calls wherever they live; untagged calls are named by their function
					who := fnName(fn)
					if tag == "-" || tag == "+" {
						who = "mdiff unified header"
					}
					key := fmt.Sprintf("%s:parseSpan(%q)#%s.result%d", who, tag, side, s.idx)
					if ex == nil {
						c.ok("R-SPAN-SENTINEL", key, call.Pos(), "result unused")
						continue
					}
					// comparisons with the sentinel
					var tests []*ssa.If
					for _, r := range referrersOf(ex) {
						if bo, ok := r.(*ssa.BinOp); ok && (bo.Op == token.EQL || bo.Op == token.NEQ) && isConstInt(bo.Y, s.k) {
							for _, r2 := range referrersOf(bo) {
								if iff, ok := r2.(*ssa.If); ok {
									tests = append(tests, iff)
								}
							}
						}
					}
					var bad []string
					for _, r := range referrersOf(ex) {
						switch u := r.(type) {
						case *ssa.DebugRef:
							continue
						case *ssa.BinOp:
							if (u.Op == token.EQL || u.Op == token.NEQ) && isConstInt(u.Y, s.k) {
								continue
							}
						}
						useBlock := r.Block()
						if ph, ok := r.(*ssa.Phi); ok {
							// the use is on the incoming edge
							for i, e := range ph.Edges {
								if e == ssa.Value(ex) {
									useBlock = ph.Block().Preds[i]
								}
							}
						}
						guarded := false
						for _, t := range tests {
							if t.Block().Dominates(useBlock) {
								guarded = true
							}
						}
						if !guarded {
							bad = append(bad, fmt.Sprintf("%s at %s", strings.TrimSpace(r.String()), P.pos(instrPos(r))))
						}
					}
					sort.Strings(bad)
					c.judge(len(bad) == 0, "R-SPAN-SENTINEL", key, call.Pos(), fmt.Sprintf("compared with the sentinel %d before use", s.k),
						fmt.Sprintf("the span parser returns %d when the count is omitted (\"-M\" means one line), but this caller uses the result without testing for it (%s): a one-line range written by the package's own formatter is read back as an empty range", s.k, strings.Join(bad, "; ")))
				}
			})
		}
	}

	// ---------------- R-PREFIX-TABLES (typed AST)
	p := P.Pkgs["mdiff"]
	if p == nil {
		c.undecided("ANCHOR", "package mdiff", 0, "not found")
		return
	}
	info := p.TypesInfo
	unified, normal := findFuncDecl(p, "Unified"), findFuncDecl(p, "Normal")
	ruc, rn, rne := findFuncDecl(p, "readUnifiedChunk"), findFuncDecl(p, "readNormal"), findFuncDecl(p, "readNormalEdit")
	ruh, ffh, pfl := findFuncDecl(p, "readUnifiedHeader"), findFuncDecl(p, "fmtFileHeader"), findFuncDecl(p, "parseFileLine")
	if unified == nil || normal == nil || ruc == nil || rn == nil || rne == nil || ruh == nil || ffh == nil || pfl == nil {
		c.undecided("ANCHOR", "mdiff formatter/reader functions", 0, "not found")
		return
	}
	for _, n := range []string{"Unified", "Normal", "readUnifiedChunk", "readNormal", "readNormalEdit", "readUnifiedHeader", "fmtFileHeader", "parseFileLine"} {
		c.sawFn("mdiff." + n)
	}
	// writer: Unified op -> [(prefix, field)]
	type wl struct{ pfx, field string }
	wUnified := map[int64][]wl{}
	if arms, _ := opSwitchArms(info, unified); arms != nil {
		for op, cc := range arms {
			for _, call := range callsIn(cc, "writeLines") {
				if len(call.Args) == 3 {
					if s, ok := strConst(info, call.Args[1]); ok {
						wUnified[op] = append(wUnified[op], wl{s, selName(call.Args[2])})
					}
				}
			}
		}
	}
	// reader: first byte -> (op, payload offset)
	type rl struct {
		op  int64
		off int64
	}
	rUnified := map[byte]rl{}
	for _, rfd := range helperDecls(p, ruc, 2) {
		rfd := rfd
		ast.Inspect(rfd, func(n ast.Node) bool {
			sw, ok := n.(*ast.SwitchStmt)
			if !ok || sw.Tag == nil {
				return true
			}
			if _, isIdx := identDef(info, rfd, sw.Tag).(*ast.IndexExpr); !isIdx {
				return true
			}
			for _, s := range sw.Body.List {
				cc := s.(*ast.CaseClause)
				for _, e := range cc.List {
					v, ok := constIntOf(info, e)
					if !ok {
						continue
					}
					// the arm hands the line's payload and an opcode to the routine that files it (a closure or a
					// helper, whatever its name): a call with an EditOp constant and a tail slice line[k:]
					ast.Inspect(cc, func(m ast.Node) bool {
						call, ok := m.(*ast.CallExpr)
						if !ok {
							return true
						}
						op, off, haveOp := int64(0), int64(-1), false
						for _, a := range call.Args {
							if tv, ok := info.Types[a]; ok {
								if nt, ok := tv.Type.(*types.Named); ok && nt.Obj().Name() == "EditOp" {
									if k, ok := constIntOf(info, a); ok {
										op, haveOp = k, true
									}
								}
							}
							if se, ok := identDef(info, rfd, a).(*ast.SliceExpr); ok && se.Low != nil && se.High == nil {
								off, _ = constIntOf(info, se.Low)
							}
						}
						if haveOp && off >= 0 {
							rUnified[byte(v)] = rl{op, off}
						}
						return true
					})
				}
			}
			return true
		})
	}
	// table form: if op, ok := markerTable[line[0]]; ok { file(op, line[k:]) }
	for _, fd := range helperDecls(p, ruc, 2) {
		ast.Inspect(fd, func(n ast.Node) bool {
			ifs, ok := n.(*ast.IfStmt)
			if !ok || ifs.Init == nil {
				return true
			}
			as, ok := ifs.Init.(*ast.AssignStmt)
			if !ok || len(as.Rhs) != 1 {
				return true
			}
			ix, ok := as.Rhs[0].(*ast.IndexExpr)
			if !ok {
				return true
			}
			tbl := opTableOf(p, ix.X)
			if tbl == nil {
				return true
			}
			// the index is line[0], written there or through a local (tag := line[0])
			if inner, ok := identDef(info, fd, ix.Index).(*ast.IndexExpr); !ok {
				return true
			} else if k, ok := constIntOf(info, inner.Index); !ok || k != 0 {
				return true
			}
			off := int64(-1)
			ast.Inspect(ifs.Body, func(m ast.Node) bool {
				if se, ok := m.(*ast.SliceExpr); ok && se.Low != nil && se.High == nil {
					if k, ok := constIntOf(info, se.Low); ok {
						off = k
					}
				}
				return true
			})
			if off >= 0 {
				for key, op := range tbl {
					rUnified[byte(key)] = rl{op, off}
				}
			}
			return true
		})
	}
	// function form: if op, ok := classify(line[0]); ok { file(op, line[k:]) } with classify a package
	// function whose switch on its parameter returns a constant opcode per marker byte
	for _, fd := range helperDecls(p, ruc, 2) {
		ast.Inspect(fd, func(n ast.Node) bool {
			ifs, ok := n.(*ast.IfStmt)
			if !ok || ifs.Init == nil {
				return true
			}
			as, ok := ifs.Init.(*ast.AssignStmt)
			if !ok || len(as.Rhs) != 1 {
				return true
			}
			call, ok := as.Rhs[0].(*ast.CallExpr)
			if !ok || len(call.Args) != 1 {
				return true
			}
			if inner, ok := call.Args[0].(*ast.IndexExpr); !ok {
				return true
			} else if k, ok := constIntOf(info, inner.Index); !ok || k != 0 {
				return true
			}
			id, ok := call.Fun.(*ast.Ident)
			if !ok {
				return true
			}
			cfd := findFuncDecl(p, id.Name)
			if cfd == nil || cfd.Body == nil || cfd.Type.Params == nil || len(cfd.Type.Params.List) != 1 || len(cfd.Type.Params.List[0].Names) != 1 {
				return true
			}
			pname := cfd.Type.Params.List[0].Names[0].Name
			tbl := map[int64]int64{}
			ast.Inspect(cfd.Body, func(m ast.Node) bool {
				sw, ok := m.(*ast.SwitchStmt)
				if !ok {
					return true
				}
				if tag, ok := sw.Tag.(*ast.Ident); !ok || tag.Name != pname {
					return true
				}
				for _, st := range sw.Body.List {
					cc, ok := st.(*ast.CaseClause)
					if !ok {
						continue
					}
					var opv int64
					have := false
					for _, bs := range cc.Body {
						if rs, ok := bs.(*ast.ReturnStmt); ok && len(rs.Results) >= 1 {
							if tv, ok := info.Types[rs.Results[0]]; ok {
								if nt, ok := tv.Type.(*types.Named); ok && nt.Obj().Name() == "EditOp" {
									if k, ok := constIntOf(info, rs.Results[0]); ok {
										opv, have = k, true
									}
								}
							}
						}
					}
					if !have {
						continue
					}
					for _, e := range cc.List {
						if k, ok := constIntOf(info, e); ok {
							tbl[k] = opv
						}
					}
				}
				return true
			})
			if len(tbl) == 0 {
				return true
			}
			off := int64(-1)
			ast.Inspect(ifs.Body, func(m ast.Node) bool {
				if se, ok := m.(*ast.SliceExpr); ok && se.Low != nil && se.High == nil {
					if k, ok := constIntOf(info, se.Low); ok {
						off = k
					}
				}
				return true
			})
			if off >= 0 {
				for key, op := range tbl {
					rUnified[byte(key)] = rl{op, off}
				}
			}
			return true
		})
	}
	judgeLine := func(op int64, want wl) {
		key := fmt.Sprintf("unified:%s.%s", opNames[op], want.field)
		got, ok := rUnified[want.pfx[0]]
		switch {
		case len(want.pfx) == 0:
			c.bad("R-PREFIX-TABLES", key, unified.Pos(), "empty prefix")
		case !ok:
			c.bad("R-PREFIX-TABLES", key, unified.Pos(), fmt.Sprintf("the writer marks %s lines with %q but the reader has no case for that byte", opNames[op], want.pfx))
		case got.off != int64(len(want.pfx)):
			c.bad("R-PREFIX-TABLES", key, unified.Pos(), fmt.Sprintf("the writer's prefix %q is %d bytes but the reader strips %d", want.pfx, len(want.pfx), got.off))
		default:
			// Drop lines come back as Drop, Emit as Emit, Copy as Copy; a Replace's X half as Drop and Y half as Copy
			wantOp := op
			if op == '!' {
				wantOp = map[string]int64{"X": '-', "Y": '+'}[want.field]
			}
			c.judge(got.op == wantOp, "R-PREFIX-TABLES", key, unified.Pos(), fmt.Sprintf("%q ↔ %s, payload from offset %d", want.pfx, opNames[got.op], got.off), fmt.Sprintf("lines the writer marks %q (%s.%s) are read back as %s", want.pfx, opNames[op], want.field, opNames[got.op]))
		}
	}
	// the same tables read off the control-flow graph, for whatever the syntax-tree readers did not recognise
	if len(wUnified) == 0 {
		for op, ws := range unifiedWriterTableSSA(P, []int64{'-', '=', '+', '!'}) {
			for _, w := range ws {
				wUnified[op] = append(wUnified[op], wl{w.pfx, w.field})
			}
		}
	}
	for k, r := range unifiedReaderTableSSA(P) {
		if _, have := rUnified[k]; !have {
			rUnified[k] = rl{r.op, r.off}
		}
	}
	nLines := 0
	for _, op := range []int64{'-', '=', '+', '!'} {
		for _, w := range wUnified[op] {
			nLines++
			judgeLine(op, w)
		}
	}
	if nLines == 0 {
		c.undecided("R-PREFIX-TABLES", "unified:lines", unified.Pos(), "the unified writer's prefixes could not be read")
	}
	// fields per op: Drop X, Emit X, Copy Y, Replace X then Y
	wantFields := map[int64]string{'-': "X", '=': "X", '+': "Y", '!': "X,Y"}
	for op, want := range wantFields {
		var got []string
		for _, w := range wUnified[op] {
			got = append(got, w.field)
		}
		c.judge(strings.Join(got, ",") == want, "R-PREFIX-TABLES", "unified:"+opNames[op]+" fields", unified.Pos(), "writes "+want, fmt.Sprintf("the unified writer emits fields [%s] for %s; the format requires [%s]", strings.Join(got, ","), opNames[op], want))
	}
	// header: "@@" tokens and span tags
	{
		var wTokens []string
		var wTags []string
		headerArg := func(a ast.Expr) {
			if s, ok := strConst(info, a); ok {
				wTokens = append(wTokens, s)
			}
			if inner, ok := identDef(info, unified, a).(*ast.CallExpr); ok {
				if id, ok := inner.Fun.(*ast.Ident); ok && id.Name == "uspan" && len(inner.Args) == 3 {
					if s, ok := strConst(info, inner.Args[0]); ok {
						wTags = append(wTags, s)
					}
				}
			}
		}
		for _, call := range callsIn(unified, "Fprintln") {
			for _, a := range call.Args[1:] {
				headerArg(a)
			}
		}
		// the same line written with a format: words of the format are tokens, %s / %v stand for the next operand
		for _, call := range callsIn(unified, "Fprintf") {
			if len(call.Args) < 2 {
				continue
			}
			format, ok := strConst(info, call.Args[1])
			if !ok || !strings.HasSuffix(format, "\n") {
				continue
			}
			rest := call.Args[2:]
			for _, w := range strings.Split(strings.TrimSuffix(format, "\n"), " ") {
				switch {
				case w == "%s" || w == "%v":
					if len(rest) > 0 {
						headerArg(rest[0])
						rest = rest[1:]
					}
				case !strings.Contains(w, "%"):
					wTokens = append(wTokens, w)
				}
			}
		}
		var rTokens, rTags []string
		for _, fd := range helperDecls(p, ruc, 2) {
			// (the header may be parsed in a helper of the chunk reader)
			ast.Inspect(fd, func(n ast.Node) bool {
				if be, ok := n.(*ast.BinaryExpr); ok && be.Op == token.NEQ {
					if ie, ok := be.X.(*ast.IndexExpr); ok {
						// an element of the split header line compared with a constant token
						if tv, ok := info.Types[ie.X]; ok {
							if sl, ok := tv.Type.Underlying().(*types.Slice); ok && isStringType(sl.Elem()) {
								if s, ok := strConst(info, be.Y); ok {
									rTokens = append(rTokens, s)
								}
							}
						}
					}
				}
				return true
			})
			for _, call := range callsIn(fd, "parseSpan") {
				if s, ok := strConst(info, call.Args[0]); ok && s != "" {
					rTags = append(rTags, s)
				}
			}
		}
		c.judge(len(wTokens) == 2 && strings.Join(wTokens, " ") == strings.Join(rTokens, " "), "R-PREFIX-TABLES", "unified:header tokens", unified.Pos(), fmt.Sprintf("%q on both sides", wTokens), fmt.Sprintf("the writer frames the chunk header with %q, the reader expects %q", wTokens, rTokens))
		c.judge(len(wTags) == 2 && strings.Join(wTags, " ") == strings.Join(rTags, " "), "R-PREFIX-TABLES", "unified:span tags", unified.Pos(), fmt.Sprintf("%q on both sides, in order", wTags), fmt.Sprintf("the writer tags the spans %q, the reader parses %q", wTags, rTags))
	}
	// file header prefixes and separator
	{
		var wPfx []string
		for _, call := range callsIn(unified, "fmtFileHeader") {
			if len(call.Args) >= 2 {
				if s, ok := strConst(info, call.Args[1]); ok {
					wPfx = append(wPfx, s)
				}
			}
		}
		var rPfx []string
		for _, call := range callsIn(ruh, "CutPrefix") {
			if len(call.Args) == 2 {
				if s, ok := strConst(info, call.Args[1]); ok {
					rPfx = append(rPfx, s)
				}
			}
		}
		if len(rPfx) == 0 {
			// the same cut written as a test and a re-slice: strings.HasPrefix(line, p) … line[len(p):]
			seenP := map[string]bool{}
			for _, fname := range []string{"HasPrefix", "TrimPrefix"} {
				for _, call := range callsIn(ruh, fname) {
					if len(call.Args) == 2 {
						if s, ok := strConst(info, call.Args[1]); ok && !seenP[s] {
							seenP[s] = true
							rPfx = append(rPfx, s)
						}
					}
				}
			}
		}
		if hsides, _, _, okH := headerAgreement(P); okH {
			// by data flow: the header call for a side is handed the prefix the reader cuts for that side (and not the other side's)
			var probs []string
			for i, hs := range hsides {
				other := hsides[1-i]
				has := func(set []string, s string) bool {
					for _, x := range set {
						if x == s {
							return true
						}
					}
					return false
				}
				for _, rp := range hs.readerPrefixes {
					if !has(hs.writerConsts, rp) {
						probs = append(probs, fmt.Sprintf("the reader cuts %q before parsing .%s, but the call that writes the .%s header line is handed %q", rp, hs.name, hs.name, hs.writerConsts))
					}
				}
				for _, op := range other.readerPrefixes {
					if has(hs.writerConsts, op) && !has(hs.readerPrefixes, op) {
						probs = append(probs, fmt.Sprintf("the .%s header line is written with %q, which the reader takes for the .%s line", hs.name, op, other.name))
					}
				}
			}
			c.judge(len(probs) == 0, "R-PREFIX-TABLES", "unified:file header prefixes", unified.Pos(), "each side's header call carries the prefix the reader cuts for that side", strings.Join(probs, "; "))
		} else {
			c.judge(len(wPfx) == 2 && strings.Join(wPfx, "|") == strings.Join(rPfx, "|"), "R-PREFIX-TABLES", "unified:file header prefixes", unified.Pos(), fmt.Sprintf("%q on both sides", wPfx), fmt.Sprintf("the writer starts the file header lines with %q, the reader cuts %q", wPfx, rPfx))
		}
		var wSep, rSep []string
		for _, call := range callsIn(ffh, "Fprint") {
			if len(call.Args) >= 3 {
				if s, ok := strConst(info, call.Args[1]); ok {
					wSep = append(wSep, s)
				}
			}
			// the separator joined to the formatted time in one operand: Fprint(w, "\t"+ts.Format(f))
			if len(call.Args) == 2 {
				if be, ok := call.Args[1].(*ast.BinaryExpr); ok && be.Op == token.ADD {
					if s, ok := strConst(info, be.X); ok {
						if _, rc := strConst(info, be.Y); !rc {
							wSep = append(wSep, s)
						}
					}
				}
			}
		}
		for _, call := range callsIn(pfl, "Cut") {
			if len(call.Args) == 2 {
				if s, ok := strConst(info, call.Args[1]); ok {
					rSep = append(rSep, s)
				}
			}
		}
		c.judge(len(wSep) >= 1 && len(rSep) == 1 && wSep[len(wSep)-1] == rSep[0], "R-PREFIX-TABLES", "unified:name/time separator", ffh.Pos(), fmt.Sprintf("%q on both sides", rSep), fmt.Sprintf("the writer separates name and timestamp with %q, the reader cuts at %q", wSep, rSep))
	}
	// normal format: command letters
	{
		re := regexp.MustCompile(`^%[sd]([a-z])%[sd]\n$`)
		wCmd := map[int64]string{}
		if arms, _ := opSwitchArms(info, normal); arms != nil {
			for op, cc := range arms {
				for _, call := range callsIn(cc, "Fprintf") {
					if len(call.Args) >= 2 {
						if s, ok := strConst(info, call.Args[1]); ok {
							if m := re.FindStringSubmatch(s); m != nil {
								wCmd[op] = m[1]
							}
						}
					}
				}
				if _, have := wCmd[op]; !have {
					// the command line put together by concatenation: <span> + "d" + <span>
					ast.Inspect(cc, func(n ast.Node) bool {
						be, ok := n.(*ast.BinaryExpr)
						if !ok || be.Op != token.ADD {
							return true
						}
						// left-associative: (X + "d") + Y
						inner, ok := be.X.(*ast.BinaryExpr)
						if !ok || inner.Op != token.ADD {
							return true
						}
						if s, ok := strConst(info, inner.Y); ok && len(s) == 1 && s[0] >= 'a' && s[0] <= 'z' {
							if _, lc := strConst(info, inner.X); !lc {
								if _, rc := strConst(info, be.Y); !rc {
									if _, have := wCmd[op]; !have {
										wCmd[op] = s
									}
								}
							}
						}
						return true
					})
				}
			}
		}
		// reader: cmd -> op from `switch cmd { case "a": e.Op = slice.OpCopy ...}` and Cut letters
		rCmd := map[string]int64{}
		ast.Inspect(rn, func(n ast.Node) bool {
			sw, ok := n.(*ast.SwitchStmt)
			if !ok || sw.Tag == nil {
				return true
			}
			if id, ok := sw.Tag.(*ast.Ident); !ok || id.Name != "cmd" {
				return true
			}
			for _, s := range sw.Body.List {
				cc := s.(*ast.CaseClause)
				for _, e := range cc.List {
					letter, ok := strConst(info, e)
					if !ok {
						continue
					}
					ast.Inspect(cc, func(m ast.Node) bool {
						if as, ok := m.(*ast.AssignStmt); ok && len(as.Lhs) == 1 && selName(as.Lhs[0]) == "Op" {
							if v, ok := constIntOf(info, as.Rhs[0]); ok {
								rCmd[letter] = v
							}
						}
						return true
					})
				}
			}
			return true
		})
		cutLetters := map[string]bool{}
		// values of range variables over literals of string constants: for _, c := range [...]string{"a","c","d"}
		rangeVals := map[types.Object][]string{}
		for _, rnScope := range helperDecls(p, rn, 2) {
		ast.Inspect(rnScope, func(n ast.Node) bool {
			rs, ok := n.(*ast.RangeStmt)
			if !ok || rs.Value == nil {
				return true
			}
			id, ok := rs.Value.(*ast.Ident)
			if !ok {
				return true
			}
			if cl, ok := rs.X.(*ast.CompositeLit); ok {
				var vals []string
				for _, e := range cl.Elts {
					if kv, ok := e.(*ast.KeyValueExpr); ok {
						e = kv.Value
					}
					if sv, ok := strConst(info, e); ok {
						vals = append(vals, sv)
					} else {
						return true
					}
				}
				if obj := info.Defs[id]; obj != nil {
					rangeVals[obj] = vals
				}
			}
			return true
		})
		}
		for _, rnScope := range helperDecls(p, rn, 2) {
			for _, call := range callsIn(rnScope, "Cut") {
				if len(call.Args) == 2 {
					if s, ok := strConst(info, call.Args[1]); ok {
						cutLetters[s] = true
					} else if id, ok := call.Args[1].(*ast.Ident); ok {
						for _, v := range rangeVals[info.Uses[id]] {
							cutLetters[v] = true
						}
					}
				}
			}
		}
		// the command → opcode table written as an if/else chain on the command letter; a final else is the one
		// letter the line can be cut on that the chain has not tested
		{
			opIn := func(b *ast.BlockStmt) (int64, bool) {
				var v int64
				found := false
				if b == nil {
					return 0, false
				}
				ast.Inspect(b, func(m ast.Node) bool {
					if as, ok := m.(*ast.AssignStmt); ok && len(as.Lhs) == 1 && selName(as.Lhs[0]) == "Op" {
						if k, ok := constIntOf(info, as.Rhs[0]); ok {
							v, found = k, true
						}
					}
					return true
				})
				return v, found
			}
			isElse := map[*ast.IfStmt]bool{}
			ast.Inspect(rn, func(n ast.Node) bool {
				if ifs, ok := n.(*ast.IfStmt); ok {
					if e, ok := ifs.Else.(*ast.IfStmt); ok {
						isElse[e] = true
					}
				}
				return true
			})
			ast.Inspect(rn, func(n ast.Node) bool {
				top, ok := n.(*ast.IfStmt)
				if !ok || isElse[top] {
					return true
				}
				tested := map[string]bool{}
				chain := map[string]int64{}
				cur := top
				for cur != nil {
					be, ok := cur.Cond.(*ast.BinaryExpr)
					if !ok || be.Op != token.EQL {
						return true
					}
					letter, okL := strConst(info, be.Y)
					if _, isID := be.X.(*ast.Ident); !okL || !isID {
						return true
					}
					tested[letter] = true
					if v, ok := opIn(cur.Body); ok {
						chain[letter] = v
					}
					switch e := cur.Else.(type) {
					case *ast.IfStmt:
						cur = e
					case *ast.BlockStmt:
						if v, ok := opIn(e); ok {
							var rem []string
							for l := range cutLetters {
								if !tested[l] {
									rem = append(rem, l)
								}
							}
							if len(rem) == 1 {
								chain[rem[0]] = v
							}
						}
						cur = nil
					default:
						cur = nil
					}
				}
				if len(chain) >= 2 {
					for l, v := range chain {
						if _, have := rCmd[l]; !have {
							rCmd[l] = v
						}
					}
				}
				return true
			})
		}
		// table form: a table of command records {letter, op, …}; the reader cuts on record.letter and assigns record.op
		if recLetters, recTypes := recordTables(p); len(recLetters) > 0 {
			usesLetter, usesOp := false, false
			for _, fd := range helperDecls(p, rn, 2) {
				ast.Inspect(fd, func(n ast.Node) bool {
					switch x := n.(type) {
					case *ast.CallExpr:
						if selName(x.Fun) == "Cut" && len(x.Args) == 2 {
							if sel, ok := x.Args[1].(*ast.SelectorExpr); ok {
								if tv, ok := info.Types[sel.X]; ok {
									t := tv.Type
									if pt, ok := t.(*types.Pointer); ok {
										t = pt.Elem()
									}
									if recTypes[t] {
										usesLetter = true
									}
								}
							}
						}
					case *ast.ReturnStmt:
						// the record's opcode handed back to the caller that files the edit under it
						for _, res := range x.Results {
							if sel, ok := res.(*ast.SelectorExpr); ok {
								if tv, ok := info.Types[sel.X]; ok {
									t := tv.Type
									if pt, ok := t.(*types.Pointer); ok {
										t = pt.Elem()
									}
									if rt, ok := info.Types[res]; ok && recTypes[t] {
										if nt, ok := rt.Type.(*types.Named); ok && nt.Obj().Name() == "EditOp" {
											usesOp = true
										}
									}
								}
							}
						}
					case *ast.AssignStmt:
						if len(x.Lhs) == 1 && len(x.Rhs) == 1 && selName(x.Lhs[0]) == "Op" {
							if sel, ok := x.Rhs[0].(*ast.SelectorExpr); ok {
								if tv, ok := info.Types[sel.X]; ok {
									t := tv.Type
									if pt, ok := t.(*types.Pointer); ok {
										t = pt.Elem()
									}
									if recTypes[t] {
										usesOp = true
									}
								}
							}
						}
					}
					return true
				})
			}
			if usesLetter {
				for l, op := range recLetters {
					cutLetters[l] = true
					if usesOp {
						rCmd[l] = op
					}
				}
			}
		}
		for _, op := range []int64{'-', '+', '!'} {
			key := "normal:command " + opNames[op]
			w, ok := wCmd[op]
			if !ok {
				c.undecided("R-PREFIX-TABLES", key, normal.Pos(), "the writer's change command for this opcode could not be read")
				continue
			}
			got, ok2 := rCmd[w]
			switch {
			case !cutLetters[w]:
				c.bad("R-PREFIX-TABLES", key, normal.Pos(), fmt.Sprintf("the writer uses command letter %q for %s but the reader never splits a command line on it", w, opNames[op]))
			case !ok2 || got != op:
				c.bad("R-PREFIX-TABLES", key, normal.Pos(), fmt.Sprintf("the writer uses %q for %s; the reader maps %q to %s", w, opNames[op], w, opNames[got]))
			default:
				c.ok("R-PREFIX-TABLES", key, normal.Pos(), fmt.Sprintf("%q ↔ %s on both sides", w, opNames[op]))
			}
		}
		// line prefixes "< ", "> " and the separator
		wP := map[string]bool{}
		for _, call := range callsIn(normal, "writeLines") {
			if len(call.Args) == 3 {
				if s, ok := strConst(info, call.Args[1]); ok {
					wP[s+"|"+selName(call.Args[2])] = true
				}
			}
		}
		rP := map[string]bool{}
		// a prefix test (CutPrefix / HasPrefix with a constant) governs a block — the body of the if
		// statement or of the case clause it appears in — that appends the payload to X or to Y
		prefixOf := func(e ast.Node) (string, bool) {
			var pfx string
			found := false
			ast.Inspect(e, func(m ast.Node) bool {
				if call, ok := m.(*ast.CallExpr); ok && (selName(call.Fun) == "CutPrefix" || selName(call.Fun) == "HasPrefix") && len(call.Args) == 2 {
					if s2, ok := strConst(info, call.Args[1]); ok {
						pfx, found = s2, true
					}
				}
				return true
			})
			return pfx, found
		}
		fieldsAppended := func(body []ast.Stmt, pfx string) {
			for _, st := range body {
				ast.Inspect(st, func(m ast.Node) bool {
					if a2, ok := m.(*ast.AssignStmt); ok && len(a2.Lhs) == 1 {
						if f := selName(a2.Lhs[0]); f == "X" || f == "Y" {
							// when the payload is cut by slicing, the offset must be the prefix length
							okOff := true
							ast.Inspect(a2, func(q ast.Node) bool {
								if se, ok := q.(*ast.SliceExpr); ok && se.Low != nil && se.High == nil {
									if k, ok := constIntOf(info, se.Low); ok && k != int64(len(pfx)) {
										okOff = false
									}
								}
								return true
							})
							if okOff {
								rP[pfx+"|"+f] = true
							} else {
								rP[pfx+"|"+f+" (payload offset differs from the prefix length)"] = true
							}
						}
					}
					return true
				})
			}
		}
		ast.Inspect(rne, func(n ast.Node) bool {
			switch x := n.(type) {
			case *ast.IfStmt:
				var hdr []ast.Node
				if x.Init != nil {
					hdr = append(hdr, x.Init)
				}
				hdr = append(hdr, x.Cond)
				for _, h := range hdr {
					if pfx, ok := prefixOf(h); ok {
						fieldsAppended(x.Body.List, pfx)
					}
				}
			case *ast.CaseClause:
				for _, e := range x.List {
					if pfx, ok := prefixOf(e); ok {
						fieldsAppended(x.Body, pfx)
					}
				}
			}
			return true
		})
		var wl2, rl2 []string
		for k := range wP {
			wl2 = append(wl2, k)
		}
		for k := range rP {
			rl2 = append(rl2, k)
		}
		sort.Strings(wl2)
		sort.Strings(rl2)
		c.judge(len(wl2) > 0 && strings.Join(wl2, ";") == strings.Join(rl2, ";"), "R-PREFIX-TABLES", "normal:line prefixes", normal.Pos(), fmt.Sprintf("%v on both sides", wl2), fmt.Sprintf("the normal writer marks lines %v, the reader expects %v", wl2, rl2))
		var wSep, rSep string
		for _, call := range callsIn(normal, "Fprintln") {
			if len(call.Args) == 2 {
				if s, ok := strConst(info, call.Args[1]); ok {
					wSep = s
				}
			}
		}
		ast.Inspect(rne, func(n ast.Node) bool {
			if be, ok := n.(*ast.BinaryExpr); ok && be.Op == token.EQL {
				if id, ok := be.X.(*ast.Ident); ok && id.Name == "line" {
					if s, ok := strConst(info, be.Y); ok {
						rSep = s
					}
				}
			}
			return true
		})
		c.judge(wSep != "" && wSep == rSep, "R-PREFIX-TABLES", "normal:replace separator", normal.Pos(), fmt.Sprintf("%q on both sides", wSep), fmt.Sprintf("the writer separates the halves of a change with %q, the reader looks for %q", wSep, rSep))
	}

	// ---------------- R-TIMEFMT
	if hsides, wl, _, okH := headerAgreement(P); okH {
		// by data flow: every layout that can reach the writers' Time.Format is among the layouts the reader
		// tries for that header line
		for _, hs := range hsides {
			var missing []string
			for _, w := range wl {
				found := false
				for _, r := range hs.readerLayouts {
					if r == w {
						found = true
					}
				}
				if !found {
					missing = append(missing, w)
				}
			}
			side := strings.ToLower(hs.name)
			c.judge(len(missing) == 0, "R-TIMEFMT", hs.readerFn+":"+side+" timestamp", hs.readerPos, "parsed with the writers' default layout",
				fmt.Sprintf("the %s header's timestamp is parsed with %q, but the writers' default layout is %q: a default-format timestamp does not survive a round trip", side, hs.readerLayouts, missing))
		}
	} else {
		constObj := func(e ast.Expr) types.Object {
			if id, ok := e.(*ast.Ident); ok {
				return info.Uses[id]
			}
			return nil
		}
		var wObj types.Object
		for _, call := range callsIn(unified, "Or") {
			if len(call.Args) == 2 && selName(call.Args[0]) == "TimeFormat" {
				wObj = constObj(call.Args[1])
			}
		}
		calls := callsIn(ruh, "parseFileLine")
		if wObj == nil || len(calls) == 0 {
			c.undecided("R-TIMEFMT", "mdiff:default time format", unified.Pos(), "writer default or reader calls not recognised")
		}
		for i, call := range calls {
			rOK := false
			for _, a := range call.Args[1:] {
				if o := constObj(a); o != nil && o == wObj {
					rOK = true
				}
			}
			side := []string{"left", "right", "other"}[min(i, 2)]
			c.judge(wObj != nil && rOK, "R-TIMEFMT", "mdiff.readUnifiedHeader:"+side+" timestamp", call.Pos(), "parsed with the writers' default constant", "the "+side+" header's timestamp is not parsed with the time format constant the writers default to: a default-format timestamp does not survive a round trip")
		}
	}

	ruleOpExhaustive(c, "mdiff")
	ruleTrimSide(c) // the formatters render what AddContext(n).Unify() built

	// ---------------- R-PATCH-FRESH
	chunksF := P.Field("mdiff", "diffReader", "chunks")
	if chunksF == nil {
		c.undecided("ANCHOR", "mdiff.diffReader.chunks", 0, "not found")
		return
	}
	nSt := 0
	for _, fn := range P.PkgFuncs("mdiff") {
		allInstrs(fn, func(in ssa.Instruction) {
			st, ok := in.(*ssa.Store)
			if !ok {
				return
			}
			fa, ok := st.Addr.(*ssa.FieldAddr)
			if !ok {
				return
			}
			if _, f := fieldVarOf(fa); !sameField(f, chunksF) {
				return
			}
			nSt++
			c.sawFn(fnName(fn))
			if sl, ok := st.Val.(*ssa.Slice); ok {
				if _, f := loadedField(sl.X); f != nil && sameField(f, chunksF) {
					c.bad("R-PATCH-FRESH", fnName(fn)+":chunks resliced", st.Pos(), "the reader re-slices its chunk list for reuse; patches already returned share that backing array and are overwritten by the next file's chunks")
					return
				}
			}
			c.ok("R-PATCH-FRESH", fnName(fn)+":chunks="+ksym(st.Val), st.Pos(), "append or reset to nil")
		})
	}
	if nSt == 0 {
		c.undecided("R-PATCH-FRESH", "mdiff.diffReader.chunks", 0, "no store to the reader's chunk list found")
	}
}

// helperDecls: the function declarations of the package called (by plain name or as a method) from root, transitively.
func helperDecls(p *packages.Package, root *ast.FuncDecl, depth int) []*ast.FuncDecl {
	out := []*ast.FuncDecl{root}
	seen := map[string]bool{root.Name.Name: true}
	for i := 0; i < len(out) && depth > 0; i++ {
		ast.Inspect(out[i], func(n ast.Node) bool {
			call, ok := n.(*ast.CallExpr)
			if !ok {
				return true
			}
			name := ""
			switch f := call.Fun.(type) {
			case *ast.Ident:
				name = f.Name
			case *ast.SelectorExpr:
				name = f.Sel.Name
			}
			if name == "" || seen[name] {
				return true
			}
			fd := findFuncDecl(p, name)
			if fd == nil {
				// a method of a package type: resolved through the selector's object
				if sel, ok := call.Fun.(*ast.SelectorExpr); ok {
					if obj, ok := p.TypesInfo.Uses[sel.Sel].(*types.Func); ok && obj.Pkg() == p.Types {
						for _, f := range p.Syntax {
							for _, d := range f.Decls {
								if md, ok := d.(*ast.FuncDecl); ok && md.Recv != nil && md.Body != nil {
									if o, ok := p.TypesInfo.Defs[md.Name].(*types.Func); ok && o.Origin() == obj.Origin() {
										fd = md
									}
								}
							}
						}
					}
				}
			}
			if fd != nil && len(out) < 12 {
				seen[name] = true
				out = append(out, fd)
			}
			return true
		})
	}
	return out
}

// opTableByKey: a package-level map or array literal from byte constants to EditOp constants (a reader's marker
// table), looked up by identifier use.
func opTableOf(p *packages.Package, e ast.Expr) map[int64]int64 {
	id, ok := e.(*ast.Ident)
	if !ok {
		return nil
	}
	v, ok := p.TypesInfo.Uses[id].(*types.Var)
	if !ok || v.Parent() != p.Types.Scope() {
		return nil
	}
	init, _ := pkgVarInit(p, id.Name)
	cl, ok := init.(*ast.CompositeLit)
	if !ok {
		return nil
	}
	out := map[int64]int64{}
	for _, el := range cl.Elts {
		kv, ok := el.(*ast.KeyValueExpr)
		if !ok {
			return nil
		}
		k, ok1 := constIntOf(p.TypesInfo, kv.Key)
		tv, okT := p.TypesInfo.Types[kv.Value]
		if !ok1 || !okT {
			return nil
		}
		nt, isNamed := tv.Type.(*types.Named)
		if !isNamed || nt.Obj().Name() != "EditOp" {
			return nil
		}
		val, ok2 := constIntOf(p.TypesInfo, kv.Value)
		if !ok2 {
			return nil
		}
		out[k] = val
	}
	return out
}

// recordTables: package-level literals of records that carry a string constant and an EditOp constant each
// (a reader's command table): letter → op.
func recordTables(p *packages.Package) (map[string]int64, map[types.Type]bool) {
	letters := map[string]int64{}
	recTypes := map[types.Type]bool{}
	for _, f := range p.Syntax {
		for _, d := range f.Decls {
			gd, ok := d.(*ast.GenDecl)
			if !ok || gd.Tok != token.VAR {
				continue
			}
			for _, sp := range gd.Specs {
				for _, val := range sp.(*ast.ValueSpec).Values {
					cl, ok := val.(*ast.CompositeLit)
					if !ok {
						continue
					}
					for _, el := range cl.Elts {
						if kv, ok := el.(*ast.KeyValueExpr); ok {
							el = kv.Value
						}
						rec, ok := el.(*ast.CompositeLit)
						if !ok {
							continue
						}
						letter, op, haveL, haveO := "", int64(0), false, false
						for _, fe := range rec.Elts {
							var v ast.Expr = fe
							if kv, ok := fe.(*ast.KeyValueExpr); ok {
								v = kv.Value
							}
							if sv, ok := strConst(p.TypesInfo, v); ok && !haveL {
								letter, haveL = sv, true
							}
							if tv, ok := p.TypesInfo.Types[v]; ok {
								if nt, ok := tv.Type.(*types.Named); ok && nt.Obj().Name() == "EditOp" {
									if k, ok := constIntOf(p.TypesInfo, v); ok {
										op, haveO = k, true
									}
								}
							}
						}
						if haveL && haveO {
							letters[letter] = op
							if tv, ok := p.TypesInfo.Types[rec]; ok {
								recTypes[tv.Type] = true
							}
						}
					}
				}
			}
		}
	}
	return letters, recTypes
}

// identDef: e itself, or — when e is an identifier defined by a := in fd (also in the init clause of a switch or
// if) — the expression it was defined as.
func identDef(info *types.Info, fd *ast.FuncDecl, e ast.Expr) ast.Expr {
	id, ok := e.(*ast.Ident)
	if !ok {
		return e
	}
	obj := info.Uses[id]
	if obj == nil {
		obj = info.Defs[id]
	}
	if obj == nil {
		return e
	}
	var out ast.Expr = e
	n := 0
	ast.Inspect(fd, func(m ast.Node) bool {
		as, ok := m.(*ast.AssignStmt)
		if !ok || len(as.Lhs) != len(as.Rhs) {
			return true
		}
		for i, l := range as.Lhs {
			if li, ok := l.(*ast.Ident); ok && (info.Defs[li] == obj || info.Uses[li] == obj) {
				n++
				out = as.Rhs[i]
			}
		}
		return true
	})
	if n != 1 {
		return e // assigned more than once: not a name for one expression
	}
	return out
}
