package main

// C07 — queue.Queue ring buffer: R-RING-NORM, R-GROW-ROTATE, R-DIV-NONZERO, R-YIELD.

import (
	"fmt"
	"go/token"
	"go/types"

	"golang.org/x/tools/go/ssa"
)

func init() {
	register(&propDef{ID: "C07", Level: "other", Run: runC07})
}

type ringModel struct {
	P              *Prog
	vsF, headF, nF *types.Var
	eff            *effTable
	rotate         *ssa.Function
	assumeNormPhis map[*ssa.Phi]bool
}

func (m *ringModel) isLoad(v ssa.Value, f *types.Var) bool {
	_, g := loadedField(v)
	return g != nil && sameField(f, g)
}

// isLenVs: len(load q.vs); returns the len call.
func (m *ringModel) isLenVs(v ssa.Value) bool {
	ln, ok := isBuiltinCall(v, "len")
	return ok && m.isLoad(ln.Call.Args[0], m.vsF)
}

// current: the buffer did not change between the evaluation of v (a len call
// or load) and the use.
func (m *ringModel) current(v ssa.Value, use ssa.Instruction) bool {
	in, ok := v.(ssa.Instruction)
	if !ok {
		return true
	}
	if ln, ok := isBuiltinCall(v, "len"); ok {
		if ld, ok := ln.Call.Args[0].(ssa.Instruction); ok {
			in = ld
		}
	}
	if in.Block().Parent() != use.Block().Parent() {
		return false
	}
	if in == use {
		return true
	}
	return m.eff.noFieldKillBetween(in, use, m.vsF)
}

// nonneg: v >= 0 by construction or by a dominating fact at use.
func (m *ringModel) nonneg(v ssa.Value, use ssa.Instruction) bool {
	if k, ok := constInt(v); ok {
		return k >= 0
	}
	if m.isLoad(v, m.nF) || m.isLoad(v, m.headF) {
		return true // struct invariant 0 <= n, 0 <= head
	}
	db := factsDBAt(use.Block())
	return db.ge0(sym(v))
}

// norm: v ∈ [0, len(q.vs)) for the current non-empty buffer at `use`.
func (m *ringModel) norm(v ssa.Value, use ssa.Instruction, depth int) (bool, string) {
	if depth > 6 {
		return false, "expression too deep"
	}
	if m.isLoad(v, m.headF) {
		return true, ""
	}
	if isConstInt(v, 0) {
		return true, ""
	}
	switch x := v.(type) {
	case *ssa.BinOp:
		switch x.Op {
		case token.SUB:
			// len(q.vs) - 1
			if m.isLenVs(x.X) && isConstInt(x.Y, 1) {
				if m.current(x.X, use) {
					return true, ""
				}
				return false, "len(q.vs)-1 was computed for a buffer that has since been replaced"
			}
		case token.REM:
			// N1: (Norm + nonneg...) % len(q.vs)
			if !m.isLenVs(x.Y) {
				return false, "remainder by something other than len(q.vs)"
			}
			if !m.current(x.Y, use) {
				return false, "wrap-around uses the length of a buffer that has since been replaced"
			}
			if m.sumOfNormAndNonneg(x.X, use, depth+1) {
				return true, ""
			}
			return false, "dividend " + sym(x.X) + " is not a sum of a normalised offset and non-negative terms"
		}
	case *ssa.Phi:
		if m.assumeNormPhis[x] {
			return true, ""
		}
		// N2 / N3 conditional wrap
		if ok, _ := m.condWrap(x, use); ok {
			return true, ""
		}
		// loop-carried: all edges Norm (coinductively)
		m.assumeNormPhis[x] = true
		defer delete(m.assumeNormPhis, x)
		for i, e := range x.Edges {
			pred := x.Block().Preds[i]
			last := pred.Instrs[len(pred.Instrs)-1]
			if ok, why := m.norm(e, last, depth+1); !ok {
				return false, "incoming value " + sym(e) + ": " + why
			}
		}
		return true, ""
	}
	return false, sym(v) + " is not a normalised offset"
}

func (m *ringModel) sumOfNormAndNonneg(v ssa.Value, use ssa.Instruction, depth int) bool {
	if ok, _ := m.norm(v, use, depth); ok {
		return true
	}
	if bo, ok := v.(*ssa.BinOp); ok && bo.Op == token.ADD {
		l := m.sumOfNormAndNonneg(bo.X, use, depth+1) || m.nonneg(bo.X, use)
		r := m.sumOfNormAndNonneg(bo.Y, use, depth+1) || m.nonneg(bo.Y, use)
		// at least one side must carry... any sum of non-negative terms is non-negative; the modulo then normalises
		return l && r
	}
	return m.nonneg(v, use)
}

// condWrap recognises N2: phi(x, x - len) with the subtracting arm guarded by
// x >= len, x = Norm + y, y ∈ {n, n-1}; and N3: phi(x, len-1) guarded by x < 0,
// x = Norm - 1.
func (m *ringModel) condWrap(ph *ssa.Phi, use ssa.Instruction) (bool, string) {
	if len(ph.Edges) != 2 {
		return false, ""
	}
	for i := 0; i < 2; i++ {
		x, w := ph.Edges[i], ph.Edges[1-i]
		wb := ph.Block().Preds[1-i] // block computing the wrapped value
		xb := ph.Block().Preds[i]
		// the wrapped arm must be entered from xb on a conditional edge
		if len(wb.Preds) != 1 || wb.Preds[0] != xb {
			continue
		}
		iff, ok := xb.Instrs[len(xb.Instrs)-1].(*ssa.If)
		if !ok {
			continue
		}
		succIdx := 0
		if xb.Succs[1] == wb {
			succIdx = 1
		}
		cm, ok := edgeCmp(iff, succIdx)
		if !ok {
			continue
		}
		// N2
		if bo, ok := w.(*ssa.BinOp); ok && bo.Op == token.SUB && bo.X == x && m.isLenVs(bo.Y) {
			guardOK := cm.X == x && m.isLenVs(cm.Y) && cm.Op == token.GEQ
			if !guardOK {
				return false, "the wrap x − len(q.vs) is not guarded by exactly x >= len(q.vs)"
			}
			if !m.current(bo.Y, use) || !m.current(cm.Y, use) {
				return false, "wrap uses the length of a replaced buffer"
			}
			// x = Norm + n  or  Norm + n - 1
			base := x
			if b2, ok := x.(*ssa.BinOp); ok && b2.Op == token.SUB && isConstInt(b2.Y, 1) {
				base = b2.X
			}
			if b2, ok := base.(*ssa.BinOp); ok && b2.Op == token.ADD {
				okL, _ := m.norm(b2.X, use, 3)
				okR, _ := m.norm(b2.Y, use, 3)
				if (okL && m.isLoad(b2.Y, m.nF)) || (okR && m.isLoad(b2.X, m.nF)) {
					return true, ""
				}
			}
			return false, "wrapped quantity is not head + n or head + n − 1 (a single subtraction of len may not normalise it)"
		}
		// N3
		if bo, ok := w.(*ssa.BinOp); ok && bo.Op == token.SUB && m.isLenVs(bo.X) && isConstInt(bo.Y, 1) {
			guardOK := cm.X == x && isConstInt(cm.Y, 0) && cm.Op == token.LSS
			if !guardOK {
				return false, "the wrap to len(q.vs) − 1 is not guarded by exactly x < 0"
			}
			if xb2, ok := x.(*ssa.BinOp); ok && xb2.Op == token.SUB && isConstInt(xb2.Y, 1) {
				if okN, _ := m.norm(xb2.X, use, 3); okN && m.current(bo.X, use) {
					return true, ""
				}
			}
			return false, "wrapped quantity is not a normalised offset − 1"
		}
	}
	return false, ""
}

// nPositive: some dominating fact at `at` implies q.n > 0 for the current n.
func (m *ringModel) nPositive(at ssa.Instruction) bool {
	fresh := func(v ssa.Value) bool {
		in, ok := v.(ssa.Instruction)
		if !ok || !m.isLoad(v, m.nF) {
			return false
		}
		return m.eff.noFieldKillBetween(in, at, m.nF)
	}
	cms := cmpsAt(at.Block())
	ge0 := func(v ssa.Value) bool {
		if k, ok := constInt(v); ok {
			return k >= 0
		}
		for _, c := range cms {
			if c.X == v {
				if k, ok := constInt(c.Y); ok && ((c.Op == token.GEQ && k >= 0) || (c.Op == token.GTR && k >= -1)) {
					return true
				}
			}
		}
		return false
	}
	for _, c := range cms {
		x, y, op := c.X, c.Y, c.Op
		if fresh(y) && !fresh(x) {
			x, y, op = y, x, flipOp(op)
		}
		if !fresh(x) {
			continue
		}
		if k, ok := constInt(y); ok {
			if (op == token.NEQ && k == 0) || (op == token.GTR && k >= 0) || (op == token.GEQ && k >= 1) {
				return true
			}
			continue
		}
		if op == token.GTR && ge0(y) {
			return true
		}
	}
	return false
}

func runC07(c *Ctx) {
	P := c.P
	c.Explanation = "Decides: (R-RING-NORM) in package queue every index into the ring buffer and every value stored to head is wrap-normalised with the length of the current buffer — a load of head, 0, len−1, x % len with x a sum of a normalised offset and non-negative terms, a conditional wrap x−len guarded by x ≥ len for x = head+n or head+n−1, a wrap to len−1 guarded by x < 0 for x = head−1, or a loop-carried combination of these — and every store to n is n+1 under n < len (or together with the growth append), n−1 under n ≠ 0, or 0; this is the inductive step of 0 ≤ head < len, 0 ≤ n ≤ len. (R-GROW-ROTATE) the buffer grows only with head = 0, established by the false edge of head > 0 or by slice.Rotate(vs, −head) followed by head = 0. (R-DIV-NONZERO) every % len(q.vs) is reached only with n > 0 (hence len > 0). (R-YIELD) Each is stoppable. Does NOT decide that the sequence equals the reference deque (order, loss, duplication across wrap and growth) nor Rotate's own correctness."
	c.rule("R-RING-NORM", 10, "(a) every index into q.vs is normalised; (b) every store to head is normalised; (c) every store to n is n+1 under n<len or with growth, n-1 under n!=0, or 0; (d) replacing the buffer resets head and n")
	c.rule("R-GROW-ROTATE", 1, "every path to the growth append has head == 0 (branch fact, or Rotate(vs, -head) then head = 0)")
	c.rule("R-DIV-NONZERO", 1, "every % in package queue has divisor len(q.vs) reached only with n > 0")
	c.rule("R-YIELD", 1, "Queue.Each stops calling f once it returned false")
	c.assume("struct invariant 0 <= head < len(vs) (when non-empty), 0 <= n <= len(vs): established by the zero value/constructors and preserved by obligations (b) and (c)")

	m := &ringModel{P: P, eff: newEff(P), assumeNormPhis: map[*ssa.Phi]bool{}}
	m.vsF, m.headF, m.nF = P.Field("queue", "Queue", "vs"), P.Field("queue", "Queue", "head"), P.Field("queue", "Queue", "n")
	m.rotate = P.Func("slice", "", "Rotate")
	if m.vsF == nil || m.headF == nil || m.nF == nil || m.rotate == nil {
		c.undecided("ANCHOR", "queue.Queue fields / slice.Rotate", 0, "anchor not found")
		return
	}
	methods := P.Methods("queue", "Queue")
	isGrowth := func(in ssa.Instruction) (*ssa.Call, bool) {
		// store to q.vs of a value derived from append(load q.vs, ...)
		st, ok := in.(*ssa.Store)
		if !ok {
			return nil, false
		}
		fa, ok := st.Addr.(*ssa.FieldAddr)
		if !ok {
			return nil, false
		}
		if _, f := fieldVarOf(fa); !sameField(f, m.vsF) {
			return nil, false
		}
		v := st.Val
		if sl, ok := v.(*ssa.Slice); ok {
			v = sl.X
		}
		if ap, ok := isBuiltinCall(v, "append"); ok && m.isLoad(ap.Call.Args[0], m.vsF) {
			return ap, true
		}
		return nil, false
	}
	for _, fn := range methods {
		name := fnName(fn)
		allInstrs(fn, func(in ssa.Instruction) {
			switch x := in.(type) {
			case *ssa.Slice:
				// reading a range of the ring buffer (other than the growth reslice w[:cap(w)]) is an idiom this rule cannot judge
				if m.isLoad(x.X, m.vsF) {
					c.sawFn(name)
					c.undecided("R-RING-NORM", fmt.Sprintf("%s:slice %s", name, ksym(x)), x.Pos(), "a range of the ring buffer is sliced: whether the range is the live, wrap-aware region cannot be decided by the normalisation rule")
				}
			case *ssa.IndexAddr:
				if !m.isLoad(x.X, m.vsF) {
					return
				}
				c.sawFn(name)
				key := fmt.Sprintf("%s:index q.vs[%s]", name, ksym(x.Index))
				// the indexed buffer must be the current one w.r.t. the index computation: judged inside norm via current()
				ok, why := m.norm(x.Index, x, 0)
				c.judge(ok, "R-RING-NORM", key, x.Pos(), "normalised offset", "index into the ring buffer is not wrap-normalised: "+why)
			case *ssa.Store:
				fa, ok := x.Addr.(*ssa.FieldAddr)
				if !ok {
					return
				}
				_, f := fieldVarOf(fa)
				switch {
				case sameField(f, m.vsF):
					if _, ok := isGrowth(x); ok {
						return
					}
					if _, isAlloc := fa.X.(*ssa.Alloc); isAlloc {
						return // constructor literal
					}
					// (d) the buffer is replaced: offsets relative to the old buffer are meaningless
					c.sawFn(name)
					h0, n0 := false, false
					for _, in2 := range x.Block().Instrs {
						if st2, ok := in2.(*ssa.Store); ok && isConstInt(st2.Val, 0) {
							if fa2, ok := st2.Addr.(*ssa.FieldAddr); ok {
								_, f2 := fieldVarOf(fa2)
								if sameField(f2, m.headF) {
									h0 = true
								}
								if sameField(f2, m.nF) {
									n0 = true
								}
							}
						}
					}
					c.judge(h0 && n0, "R-RING-NORM", name+":vs replaced", x.Pos(), "buffer replaced together with head = 0 and n = 0", "the buffer is replaced without resetting head and n in the same block: they keep offsets relative to the old buffer")
				case sameField(f, m.headF):
					c.sawFn(name)
					key := fmt.Sprintf("%s:head=%s", name, ksym(x.Val))
					ok, why := m.norm(x.Val, x, 0)
					c.judge(ok, "R-RING-NORM", key, x.Pos(), "normalised offset", "head is set to a value that is not wrap-normalised: "+why)
				case sameField(f, m.nF):
					c.sawFn(name)
					key := fmt.Sprintf("%s:n=%s", name, ksym(x.Val))
					if isConstInt(x.Val, 0) {
						c.ok("R-RING-NORM", key, x.Pos(), "n = 0")
						return
					}
					bo, ok := x.Val.(*ssa.BinOp)
					if !ok || !m.isLoad(bo.X, m.nF) || !isConstInt(bo.Y, 1) {
						c.undecided("R-RING-NORM", key, x.Pos(), "unrecognised update of n")
						return
					}
					ld := bo.X.(ssa.Instruction)
					switch bo.Op {
					case token.ADD:
						// under fact n < len(q.vs) (current), or growth append dominates in the same function path
						okF := false
						for _, cm := range cmpsAt(x.Block()) {
							if m.isLoad(cm.X, m.nF) && m.isLenVs(cm.Y) && cm.Op == token.LSS {
								if l0, ok := cm.X.(ssa.Instruction); ok && m.eff.noFieldKillBetween(l0, x, m.nF) && m.current(cm.Y, x) {
									okF = true
								}
							}
						}
						grown := false
						allInstrs(fn, func(in2 ssa.Instruction) {
							if _, ok := isGrowth(in2); ok && dominatesInstr(in2, x) {
								grown = true
							}
						})
						c.judge(okF || grown, "R-RING-NORM", key, x.Pos(), "n+1 with room (n < len) or after growth", "n is incremented without n < len(q.vs) and without growing the buffer: n can exceed the buffer length")
					case token.SUB:
						okF := false
						for _, cm := range cmpsAt(x.Block()) {
							if m.isLoad(cm.X, m.nF) && ((cm.Op == token.NEQ && isConstInt(cm.Y, 0)) || (cm.Op == token.GTR && isConstInt(cm.Y, 0))) {
								if l0, ok := cm.X.(ssa.Instruction); ok && m.eff.noFieldKillBetween(l0, ld, m.nF) {
									okF = true
								}
							}
						}
						c.judge(okF, "R-RING-NORM", key, x.Pos(), "n−1 under n ≠ 0", "n is decremented without n != 0: n can become negative")
					default:
						c.undecided("R-RING-NORM", key, x.Pos(), "unrecognised update of n")
					}
				}
			}
		})
		// growth sites
		allInstrs(fn, func(in ssa.Instruction) {
			ap, ok := isGrowth(in)
			if !ok {
				return
			}
			c.sawFn(name)
			key := name + ":growth"
			isRotateReset := func(in2 ssa.Instruction) bool {
				st, ok := in2.(*ssa.Store)
				if !ok || !isConstInt(st.Val, 0) {
					return false
				}
				fa, ok := st.Addr.(*ssa.FieldAddr)
				if !ok {
					return false
				}
				if _, f := fieldVarOf(fa); !sameField(f, m.headF) {
					return false
				}
				// preceded in the same block by Rotate(load q.vs, -load q.head) with no store to vs/head between
				for _, in3 := range st.Block().Instrs {
					if in3 == ssa.Instruction(st) {
						break
					}
					call, ok := in3.(*ssa.Call)
					if !ok || staticCallee(&call.Call) != m.rotate || len(call.Call.Args) != 2 {
						continue
					}
					if !m.isLoad(call.Call.Args[0], m.vsF) {
						continue
					}
					a1 := call.Call.Args[1]
					neg := false
					if u, ok := a1.(*ssa.UnOp); ok && u.Op == token.SUB && m.isLoad(u.X, m.headF) {
						neg = true
					}
					if bo, ok := a1.(*ssa.BinOp); ok && bo.Op == token.SUB && m.isLenVs(bo.X) && m.isLoad(bo.Y, m.headF) {
						neg = true
					}
					if bo, ok := a1.(*ssa.BinOp); ok && bo.Op == token.SUB && isConstInt(bo.X, 0) && m.isLoad(bo.Y, m.headF) {
						neg = true
					}
					if neg && m.eff.noFieldKillBetween(call, st, m.vsF) {
						return true
					}
				}
				return false
			}
			headZeroEdge := func(iff *ssa.If, i int) bool {
				cm, ok := edgeCmp(iff, i)
				if !ok || !m.isLoad(cm.X, m.headF) || !isConstInt(cm.Y, 0) {
					return false
				}
				return cm.Op == token.LEQ || cm.Op == token.EQL
			}
			w := walkFromE(firstInstr(fn), true, isRotateReset, headZeroEdge)
			reached, wit := false, ""
			for _, in2 := range w.order {
				if in2 == ssa.Instruction(ap) {
					reached, wit = true, w.witness(P, in2)
				}
			}
			c.judge(!reached, "R-GROW-ROTATE", key, ap.Pos(), "head == 0 on every path to the append", "the buffer can be extended while head ≠ 0 ("+wit+"): elements before head end up after the new slots, or the rotation/reset is missing or has the wrong direction")
		})
	}

	// ---- R-DIV-NONZERO in package queue
	ruleDivNonzero(c, P.PkgFuncs("queue"), func(v ssa.Value, b *ssa.BasicBlock) bool {
		if !m.isLenVs(v) {
			return false
		}
		in, ok := v.(ssa.Instruction)
		if !ok {
			return false
		}
		return m.nPositive(in)
	})

	ruleYield(c, []*ssa.Function{P.Func("queue", "Queue", "Each")})
}
