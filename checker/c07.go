package main

// C07 — queue.Queue ring buffer: R-RING-NORM, R-GROW-ROTATE, R-DIV-NONZERO, R-YIELD.

import (
	"fmt"
	"go/token"
	"go/types"
	"strings"

	"golang.org/x/tools/go/ssa"
)

func init() {
	register(&propDef{ID: "C07", Level: "other", Run: runC07})
}

type ringModel struct {
	P              *Prog
	vsF, headF, nF *types.Var
	eff            *effTable
	rotate         *ssa.Function
}

func (m *ringModel) isLoad(v ssa.Value, f *types.Var) bool {
	_, g := loadedField(v)
	return g != nil && sameField(f, g)
}

// isLenVs: len(load q.vs); returns the len call.
func (m *ringModel) isLenVs(v ssa.Value) bool {
	ln, ok := isBuiltinCall(v, "len")
	return ok && m.isLoad(ln.Call.Args[0], m.vsF)
}

func runC07(c *Ctx) {
	P := c.P
	c.Explanation = "Decides: (R-RING-NORM) by abstract interpretation of package queue over intervals whose bounds are linear in L = len of the current ring buffer (every root method analysed twice: L = 0 and L ≥ 1; loop-free methods path by path, methods with loops by a joined fixpoint; the fields head and n are tracked through stores, branches are pruned and refined, buffer growth re-expresses all bounds with L' ≥ L+1, helper, predicate and getter methods of the same queue are followed): every index into the buffer lies in [0, L−1], every slice of it within [0, L], and every return re-establishes 0 ≤ n ≤ L and 0 ≤ head ≤ max(L−1, 0) — the inductive step of the ring invariant, which the zero value and the constructors establish (checked: constructors store nothing but 0 to head and n). Bit masks are not accepted as a wrap. On every path that neither grows nor rotates the buffer, the residue class mod L of each touched slot and of the final head, and the final n, are compared with the ring-deque specification of the exported method (Add writes head+n; Push writes head−1 and moves head there; Pop reads head and advances it; PopLast reads head+n−1; Front reads head; Peek(i) reads head+i or head+n+i; Each/Slice walk from head in steps of one). (R-GROW-ROTATE) the buffer grows only with head = 0, established by the false edge of head > 0 or by slice.Rotate(vs, −head) followed by head = 0. (R-DIV-NONZERO) every % or / by len(q.vs) is reached only with L ≥ 1. (R-YIELD) Each is stoppable. At the append that grows the buffer n must be exactly the buffer length and head exactly 0, so that the appended cell is logical position n; the slot classes then continue in the grown buffer. (R-SLICE-LEN) the slice Queue.Slice returns has, as a linear form over head, n and the buffer length, exactly n elements. Does NOT decide how many elements Each visits, which elements a bulk copy takes beyond their number, Rotate's own correctness, nor that the contents equal the reference deque over arbitrary histories."
	c.rule("R-RING-NORM", 20, "every index into q.vs within [0, L-1] and at the slot the deque semantics prescribes (mod L, no-growth paths); every slice within [0, L]; at every return 0 <= n <= L, 0 <= head <= max(L-1, 0), and head/n changed as the method's specification says; constructors start from head = n = 0")
	ruleEmptyAgreesLen(c, "queue", "Queue")
	ruleSizeGuard(c, "queue")
	c.rule("R-GROW-ROTATE", 1, "every path to the growth append has head == 0 (branch fact, or Rotate(vs, -head) then head = 0)")
	c.rule("R-DIV-NONZERO", 0, "every % in package queue has divisor len(q.vs) reached only with a non-empty buffer")
	c.rule("R-YIELD", 1, "Queue.Each stops calling f once it returned false")
	c.assume("callbacks passed to Each do not modify the queue while it is being iterated")

	m := &ringModel{P: P, eff: newEff(P)}
	m.vsF, m.headF, m.nF = resolveQueueFields(P)
	m.rotate = P.Func("slice", "", "Rotate")
	if m.vsF == nil || m.headF == nil || m.nF == nil || m.rotate == nil {
		c.undecided("ANCHOR", "queue.Queue fields / slice.Rotate", 0, "anchor not found")
		return
	}
	methods := P.Methods("queue", "Queue")
	ruleSliceLen(c, m)
	// Each and Slice visit as many elements as the queue holds: the loop that reads the buffer runs up to the count
	// field (range q.n / i < q.n), not up to another field
	c.rule("R-WALK-COUNT", 0, "the loop of Queue.Each / Queue.Slice that reads the buffer is bounded by the element count")
	for _, name := range []string{"Each", "Slice"} {
		fn := P.Func("queue", "Queue", name)
		if fn == nil {
			continue
		}
		k := 0
		for _, h := range fn.Blocks {
			isH := false
			for _, p := range h.Preds {
				if h.Dominates(p) {
					isH = true
				}
			}
			if !isH {
				continue
			}
			// does the loop read the buffer?  and where is its exit test (the header, or the latch of a rotated loop)
			reads := false
			var iff *ssa.If
			lb := loopBlocks(h)
			for b := range lb {
				for _, in := range b.Instrs {
					if ia, ok := in.(*ssa.IndexAddr); ok && m.isLoad(ia.X, m.vsF) {
						reads = true
					}
				}
				if i2, ok := b.Instrs[len(b.Instrs)-1].(*ssa.If); ok && (!lb[b.Succs[0]] || !lb[b.Succs[1]]) {
					if bo2, ok := i2.Cond.(*ssa.BinOp); ok {
						if _, f := loadedField(bo2.X); f != nil {
							iff = i2
						}
						if _, f := loadedField(bo2.Y); f != nil {
							iff = i2
						}
					}
				}
			}
			if !reads || iff == nil {
				continue
			}
			bo := iff.Cond.(*ssa.BinOp)
			var bound ssa.Value
			for _, v := range []ssa.Value{bo.X, bo.Y} {
				if _, f := loadedField(v); f != nil {
					bound = v
				}
			}
			if bound == nil {
				continue
			}
			k++
			c.sawFn(fnName(fn))
			_, f := loadedField(bound)
			c.judge(sameField(f, m.nF), "R-WALK-COUNT", fmt.Sprintf("%s:walk #%d", fnName(fn), k), bo.Pos(), "bounded by the element count", fmt.Sprintf("%s visits the buffer in a loop bounded by .%s, not by the element count .%s: it visits too few elements, or runs past the ones the queue holds", name, f.Name(), m.nF.Name()))
		}
	}
	// Push puts its argument in front of the head: whatever the path (room left, or grown — where the append that
	// triggers the reallocation leaves the value at the BACK), an explicit store of the argument into a buffer cell
	// is passed before the return
	c.rule("R-PUSH-STORES", 0, "every path of Queue.Push to a return stores the pushed value into a cell of the buffer (the growing append alone leaves it at the back)")
	if push := P.Func("queue", "Queue", "Push"); push != nil && len(push.Params) == 2 {
		v := ssa.Value(push.Params[1])
		isStore := func(in ssa.Instruction) bool {
			st, ok := in.(*ssa.Store)
			if !ok || st.Val != v {
				return false
			}
			ia, ok := st.Addr.(*ssa.IndexAddr)
			return ok && m.isLoad(ia.X, m.vsF)
		}
		reach, wit := reachesWithout(P, firstInstr(push), true, func(in ssa.Instruction) bool { _, r := in.(*ssa.Return); return r }, isStore)
		c.sawFn(fnName(push))
		c.judge(!reach, "R-PUSH-STORES", fnName(push)+":value stored", push.Pos(), "an element store of the argument on every path", "Push can return ("+wit+") without having stored its argument into a cell of the buffer: the new front element is whatever the cell held before")
	}
	isGrowth := func(in ssa.Instruction) (*ssa.Call, bool) {
		// store to q.vs of a value derived from append(load q.vs, ...)
		st, ok := in.(*ssa.Store)
		if !ok {
			return nil, false
		}
		fa, ok := st.Addr.(*ssa.FieldAddr)
		if !ok {
			return nil, false
		}
		if _, f := fieldVarOf(fa); !sameField(f, m.vsF) {
			return nil, false
		}
		v := st.Val
		if sl, ok := v.(*ssa.Slice); ok {
			v = sl.X
		}
		if ap, ok := isBuiltinCall(v, "append"); ok && m.isLoad(ap.Call.Args[0], m.vsF) {
			return ap, true
		}
		return nil, false
	}
	// ---- R-RING-NORM: abstract interpretation
	ra := newRingAbs(m)
	ra.runRoots(methods)
	for _, r := range ra.roots {
		c.sawFn(r)
	}
	var keys []string
	for k := range ra.sites {
		keys = append(keys, k)
	}
	sortStrings(keys)
	for _, k := range keys {
		if strings.Contains(k, ":% len") || strings.Contains(k, ":/ len") {
			continue // reported under R-DIV-NONZERO
		}
		if why, bad := ra.probs[k]; bad {
			c.bad("R-RING-NORM", k, ra.sites[k], why)
		} else {
			c.ok("R-RING-NORM", k, ra.sites[k], "within the ring invariant in both buffer regimes")
		}
	}
	// constructors: a fresh Queue may only be given head = 0, n = 0
	for _, fn := range P.PkgFuncs("queue") {
		name := fnName(fn)
		allInstrs(fn, func(in ssa.Instruction) {
			st, ok := in.(*ssa.Store)
			if !ok {
				return
			}
			fa, ok := st.Addr.(*ssa.FieldAddr)
			if !ok {
				return
			}
			if _, isAlloc := fa.X.(*ssa.Alloc); !isAlloc {
				return
			}
			_, f := fieldVarOf(fa)
			if sameField(f, m.headF) || sameField(f, m.nF) {
				c.sawFn(name)
				c.judge(isConstInt(st.Val, 0), "R-RING-NORM", fmt.Sprintf("%s:fresh queue %s=%s", name, f.Name(), ksym(st.Val)), st.Pos(), "0", "a freshly constructed queue is given a non-zero head or n: the ring invariant does not hold initially")
			}
		})
	}
	for _, fn := range methods {
		name := fnName(fn)
		// growth sites
		allInstrs(fn, func(in ssa.Instruction) {
			ap, ok := isGrowth(in)
			if !ok {
				return
			}
			c.sawFn(name)
			key := name + ":growth"
			isRotateReset := func(in2 ssa.Instruction) bool {
				st, ok := in2.(*ssa.Store)
				if !ok || !isConstInt(st.Val, 0) {
					return false
				}
				fa, ok := st.Addr.(*ssa.FieldAddr)
				if !ok {
					return false
				}
				if _, f := fieldVarOf(fa); !sameField(f, m.headF) {
					return false
				}
				// preceded in the same block by Rotate(load q.vs, -load q.head) with no store to vs/head between
				for _, in3 := range st.Block().Instrs {
					if in3 == ssa.Instruction(st) {
						break
					}
					call, ok := in3.(*ssa.Call)
					if !ok || staticCallee(&call.Call) != m.rotate || len(call.Call.Args) != 2 {
						continue
					}
					if !m.isLoad(call.Call.Args[0], m.vsF) {
						continue
					}
					a1 := call.Call.Args[1]
					neg := false
					if u, ok := a1.(*ssa.UnOp); ok && u.Op == token.SUB && m.isLoad(u.X, m.headF) {
						neg = true
					}
					if bo, ok := a1.(*ssa.BinOp); ok && bo.Op == token.SUB && m.isLenVs(bo.X) && m.isLoad(bo.Y, m.headF) {
						neg = true
					}
					if bo, ok := a1.(*ssa.BinOp); ok && bo.Op == token.SUB && isConstInt(bo.X, 0) && m.isLoad(bo.Y, m.headF) {
						neg = true
					}
					if neg && m.eff.noFieldKillBetween(call, st, m.vsF) {
						return true
					}
				}
				// or by another in-place permutation of the buffer (its correctness is no more decided than Rotate's):
				// something in this block, before the reset, writes elements of q.vs
				fromVs := func(v ssa.Value) bool {
					for i := 0; i < 4; i++ {
						if m.isLoad(v, m.vsF) {
							return true
						}
						sl, ok := v.(*ssa.Slice)
						if !ok {
							return false
						}
						v = sl.X
					}
					return false
				}
				for _, ev := range writeEvents(st.Block().Parent()) {
					if ev.in.Block() != st.Block() || !fromVs(ev.base) {
						continue
					}
					if call, ok := ev.in.(*ssa.Call); ok && staticCallee(&call.Call) == m.rotate {
						continue // a Rotate call is judged above, with its direction
					}
					before := false
					for _, in3 := range st.Block().Instrs {
						if in3 == ev.in {
							before = true
						}
						if in3 == ssa.Instruction(st) {
							break
						}
					}
					if before {
						return true
					}
				}
				return false
			}
			headZeroEdge := func(iff *ssa.If, i int) bool {
				cm, ok := edgeCmp(iff, i)
				if !ok || !m.isLoad(cm.X, m.headF) || !isConstInt(cm.Y, 0) {
					return false
				}
				return cm.Op == token.LEQ || cm.Op == token.EQL
			}
			// a helper method on the same queue that rotates and resets on every path counts as the event
			rotatingHelper := func(in2 ssa.Instruction) bool {
				call, ok := in2.(*ssa.Call)
				if !ok || len(call.Call.Args) == 0 || len(fn.Params) == 0 || call.Call.Args[0] != ssa.Value(fn.Params[0]) {
					return false
				}
				h := staticCallee(&call.Call)
				if h == nil || h.Blocks == nil || h == fn {
					return false
				}
				// (a way out of the helper on which head is known to be 0 already needs no rotation)
				okH, _ := mustPassToExitE(P, firstInstr(h), isRotateReset, headZeroEdge)
				return okH || isRotateReset(firstInstr(h))
			}
			isResetEvent := func(in2 ssa.Instruction) bool { return isRotateReset(in2) || rotatingHelper(in2) }
			w := walkFromE(firstInstr(fn), true, isResetEvent, headZeroEdge)
			reached, wit := false, ""
			for _, in2 := range w.order {
				if in2 == ssa.Instruction(ap) {
					reached, wit = true, w.witness(P, in2)
				}
			}
			c.judge(!reached, "R-GROW-ROTATE", key, ap.Pos(), "head == 0 on every path to the append", "the buffer can be extended while head ≠ 0 ("+wit+"): elements before head end up after the new slots, or the rotation/reset is missing or has the wrong direction")
		})
	}

	// ---- R-DIV-NONZERO in package queue
	ruleDivNonzero(c, P.PkgFuncs("queue"), func(v ssa.Value, b *ssa.BasicBlock) bool {
		return ra.remOK[v] && !ra.remBad[v]
	})

	ruleYield(c, []*ssa.Function{P.Func("queue", "Queue", "Each")})
}

// ruleSliceLen (R-SLICE-LEN): Queue.Slice returns as many elements as the queue holds.  The length of each
// returned value is computed as a linear form over the fields as the method found them (head, n) and L = len of
// the buffer — make([]T, x), append(a, b...), x[lo:hi], len(x) — and must be exactly n.  A length the forms cannot
// express gives no obligation (the per-index rules of R-RING-NORM still apply); a length that is a different form
// is a violation: the bulk copy takes the wrong run of the buffer.
func ruleSliceLen(c *Ctx, m *ringModel) {
	c.rule("R-SLICE-LEN", 0, "the slice Queue.Slice returns has, as a linear form over head, n and len(buffer), exactly n elements")
	fn := c.P.Func("queue", "Queue", "Slice")
	if fn == nil || len(fn.Params) == 0 {
		return
	}
	// the method must not write head or n (the forms speak about the entry values)
	writes := false
	allInstrs(fn, func(in ssa.Instruction) {
		if st, ok := in.(*ssa.Store); ok {
			if fa, ok := st.Addr.(*ssa.FieldAddr); ok {
				if _, f := fieldVarOf(fa); sameField(f, m.headF) || sameField(f, m.nF) || sameField(f, m.vsF) {
					writes = true
				}
			}
		}
	})
	if writes {
		return
	}
	var num func(v ssa.Value, d int) lform
	var length func(v ssa.Value, d int) lform
	num = func(v ssa.Value, d int) lform {
		if d > 12 {
			return lunknown()
		}
		if k, ok := constInt(v); ok {
			return lconst(k)
		}
		switch {
		case m.isLoad(v, m.headF):
			return latom("head")
		case m.isLoad(v, m.nF):
			return latom("n")
		}
		switch x := v.(type) {
		case *ssa.BinOp:
			switch x.Op {
			case token.ADD:
				return num(x.X, d+1).add(num(x.Y, d+1), 1)
			case token.SUB:
				return num(x.X, d+1).add(num(x.Y, d+1), -1)
			}
		case *ssa.Call:
			if ln, ok := isBuiltinCall(x, "len"); ok {
				return length(ln.Call.Args[0], d+1)
			}
		case *ssa.Convert:
			return num(x.X, d+1)
		}
		return lunknown()
	}
	length = func(v ssa.Value, d int) lform {
		if d > 12 {
			return lunknown()
		}
		if m.isLoad(v, m.vsF) {
			return latom("L")
		}
		switch x := v.(type) {
		case *ssa.MakeSlice:
			return num(x.Len, d+1)
		case *ssa.Slice:
			hi := lunknown()
			if x.High != nil {
				hi = num(x.High, d+1)
			} else {
				hi = length(x.X, d+1)
			}
			lo := lconst(0)
			if x.Low != nil {
				lo = num(x.Low, d+1)
			}
			return hi.add(lo, -1)
		case *ssa.Call:
			if ap, ok := isBuiltinCall(x, "append"); ok && len(ap.Call.Args) == 2 {
				return length(ap.Call.Args[0], d+1).add(length(ap.Call.Args[1], d+1), 1)
			}
		case *ssa.ChangeType:
			return length(x.X, d+1)
		}
		return lunknown()
	}
	want := latom("n")
	k := 0
	allInstrs(fn, func(in ssa.Instruction) {
		ret, ok := in.(*ssa.Return)
		if !ok || len(ret.Results) != 1 {
			return
		}
		f := length(ret.Results[0], 0)
		if f.unk {
			return
		}
		k++
		c.sawFn(fnName(fn))
		c.judge(f.eq(want), "R-SLICE-LEN", fmt.Sprintf("%s:result #%d", fnName(fn), k), ret.Pos(), "len = n", fmt.Sprintf("this return hands back %s elements, the queue holds n: the bulk copy takes the wrong run of the ring buffer (elements before the head are included, or the wrapped remainder is missing)", f))
	})
}
